#!/usr/bin/env python3
"""Confirm a seeded defect produced by a sub-agent and run our checks against it.
usage: tools/seed.py <seed-dir under /tmp/seeds> <property id> [more property ids to run]
1. scratch worktree: demo passes without the patch; with the patch the full suite passes and the demo fails
2. /repo: apply patch, run ./check <prop> for each listed property, undo
3. record everything under /verif/seeded/<seed name>/"""
import json, os, shutil, subprocess, sys, time

seed = sys.argv[1].rstrip("/")
props = sys.argv[2:]
name = os.path.basename(seed)
WT = "/tmp/confirm_wt"
ENV = dict(os.environ, CARGO_NET_OFFLINE="true", CARGO_TARGET_DIR="/tmp/confirm_target")


def sh(cmd, cwd=None, timeout=1800):
    p = subprocess.run(cmd, shell=True, cwd=cwd, env=ENV, stdout=subprocess.PIPE, stderr=subprocess.STDOUT, text=True, timeout=timeout)
    return p.returncode, p.stdout


meta = {"seed": name, "property": props[0] if props else None, "ran": []}
subprocess.run("git -C /repo worktree remove --force %s" % WT, shell=True, stdout=subprocess.DEVNULL, stderr=subprocess.DEVNULL)
rc, out = sh("git -C /repo worktree add --detach %s HEAD" % WT)
assert rc == 0, out
try:
    demo = os.path.join(seed, "demo.rs")
    notes = open(os.path.join(seed, "notes.md")).read() if os.path.exists(os.path.join(seed, "notes.md")) else ""
    # the demo lives under core/tests only when it uses darling_core directly
    in_core = os.path.exists(demo) and "darling_core" in open(demo).read()
    DEMO_DIR = os.path.join(WT, "core", "tests") if in_core else os.path.join(WT, "tests")
    DEMO_CMD = "cargo test -p darling_core --offline --test seed_demo 2>&1 | tail -15" if in_core else "cargo test --offline --test seed_demo 2>&1 | tail -15"
    if os.path.exists(demo):
        os.makedirs(DEMO_DIR, exist_ok=True)
        shutil.copy(demo, os.path.join(DEMO_DIR, "seed_demo.rs"))
        rc0, out0 = sh(DEMO_CMD, cwd=WT)
        ok_clean = "test result: ok" in out0 and "FAILED" not in out0
        meta["ran"].append({"cmd": "demo on clean tree", "passes": ok_clean, "tail": out0[-600:]})
    else:
        ok_clean = None
        meta["ran"].append({"cmd": "no demo.rs; see notes.md"})
    rc, out = sh("git apply %s" % os.path.join(seed, "patch.diff"), cwd=WT)
    meta["ran"].append({"cmd": "git apply patch.diff", "rc": rc, "out": out[-300:]})
    assert rc == 0, out
    rc1, out1 = sh("cargo test --workspace --offline 2>&1 | grep -E '^test result|FAILED|error(\\[|:)' | grep -v seed_demo", cwd=WT)
    results = [l for l in out1.split("\n") if l.startswith("test result")]
    suite_ok = bool(results) and "error" not in out1
    # the seed_demo test binary is part of --workspace; exclude its line by checking failures of other binaries
    dpath = os.path.join(DEMO_DIR, "seed_demo.rs")
    rcs, outs = sh("mv %s /tmp/seed_demo.rs.bak 2>/dev/null; cargo test --workspace --offline 2>&1 | grep -E '^test result|^error'; mv /tmp/seed_demo.rs.bak %s 2>/dev/null" % (dpath, dpath), cwd=WT)
    passed = sum(int(l.split()[3]) for l in outs.split("\n") if l.startswith("test result"))
    failed = sum(int(l.split()[5]) for l in outs.split("\n") if l.startswith("test result"))
    meta["ran"].append({"cmd": "cargo test --workspace --offline (with patch, without demo)", "passed": passed, "failed": failed,
                        "compile_error": any(l.startswith("error") for l in outs.split("\n"))})
    if os.path.exists(demo):
        rc2, out2 = sh(DEMO_CMD, cwd=WT)
        demo_fails = "FAILED" in out2 or "panicked" in out2 or "error" in out2
        meta["ran"].append({"cmd": "demo with patch", "fails": demo_fails, "tail": out2[-600:]})
    else:
        demo_fails = None
    meta["confirmed"] = bool(passed >= 178 and failed == 0 and not any(l.startswith("error") for l in outs.split("\n")) and demo_fails and ok_clean)
finally:
    sh("git -C /repo worktree remove --force %s" % WT)

# run our checks against it
detected = {}
st = subprocess.run("git -C /repo status --short", shell=True, stdout=subprocess.PIPE, text=True).stdout.strip()
assert st == "", "repo not clean: " + st
rc, out = sh("git -C /repo apply %s" % os.path.join(seed, "patch.diff"))
assert rc == 0, out
try:
    for p in props:
        t0 = time.time()
        rc, out = sh("./check %s --tier quick 2>&1 | tail -12" % p, cwd="/verif")
        viol = [l for l in out.split("\n") if l.startswith("VIOLATION")]
        detected[p] = {"exit": rc, "violation_lines": viol[:3], "tail": out[-900:], "wall_s": round(time.time() - t0, 1)}
finally:
    sh("git -C /repo checkout -- .")
    sh("git -C /repo clean -fd")
    # evidence must describe runs on the unchanged tree only
    sh("git -C /verif checkout -- evidence", cwd="/verif")
meta["checks"] = detected
meta["detected_by"] = [p for p, d in detected.items() if d["violation_lines"]]
dst = os.path.join("/verif/seeded", name)
os.makedirs(dst, exist_ok=True)
for f in ("patch.diff", "demo.rs", "notes.md"):
    if os.path.exists(os.path.join(seed, f)):
        shutil.copy(os.path.join(seed, f), dst)
json.dump(meta, open(os.path.join(dst, "meta.json"), "w"), indent=1)
print(name, "confirmed=%s" % meta.get("confirmed"), "detected_by=%s" % meta["detected_by"])
for p, d in detected.items():
    print(" ", p, d["violation_lines"][:1] or "NOT DETECTED")
