#!/usr/bin/env python3
"""Pairwise option coverage of the FromMeta receiver corpus (gen/corpus.json): container option x field option / type,
and field option x field option among siblings.  Printed by hand after regenerating the corpus; the missing pairs are
the interactions no run-time check can see."""
import itertools
import json
import os
ROOT = os.path.dirname(os.path.dirname(os.path.abspath(__file__)))
c = json.load(open(os.path.join(ROOT, "gen/corpus.json")))


def fopts(f):
    o = set()
    if f["rename"]: o.add("rename")
    if f["default"]: o.add("default:" + f["default"][0])
    if f["with"]: o.add("with")
    if f["post"]: o.add("post:" + ("and_then" if f["post"][0] else "map"))
    for k in ("skip", "multiple", "flatten"):
        if f[k]: o.add(k)
    t = f["ty"]
    o.add("ty:" + (t.get("name") if t["t"] == "leaf" else t["t"]))
    return o


def copts(x):
    ci = x["cinfo"]; o = set()
    if ci["rename_all"]: o.add("rename_all")
    if ci["default"]: o.add("cdefault:" + ci["default"][0])
    if ci["post"]: o.add("cpost:" + ("and_then" if ci["post"][0] else "map"))
    for k in ("auk", "from_word", "from_none"):
        if ci[k]: o.add(k)
    return o or {"plain"}


pairs, sib, same = set(), set(), {"struct": set(), "variant": set()}
for x in c["receivers"]:
    levels = [x["fields"]] if x["kind"] == "struct" else [v["fields"] for v in x.get("variants", []) if v["style"] == "struct"]
    for fields in levels:
        for f in fields:
            for a in copts(x):
                for b in fopts(f):
                    pairs.add((x["kind"], a, b))
        for f in fields:
            fo = sorted(o for o in fopts(f) if not o.startswith("ty:"))
            for a, b in itertools.combinations(fo, 2):
                same["struct" if x["kind"] == "struct" else "variant"].add((a, b))
        for f, g in itertools.combinations(fields, 2):
            for a in fopts(f):
                for b in fopts(g):
                    sib.add(tuple(sorted((a, b))))
C = ["rename_all", "cdefault:trait", "cdefault:explicit", "cpost:map", "cpost:and_then", "auk", "from_word", "from_none", "plain"]
F = ["rename", "default:trait", "default:explicit", "with", "post:map", "post:and_then", "skip", "multiple", "flatten", "ty:recv", "ty:opt", "ty:box",
     "ty:bool", "ty:u8", "ty:i64", "ty:String", "ty:char", "ty:Flag", "ty:HashMap<String,u8>"]
miss = [(a, b) for a in C for b in F if ("struct", a, b) not in pairs]
print("struct: container x field pairs missing:", len(miss), "of", len(C) * len(F), miss)
S = F[:9]
ms = [(a, b) for a, b in itertools.combinations_with_replacement(S, 2) if tuple(sorted((a, b))) not in sib]
print("sibling field-option pairs missing:", ms)
INVALID = {("flatten", "rename"), ("flatten", "with"), ("flatten", "skip"), ("flatten", "multiple"), ("post:and_then", "post:map"),
           ("default:explicit", "default:trait")}
for where in ("struct", "variant"):
    mp = [(a, b) for a, b in itertools.combinations(sorted(S), 2) if (a, b) not in same[where] and (a, b) not in INVALID and (b, a) not in INVALID]
    print("two options on one field, at a %s level, missing:" % where, mp)
