#!/usr/bin/env python3
"""Re-run, for every confirmed seeded change under /verif/seeded, the check that is recorded as catching it:
apply the patch to /repo, run ./check <prop>, undo.  Prints one line per seed; exit 1 if some seed is no longer caught.
usage: tools/regress_seeds.py [seed ids...]"""
import json, os, subprocess, sys, time
ROOT = os.path.dirname(os.path.dirname(os.path.abspath(__file__)))
ENV = dict(os.environ, CARGO_NET_OFFLINE="true")


def sh(cmd, cwd=None):
    p = subprocess.run(cmd, shell=True, cwd=cwd, env=ENV, stdout=subprocess.PIPE, stderr=subprocess.STDOUT, text=True)
    return p.returncode, p.stdout


seeds = sys.argv[1:] or sorted(os.listdir(os.path.join(ROOT, "seeded")))
missed = []
for sd in seeds:
    d = os.path.join(ROOT, "seeded", sd)
    if not os.path.exists(os.path.join(d, "patch.diff")):
        continue
    meta = json.load(open(os.path.join(d, "meta.json")))
    if meta.get("neutralised_by"):
        print("%-8s skipped: no longer breaks the property after fix %s" % (sd, meta["neutralised_by"]), flush=True)
        continue
    caught = [p for p, r in meta.get("checks", {}).items() if r.get("exit") == 1] or [meta.get("property")]
    prop = caught[0]
    assert sh("git -C /repo status --short")[1].strip() == "", "repo not clean"
    rc, out = sh("git -C /repo apply %s" % os.path.join(d, "patch.diff"))
    if rc != 0:
        print("%-8s patch does not apply: %s" % (sd, out.strip()[:200]), flush=True)
        missed.append(sd)
        continue
    t0 = time.time()
    try:
        rc, out = sh("./check %s --tier quick 2>&1 | tail -6" % prop, cwd=ROOT)
    finally:
        sh("git -C /repo checkout -- .")
        sh("git -C /repo clean -fd")
        sh("git checkout -- evidence", cwd=ROOT)
    last = out.strip().split("\n")[-1]
    ok = " FAIL " in last or "VIOLATION" in out
    print("%-8s %-4s %s  (%.0fs)  %s" % (sd, prop, "caught" if ok else "MISSED", time.time() - t0, last[:120]), flush=True)
    if not ok:
        missed.append(sd)
print("missed:", missed)
sys.exit(1 if missed else 0)
