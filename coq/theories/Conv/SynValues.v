(** Conv/SynValues.v — syntax-typed [FromMeta] implementers (core/src/from_meta.rs:290-560,
    util/{path_list,callable,ident_string}.rs).  A converted syn value is represented by its token
    string.  Parsing the *contents of a string literal* by a syn grammar is an oracle. *)
From DarlingModel Require Export Conv.Scalars.
Local Open Scope string_scope.

(** Grammars parsed from strings. *)
Inductive grammar : Type :=
| GExpr | GPath | GIdent | GExprArray | GExprPath | GExprRange
| GSyn (name : string)          (* the from_syn_parse! family: "Type", "TypePath", "Visibility", "WhereClause", ... *)
| GPunct (name : string).       (* Punctuated<T, P> *)

Section SynValues.
  (** [reparse g s]: token string of [syn::parse_str::<G>(s)], [None] when syn rejects. *)
  Variable reparse : grammar -> string -> option string.
  (** [reparse_arr s]: the expression tree of [syn::parse_str::<ExprArray>(s)]. *)
  Variable reparse_arr : string -> option expr.
  (** [reparse_preds s]: the predicates of [parse_str::<WhereClause>("where " ++ s)], each as tokens. *)
  Variable reparse_preds : string -> option (list string).

  Definition unknown_lit_str_value (i : info) (s : string) : err :=
    with_span (i_span i) (unknown_value s).

  (** The recurring [from_value] shape: a string literal is parsed by [g]; other kinds rejected. *)
  Definition parse_lit_str (g : grammar) (i : info) (l : lit) : res value :=
    match l with
    | LStr s =>
        match reparse g s with
        | Some t => Ok (VToks t)
        | None => Err (unknown_lit_str_value i s)
        end
    | _ => Err (unexpected_lit_type i l)
    end.

  Definition parse_string (g : grammar) (s : string) : res value :=
    match reparse g s with
    | Some t => Ok (VToks t)
    | None => Err (unknown_value s)
    end.

  (** [from_syn_parse!($ty)] and [Punctuated] *)
  Definition syn_parse_fm (g : grammar) : fm :=
    mkFm None None None None None (Some (parse_lit_str g)) None None (Some (parse_string g)) None.
  Definition punctuated_fm (name : string) : fm :=
    mkFm None None None None None (Some (parse_lit_str (GPunct name))) None None None None.

  (** [syn::Expr] *)
  Fixpoint expr_from_expr (e : expr) : res value :=
    match e with
    | ELit i (LStr s) => parse_lit_str GExpr i (LStr s)
    | EGroup _ g => expr_from_expr g
    | _ => Ok (VToks (i_toks (einfo e)))
    end.
  Definition expr_fm : fm :=
    mkFm None None None None None (Some (parse_lit_str GExpr)) (Some expr_from_expr) None
         (Some (parse_string GExpr)) None.

  (** [syn::Path] *)
  Fixpoint path_from_expr (e : expr) : res value :=
    match e with
    | ELit i l => parse_lit_str GPath i l
    | EPath _ p => Ok (VToks (i_toks (p_info p)))
    | EGroup _ g => path_from_expr g
    | _ => Err (unexpected_expr_type e)
    end.
  Definition path_fm : fm :=
    mkFm None None None None None (Some (parse_lit_str GPath)) (Some path_from_expr) None
         (Some (parse_string GPath)) None.

  (** [syn::Ident] *)
  Fixpoint ident_from_expr (e : expr) : res value :=
    match e with
    | ELit i l => parse_lit_str GIdent i l
    | EPath _ p =>
        match get_ident p with
        | Some id => Ok (VToks id)
        | None => Err (unexpected_expr_type e)
        end
    | EGroup _ g => ident_from_expr g
    | _ => Err (unexpected_expr_type e)
    end.
  Definition ident_fm : fm :=
    mkFm None None None None None (Some (parse_lit_str GIdent)) (Some ident_from_expr) None
         (Some (parse_string GIdent)) None.

  (** [IdentString]: [Ident::from_meta(item).map(IdentString::from)] *)
  Definition ident_string_fm : fm :=
    mkFm None (Some (from_meta ident_fm)) None None None None None None None None.

  (** [from_syn_expr_type!($ty, $variant)]; [kind] is the variant's name. *)
  Fixpoint expr_type_from_expr (g : grammar) (kind : string) (e : expr) : res value :=
    if str_eqb (expr_type_name e) kind then Ok (VToks (i_toks (einfo e)))
    else match e with
         | ELit i l => parse_lit_str g i l
         | EGroup _ x => expr_type_from_expr g kind x
         | _ => Err (unexpected_expr_type e)
         end.
  Definition expr_type_fm (g : grammar) (kind : string) : fm :=
    mkFm None None None None None (Some (parse_lit_str g)) (Some (expr_type_from_expr g kind))
         None None None.

  (** [Callable]: path or closure, through invisible groups; no string form. *)
  Fixpoint callable_from_expr (e : expr) : res value :=
    if (str_eqb (expr_type_name e) "path" || str_eqb (expr_type_name e) "closure")%bool
    then Ok (VToks (i_toks (einfo e)))
    else match e with
         | EGroup _ g => callable_from_expr g
         | _ => Err (unexpected_expr_type e)
         end.
  Definition callable_fm : fm :=
    mkFm None None None None None None (Some callable_from_expr) None None None.

  (** [syn::Lit] and [from_meta_lit!]: [want] = the accepted [lit_type_name], [""] = any. *)
  Definition lit_from_value (want : string) (i : info) (l : lit) : res value :=
    if (str_eqb want "" || str_eqb (lit_type_name l) want)%bool then Ok (VToks (i_toks i))
    else Err (unexpected_lit_type i l).
  Definition lit_fm (want : string) : fm :=
    mkFm None None None None None (Some (lit_from_value want)) None None None None.

  (** [collect::<Result<Vec<_>>>()]: the first error wins. *)
  Fixpoint collect (rs : list (res value)) : res (list value) :=
    match rs with
    | [] => Ok []
    | r :: rest =>
        match r with
        | Ok v => match collect rest with Ok vs => Ok (v :: vs) | Err e => Err e | Panic m => Panic m end
        | Err e => Err e
        | Panic m => Panic m
        end
    end.

  (** [Vec<LitX>].  [from_value] parses the string as an [ExprArray] and goes through the
      array arm of [from_expr]. *)
  Definition veclit_of_array (want : string) (es : list expr) : res value :=
    map_ok VList (collect (map (from_expr (lit_fm want)) es)).
  Definition array_from_value (of_array : list expr -> res value) (i : info) (l : lit) : res value :=
    match l with
    | LStr s =>
        match reparse_arr s with
        | Some (EArray _ es) => of_array (map (respan_expr (i_span i)) es)
        | Some _ => Panic "model: reparse_arr did not return an array"
        | None => Err (unknown_lit_str_value i s)
        end
    | _ => Err (unexpected_lit_type i l)
    end.
  Fixpoint array_from_expr (of_array : list expr -> res value) (e : expr) : res value :=
    match e with
    | EArray _ es => of_array es
    | ELit i l => array_from_value of_array i l
    | EGroup _ g => array_from_expr of_array g
    | _ => Err (unexpected_expr_type e)
    end.
  Definition veclit_fm (want : string) : fm :=
    mkFm None None None None
         (Some (fun items => map_ok VList (collect (map (from_nested (lit_fm want)) items))))
         (Some (array_from_value (veclit_of_array want)))
         (Some (array_from_expr (veclit_of_array want))) None None None.

  (** numeric arrays [Vec<u8 | u16 | u32 | u64 | usize>] *)
  Definition numarr_elem (t : ity) (e : expr) : res value :=
    let unexpected :=
      Err (with_span (i_span (einfo e)) (custom "Expected array of unsigned integers")) in
    match e with
    | ELit i l => from_value (int_fm t) i l
    | EGroup _ (ELit i l) => from_value (int_fm t) i l
    | _ => unexpected
    end.
  Definition numarr_of_array (t : ity) (es : list expr) : res value :=
    map_ok VList (collect (map (numarr_elem t) es)).
  Definition numarr_fm (t : ity) : fm :=
    mkFm None None None None None (Some (array_from_value (numarr_of_array t)))
         (Some (array_from_expr (numarr_of_array t))) None None None.

  (** [syn::Meta] *)
  Definition meta_fm : fm :=
    mkFm None (Some (fun m => Ok (VToks (i_toks (ninfo m))))) None None None None None None None None.

  (** [Vec<syn::WherePredicate>] *)
  Definition preds_of (s : string) (mk : string -> err) : res value :=
    match reparse_preds s with
    | Some ps => Ok (VList (map VToks ps))
    | None => Err (mk ("where " ++ s))
    end.
  Definition where_preds_fm : fm :=
    mkFm None None None None None
         (Some (fun i l =>
                  match l with
                  | LStr s => preds_of s (unknown_lit_str_value i)
                  | _ => Err (unexpected_lit_type i l)
                  end))
         None None (Some (fun s => preds_of s unknown_value)) None.

  (** [PathList] *)
  Fixpoint pathlist_go (items : list nested) : res (list value) :=
    match items with
    | [] => Ok []
    | NPath _ p :: r =>
        match pathlist_go r with
        | Ok vs => Ok (VToks (i_toks (p_info p)) :: vs)
        | other => other
        end
    | n :: _ => Err (with_span (i_span (ninfo n)) (unexpected_type "non-word"))
    end.
  Definition pathlist_fm : fm :=
    mkFm None None None None (Some (fun items => map_ok VList (pathlist_go items)))
         None None None None None.
End SynValues.
