(** Conv/SynProofs.v — syntax-typed targets reproduce the user's tokens (C13). *)
From DarlingModel Require Import Conv.Routing Conv.Scalars Conv.SynValues Conv.RoutingProofs.
Local Open Scope string_scope.

Section Syn.
  Variable reparse : grammar -> string -> option string.
  Variable reparse_arr : string -> option expr.

  (** groups are transparent at any depth *)
  Lemma expr_from_expr_strip e : expr_from_expr reparse e = expr_from_expr reparse (strip_groups e).
  Proof. induction e as [i l | i g IH | | | | ]; try reflexivity. exact IH. Qed.
  Lemma path_from_expr_strip e : path_from_expr reparse e = path_from_expr reparse (strip_groups e).
  Proof. induction e as [i l | i g IH | | | | ]; try reflexivity. exact IH. Qed.
  Lemma ident_from_expr_strip e : ident_from_expr reparse e = ident_from_expr reparse (strip_groups e).
  Proof. induction e as [i l | i g IH | | | | ]; try reflexivity. exact IH. Qed.
  Lemma expr_type_from_expr_strip g k e :
    k <> "group" ->
    expr_type_from_expr reparse g k e = expr_type_from_expr reparse g k (strip_groups e).
  Proof.
    intros NG. induction e as [i l | i x IH | | | | ]; try reflexivity.
    cbn [strip_groups]. rewrite <- IH. cbn [expr_type_from_expr expr_type_name].
    unfold str_eqb. destruct (String.eqb_spec "group" k); [congruence|reflexivity].
  Qed.

  (** a bare (non-string) expression is returned as it is *)
  Lemma expr_bare_is_identity e :
    (forall i s, strip_groups e <> ELit i (LStr s)) ->
    expr_from_expr reparse e = Ok (VToks (i_toks (einfo (strip_groups e)))).
  Proof.
    intros H. rewrite expr_from_expr_strip. pose proof (strip_groups_not_group e) as G.
    destruct (strip_groups e) as [i l | i g | i p | i es | i k | i nl] eqn:E; try reflexivity.
    - destruct l; try reflexivity. exfalso. eapply H; eauto.
    - exfalso. eapply G; eauto.
  Qed.

  (** a string literal is parsed by the same grammar *)
  Lemma expr_quoted_is_reparse e i s :
    strip_groups e = ELit i (LStr s) ->
    expr_from_expr reparse e =
      match reparse GExpr s with
      | Some t => Ok (VToks t)
      | None => Err (Leaf (KUnknownValue s) [] (Some (i_span i)))
      end.
  Proof.
    intros H. rewrite expr_from_expr_strip, H. cbn. destruct (reparse GExpr s); reflexivity.
  Qed.

  Lemma path_bare_is_identity e i p :
    strip_groups e = EPath i p -> path_from_expr reparse e = Ok (VToks (i_toks (p_info p))).
  Proof. intros H. rewrite path_from_expr_strip, H. reflexivity. Qed.

  Lemma path_quoted_is_reparse e i s :
    strip_groups e = ELit i (LStr s) ->
    path_from_expr reparse e =
      match reparse GPath s with
      | Some t => Ok (VToks t)
      | None => Err (Leaf (KUnknownValue s) [] (Some (i_span i)))
      end.
  Proof.
    intros H. rewrite path_from_expr_strip, H. cbn. destruct (reparse GPath s); reflexivity.
  Qed.

  (** where both spellings are accepted they agree, given syn's print/parse round trip *)
  Lemma path_bare_quoted_agree e1 e2 i p j :
    strip_groups e1 = EPath i p ->
    strip_groups e2 = ELit j (LStr (i_toks (p_info p))) ->
    reparse GPath (i_toks (p_info p)) = Some (i_toks (p_info p)) ->
    path_from_expr reparse e1 = path_from_expr reparse e2.
  Proof.
    intros H1 H2 R. rewrite (path_bare_is_identity e1 i p H1), (path_quoted_is_reparse e2 j _ H2), R.
    reflexivity.
  Qed.

  Lemma path_rejects_other e :
    (forall i l, strip_groups e <> ELit i l) -> (forall i p, strip_groups e <> EPath i p) ->
    path_from_expr reparse e = Err (unexpected_expr_type (strip_groups e)).
  Proof.
    intros HL HP. rewrite path_from_expr_strip. pose proof (strip_groups_not_group e) as G.
    destruct (strip_groups e) as [i l | i g | i p | i es | i k | i nl] eqn:E; try reflexivity.
    - exfalso. eapply HL; eauto.
    - exfalso. eapply G; eauto.
    - exfalso. eapply HP; eauto.
  Qed.

  Lemma parse_lit_str_err_spanned g i l x : parse_lit_str reparse g i l = Err x -> span_of x <> None.
  Proof.
    destruct l as [b|s|c|d sf|d sf| | | | ]; cbn; try (intros [= <-]; cbn; discriminate).
    destruct (reparse g s); [discriminate|]. intros [= <-]. cbn. discriminate.
  Qed.

  (** [collect]: element-wise, in order, first error wins *)
  Lemma collect_ok rs vs : collect rs = Ok vs <-> Forall2 (fun r v => r = Ok v) rs vs.
  Proof.
    revert vs; induction rs as [|r rs IH]; intros vs; cbn.
    - split; [intros [= <-]; constructor | intros H; inversion H; reflexivity].
    - destruct r as [v|e|m].
      + destruct (collect rs) as [vs'|e|m] eqn:C.
        * split.
          -- intros [= <-]. constructor; [reflexivity|]. now apply IH.
          -- intros H. inversion H as [|? ? ? ? Hv Hr]; subst. injection Hv as <-.
             apply IH in Hr. now injection Hr as <-.
        * split; [discriminate|]. intros H. inversion H as [|? ? ? ? Hv Hr]; subst.
          apply IH in Hr. discriminate.
        * split; [discriminate|]. intros H. inversion H as [|? ? ? ? Hv Hr]; subst.
          apply IH in Hr. discriminate.
      + split; [discriminate|]. intros H. inversion H; subst. discriminate.
      + split; [discriminate|]. intros H. inversion H; subst. discriminate.
  Qed.

  Lemma veclit_elementwise want i es vs :
    array_from_expr reparse_arr (veclit_of_array want) (EArray i es) = Ok (VList vs) <->
    Forall2 (fun e v => from_expr (lit_fm want) e = Ok v) es vs.
  Proof.
    cbn [array_from_expr]. unfold veclit_of_array.
    destruct (collect (map (from_expr (lit_fm want)) es)) as [vs'|e|m] eqn:C; cbn [map_ok].
    - apply collect_ok in C. split.
      + intros [= <-]. clear -C. revert vs' C. induction es; intros vs' C; inversion C; subst; constructor; auto.
      + intros H. f_equal. f_equal.
        assert (C2 : Forall2 (fun r v => r = Ok v) (map (from_expr (lit_fm want)) es) vs).
        { clear -H. induction H; cbn; constructor; auto. }
        apply collect_ok in C2. apply collect_ok in C. congruence.
    - split; [discriminate|]. intros H.
      assert (C2 : Forall2 (fun r v => r = Ok v) (map (from_expr (lit_fm want)) es) vs).
      { clear -H. induction H; cbn; constructor; auto. }
      apply collect_ok in C2. congruence.
    - split; [discriminate|]. intros H.
      assert (C2 : Forall2 (fun r v => r = Ok v) (map (from_expr (lit_fm want)) es) vs).
      { clear -H. induction H; cbn; constructor; auto. }
      apply collect_ok in C2. congruence.
  Qed.

  (** a literal target keeps the user's literal token *)
  Lemma lit_keeps_token want i l v :
    lit_from_value want i l = Ok v -> v = VToks (i_toks i) /\ (want = "" \/ lit_type_name l = want).
  Proof.
    unfold lit_from_value. destruct (str_eqb want "") eqn:E1; cbn [orb].
    - intros [= <-]. split; [reflexivity|]. left. now apply String.eqb_eq.
    - destruct (str_eqb (lit_type_name l) want) eqn:E2; [|discriminate].
      intros [= <-]. split; [reflexivity|]. right. now apply String.eqb_eq.
  Qed.
End Syn.

(** ** The two expression helpers of util/parse_expr.rs (used through [with = ...]) *)
Section Helpers.
  Variable reparse : grammar -> string -> option string.

  Definition preserve_str_literal (m : nested) : res value :=
    match m with
    | NPath i _ => Err (with_span (i_span i) (unsupported_format "path"))
    | NList i _ _ _ | NBadList i _ _ _ _ => Err (with_span (i_span i) (unsupported_format "list"))
    | NNameValue _ _ e => Ok (VToks (i_toks (einfo e)))
    | NLit _ _ => Panic "model: helper applied to a literal"
    end.

  (** after the C13 repairs: only a *string* literal is unwrapped - seen through invisible groups, as
      everywhere else (a `macro_rules!` fragment holding a string literal is that string literal) *)
  Definition parse_str_literal (m : nested) : res value :=
    match m with
    | NPath i _ => Err (with_span (i_span i) (unsupported_format "path"))
    | NList i _ _ _ | NBadList i _ _ _ _ => Err (with_span (i_span i) (unsupported_format "list"))
    | NNameValue _ _ e =>
        match strip_groups e with
        | ELit i (LStr s) => parse_lit_str reparse GExpr i (LStr s)
        | _ => Ok (VToks (i_toks (einfo e)))
        end
    | NLit _ _ => Panic "model: helper applied to a literal"
    end.

  Lemma helpers_differ_only_on_string_literal m :
    (forall i p e j s, m = NNameValue i p e -> strip_groups e <> ELit j (LStr s)) ->
    parse_str_literal m = preserve_str_literal m.
  Proof.
    intros H. destruct m as [ | | | | i p e]; try reflexivity.
    cbn [parse_str_literal preserve_str_literal]. specialize (H i p e).
    destruct (strip_groups e) as [j l | | | | | ]; try reflexivity.
    destruct l; try reflexivity. exfalso. eapply H; eauto.
  Qed.
End Helpers.
