(** Conv/Targets.v — the universe of library target types and their [FromMeta] implementers. *)
From DarlingModel Require Export Conv.Scalars.
Local Open Scope string_scope.

Inductive target : Type :=
| TUnit | TBool | TAtomicBool | TChar | TString | TPathBuf
| TInt (t : ity)
| TFloat (is64 : bool).

Section FmOf.
  Variable pf : bool -> string -> option N.

  Definition fm_of (t : target) : fm :=
    match t with
    | TUnit => unit_fm
    | TBool => bool_fm
    | TAtomicBool => atomic_bool_fm
    | TChar => char_fm
    | TString => string_fm
    | TPathBuf => pathbuf_fm
    | TInt t => int_fm t
    | TFloat b => float_fm pf b
    end.
End FmOf.
