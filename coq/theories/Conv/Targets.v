(** Conv/Targets.v — the universe of library target types and their [FromMeta] implementers. *)
From DarlingModel Require Export Conv.Scalars Conv.SynValues Conv.Wrappers Conv.Maps Conv.Probe Conv.SynProofs.
Local Open Scope string_scope.

Inductive target : Type :=
| TUnit | TBool | TAtomicBool | TChar | TString | TPathBuf
| TInt (t : ity)
| TFloat (is64 : bool)
(* syntax-typed *)
| TExpr | TPath | TIdent | TIdentString | TCallable | TMeta | TPathList | TWherePreds
| TExprType (g : grammar) (kind : string)      (* ExprArray / ExprPath / ExprRange *)
| TSynParse (g : grammar)                      (* from_syn_parse! family, Punctuated *)
| TPunct (name : string)
| TLit (want : string)                         (* Lit ("" = any), LitInt "int", ... *)
| TVecLit (want : string)
| TNumArr (t : ity)
| THelper (parse : bool)                       (* util::parse_expr::{preserve,parse}_str_literal *)
(* wrappers *)
| TOption (t : target) | TPtr (t : target) | TResult (t : target) | TResultMeta (t : target)
| TOverride (t : target) | TSpanned (t : target) | TWithOriginal (t : target) | TFlag
(* maps *)
| TMap (k : keykind) (v : target)
(* an arbitrary implementer given by the case itself (probe types) *)
| TProbe (F : fm).

Section FmOf.
  Variable pf : bool -> string -> option N.
  Variable reparse : grammar -> string -> option string.
  Variable reparse_arr : string -> option expr.
  Variable reparse_preds : string -> option (list string).

  Fixpoint fm_of (t : target) : fm :=
    match t with
    | TUnit => unit_fm
    | TBool => bool_fm
    | TAtomicBool => atomic_bool_fm
    | TChar => char_fm
    | TString => string_fm
    | TPathBuf => pathbuf_fm
    | TInt t => int_fm t
    | TFloat b => float_fm pf b
    | TExpr => expr_fm reparse
    | TPath => path_fm reparse
    | TIdent => ident_fm reparse
    | TIdentString => ident_string_fm reparse
    | TCallable => callable_fm
    | TMeta => meta_fm
    | TPathList => pathlist_fm
    | TWherePreds => where_preds_fm reparse_preds
    | TExprType g k => expr_type_fm reparse g k
    | TSynParse g => syn_parse_fm reparse g
    | TPunct n => punctuated_fm reparse n
    | TLit w => lit_fm w
    | TVecLit w => veclit_fm reparse_arr w
    | TNumArr t => numarr_fm reparse_arr t
    | THelper b =>
        mkFm None (Some (if b then parse_str_literal reparse else preserve_str_literal))
             None None None None None None None None
    | TOption t => option_fm (fm_of t)
    | TPtr t => ptr_fm (fm_of t)
    | TResult t => result_fm (fm_of t)
    | TResultMeta t => result_meta_fm (fm_of t)
    | TOverride t => override_fm (fm_of t)
    | TSpanned t => spanned_fm (fm_of t)
    | TWithOriginal t => with_original_fm (fm_of t)
    | TFlag => flag_fm
    | TMap k v => map_fm k (fm_of v)
    | TProbe F => F
    end.
End FmOf.
