(** Conv/Probe.v — the probe implementers of the harness (vh-rt/src/conv/probes.rs): for each subset
    of the seven overridable hooks, an implementer whose overridden hooks answer with the
    hook's name and argument ([mode] 0), an unspanned error (1) or an already-spanned error (2). *)
From DarlingModel Require Export Conv.Routing.
Local Open Scope string_scope.

Definition probe_span : span := (1, 0, 1, 2)%N.

Definition answer (mode : N) (hook arg : string) : res value :=
  if N.eqb mode 0 then Ok (VStr (hook ++ ":" ++ arg))
  else if N.eqb mode 1 then Err (custom ("hook " ++ hook))
  else Err (Leaf (KCustom ("hook " ++ hook)) [] (Some probe_span)).

Definition pick {A} (b : bool) (x : A) : option A := if b then Some x else None.

(** [m_*]: is the hook overridden? *)
Definition probe_fm (m_word m_list m_bool m_string m_char m_value m_expr : bool) (mode : N) : fm :=
  mkFm None None None
       (pick m_word (answer mode "word" ""))
       (pick m_list (fun items : list nested => answer mode "list" (N_to_string (N.of_nat (List.length items)))))
       (pick m_value (fun (i : info) (_ : lit) => answer mode "value" (i_toks i)))
       (pick m_expr (fun e : expr => answer mode "expr" (i_toks (einfo e))))
       (pick m_char (fun c : N => answer mode "char" (N_to_string c)))
       (pick m_string (fun s : string => answer mode "string" s))
       (pick m_bool (fun b : bool => answer mode "bool" (if b then "true" else "false"))).
