(** Conv/Scalars.v — the scalar [FromMeta] implementers of core/src/from_meta.rs:160-290:
    (), bool, AtomicBool, char, String, PathBuf, the 24 integer types, f32/f64.
    Integer parsing ([str::parse], i.e. [from_str_radix(_, 10)]) is modelled digit by digit with
    the checked multiply-add of std; float parsing is an oracle.  Definitions only. *)
From DarlingModel Require Export Conv.Routing.
Local Open Scope string_scope.

(** ** UTF-8 (Rust strings are valid UTF-8; [str::chars]) *)
Definition utf8_step (st : nat * N * list N) (b : N) : nat * N * list N :=
  let '(pending, cur, out) := st in
  match pending with
  | S k =>
      let cur' := (cur * 64 + (b mod 64))%N in
      match k with O => (O, 0%N, cur' :: out) | _ => (k, cur', out) end
  | O =>
      if (b <? 128)%N then (O, 0%N, b :: out)
      else if (b <? 224)%N then (1%nat, (b mod 32)%N, out)
      else if (b <? 240)%N then (2%nat, (b mod 16)%N, out)
      else (3%nat, (b mod 8)%N, out)
  end.

Definition utf8_chars (s : string) : list N :=
  let '(_, _, out) :=
    fold_left utf8_step (map N_of_ascii (list_ascii_of_string s)) (O, 0%N, []) in
  rev out.

(** ** () *)
Definition unit_fm : fm :=
  mkFm None None None (Some (Ok VUnit)) None None None None None None.

(** ** bool *)
Definition bool_from_string (s : string) : res value :=
  if str_eqb s "true" then Ok (VBool true)
  else if str_eqb s "false" then Ok (VBool false)
  else Err (unknown_value s).

Definition bool_fm : fm :=
  mkFm None None None (Some (Ok (VBool true))) None None None None
       (Some bool_from_string) (Some (fun b => Ok (VBool b))).

(** ** AtomicBool: [FromMeta::from_meta(mi).map(AtomicBool::new).map_err(|e| e.with_span(mi))] *)
Definition atomic_bool_fm : fm :=
  mkFm None (Some (fun m => map_err (with_span (i_span (ninfo m))) (from_meta bool_fm m)))
       None None None None None None None None.

(** ** char *)
Definition char_from_string (s : string) : res value :=
  match utf8_chars s with
  | [c] => Ok (VChar c)
  | _ => Err (unexpected_type "string")
  end.

Definition char_fm : fm :=
  mkFm None None None None None None None (Some (fun c => Ok (VChar c)))
       (Some char_from_string) None.

(** ** String, PathBuf *)
Definition string_fm : fm :=
  mkFm None None None None None None None None (Some (fun s => Ok (VStr s))) None.
Definition pathbuf_fm : fm := string_fm.

(** ** Integers *)
Record ity : Type := mkIty { it_signed : bool; it_bits : N; it_nonzero : bool }.

Definition it_lo (t : ity) : Z :=
  if it_signed t then (- 2 ^ (Z.of_N (it_bits t) - 1))%Z else 0%Z.
Definition it_hi (t : ity) : Z :=
  if it_signed t then (2 ^ (Z.of_N (it_bits t) - 1) - 1)%Z else (2 ^ Z.of_N (it_bits t) - 1)%Z.

(** [core::num::IntErrorKind] and its [Display]. *)
Inductive int_err : Type := IEmpty | IInvalidDigit | IPosOverflow | INegOverflow | IZero.

Definition int_err_msg (e : int_err) : string :=
  match e with
  | IEmpty => "cannot parse integer from empty string"
  | IInvalidDigit => "invalid digit found in string"
  | IPosOverflow => "number too large to fit in target type"
  | INegOverflow => "number too small to fit in target type"
  | IZero => "number would be zero for non-zero type"
  end.

Definition digit_of (c : ascii) : option Z :=
  let n := N_of_ascii c in
  if ((48 <=? n) && (n <=? 57))%N then Some (Z.of_N (n - 48)) else None.

(** The accumulation loops of [from_str_radix]: per character, digit check, then checked
    multiply, then checked add (positive) / checked sub (negative). *)
Fixpoint pos_loop (hi acc : Z) (cs : list ascii) : int_err + Z :=
  match cs with
  | [] => inr acc
  | c :: r =>
      match digit_of c with
      | None => inl IInvalidDigit
      | Some d =>
          if (acc * 10 >? hi)%Z then inl IPosOverflow
          else if (acc * 10 + d >? hi)%Z then inl IPosOverflow
          else pos_loop hi (acc * 10 + d)%Z r
      end
  end.

Fixpoint neg_loop (lo acc : Z) (cs : list ascii) : int_err + Z :=
  match cs with
  | [] => inr acc
  | c :: r =>
      match digit_of c with
      | None => inl IInvalidDigit
      | Some d =>
          if (acc * 10 <? lo)%Z then inl INegOverflow
          else if (acc * 10 - d <? lo)%Z then inl INegOverflow
          else neg_loop lo (acc * 10 - d)%Z r
      end
  end.

Definition is_plus (c : ascii) : bool := N.eqb (N_of_ascii c) 43.
Definition is_minus (c : ascii) : bool := N.eqb (N_of_ascii c) 45.

Definition parse_prim (signed : bool) (lo hi : Z) (cs : list ascii) : int_err + Z :=
  match cs with
  | [] => inl IEmpty
  | c :: r =>
      if (is_plus c || is_minus c)%bool then
        match r with
        | [] => inl IInvalidDigit
        | _ =>
            if is_plus c then pos_loop hi 0 r
            else if signed then neg_loop lo 0 r
            else pos_loop hi 0 cs
        end
      else pos_loop hi 0 cs
  end.

(** [<T as FromStr>::from_str] for the 24 integer targets. *)
Definition std_parse_int (t : ity) (s : string) : int_err + Z :=
  match parse_prim (it_signed t) (it_lo t) (it_hi t) (list_ascii_of_string s) with
  | inr v => if (it_nonzero t && (v =? 0)%Z)%bool then inl IZero else inr v
  | inl e => inl e
  end.

Definition int_from_string (t : ity) (s : string) : res value :=
  match std_parse_int t s with
  | inr v => Ok (VInt v)
  | inl _ => Err (unknown_value s)
  end.

(** [from_meta_num!]: [Lit::Str] -> [from_string]; [Lit::Int] -> [base10_parse] (a syn error at
    the literal with std's message); anything else -> [unexpected_lit_type]. *)
Definition int_from_value (t : ity) (i : info) (l : lit) : res value :=
  map_err (with_span (i_span i))
    (match l with
     | LStr s => int_from_string t s
     | LInt d _ =>
         match std_parse_int t d with
         | inr v => Ok (VInt v)
         | inl e => Err (from_syn (i_span i) (int_err_msg e))
         end
     | _ => Err (unexpected_lit_type i l)
     end).

Definition int_fm (t : ity) : fm :=
  mkFm None None None None None (Some (int_from_value t)) None None
       (Some (int_from_string t)) None.

(** ** Floats.  [pf is64 s]: the bit pattern of [s.parse::<f64 | f32>()], [None] on error. *)
Section Floats.
  Variable pf : bool -> string -> option N.

  Definition float_from_string (is64 : bool) (s : string) : res value :=
    match pf is64 s with
    | Some b => Ok (VFloat b)
    | None => Err (unknown_value s)
    end.

  Definition float_from_value (is64 : bool) (i : info) (l : lit) : res value :=
    map_err (with_span (i_span i))
      (match l with
       | LStr s => float_from_string is64 s
       | LFloat d _ | LInt d _ =>          (* a literal without a fraction is a float too *)
           match pf is64 d with
           | Some b => Ok (VFloat b)
           | None => Err (from_syn (i_span i) "invalid float literal")
           end
       | _ => Err (unexpected_lit_type i l)
       end).

  Definition float_fm (is64 : bool) : fm :=
    mkFm None None None None None (Some (float_from_value is64)) None None
         (Some (float_from_string is64)) None.
End Floats.

(** ** Mathematical reading of a digit string (the specification side of C11). *)
Definition denote_digits (acc : Z) (ds : list Z) : Z := fold_left (fun a d => (a * 10 + d)%Z) ds acc.

Fixpoint all_digits (cs : list ascii) : option (list Z) :=
  match cs with
  | [] => Some []
  | c :: r =>
      match digit_of c, all_digits r with
      | Some d, Some ds => Some (d :: ds)
      | _, _ => None
      end
  end.

(** [Some v]: the string is an optionally signed, non-empty decimal numeral denoting [v]
    ("-" only when [allow_minus]). *)
Definition denote (allow_minus : bool) (s : string) : option Z :=
  match list_ascii_of_string s with
  | [] => None
  | c :: r =>
      if is_plus c then
        match r with [] => None | _ => option_map (denote_digits 0) (all_digits r) end
      else if is_minus c then
        if allow_minus then
          match r with [] => None | _ => option_map (fun v => (- v)%Z) (option_map (denote_digits 0) (all_digits r)) end
        else None
      else option_map (denote_digits 0) (all_digits (c :: r))
  end.
