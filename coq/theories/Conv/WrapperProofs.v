(** Conv/WrapperProofs.v — wrappers are transparent over the wrapped implementer (any [T : fm]). *)
From DarlingModel Require Import Conv.Routing Conv.Scalars Conv.Wrappers Conv.RoutingProofs.
Local Open Scope string_scope.

Lemma map_ok_map_err {A B} (f : A -> B) g (r : res A) :
  map_err g (map_ok f r) = map_ok f (map_err g r).
Proof. destruct r; reflexivity. Qed.

Section AnyInner.
  Variable T : fm.

  Lemma option_transparent m : from_meta (option_fm T) m = map_ok VSome (from_meta T m).
  Proof. reflexivity. Qed.
  Lemma option_absent : from_none (option_fm T) = Some VNone.
  Proof. reflexivity. Qed.

  Lemma ptr_transparent m : from_meta (ptr_fm T) m = map_ok VPtr (from_meta T m).
  Proof. reflexivity. Qed.
  Lemma ptr_list items : from_list (ptr_fm T) items = map_ok VPtr (from_list T items).
  Proof. reflexivity. Qed.
  Lemma ptr_absent : from_none (ptr_fm T) = option_map VPtr (from_none T).
  Proof. reflexivity. Qed.

  Lemma result_holds_outcome m :
    from_meta (result_fm T) m =
      match from_meta T m with
      | Ok v => Ok (VResOk v) | Err e => Ok (VResErr e) | Panic msg => Panic msg
      end.
  Proof. reflexivity. Qed.
  Lemma result_never_fails m e : from_meta (result_fm T) m <> Err e.
  Proof. rewrite result_holds_outcome. destruct (from_meta T m); discriminate. Qed.
  Lemma result_list_never_fails items e : from_list (result_fm T) items <> Err e.
  Proof. unfold from_list; cbn. unfold as_result. destruct (from_list T items); discriminate. Qed.
  Lemma result_absent : from_none (result_fm T) = option_map VResOk (from_none T).
  Proof. reflexivity. Qed.

  Lemma result_meta_keeps_original m :
    from_meta (result_meta_fm T) m =
      match from_meta T m with
      | Ok v => Ok (VMetaOk v)
      | Err _ => Ok (VMetaErr (i_toks (ninfo m)))
      | Panic msg => Panic msg
      end.
  Proof. reflexivity. Qed.
  Lemma result_meta_never_fails m e : from_meta (result_meta_fm T) m <> Err e.
  Proof. rewrite result_meta_keeps_original. destruct (from_meta T m); discriminate. Qed.
  Lemma result_meta_absent : from_none (result_meta_fm T) = None.
  Proof. reflexivity. Qed.

  Lemma spanned_meta m :
    from_meta (spanned_fm T) m =
      match from_meta T m with
      | Ok v => Ok (VSpanned v (spanned_span m))
      | Err e => Err (with_span (i_span (ninfo m)) e)
      | Panic msg => Panic msg
      end.
  Proof. unfold from_meta at 1; cbn. destruct (from_meta T m); reflexivity. Qed.
  Lemma spanned_absent : from_none (spanned_fm T) = None.
  Proof. reflexivity. Qed.

  Lemma with_original_meta m :
    from_meta (with_original_fm T) m =
      match from_meta T m with
      | Ok v => Ok (VWithOrig v (i_toks (ninfo m)))
      | Err e => Err e
      | Panic msg => Panic msg
      end.
  Proof. unfold from_meta at 1; cbn. destruct (from_meta T m); reflexivity. Qed.
  Lemma with_original_absent : from_none (with_original_fm T) = None.
  Proof. reflexivity. Qed.

  Lemma override_word i p : from_meta (override_fm T) (NPath i p) = Ok VInherit.
  Proof. reflexivity. Qed.
  Lemma override_absent : from_none (override_fm T) = None.
  Proof. reflexivity. Qed.

  (** For every form other than the bare word, [Override<T>] is [T] - whatever [T] overrides. *)
  Lemma override_transparent_non_word m :
    (forall i p, m <> NPath i p) ->
    from_meta (override_fm T) m = map_ok VExplicit (from_meta T m).
  Proof.
    intros NW. unfold from_meta at 1; cbn [o_meta override_fm].
    destruct m; try reflexivity. exfalso. eapply NW; eauto.
  Qed.

  Lemma override_nested_literal i l :
    from_nested (override_fm T) (NLit i l)
    = map_err (with_span (i_span i)) (map_ok VExplicit (from_value T i l)).
  Proof. reflexivity. Qed.
End AnyInner.

Lemma flag_absent : from_none flag_fm = Some (VFlag None).
Proof. reflexivity. Qed.
Lemma flag_word i p : from_meta flag_fm (NPath i p) = Ok (VFlag (Some (i_span (p_info p)))).
Proof. reflexivity. Qed.

(** Two-level compositions are instances: e.g. [Option<Box<T>>], [Box<Option<T>>]. *)
Lemma option_ptr_transparent T m :
  from_meta (option_fm (ptr_fm T)) m = map_ok VSome (map_ok VPtr (from_meta T m)).
Proof. reflexivity. Qed.
Lemma ptr_option_transparent T m :
  from_meta (ptr_fm (option_fm T)) m = map_ok VPtr (map_ok VSome (from_meta T m)).
Proof. reflexivity. Qed.
