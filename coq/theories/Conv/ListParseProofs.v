From DarlingModel Require Import Conv.ListParse.
Local Open Scope nat_scope.

Lemma item_at_some tbl p it : item_at tbl p = Some it -> nth_error tbl p <> None.
Proof. unfold item_at. destruct (nth_error tbl p); [discriminate|discriminate]. Qed.

(** soundness: whatever the loop returns is a comma-separated sequence *)
Lemma parse_loop_sound fuel : forall tbl p items,
  parse_loop fuel tbl p = Some items -> Seq tbl p items.
Proof.
  induction fuel as [|f IH]; intros tbl p items; cbn [parse_loop]; [discriminate|].
  destruct (nth_error tbl p) as [r0|] eqn:E0.
  2:{ intros [= <-]. now constructor. }
  destruct (item_at tbl p) as [it|] eqn:EI; [|discriminate].
  destruct (nth_error tbl (p + item_len it)) as [r|] eqn:EQ.
  2:{ intros [= <-]. now apply SeqLast. }
  destruct (is_comma r) eqn:EC; [|discriminate].
  destruct (parse_loop f tbl (S (p + item_len it))) as [rest|] eqn:ER; [|discriminate].
  intros [= <-]. eapply SeqCons; eauto.
Qed.

(** completeness: with enough fuel every such sequence is found (and it is unique) *)
Lemma parse_loop_complete tbl : forall p items,
  Seq tbl p items -> forall fuel, List.length items < fuel -> parse_loop fuel tbl p = Some items.
Proof.
  induction 1 as [p Hn | p it Hi Hn | p it r rest Hi Hq Hc Hs IH]; intros fuel Hf.
  - destruct fuel; [lia|]. cbn [parse_loop]. now rewrite Hn.
  - destruct fuel; [cbn in Hf; lia|]. cbn [parse_loop].
    destruct (nth_error tbl p) eqn:E0; [|exfalso; eapply item_at_some; eauto].
    rewrite Hi, Hn. reflexivity.
  - destruct fuel; [cbn in Hf; lia|]. cbn [parse_loop].
    destruct (nth_error tbl p) eqn:E0; [|exfalso; eapply item_at_some; eauto].
    rewrite Hi, Hq, Hc, IH by (cbn in Hf; lia). reflexivity.
Qed.

(** every item spans at least one token tree => the sequence is no longer than the stream *)
Definition lens_positive (tbl : list row) : Prop :=
  forall p it, item_at tbl p = Some it -> 1 <= item_len it.

Lemma seq_bound tbl : lens_positive tbl -> forall p items,
  Seq tbl p items -> List.length items <= List.length tbl - p.
Proof.
  intros LP p items S. induction S as [p Hn | p it Hi Hn | p it r rest Hi Hq Hc Hs IH]; cbn [List.length].
  - lia.
  - assert (p < List.length tbl).
    { apply nth_error_Some. eapply item_at_some; eauto. }
    lia.
  - specialize (LP p it Hi).
    assert (p + item_len it < List.length tbl) by (apply nth_error_Some; congruence).
    lia.
Qed.

Theorem parse_meta_list_spec tbl items :
  lens_positive tbl -> (parse_meta_list tbl = Some items <-> Seq tbl 0 items).
Proof.
  intros LP. unfold parse_meta_list. split.
  - apply parse_loop_sound.
  - intros S. apply parse_loop_complete; [exact S|].
    pose proof (seq_bound tbl LP 0 items S). lia.
Qed.

(** Routing facts of [classify]. *)
Lemma classify_bare_bool r :
  peek_lit r = true -> peek_litbool r = true -> peek2_eq r = false -> classify r = RLit.
Proof. unfold classify. intros -> -> ->. reflexivity. Qed.

Lemma classify_bool_eq r :
  peek_litbool r = true -> peek2_eq r = true -> peek_ident r = true -> classify r = RMeta.
Proof. unfold classify. intros -> -> ->. rewrite andb_false_r. reflexivity. Qed.

Lemma classify_global_path r :
  peek_lit r = false -> peek_colon2 r = true -> peek3_ident r = true -> classify r = RMeta.
Proof. unfold classify. intros -> -> ->. cbn. now rewrite orb_true_r. Qed.

Lemma classify_ident r : peek_lit r = false -> peek_ident r = true -> classify r = RMeta.
Proof. unfold classify. intros -> ->. reflexivity. Qed.

Lemma classify_literal r : peek_lit r = true -> peek_litbool r = false -> classify r = RLit.
Proof. unfold classify. intros -> ->. reflexivity. Qed.

Lemma classify_other r :
  peek_lit r = false -> peek_ident r = false -> peek_colon2 r = false -> classify r = RError.
Proof. unfold classify. intros -> -> ->. reflexivity. Qed.

(** The items come back in stream order, non-overlapping. *)
Lemma seq_ordered tbl : forall p items, Seq tbl p items ->
  forall it, In it items -> match it with PItem _ s _ => p <= s end.
Proof.
  induction 1 as [p Hn | p it Hi Hn | p it r rest Hi Hq Hc Hs IH]; intros x Hx.
  - destruct Hx.
  - destruct Hx as [<-|[]]. unfold item_at in Hi. destruct (nth_error tbl p); [|discriminate].
    destruct (classify r); [destruct (lit_len r)|destruct (meta_len r)|]; try discriminate;
      injection Hi as <-; lia.
  - destruct Hx as [<-|Hx].
    + unfold item_at in Hi. destruct (nth_error tbl p) as [r0|]; [|discriminate].
      destruct (classify r0); [destruct (lit_len r0)|destruct (meta_len r0)|]; try discriminate;
        injection Hi as <-; lia.
    + specialize (IH x Hx). destruct x. lia.
Qed.
