(** Conv/ScalarProofs.v — the checked digit loop of std equals the mathematical range check;
    spans of rejections; tables for bool / char / String. *)
From DarlingModel Require Import Conv.Scalars.
Local Open Scope Z_scope.

Lemma digit_of_range c d : digit_of c = Some d -> 0 <= d <= 9.
Proof.
  unfold digit_of. destruct ((48 <=? N_of_ascii c)%N && (N_of_ascii c <=? 57)%N)%bool eqn:E; [|discriminate].
  intros [= <-]. apply andb_true_iff in E as [A B]. apply N.leb_le in A, B. lia.
Qed.

Lemma all_digits_range cs ds : all_digits cs = Some ds -> Forall (fun d => 0 <= d <= 9) ds.
Proof.
  revert ds; induction cs as [|c r IH]; cbn; intros ds.
  - intros [= <-]. constructor.
  - destruct (digit_of c) as [d|] eqn:D; [|discriminate].
    destruct (all_digits r) as [ds'|]; [|discriminate]. intros [= <-].
    constructor; [eapply digit_of_range; eauto | now apply IH].
Qed.

Lemma denote_digits_mono ds : Forall (fun d => 0 <= d <= 9) ds -> forall a, 0 <= a -> a <= denote_digits a ds.
Proof.
  induction 1 as [|d ds Hd _ IH]; intros a Ha; cbn; [lia|].
  specialize (IH (a * 10 + d) ltac:(lia)). unfold denote_digits in *. lia.
Qed.

(** positive accumulation: succeeds exactly when every character is a digit and the denoted
    value does not exceed [hi]; the result is the denoted value. *)
Lemma pos_loop_spec hi cs : forall acc v, 0 <= acc <= hi ->
  (pos_loop hi acc cs = inr v <->
   exists ds, all_digits cs = Some ds /\ v = denote_digits acc ds /\ v <= hi).
Proof.
  induction cs as [|c r IH]; intros acc v Ha; cbn [pos_loop all_digits].
  - split.
    + intros [= <-]. exists []. cbn. repeat split; lia.
    + intros (ds & [= <-] & -> & _). reflexivity.
  - destruct (digit_of c) as [d|] eqn:D.
    2:{ split; [discriminate|]. intros (ds & H & _). discriminate. }
    pose proof (digit_of_range c d D) as Rd.
    destruct (acc * 10 >? hi) eqn:E1.
    { split; [discriminate|]. intros (ds & H & -> & Hv). exfalso.
      destruct (all_digits r) as [ds'|] eqn:A; [|discriminate]. injection H as <-.
      pose proof (denote_digits_mono ds' (all_digits_range r ds' A) (acc * 10 + d) ltac:(lia)).
      cbn in Hv. unfold denote_digits in *. lia. }
    destruct (acc * 10 + d >? hi) eqn:E2.
    { split; [discriminate|]. intros (ds & H & -> & Hv). exfalso.
      destruct (all_digits r) as [ds'|] eqn:A; [|discriminate]. injection H as <-.
      pose proof (denote_digits_mono ds' (all_digits_range r ds' A) (acc * 10 + d) ltac:(lia)).
      cbn in Hv. unfold denote_digits in *. lia. }
    rewrite (IH (acc * 10 + d) v ltac:(lia)). split.
    + intros (ds & A & -> & Hv). exists (d :: ds). rewrite A. repeat split; auto.
    + intros (ds & H & -> & Hv). destruct (all_digits r) as [ds'|]; [|discriminate].
      injection H as <-. exists ds'. repeat split; auto.
Qed.

Definition neg_denote (acc : Z) (ds : list Z) : Z := fold_left (fun a d => a * 10 - d) ds acc.

Lemma neg_denote_opp ds : forall a, neg_denote (- a) ds = - denote_digits a ds.
Proof.
  induction ds as [|d ds IH]; intros a; cbn; [reflexivity|].
  replace (- a * 10 - d) with (- (a * 10 + d)) by lia. apply IH.
Qed.

Lemma neg_denote_zero ds : neg_denote 0 ds = - denote_digits 0 ds.
Proof. exact (neg_denote_opp ds 0). Qed.

Lemma neg_loop_spec lo cs : forall acc v, lo <= acc <= 0 ->
  (neg_loop lo acc cs = inr v <->
   exists ds, all_digits cs = Some ds /\ v = neg_denote acc ds /\ lo <= v).
Proof.
  induction cs as [|c r IH]; intros acc v Ha; cbn [neg_loop all_digits].
  - split.
    + intros [= <-]. exists []. cbn. repeat split; lia.
    + intros (ds & [= <-] & -> & _). reflexivity.
  - destruct (digit_of c) as [d|] eqn:D.
    2:{ split; [discriminate|]. intros (ds & H & _). discriminate. }
    pose proof (digit_of_range c d D) as Rd.
    assert (M : forall ds', all_digits r = Some ds' -> neg_denote (acc * 10 - d) ds' <= acc * 10 - d).
    { intros ds' A. replace (acc * 10 - d) with (- (- (acc * 10 - d))) at 1 by lia.
      rewrite neg_denote_opp.
      pose proof (denote_digits_mono ds' (all_digits_range r ds' A) (- (acc * 10 - d)) ltac:(lia)). lia. }
    destruct (acc * 10 <? lo) eqn:E1.
    { split; [discriminate|]. intros (ds & H & -> & Hv). exfalso.
      destruct (all_digits r) as [ds'|] eqn:A; [|discriminate]. injection H as <-.
      specialize (M ds' eq_refl). change (neg_denote acc (d :: ds')) with (neg_denote (acc * 10 - d) ds') in Hv. lia. }
    destruct (acc * 10 - d <? lo) eqn:E2.
    { split; [discriminate|]. intros (ds & H & -> & Hv). exfalso.
      destruct (all_digits r) as [ds'|] eqn:A; [|discriminate]. injection H as <-.
      specialize (M ds' eq_refl). change (neg_denote acc (d :: ds')) with (neg_denote (acc * 10 - d) ds') in Hv. lia. }
    rewrite (IH (acc * 10 - d) v ltac:(lia)). split.
    + intros (ds & A & -> & Hv). exists (d :: ds). rewrite A. repeat split; auto.
    + intros (ds & H & -> & Hv). destruct (all_digits r) as [ds'|]; [|discriminate].
      injection H as <-. exists ds'. repeat split; auto.
Qed.

Lemma all_digits_minus c r : is_minus c = true -> all_digits (c :: r) = None.
Proof.
  intros H. cbn. unfold digit_of. unfold is_minus in H. apply N.eqb_eq in H. rewrite H. reflexivity.
Qed.

Lemma denote_nonneg cs ds : all_digits cs = Some ds -> 0 <= denote_digits 0 ds.
Proof. intros A. apply (denote_digits_mono ds (all_digits_range cs ds A) 0). lia. Qed.

(** The primitive parser against the mathematical reading. *)
Lemma parse_prim_spec signed lo hi s v :
  lo <= 0 <= hi -> (signed = false -> lo = 0) ->
  (parse_prim signed lo hi (list_ascii_of_string s) = inr v <->
   denote signed s = Some v /\ lo <= v <= hi).
Proof.
  intros R U. unfold denote, parse_prim.
  destruct (list_ascii_of_string s) as [|c r]; [split; [discriminate|intros [H _]; discriminate]|].
  destruct (is_plus c) eqn:P; cbn [orb].
  - (* leading + *)
    destruct r as [|c2 r2]; [split; [discriminate|intros [H _]; discriminate]|].
    rewrite (pos_loop_spec hi (c2 :: r2) 0 v ltac:(lia)). split.
    + intros (ds & A & -> & Hv). rewrite A. cbn [option_map]. split; [reflexivity|].
      pose proof (denote_nonneg _ _ A). lia.
    + intros [H Hv]. destruct (all_digits (c2 :: r2)) as [ds|] eqn:A; [|discriminate].
      cbn in H. injection H as <-. exists ds. repeat split; lia.
  - destruct (is_minus c) eqn:M; cbn [orb].
    + (* leading - *)
      destruct r as [|c2 r2]; [destruct signed; split; try discriminate; intros [H _]; discriminate|].
      destruct signed.
      * rewrite (neg_loop_spec lo (c2 :: r2) 0 v ltac:(lia)). split.
        -- intros (ds & A & -> & Hv). rewrite A. cbn [option_map].
           rewrite neg_denote_zero in *. split; [reflexivity|].
           pose proof (denote_nonneg _ _ A). lia.
        -- intros [H Hv]. destruct (all_digits (c2 :: r2)) as [ds|] eqn:A; [|discriminate].
           cbn in H. injection H as <-. exists ds. split; [reflexivity|].
           rewrite neg_denote_zero. split; lia.
      * (* unsigned: the '-' is fed to the digit loop and rejected *)
        rewrite (pos_loop_spec hi (c :: c2 :: r2) 0 v ltac:(lia)).
        rewrite (all_digits_minus c (c2 :: r2) M). split.
        -- intros (ds & A & _). discriminate.
        -- intros [H _]. discriminate.
    + (* no sign *)
      rewrite (pos_loop_spec hi (c :: r) 0 v ltac:(lia)). split.
      * intros (ds & A & -> & Hv). rewrite A. cbn [option_map]. split; [reflexivity|].
        pose proof (denote_nonneg _ _ A). lia.
      * intros [H Hv]. destruct (all_digits (c :: r)) as [ds|] eqn:A; [|discriminate].
        cbn in H. injection H as <-. exists ds. repeat split; lia.
Qed.

Definition wf_ity (t : ity) : Prop := (1 <= it_bits t)%N.

Lemma ity_bounds t : wf_ity t -> it_lo t <= 0 <= it_hi t /\ (it_signed t = false -> it_lo t = 0).
Proof.
  unfold wf_ity, it_lo, it_hi. intros W. destruct (it_signed t).
  - assert (0 < 2 ^ (Z.of_N (it_bits t) - 1)) by (apply Z.pow_pos_nonneg; lia).
    split; [lia|discriminate].
  - assert (0 < 2 ^ Z.of_N (it_bits t)) by (apply Z.pow_pos_nonneg; lia). split; [lia|reflexivity].
Qed.

(** The std parser for every integer target: accepts exactly the well-formed numerals whose
    denoted value is in range (and non-zero for NonZero types), and returns that value. *)
Theorem std_parse_int_spec t s v :
  wf_ity t ->
  (std_parse_int t s = inr v <->
   denote (it_signed t) s = Some v /\ it_lo t <= v <= it_hi t /\ (it_nonzero t = true -> v <> 0)).
Proof.
  intros W. destruct (ity_bounds t W) as [R U]. unfold std_parse_int.
  destruct (parse_prim (it_signed t) (it_lo t) (it_hi t) (list_ascii_of_string s)) as [e|w] eqn:E.
  - split; [discriminate|]. intros (D & Rg & _).
    pose proof (proj2 (parse_prim_spec _ _ _ s v R U) (conj D Rg)) as H. congruence.
  - pose proof (proj1 (parse_prim_spec _ _ _ s w R U) E) as [D Rg].
    destruct (it_nonzero t) eqn:NZ; cbn [andb].
    + destruct (w =? 0) eqn:Z0.
      * split; [discriminate|]. intros (D' & _ & H). apply Z.eqb_eq in Z0.
        rewrite D in D'. injection D' as <-. exfalso. now apply H.
      * split.
        -- intros [= <-]. repeat split; try lia; auto; try (intros _; now apply Z.eqb_neq).
        -- intros (D' & _). rewrite D in D'. now injection D' as <-.
    + split.
      * intros [= <-]. repeat split; try lia; auto; try discriminate.
      * intros (D' & _). rewrite D in D'. now injection D' as <-.
Qed.

(** ** Conversions *)
Lemma with_span_has_span s e : span_of (with_span s e) <> None.
Proof.
  unfold with_span. destruct (span_of e) eqn:E; [now rewrite E|].
  destruct e; cbn; discriminate.
Qed.

Lemma int_from_value_int t i d sfx :
  int_from_value t i (LInt d sfx) =
    match std_parse_int t d with
    | inr v => Ok (VInt v)
    | inl e => Err (Leaf (KCustom (int_err_msg e)) [] (Some (i_span i)))
    end.
Proof. unfold int_from_value. destruct (std_parse_int t d); reflexivity. Qed.

Lemma int_from_value_str t i s :
  int_from_value t i (LStr s) =
    match std_parse_int t s with
    | inr v => Ok (VInt v)
    | inl e => Err (Leaf (KUnknownValue s) [] (Some (i_span i)))
    end.
Proof. unfold int_from_value, int_from_string. destruct (std_parse_int t s); reflexivity. Qed.

(** Every rejection by the default [from_meta] dispatcher is a spanned error, never a panic,
    provided the hooks themselves do not panic. *)
Definition hooks_total (F : fm) : Prop :=
  (forall r, o_word F = Some r -> is_panic r = false) /\
  (forall f, o_list F = Some f -> forall l, is_panic (f l) = false) /\
  (forall f, o_value F = Some f -> forall i l, is_panic (f i l) = false) /\
  (forall f, o_expr F = Some f -> forall e, is_panic (f e) = false) /\
  (forall f, o_char F = Some f -> forall c, is_panic (f c) = false) /\
  (forall f, o_string F = Some f -> forall s, is_panic (f s) = false) /\
  (forall f, o_bool F = Some f -> forall b, is_panic (f b) = false).

Lemma map_err_span {A} s (r : res A) e : map_err (with_span s) r = Err e -> span_of e <> None.
Proof. destruct r; cbn; try discriminate. intros [= <-]. apply with_span_has_span. Qed.

Lemma map_err_panic {A} f (r : res A) : is_panic (map_err f r) = is_panic r.
Proof. destruct r; reflexivity. Qed.

Lemma default_from_meta_err_spanned F m e :
  is_meta m = true -> default_from_meta F m = Err e -> span_of e <> None.
Proof.
  destruct m; cbn [default_from_meta is_meta]; try discriminate; intros _.
  - apply map_err_span.
  - apply map_err_span.
  - intros [= <-]. cbn. discriminate.
  - apply map_err_span.
Qed.

Lemma from_value_total F i l : hooks_total F -> is_panic (from_value F i l) = false.
Proof.
  intros (Hw & Hl & Hv & He & Hc & Hs & Hb). unfold from_value.
  destruct (o_value F) as [f|] eqn:E; [now apply (Hv f)|].
  unfold default_from_value. rewrite map_err_panic.
  destruct l; try reflexivity.
  - unfold from_bool. destruct (o_bool F) as [f|] eqn:E2; [now apply (Hb f)|reflexivity].
  - unfold from_string. destruct (o_string F) as [f|] eqn:E2; [now apply (Hs f)|reflexivity].
  - unfold from_char. destruct (o_char F) as [f|] eqn:E2; [now apply (Hc f)|reflexivity].
Qed.

Lemma default_from_expr_total F e : hooks_total F -> is_panic (default_from_expr F e) = false.
Proof.
  intros H. induction e as [i l | i g IH | i p | i es | i k | i nl]; cbn [default_from_expr];
    rewrite map_err_panic; try reflexivity.
  - now apply from_value_total.
  - exact IH.
  - destruct (is_numeric nl); [now apply from_value_total|reflexivity].
Qed.

Lemma default_from_meta_total F m :
  hooks_total F -> is_meta m = true -> is_panic (default_from_meta F m) = false.
Proof.
  intros H M. pose proof H as (Hw & Hl & Hv & He & Hc & Hs & Hb).
  destruct m; cbn [default_from_meta is_meta] in *; try discriminate; try rewrite map_err_panic.
  - unfold from_word. destruct (o_word F) as [r|] eqn:E; [now apply Hw|reflexivity].
  - unfold from_list. destruct (o_list F) as [f|] eqn:E; [now apply (Hl f)|reflexivity].
  - reflexivity.
  - unfold from_expr. destruct (o_expr F) as [f|] eqn:E; [now apply (He f)|].
    now apply default_from_expr_total.
Qed.

Lemma int_hooks_total t : hooks_total (int_fm t).
Proof.
  unfold hooks_total, int_fm; cbn. repeat split; try discriminate.
  - intros f [= <-] i l. unfold int_from_value. rewrite map_err_panic.
    destruct l; try reflexivity.
    + unfold int_from_string. destruct (std_parse_int t s); reflexivity.
    + destruct (std_parse_int t digits); reflexivity.
  - intros f [= <-] s. unfold int_from_string. destruct (std_parse_int t s); reflexivity.
Qed.

(** ** Exactness of the integer conversions *)
Definition in_range (t : ity) (z : Z) : Prop :=
  it_lo t <= z <= it_hi t /\ (it_nonzero t = true -> z <> 0).

Lemma int_unquoted_spec t i d sfx v : wf_ity t ->
  (int_from_value t i (LInt d sfx) = Ok (VInt v) <->
   denote (it_signed t) d = Some v /\ in_range t v).
Proof.
  intros W. rewrite int_from_value_int, <- (std_parse_int_spec t d v W).
  destruct (std_parse_int t d) as [e|w]; split; try discriminate; congruence.
Qed.

Lemma int_quoted_spec t i s v : wf_ity t ->
  (int_from_value t i (LStr s) = Ok (VInt v) <->
   denote (it_signed t) s = Some v /\ in_range t v).
Proof.
  intros W. rewrite int_from_value_str, <- (std_parse_int_spec t s v W).
  destruct (std_parse_int t s) as [e|w]; split; try discriminate; congruence.
Qed.

Lemma int_quoted_eq_unquoted t i i' s sfx v :
  int_from_value t i (LStr s) = Ok v <-> int_from_value t i' (LInt s sfx) = Ok v.
Proof.
  rewrite int_from_value_int, int_from_value_str.
  destruct (std_parse_int t s); split; try discriminate; auto.
Qed.

Lemma map_err_ok {A} f (r : res A) v : map_err f r = Ok v <-> r = Ok v.
Proof. destruct r; cbn; split; congruence. Qed.

Lemma int_from_value_ok t i l v : wf_ity t ->
  int_from_value t i l = Ok v ->
  exists z, v = VInt z /\ in_range t z
    /\ ((exists d sfx, l = LInt d sfx /\ denote (it_signed t) d = Some z)
        \/ (exists s, l = LStr s /\ denote (it_signed t) s = Some z)).
Proof.
  intros W. destruct l; try (unfold int_from_value; rewrite map_err_ok; discriminate).
  - rewrite int_from_value_str. destruct (std_parse_int t s) as [e|w] eqn:E; [discriminate|].
    intros [= <-]. apply (std_parse_int_spec t s w W) in E as (D & R). exists w.
    split; [reflexivity|]. split; [exact R|]. right. eauto.
  - rewrite int_from_value_int. destruct (std_parse_int t digits) as [e|w] eqn:E; [discriminate|].
    intros [= <-]. apply (std_parse_int_spec t digits w W) in E as (D & R). exists w.
    split; [reflexivity|]. split; [exact R|]. left. eauto.
Qed.

Lemma int_from_expr_ok t e v : wf_ity t ->
  default_from_expr (int_fm t) e = Ok v -> exists z, v = VInt z /\ in_range t z.
Proof.
  intros W. induction e as [i l | i g IH | i p | i es | i k | i nl]; cbn [default_from_expr];
    rewrite map_err_ok; try discriminate.
  - unfold from_value; cbn. intros H. destruct (int_from_value_ok t i l v W H) as (z & ? & ? & _). eauto.
  - exact IH.
  - destruct (is_numeric nl); [|discriminate]. unfold from_value; cbn. intros H. destruct (int_from_value_ok t i nl v W H) as (z & ? & ? & _). eauto.
Qed.

(** No input whatsoever makes an integer target produce a value outside its range
    ("never wrapped, truncated or saturated"). *)
Lemma int_never_wraps t m v : wf_ity t ->
  from_meta (int_fm t) m = Ok v -> exists z, v = VInt z /\ in_range t z.
Proof.
  intros W. unfold from_meta; cbn [o_meta int_fm]. destruct m; cbn [default_from_meta];
    try rewrite map_err_ok; try discriminate.
  - unfold from_expr; cbn [o_expr int_fm]. now apply int_from_expr_ok.
Qed.

Lemma int_rejections t m : is_meta m = true ->
  is_panic (from_meta (int_fm t) m) = false
  /\ (forall e, from_meta (int_fm t) m = Err e -> span_of e <> None).
Proof.
  intros M. unfold from_meta; cbn [o_meta int_fm]. split.
  - apply default_from_meta_total; [apply int_hooks_total|exact M].
  - intros e. now apply default_from_meta_err_spanned.
Qed.
