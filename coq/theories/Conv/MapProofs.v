(** Conv/MapProofs.v — the single-pass map builder equals a per-item comprehension (C14). *)
From DarlingModel Require Import Conv.Routing Conv.Scalars Conv.Maps Err.ErrProofs Err.Accum.
Local Open Scope list_scope.

Section MapSpec.
  Variable K : keykind.
  Variable V : fm.

  (** What one item is, independently of the others. *)
  Inductive icls : Type :=
  | ILiteral
  | IBadKey (e : err) (vr : res value)
  | IEntry (key disp : string) (p : path) (vr : res value).

  Definition value_of (item : nested) (p : path) : res value :=
    map_err (at_ (path_to_string p)) (from_meta V item).

  Definition classify (item : nested) : icls :=
    match meta_path item with
    | None => ILiteral
    | Some p =>
        match key_of K p with
        | Ok (k, d) => IEntry k d p (value_of item p)
        | Err e => IBadKey e (value_of item p)
        | Panic _ => ILiteral
        end
    end.

  Definition err_of (r : res value) : list err := match r with Err e => [e] | _ => [] end.

  Definition dup_err (d : string) (p : path) : err :=
    with_span (i_span (p_info p)) (new_err (KDuplicateField d)).

  (** The errors, item by item, given the keys of the items before. *)
  Fixpoint spec_errs (seen : list string) (items : list nested) : list err :=
    match items with
    | [] => []
    | it :: r =>
        match classify it with
        | ILiteral => unsupported_format "expression" :: spec_errs seen r
        | IBadKey e vr => e :: err_of vr ++ spec_errs seen r
        | IEntry k d p vr =>
            (if mem k seen then [dup_err d p] else []) ++ err_of vr ++ spec_errs (k :: seen) r
        end
    end.

  (** The entries: first occurrence of each key whose value converts. *)
  Fixpoint spec_map (seen : list string) (items : list nested) : list (string * value) :=
    match items with
    | [] => []
    | it :: r =>
        match classify it with
        | IEntry k _ _ vr =>
            (match vr with Ok v => if mem k seen then [] else [(k, v)] | _ => [] end)
              ++ spec_map (k :: seen) r
        | _ => spec_map seen r
        end
    end.

  Fixpoint spec_seen (seen : list string) (items : list nested) : list string :=
    match items with
    | [] => seen
    | it :: r =>
        match classify it with
        | IEntry k _ _ _ => spec_seen (k :: seen) r
        | _ => spec_seen seen r
        end
    end.

  Definition values_total (items : list nested) : Prop :=
    forall it, In it items -> is_panic (from_meta V it) = false.

  Lemma key_of_no_panic p m : key_of K p <> Panic m.
  Proof. unfold key_of. destruct K; try discriminate. destruct (get_ident p); discriminate. Qed.

  Lemma map_err_not_panic {A} f (r : res A) : is_panic r = false -> forall m, map_err f r <> Panic m.
  Proof. destruct r; cbn; intros H m; try discriminate. Qed.

  (** One step of the loop is one step of the comprehension. *)
  Lemma step_spec st it :
    is_panic (from_meta V it) = false ->
    map_step K V (Ok st) it =
      Ok (mkMs (ms_errs st ++ spec_errs (ms_seen st) [it])
               (spec_seen (ms_seen st) [it])
               (ms_map st ++ spec_map (ms_seen st) [it])).
  Proof.
    intros NP. unfold map_step. cbn [spec_errs spec_map spec_seen]. unfold classify.
    destruct (meta_path it) as [p|] eqn:MP.
    2:{ unfold push. cbn. now rewrite !app_nil_r. }
    fold (value_of it p).
    assert (VP : forall m, value_of it p <> Panic m) by (apply map_err_not_panic; exact NP).
    destruct (key_of K p) as [[k d]|e|m] eqn:KO.
    - destruct (value_of it p) as [v|ve|m] eqn:VR; [| |exfalso; eapply VP; eauto].
      + destruct (mem k (ms_seen st)) eqn:S; unfold push; cbn; rewrite ?app_nil_r; reflexivity.
      + destruct (mem k (ms_seen st)) eqn:S; unfold push; cbn; rewrite ?app_nil_r, <- ?app_assoc; reflexivity.
    - destruct (value_of it p) as [v|ve|m] eqn:VR; [| |exfalso; eapply VP; eauto];
        unfold push; cbn; rewrite ?app_nil_r, <- ?app_assoc; reflexivity.
    - exfalso. eapply key_of_no_panic; eauto.
  Qed.

  Lemma spec_errs_cons seen it r :
    spec_errs seen (it :: r) = spec_errs seen [it] ++ spec_errs (spec_seen seen [it]) r.
  Proof.
    cbn [spec_errs spec_seen]. destruct (classify it); cbn; rewrite ?app_nil_r, <- ?app_assoc; reflexivity.
  Qed.
  Lemma spec_map_cons seen it r :
    spec_map seen (it :: r) = spec_map seen [it] ++ spec_map (spec_seen seen [it]) r.
  Proof.
    cbn [spec_map spec_seen]. destruct (classify it); cbn; rewrite ?app_nil_r, <- ?app_assoc; reflexivity.
  Qed.
  Lemma spec_seen_cons seen it r : spec_seen seen (it :: r) = spec_seen (spec_seen seen [it]) r.
  Proof. cbn [spec_seen]. destruct (classify it); reflexivity. Qed.

  (** The whole loop is the comprehension. *)
  Lemma loop_spec items : forall st,
    values_total items ->
    fold_left (map_step K V) items (Ok st) =
      Ok (mkMs (ms_errs st ++ spec_errs (ms_seen st) items)
               (spec_seen (ms_seen st) items)
               (ms_map st ++ spec_map (ms_seen st) items)).
  Proof.
    induction items as [|it r IH]; intros st T.
    - cbn. rewrite !app_nil_r. now destruct st.
    - cbn [fold_left]. rewrite step_spec by (apply T; now left).
      rewrite IH by (intros x Hx; apply T; now right). cbn [ms_errs ms_seen ms_map].
      rewrite (spec_errs_cons _ it r), (spec_map_cons _ it r), (spec_seen_cons _ it r), <- !app_assoc.
      reflexivity.
  Qed.

  Theorem map_from_list_spec items :
    values_total items ->
    map_from_list K V items =
      match spec_errs [] items with
      | [] => Ok (VMap (spec_map [] items))
      | errs => Err (bundle errs)
      end.
  Proof.
    intros T. unfold map_from_list. rewrite (loop_spec items (mkMs [] [] []) T). cbn [ms_errs ms_map ms_seen app].
    destruct (spec_errs [] items) as [|x [|y r]]; reflexivity.
  Qed.

  (** ** Success exactly when every item is named, every key converts, no key repeats and every
      value converts. *)
  Fixpoint clean (seen : list string) (items : list nested) : bool :=
    match items with
    | [] => true
    | it :: r =>
        match classify it with
        | IEntry k _ _ (Ok _) => negb (mem k seen) && clean (k :: seen) r
        | _ => false
        end
    end.

  Lemma classify_entry_not_panic it k d p m :
    is_panic (from_meta V it) = false -> classify it <> IEntry k d p (Panic m).
  Proof.
    intros NP. unfold classify. destruct (meta_path it) as [q|]; [|discriminate].
    destruct (key_of K q) as [[k' d']|e|m']; try discriminate.
    intros H. injection H as _ _ _ H. revert H. apply map_err_not_panic. exact NP.
  Qed.

  Lemma spec_errs_nil_iff items : forall seen,
    values_total items -> (spec_errs seen items = [] <-> clean seen items = true).
  Proof.
    induction items as [|it r IH]; intros seen T; cbn [spec_errs clean]; [tauto|].
    assert (Tr : values_total r) by (intros x Hx; apply T; now right).
    pose proof (fun k d p m => classify_entry_not_panic it k d p m (T it (or_introl eq_refl))) as NP.
    destruct (classify it) as [|e vr|k d p vr].
    - split; discriminate.
    - split; discriminate.
    - destruct vr as [v|e|m]; cbn [err_of app].
      + destruct (mem k seen); cbn [negb andb app]; [split; discriminate|]. now apply IH.
      + split; [|discriminate]. intros H. apply app_eq_nil in H as [_ H]. discriminate.
      + exfalso. eapply NP; eauto.
  Qed.

  (** When it succeeds the map has exactly one entry per item, in item order, holding the value
      the element type produces for it. *)
  Definition entry_of (it : nested) : option (string * value) :=
    match classify it with
    | IEntry k _ _ (Ok v) => Some (k, v)
    | _ => None
    end.

  Lemma clean_content items : forall seen,
    clean seen items = true -> map Some (spec_map seen items) = map entry_of items.
  Proof.
    induction items as [|it r IH]; intros seen; cbn [clean spec_map map]; [reflexivity|].
    unfold entry_of at 1. destruct (classify it) as [|e vr|k d p vr]; try discriminate.
    destruct vr as [v|e|m]; try discriminate. intros H. apply andb_true_iff in H as [S C].
    apply negb_true_iff in S. rewrite S. cbn [app map]. f_equal. now apply IH.
  Qed.

  Lemma clean_length items seen :
    clean seen items = true -> List.length (spec_map seen items) = List.length items.
  Proof.
    intros C. rewrite <- (map_length Some), (clean_content items seen C). apply map_length.
  Qed.

  (** Keys of a clean list are pairwise distinct (and distinct from the ones seen before). *)
  Lemma clean_keys_nodup items : forall seen,
    clean seen items = true -> NoDup (map fst (spec_map seen items))
      /\ forall k, In k (map fst (spec_map seen items)) -> mem k seen = false.
  Proof.
    induction items as [|it r IH]; intros seen; cbn [clean spec_map]; [intros _; split; [constructor|intros k []]|].
    destruct (classify it) as [|e vr|k d p vr]; try discriminate.
    destruct vr as [v|e|m]; try discriminate. intros H. apply andb_true_iff in H as [S C].
    apply negb_true_iff in S. rewrite S. cbn [app map fst].
    destruct (IH (k :: seen) C) as [ND NI]. split.
    - constructor; [|exact ND]. intros I. specialize (NI k I). cbn in NI.
      unfold str_eqb in NI. rewrite String.eqb_refl in NI. discriminate.
    - intros k' [<-|I]; [exact S|]. specialize (NI k' I). cbn in NI.
      apply orb_false_iff in NI as [_ NI]. exact NI.
  Qed.

  (** ** Error leaves: one per literal item, per repeated occurrence of a key, per unconvertible
      key, plus the leaves of every unconvertible value. *)
  Fixpoint count_literals (items : list nested) : N :=
    match items with
    | [] => 0
    | it :: r => (match classify it with ILiteral => 1 | _ => 0 end + count_literals r)%N
    end.
  Fixpoint count_bad_keys (items : list nested) : N :=
    match items with
    | [] => 0
    | it :: r => (match classify it with IBadKey _ _ => 1 | _ => 0 end + count_bad_keys r)%N
    end.
  Fixpoint count_repeats (seen : list string) (items : list nested) : N :=
    match items with
    | [] => 0
    | it :: r =>
        match classify it with
        | IEntry k _ _ _ => ((if mem k seen then 1 else 0) + count_repeats (k :: seen) r)%N
        | _ => count_repeats seen r
        end
    end.
  Fixpoint count_value_leaves (items : list nested) : N :=
    match items with
    | [] => 0
    | it :: r =>
        (match classify it with
         | IBadKey _ vr | IEntry _ _ _ vr => sumN (map len (err_of vr))
         | ILiteral => 0
         end + count_value_leaves r)%N
    end.

  Lemma len_with_span s e : len (with_span s e) = len e.
  Proof. unfold with_span. destruct (span_of e); [reflexivity|]. destruct e; reflexivity. Qed.

  Lemma key_of_err_leaf p e : key_of K p = Err e -> len e = 1%N.
  Proof.
    unfold key_of. destruct K; try discriminate. destruct (get_ident p); [discriminate|].
    intros [= <-]. reflexivity.
  Qed.

  Lemma classify_bad_key_leaf it e vr : classify it = IBadKey e vr -> len e = 1%N.
  Proof.
    unfold classify. destruct (meta_path it) as [p|]; [|discriminate].
    destruct (key_of K p) as [[k d]|e'|m] eqn:KO; try discriminate.
    intros [= <- _]. eapply key_of_err_leaf; eauto.
  Qed.

  Lemma spec_errs_count items : forall seen,
    sumN (map len (spec_errs seen items)) =
      (count_literals items + count_repeats seen items + count_bad_keys items
       + count_value_leaves items)%N.
  Proof.
    induction items as [|it r IH]; intros seen;
      cbn [spec_errs count_literals count_repeats count_bad_keys count_value_leaves]; [reflexivity|].
    destruct (classify it) as [|e vr|k d p vr] eqn:C.
    - cbn [map]. change (sumN (?a :: ?l)) with (a + sumN l)%N. rewrite IH. cbn [len unsupported_format new_err]. lia.
    - cbn [map]. change (sumN (?a :: ?l)) with (a + sumN l)%N.
      rewrite map_app, sumN_app, IH, (classify_bad_key_leaf it e vr C). lia.
    - rewrite !map_app, !sumN_app, IH. destruct (mem k seen); cbn [map sumN fold_right].
      + unfold dup_err. rewrite len_with_span. cbn [len new_err]. lia.
      + lia.
  Qed.
End MapSpec.
