(** Conv/ListParse.v — [Parse for NestedMeta] and [NestedMeta::parse_meta_list]
    (core/src/ast/data.rs:422-442) over a pre-lexed token stream.

    The stream is a table with one row per top-level token tree.  A row records what syn's
    look-ahead says at that position and how many token trees syn's own [Lit] / [Meta] parser
    would consume if started there (oracle; [None] = that parser fails).  What darling adds is
    the routing rule [classify] and the comma loop of [Punctuated::parse_terminated]. *)
From DarlingModel Require Export Base.Prelude.

Record row : Type := mkRow {
  is_comma : bool;
  peek_lit : bool;          (* input.peek(syn::Lit) *)
  peek_litbool : bool;      (* input.peek(syn::LitBool) *)
  peek2_eq : bool;          (* input.peek2(Token![=]) *)
  peek_ident : bool;        (* input.peek(Ident::peek_any) *)
  peek_colon2 : bool;       (* input.peek(Token![::]) *)
  peek3_ident : bool;       (* input.peek3(Ident::peek_any) *)
  lit_len : option nat;
  meta_len : option nat;
}.

Inductive route : Type := RLit | RMeta | RError.

(** The condition chain of [impl Parse for NestedMeta]. *)
Definition classify (r : row) : route :=
  if (peek_lit r && negb (peek_litbool r && peek2_eq r))%bool then RLit
  else if (peek_ident r || (peek_colon2 r && peek3_ident r))%bool then RMeta
  else RError.

(** An item: which parser produced it, where it starts, how many token trees it spans. *)
Inductive pitem : Type := PItem (is_lit : bool) (start len : nat).

Definition item_at (tbl : list row) (p : nat) : option pitem :=
  match nth_error tbl p with
  | None => None
  | Some r =>
      match classify r with
      | RLit => option_map (PItem true p) (lit_len r)
      | RMeta => option_map (PItem false p) (meta_len r)
      | RError => None
      end
  end.

Definition item_len (it : pitem) : nat := match it with PItem _ _ n => n end.

(** [Punctuated::parse_terminated]: loop { if empty break; value; if empty break; punct }. *)
Fixpoint parse_loop (fuel : nat) (tbl : list row) (p : nat) : option (list pitem) :=
  match fuel with
  | O => None
  | S f =>
      match nth_error tbl p with
      | None => Some []
      | Some _ =>
          match item_at tbl p with
          | None => None
          | Some it =>
              let q := (p + item_len it)%nat in
              match nth_error tbl q with
              | None => Some [it]
              | Some r =>
                  if is_comma r
                  then option_map (cons it) (parse_loop f tbl (S q))
                  else None
              end
          end
      end
  end.

Definition parse_meta_list (tbl : list row) : option (list pitem) :=
  parse_loop (S (List.length tbl)) tbl 0.

(** Specification: a comma-separated sequence of items, optional trailing comma, possibly empty. *)
Inductive Seq (tbl : list row) : nat -> list pitem -> Prop :=
| SeqEnd p : nth_error tbl p = None -> Seq tbl p []
| SeqLast p it : item_at tbl p = Some it -> nth_error tbl (p + item_len it) = None -> Seq tbl p [it]
| SeqCons p it r rest :
    item_at tbl p = Some it ->
    nth_error tbl (p + item_len it) = Some r -> is_comma r = true ->
    Seq tbl (S (p + item_len it)) rest ->
    Seq tbl p (it :: rest).
