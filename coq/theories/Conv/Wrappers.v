(** Conv/Wrappers.v — wrapper types as transformers of implementers
    (core/src/from_meta.rs:560-650, util/{over_ride,spanned_value,with_original,flag}.rs). *)
From DarlingModel Require Export Conv.Scalars.
Local Open Scope string_scope.

(** [Option<T>]: [from_none] = [Some(None)]; [from_meta] = [T::from_meta(item).map(Some)]. *)
Definition option_fm (T : fm) : fm :=
  mkFm None (Some (fun m => map_ok VSome (from_meta T m))) (Some (Some VNone))
       None None None None None None None.

(** [smart_pointer_t!]: Box / Rc / Arc / RefCell forward [from_none], [from_list], [from_meta]. *)
Definition ptr_fm (T : fm) : fm :=
  mkFm None (Some (fun m => map_ok VPtr (from_meta T m))) (Some (option_map VPtr (from_none T)))
       None (Some (fun items => map_ok VPtr (from_list T items))) None None None None None.

(** [darling::Result<T>]: never fails outwardly. *)
Definition as_result (r : res value) : res value :=
  match r with
  | Ok v => Ok (VResOk v)
  | Err e => Ok (VResErr e)
  | Panic m => Panic m
  end.
Definition result_fm (T : fm) : fm :=
  mkFm None (Some (fun m => as_result (from_meta T m))) (Some (option_map VResOk (from_none T)))
       None (Some (fun items => as_result (from_list T items))) None None None None None.

(** [Result<T, Meta>]: keeps the original item on failure. *)
Definition result_meta_fm (T : fm) : fm :=
  mkFm None
       (Some (fun m =>
                match from_meta T m with
                | Ok v => Ok (VMetaOk v)
                | Err _ => Ok (VMetaErr (i_toks (ninfo m)))
                | Panic msg => Panic msg
                end))
       None None None None None None None None.

(** [Override<T>]: the bare word is [Inherit]; every other meta item is handed to
    [T::from_meta]; the literal hooks forward to [T] (used for a bare literal in a list and by
    flatten's direct [from_list] call). *)
Definition override_fm (T : fm) : fm :=
  mkFm None
       (Some (fun m =>
                match m with
                | NPath _ _ => Ok VInherit
                | _ => map_ok VExplicit (from_meta T m)
                end))
       None (Some (Ok VInherit))
       (Some (fun items => map_ok VExplicit (from_list T items)))
       (Some (fun i l => map_ok VExplicit (from_value T i l)))
       None
       (Some (fun c => map_ok VExplicit (from_char T c)))
       (Some (fun s => map_ok VExplicit (from_string T s)))
       (Some (fun b => map_ok VExplicit (from_bool T b))).

(** [SpannedValue<T>] *)
Definition spanned_span (m : nested) : span :=
  match m with
  | NPath _ p => i_span (p_info p)
  | NList _ _ ti _ | NBadList _ _ ti _ _ => i_span ti
  | NNameValue _ _ e => i_span (einfo e)
  | NLit i _ => i_span i
  end.
Definition spanned_fm (T : fm) : fm :=
  mkFm (Some (fun n => map_err (with_span (i_span (ninfo n)))
                         (map_ok (fun v => VSpanned v (i_span (ninfo n))) (from_nested T n))))
       (Some (fun m => map_ok (fun v => VSpanned v (spanned_span m))
                         (map_err (with_span (i_span (ninfo m))) (from_meta T m))))
       None None None
       (Some (fun i l => map_err (with_span (i_span i))
                           (map_ok (fun v => VSpanned v (i_span i)) (from_value T i l))))
       (Some (fun e => map_err (with_span (i_span (einfo e)))
                         (map_ok (fun v => VSpanned v (i_span (einfo e))) (from_expr T e))))
       None None None.

(** [WithOriginal<T, Meta>] *)
Definition with_original_fm (T : fm) : fm :=
  mkFm None (Some (fun m => map_ok (fun v => VWithOrig v (i_toks (ninfo m))) (from_meta T m)))
       None None None None None None None None.

(** [Flag] *)
Definition flag_fm : fm :=
  mkFm None
       (Some (fun m =>
                match m with
                | NPath _ p => Ok (VFlag (Some (i_span (p_info p))))
                | _ =>
                    match from_meta unit_fm m with
                    | Err e => Err e
                    | Ok _ => Panic "called `Result::unwrap_err()` on an `Ok` value"
                    | Panic msg => Panic msg
                    end
                end))
       (Some (Some (VFlag None))) None None None None None None None.
