(** Conv/RoutingProofs.v — facts about the default method bodies of [FromMeta], for every
    implementer (every subset of overridden hooks): used by C12, C13, C15 and C03. *)
From DarlingModel Require Import Conv.Routing.
Local Open Scope string_scope.

Lemma with_span_spanned s e : span_of e <> None -> with_span s e = e.
Proof. unfold with_span. destruct (span_of e); [reflexivity|congruence]. Qed.

Lemma with_span_sets s e : span_of (with_span s e) <> None.
Proof.
  unfold with_span. destruct (span_of e) eqn:E; [now rewrite E|]. destruct e; cbn; discriminate.
Qed.

Lemma with_span_keeps s e x : span_of e = Some x -> span_of (with_span s e) = Some x.
Proof. intros H. unfold with_span. now rewrite H. Qed.

Lemma with_span_fills s e : span_of e = None -> span_of (with_span s e) = Some s.
Proof. intros H. unfold with_span. rewrite H. destruct e; reflexivity. Qed.

Lemma map_err_with_span_err {A} s (r : res A) e :
  map_err (with_span s) r = Err e -> span_of e <> None.
Proof. destruct r; cbn; try discriminate. intros [= <-]. apply with_span_sets. Qed.

Lemma map_err_id_on_spanned {A} s (r : res A) :
  (forall e, r = Err e -> span_of e <> None) -> map_err (with_span s) r = r.
Proof. destruct r as [a|e|m]; cbn; intros H; try reflexivity. now rewrite with_span_spanned by (now apply H). Qed.

Section AnyImplementer.
  Variable F : fm.

  (** Errors leaving the default [from_expr] are always spanned. *)
  Lemma default_from_expr_err_spanned e x : default_from_expr F e = Err x -> span_of x <> None.
  Proof. destruct e; cbn [default_from_expr]; apply map_err_with_span_err. Qed.

  (** Invisible groups are exactly transparent, at any nesting depth. *)
  Lemma default_from_expr_group i g : default_from_expr F (EGroup i g) = default_from_expr F g.
  Proof.
    cbn [default_from_expr]. apply map_err_id_on_spanned. intros x. apply default_from_expr_err_spanned.
  Qed.


  Lemma default_from_expr_strip e : default_from_expr F e = default_from_expr F (strip_groups e).
  Proof.
    induction e as [i l | i g IH | i p | i es | i k | i nl]; try reflexivity.
    cbn [strip_groups]. now rewrite default_from_expr_group.
  Qed.

  Lemma strip_groups_not_group e : forall i g, strip_groups e <> EGroup i g.
  Proof. induction e; cbn; intros; try discriminate. apply IHe. Qed.

  (** The routing table of the default dispatchers.  Each line: the form of the item, the one
      hook it reaches, and the spans applied on the way back (innermost first; the first one
      to find the error unspanned wins). *)
  Definition ws {A} (i : info) (r : res A) : res A := map_err (with_span (i_span i)) r.

  Lemma route_word i p : default_from_meta F (NPath i p) = ws i (from_word F).
  Proof. reflexivity. Qed.
  Lemma route_list i p ti items : default_from_meta F (NList i p ti items) = ws i (from_list F items).
  Proof. reflexivity. Qed.
  Lemma route_bad_list i p ti es msg :
    default_from_meta F (NBadList i p ti es msg) = Err (Leaf (KCustom msg) [] (Some es)).
  Proof. reflexivity. Qed.
  Lemma route_name_value i p e : default_from_meta F (NNameValue i p e) = ws i (from_expr F e).
  Proof. reflexivity. Qed.

  Lemma route_expr_lit e j l :
    strip_groups e = ELit j l -> default_from_expr F e = ws j (from_value F j l).
  Proof. intros H. rewrite default_from_expr_strip, H. reflexivity. Qed.

  (** the negation of a numeric literal (what syn makes of `name = -1` before another item) is
      the negative literal *)
  Lemma route_expr_neg e j l :
    strip_groups e = ENeg j l -> is_numeric l = true -> default_from_expr F e = ws j (from_value F j l).
  Proof. intros H N. rewrite default_from_expr_strip, H. cbn [default_from_expr]. now rewrite N. Qed.

  Lemma route_expr_other e :
    (forall j l, strip_groups e <> ELit j l) -> (forall j l, strip_groups e <> ENeg j l) ->
    default_from_expr F e = Err (unexpected_expr_type (strip_groups e)).
  Proof.
    intros H H'. rewrite default_from_expr_strip.
    pose proof (strip_groups_not_group e) as G.
    destruct (strip_groups e) as [j l | j g | j p | j es | j k | j nl] eqn:E; cbn [default_from_expr].
    - exfalso. eapply H; eauto.
    - exfalso. eapply G; eauto.
    - reflexivity.
    - reflexivity.
    - reflexivity.
    - exfalso. eapply H'; eauto.
  Qed.

  Lemma route_value_bool i b : default_from_value F i (LBool b) = ws i (from_bool F b).
  Proof. reflexivity. Qed.
  Lemma route_value_string i s : default_from_value F i (LStr s) = ws i (from_string F s).
  Proof. reflexivity. Qed.
  Lemma route_value_char i c : default_from_value F i (LChar c) = ws i (from_char F c).
  Proof. reflexivity. Qed.
  Lemma route_value_other i l :
    (forall b, l <> LBool b) -> (forall s, l <> LStr s) -> (forall c, l <> LChar c) ->
    default_from_value F i l = Err (Leaf (KUnexpectedType (lit_type_name l)) [] (Some (i_span i))).
  Proof. intros Hb Hs Hc. destruct l; try reflexivity; exfalso; [eapply Hb|eapply Hs|eapply Hc]; eauto. Qed.

  Lemma route_nested_lit i l : default_from_nested F (NLit i l) = ws i (from_value F i l).
  Proof. reflexivity. Qed.
  Lemma route_nested_meta n : is_meta n = true -> default_from_nested F n = ws (ninfo n) (from_meta F n).
  Proof. destruct n; cbn; try discriminate; reflexivity. Qed.

  (** Hooks left at their default reject with the documented kind of error. *)
  Lemma default_rejections :
    (o_word F = None -> from_word F = Err (Leaf (KUnexpectedFormat "word") [] None))
    /\ (o_list F = None -> forall items, from_list F items = Err (Leaf (KUnexpectedFormat "list") [] None))
    /\ (o_bool F = None -> forall b, from_bool F b = Err (Leaf (KUnexpectedType "bool") [] None))
    /\ (o_string F = None -> forall s, from_string F s = Err (Leaf (KUnexpectedType "string") [] None))
    /\ (o_char F = None -> forall c, from_char F c = Err (Leaf (KUnexpectedType "char") [] None))
    /\ (o_none F = None -> from_none F = None).
  Proof.
    unfold from_word, from_list, from_bool, from_string, from_char, from_none.
    repeat split; intros H; rewrite H; reflexivity.
  Qed.

  (** Whatever the hooks do, an error that comes back through the default dispatchers carries
      a span ... *)
  Lemma default_from_nested_err_spanned n x : default_from_nested F n = Err x -> span_of x <> None.
  Proof. unfold default_from_nested. apply map_err_with_span_err. Qed.

  Lemma default_from_meta_err_spanned' m x :
    is_meta m = true -> default_from_meta F m = Err x -> span_of x <> None.
  Proof.
    destruct m; cbn [default_from_meta is_meta]; try discriminate; intros _;
      try apply map_err_with_span_err.
    intros [= <-]. cbn. discriminate.
  Qed.

  (** ... and an error that already carried one comes back unchanged. *)
  Lemma ws_keeps_spanned {A} i (e : err) : span_of e <> None -> ws (A:=A) i (Err e) = Err e.
  Proof. intros H. unfold ws. cbn. now rewrite with_span_spanned. Qed.
End AnyImplementer.
