(** Conv/Maps.v — the [map!] macro body (core/src/from_meta.rs:711-806) shared by
    HashMap<String|Ident|Path, V> and BTreeMap<String|Ident, V>. *)
From DarlingModel Require Export Conv.Scalars.
Local Open Scope string_scope.

Inductive keykind : Type := KString | KIdent | KPath.

(** [KeyFromPath::from_path] / [to_display]: (canonical key, display string). *)
Definition key_of (k : keykind) (p : path) : res (string * string) :=
  match k with
  | KString => Ok (path_to_string p, path_to_string p)
  | KPath => Ok (i_toks (p_info p), path_to_string p)
  | KIdent =>
      match get_ident p with
      | Some id => Ok (id, id)
      | None => Err (with_span (i_span (p_info p)) (custom "Key must be an identifier"))
      end
  end.

Record mstate : Type := mkMs {
  ms_errs : list err;                     (* the accumulator *)
  ms_seen : list string;                  (* seen_keys *)
  ms_map : list (string * value);         (* the map under construction, in insertion order *)
}.

Definition mem (k : string) (l : list string) : bool := existsb (str_eqb k) l.

Definition push (e : err) (st : mstate) : mstate :=
  mkMs (ms_errs st ++ [e])%list (ms_seen st) (ms_map st).

Section Map.
  Variable K : keykind.
  Variable V : fm.

  Definition map_step (acc : res mstate) (item : nested) : res mstate :=
    match acc with
    | Ok st =>
        match meta_path item with
        | None => Ok (push (unsupported_format "expression") st)
        | Some p =>
            match map_err (at_ (path_to_string p)) (from_meta V item) with
            | Panic m => Panic m
            | value =>
                match key_of K p with
                | Panic m => Panic m
                | Err e =>
                    let st1 := push e st in
                    Ok (match value with Err ve => push ve st1 | _ => st1 end)
                | Ok (key, disp) =>
                    let seen := mem key (ms_seen st) in
                    let st1 :=
                      if seen
                      then push (with_span (i_span (p_info p)) (new_err (KDuplicateField disp))) st
                      else st in
                    let st2 :=
                      match value with
                      | Ok v => if seen then st1
                                else mkMs (ms_errs st1) (ms_seen st1) (ms_map st1 ++ [(key, v)])%list
                      | Err ve => push ve st1
                      | Panic _ => st1
                      end in
                    Ok (mkMs (ms_errs st2) (key :: ms_seen st2) (ms_map st2))
                end
            end
        end
    | other => other
    end.

  Definition map_from_list (items : list nested) : res value :=
    match fold_left map_step items (Ok (mkMs [] [] [])) with
    | Ok st =>
        match ms_errs st with
        | [] => Ok (VMap (ms_map st))
        | errs => match multiple errs with POk e => Err e | PPanic m => Panic m end
        end
    | Err e => Err e
    | Panic m => Panic m
    end.

  Definition map_fm : fm :=
    mkFm None None None None (Some map_from_list) None None None None None.
End Map.
