(** Conv/Routing.v — the [FromMeta] trait (core/src/from_meta.rs:54-156) as a record of optional
    overrides plus the default method bodies.  An implementer is a value of [fm]; "which hooks a
    type overrides" is therefore data the theorems quantify over.  Definitions only. *)
From DarlingModel Require Export Base.Syntax.
Local Open Scope string_scope.

Record fm : Type := mkFm {
  o_nested : option (nested -> res value);          (* from_nested_meta *)
  o_meta   : option (nested -> res value);          (* from_meta *)
  o_none   : option (option value);                 (* from_none *)
  o_word   : option (res value);                    (* from_word *)
  o_list   : option (list nested -> res value);     (* from_list *)
  o_value  : option (info -> lit -> res value);     (* from_value *)
  o_expr   : option (expr -> res value);            (* from_expr *)
  o_char   : option (N -> res value);               (* from_char *)
  o_string : option (string -> res value);          (* from_string *)
  o_bool   : option (bool -> res value);            (* from_bool *)
}.

(** The implementer that overrides nothing. *)
Definition fm_default : fm := mkFm None None None None None None None None None None.

Definition is_numeric (l : lit) : bool := match l with LInt _ _ | LFloat _ _ => true | _ => false end.

Section Defaults.
  Variable F : fm.

  Definition from_none : option value :=
    match o_none F with Some r => r | None => None end.

  Definition from_word : res value :=
    match o_word F with Some r => r | None => Err (unsupported_format "word") end.

  Definition from_list (items : list nested) : res value :=
    match o_list F with Some f => f items | None => Err (unsupported_format "list") end.

  Definition from_char (c : N) : res value :=
    match o_char F with Some f => f c | None => Err (unexpected_type "char") end.

  Definition from_string (s : string) : res value :=
    match o_string F with Some f => f s | None => Err (unexpected_type "string") end.

  Definition from_bool (b : bool) : res value :=
    match o_bool F with Some f => f b | None => Err (unexpected_type "bool") end.

  (** default [from_value]: dispatch on the literal kind, then [with_span(value)] *)
  Definition default_from_value (i : info) (l : lit) : res value :=
    map_err (with_span (i_span i))
      (match l with
       | LBool b => from_bool b
       | LStr s => from_string s
       | LChar c => from_char c
       | _ => Err (unexpected_lit_type i l)
       end).

  Definition from_value (i : info) (l : lit) : res value :=
    match o_value F with Some f => f i l | None => default_from_value i l end.

  (** default [from_expr]: literal -> [from_value]; invisible group -> transparent; else error;
      then [with_span(expr)].  (The recursive call is to [Self::from_expr], which on this path
      is this default.) *)
  Fixpoint default_from_expr (e : expr) : res value :=
    map_err (with_span (i_span (einfo e)))
      (match e with
       | ELit i l => from_value i l
       | ENeg i l =>                       (* -1 before another item means the literal -1; only numbers negate *)
           if is_numeric l then from_value i l else Err (unexpected_expr_type (ENeg i l))
       | EGroup _ g => default_from_expr g
       | _ => Err (unexpected_expr_type e)
       end).

  Definition from_expr (e : expr) : res value :=
    match o_expr F with Some f => f e | None => default_from_expr e end.

  (** default [from_meta].  The [?] on [parse_meta_list] leaves the function before the
      [map_err]; syn's error is already spanned. *)
  Definition default_from_meta (m : nested) : res value :=
    match m with
    | NPath i _ => map_err (with_span (i_span i)) from_word
    | NList i _ _ items => map_err (with_span (i_span i)) (from_list items)
    | NBadList _ _ _ es msg => Err (from_syn es msg)
    | NNameValue i _ e => map_err (with_span (i_span i)) (from_expr e)
    | NLit _ _ => Panic "model: from_meta applied to a literal"
    end.

  Definition from_meta (m : nested) : res value :=
    match o_meta F with Some f => f m | None => default_from_meta m end.

  Definition default_from_nested (n : nested) : res value :=
    map_err (with_span (i_span (ninfo n)))
      (match n with
       | NLit i l => from_value i l
       | _ => from_meta n
       end).

  Definition from_nested (n : nested) : res value :=
    match o_nested F with Some f => f n | None => default_from_nested n end.
End Defaults.

(** Which hook an item reaches when nothing above it is overridden (C15's routing table). *)
Inductive hook : Type :=
| HWord | HList | HBool | HString | HChar | HLit (* generic literal: rejected by default *)
| HExpr (* non-literal expression: rejected by default *) | HBadList.

Fixpoint expr_hook (e : expr) : hook :=
  match e with
  | ELit _ (LBool _) => HBool
  | ELit _ (LStr _) => HString
  | ELit _ (LChar _) => HChar
  | ELit _ _ => HLit
  | EGroup _ g => expr_hook g
  | ENeg _ _ => HLit
  | _ => HExpr
  end.

Definition item_hook (n : nested) : hook :=
  match n with
  | NLit _ (LBool _) => HBool
  | NLit _ (LStr _) => HString
  | NLit _ (LChar _) => HChar
  | NLit _ _ => HLit
  | NPath _ _ => HWord
  | NList _ _ _ _ => HList
  | NBadList _ _ _ _ _ => HBadList
  | NNameValue _ _ e => expr_hook e
  end.
