(** Options/SpecBridge.v — the reading of C10 (Spec/C10.v: counts of option NAMES and "the value is
    in its accepted form", no state) and the model's order-sensitive option chains
    (Options/Resolve.v) accept the same declarations, element by element: a field's options
    ([field_wf]), for any attribute list, in any order and any split. *)
From DarlingModel Require Import Options.Resolve Options.FieldOrderProofs Spec.C10.
From Coq Require Import Permutation ZifyBool Lia.
Local Open Scope string_scope.
Local Open Scope list_scope.

Lemma forallb_Forall_true {A} (f : A -> bool) l : forallb f l = true -> Forall (fun x => f x = true) l.
Proof. intros H. apply Forall_forall. now apply forallb_forall. Qed.

(** ** generic facts about [parse_attributes] *)
Section Generic.
  Context {S : Type}.
  Variable stepf : S -> nested -> arm S.

  Lemma items_fold_prefix items : forall (s : S) errs,
    exists more, snd (fold_left (items_step stepf) items (s, errs)) = errs ++ more.
  Proof.
    induction items as [|it r IH]; intros s errs; cbn [fold_left]; [exists []; now rewrite app_nil_r|].
    unfold items_step at 2. destruct it; try (destruct (stepf s _) as [s' o]);
      match goal with |- context [fold_left _ r (?s1, ?e1)] => destruct (IH s1 e1) as [m Hm]; rewrite Hm end;
      rewrite <- app_assoc; eauto.
  Qed.

  Lemma attrs_fold_prefix attrs : forall (s : S) errs,
    exists more, snd (fold_left (attr_step stepf) attrs (s, errs)) = errs ++ more.
  Proof.
    induction attrs as [|a r IH]; intros s errs; cbn [fold_left]; [exists []; now rewrite app_nil_r|].
    destruct a as [i l|i p|i p ti items|i p ti es msg|i p e]; cbn [attr_step].
    - apply IH.
    - apply IH.
    - destruct (items_fold_prefix items s errs) as [m Hm].
      destruct (fold_left (items_step stepf) items (s, errs)) as [s1 e1]. cbn [snd] in Hm. subst e1.
      destruct (IH s1 (errs ++ m)) as [m2 Hm2]. rewrite Hm2, <- app_assoc. eauto.
    - destruct (IH s (errs ++ [from_syn es msg])) as [m Hm]. rewrite Hm, <- app_assoc. eauto.
    - destruct (IH s (errs ++ [name_value_error i])) as [m Hm]. rewrite Hm, <- app_assoc. eauto.
  Qed.

  (** a literal among the items of an attribute is an error *)
  Lemma items_literal_error items : forall (s : S) errs,
    forallb is_meta items = false -> snd (fold_left (items_step stepf) items (s, errs)) <> [].
  Proof.
    induction items as [|it r IH]; intros s errs H; [discriminate|]. cbn [forallb] in H. cbn [fold_left].
    destruct (is_meta it) eqn:M.
    - cbn [andb] in H. unfold items_step at 2. destruct it; try discriminate; destruct (stepf s _) as [s' o]; now apply IH.
    - destruct it; try discriminate. unfold items_step at 2.
      destruct (items_fold_prefix r s (errs ++ [with_span (i_span i) (unsupported_format "literal")])) as [m Hm].
      rewrite Hm. intros E. apply app_eq_nil in E as [E _]. apply app_eq_nil in E as [_ E]. discriminate.
  Qed.

  (** the attributes an element may carry: never a literal *)
  Definition attr_shaped (a : nested) : Prop := match a with NLit _ _ => False | _ => True end.

  (** no error means every attribute is a word or a list of meta items, and [all_items] is their
      concatenation *)
  Lemma accepted_attrs_are_lists attrs : Forall attr_shaped attrs -> forall (s : S) errs,
    snd (fold_left (attr_step stepf) attrs (s, errs)) = [] ->
    all_items attrs = Some (flat_items attrs) /\ Forall list_attr attrs.
  Proof.
    induction 1 as [|a r Ha _ IH]; intros s errs E; [split; [reflexivity|constructor]|].
    cbn [fold_left] in E. destruct a as [i l|i p|i p ti items|i p ti es msg|i p e]; cbn [attr_step] in E; try contradiction.
    - destruct (IH s errs E) as [A B]. cbn [all_items attr_items flat_items]. rewrite A. split; [reflexivity|constructor; [exact I|exact B]].
    - destruct (forallb is_meta items) eqn:M.
      + destruct (fold_left (items_step stepf) items (s, errs)) as [s1 e1] eqn:F.
        destruct (IH s1 e1 E) as [A B]. cbn [all_items attr_items flat_items]. rewrite M, A. split; [reflexivity|].
        constructor; [|exact B]. cbn. now apply forallb_Forall_true.
      + exfalso. pose proof (items_literal_error items s errs M) as NE.
        destruct (fold_left (items_step stepf) items (s, errs)) as [s1 e1]. cbn [snd] in NE.
        destruct (attrs_fold_prefix r s1 e1) as [m Hm]. rewrite Hm in E. apply app_eq_nil in E as [E _]. contradiction.
    - exfalso. destruct (attrs_fold_prefix r s (errs ++ [from_syn es msg])) as [m Hm]. rewrite Hm in E.
      apply app_eq_nil in E as [E _]. apply app_eq_nil in E as [_ E]. discriminate.
    - exfalso. destruct (attrs_fold_prefix r s (errs ++ [name_value_error i])) as [m Hm]. rewrite Hm in E.
      apply app_eq_nil in E as [E _]. apply app_eq_nil in E as [_ E]. discriminate.
  Qed.
End Generic.

(** ** one field: [field_wf] (Spec/C10.v) = the order-free predicate on option kinds *)
Section FieldBridge.
  Variable reparse : grammar -> string -> option string.
  Variable reparse_preds : string -> option (list string).
  Notation conv := (conv reparse reparse_preds).
  Notation view := (view reparse reparse_preds).
  Notation field_step := (field_step reparse reparse_preds).
  Notation field_wf := (field_wf reparse reparse_preds).
  Notation field_value_ok := (field_value_ok reparse reparse_preds).
  Notation val_is := (val_is reparse reparse_preds).

  (** what the conversions of the option values return when they succeed (each is a fact about
      Conv/*; discharged below for the model's converters) *)
  Hypothesis T_rename : forall mi v, conv (TOption TString) mi = Ok v -> exists s, v = VSome (VStr s).
  Hypothesis T_skip : forall mi v, conv (TOption (TSpanned TBool)) mi = Ok v -> exists b, as_bool v = Some b.
  Hypothesis T_multiple : forall mi v, conv (TOption TBool) mi = Ok v -> exists b, as_bool v = Some b.
  Hypothesis T_flatten : forall mi v, conv TFlag mi = Ok v -> exists sp, v = VFlag (Some sp).

  Definition fnames : list string := ["rename"; "default"; "with"; "skip"; "map"; "and_then"; "multiple"; "flatten"].

  Lemma names_excl mi a b : a <> b -> mpath_is mi a = true -> mpath_is mi b = false.
  Proof.
    intros N A. destruct (mpath_is mi b) eqn:B; [|reflexivity]. exfalso. apply N. exact (mpath_is_excl mi a b A B).
  Qed.

  Ltac other_names mi a H :=
    repeat match goal with
           | |- context [mpath_is mi ?n] => rewrite (names_excl mi a n ltac:(discriminate) H)
           end.

  (** an item is "bad" for the chain exactly when the reading rejects it: unknown name or value
      not in its accepted form *)
  Lemma bad_iff_rejected mi :
    is_bad (view mi) = negb (existsb (mpath_is mi) fnames && field_value_ok mi).
  Proof.
    unfold view, Spec.C10.field_value_ok, fnames. cbn [existsb].
    destruct (mpath_is mi "rename") eqn:N1.
    { other_names mi "rename" N1. cbn [orb andb]. destruct (conv (TOption TString) mi) as [v|e|m] eqn:C; try reflexivity.
      destruct (T_rename mi v C) as [s ->]. reflexivity. }
    destruct (mpath_is mi "default") eqn:N2.
    { other_names mi "default" N2. cbn [orb andb]. destruct (conv_default reparse mi); reflexivity. }
    destruct (mpath_is mi "with") eqn:N3.
    { other_names mi "with" N3. cbn [orb andb]. destruct (conv TCallable mi); reflexivity. }
    destruct (mpath_is mi "skip") eqn:N4.
    { other_names mi "skip" N4. cbn [orb andb]. destruct (conv (TOption (TSpanned TBool)) mi) as [v|e|m] eqn:C; try reflexivity.
      destruct (T_skip mi v C) as [b ->]. reflexivity. }
    destruct (mpath_is mi "map") eqn:N5.
    { other_names mi "map" N5. cbn [orb andb]. destruct (conv TPath mi); reflexivity. }
    destruct (mpath_is mi "and_then") eqn:N6.
    { other_names mi "and_then" N6. cbn [orb andb]. destruct (conv TPath mi); reflexivity. }
    destruct (mpath_is mi "multiple") eqn:N7.
    { other_names mi "multiple" N7. cbn [orb andb]. destruct (conv (TOption TBool) mi) as [v|e|m] eqn:C; try reflexivity.
      destruct (T_multiple mi v C) as [b ->]. reflexivity. }
    destruct (mpath_is mi "flatten") eqn:N8.
    { cbn [orb andb]. destruct (conv TFlag mi) as [v|e|m] eqn:C; try reflexivity.
      destruct (T_flatten mi v C) as [sp ->]. reflexivity. }
    reflexivity.
  Qed.

  (** for an item the reading accepts, its kind is its name (and `= true` is told by the value) *)
  Lemma kind_is_name mi : is_bad (view mi) = false ->
    is_rename (view mi) = mpath_is mi "rename" /\ is_default (view mi) = mpath_is mi "default"
    /\ is_with (view mi) = mpath_is mi "with" /\ is_skip (view mi) = mpath_is mi "skip"
    /\ is_post (view mi) = (mpath_is mi "map" || mpath_is mi "and_then")%bool
    /\ is_multiple (view mi) = mpath_is mi "multiple" /\ is_flatten (view mi) = mpath_is mi "flatten"
    /\ is_skip_true (view mi) = (mpath_is mi "skip" && val_is (TOption (TSpanned TBool)) true mi)%bool
    /\ is_multiple_true (view mi) = (mpath_is mi "multiple" && val_is (TOption TBool) true mi)%bool.
  Proof.
    unfold view, Spec.C10.val_is.
    destruct (mpath_is mi "rename") eqn:N1.
    { other_names mi "rename" N1. destruct (conv (TOption TString) mi) as [[]| |]; try discriminate.
      destruct v; try discriminate. intros _. repeat split. }
    destruct (mpath_is mi "default") eqn:N2.
    { other_names mi "default" N2. destruct (conv_default reparse mi); try discriminate. intros _. repeat split. }
    destruct (mpath_is mi "with") eqn:N3.
    { other_names mi "with" N3. destruct (conv TCallable mi); try discriminate. intros _. repeat split. }
    destruct (mpath_is mi "skip") eqn:N4.
    { other_names mi "skip" N4. destruct (conv (TOption (TSpanned TBool)) mi) as [v|e|m]; try discriminate.
      destruct (as_bool v) as [[]|]; try discriminate; intros _; repeat split. }
    destruct (mpath_is mi "map") eqn:N5.
    { other_names mi "map" N5. destruct (conv TPath mi); try discriminate. intros _. repeat split. }
    destruct (mpath_is mi "and_then") eqn:N6.
    { other_names mi "and_then" N6. destruct (conv TPath mi); try discriminate. intros _. repeat split. }
    destruct (mpath_is mi "multiple") eqn:N7.
    { other_names mi "multiple" N7. destruct (conv (TOption TBool) mi) as [v|e|m]; try discriminate.
      destruct (as_bool v) as [[]|]; try discriminate; intros _; repeat split. }
    destruct (mpath_is mi "flatten") eqn:N8.
    { destruct (conv TFlag mi) as [v| |]; try discriminate. destruct v; try discriminate.
      match goal with |- context [match ?o with Some _ => _ | None => _ end] => destruct o end; try discriminate. intros _. repeat split. }
    discriminate.
  Qed.

  (** *** counting lemmas *)
  Lemma cnt_map_view p l : cnt p (map view l) = List.length (filter (fun mi => p (view mi)) l).
  Proof. unfold cnt. induction l as [|x r IH]; [reflexivity|]. cbn [map filter]. destruct (p (view x)); cbn [List.length]; now rewrite IH. Qed.

  Lemma length_filter_ext {A} (f g : A -> bool) l : (forall x, In x l -> f x = g x) -> List.length (filter f l) = List.length (filter g l).
  Proof. intros H. now rewrite (filter_ext_in f g l H). Qed.

  Lemma length_filter_or {A} (f g : A -> bool) l : (forall x, In x l -> (f x && g x)%bool = false) ->
    List.length (filter (fun x => (f x || g x)%bool) l) = (List.length (filter f l) + List.length (filter g l))%nat.
  Proof.
    induction l as [|x r IH]; intros H; [reflexivity|]. cbn [filter].
    pose proof (H x (or_introl eq_refl)) as Hx. assert (Hr : forall y, In y r -> (f y && g y)%bool = false) by (intros y Hy; apply H; now right).
    specialize (IH Hr). destruct (f x), (g x); cbn [orb List.length] in *; try discriminate; lia.
  Qed.

  Lemma existsb_filter {A} (f : A -> bool) l : negb (existsb f l) = Nat.eqb (List.length (filter f l)) 0.
  Proof. induction l as [|x r IH]; [reflexivity|]. cbn [existsb filter]. destruct (f x); [reflexivity|exact IH]. Qed.

  (** the reading's predicate on the items of one field *)
  Definition field_items_wf (items : list nested) : bool :=
    known_only fnames items
    && at_most_once ["rename"; "default"; "with"; "skip"; "multiple"; "flatten"] items
    && Nat.leb (count "map" items + count "and_then" items) 1
    && forallb field_value_ok items
    && (Nat.eqb (count "flatten" items) 0
        || (Nat.eqb (count "rename" items) 0 && Nat.eqb (count "with" items) 0
            && negb (existsb (fun mi => mpath_is mi "skip" && val_is (TOption (TSpanned TBool)) true mi) items)
            && negb (existsb (fun mi => mpath_is mi "multiple" && val_is (TOption TBool) true mi) items))).

  Lemma field_wf_items attrs items : all_items attrs = Some items -> field_wf attrs = field_items_wf items.
  Proof. intros H. unfold Spec.C10.field_wf. now rewrite H. Qed.

  Lemma some_bad_rejected items : existsb (fun mi => is_bad (view mi)) items = true ->
    (known_only fnames items && forallb field_value_ok items)%bool = false.
  Proof.
    induction items as [|mi r IH]; [discriminate|]. cbn [existsb]. unfold known_only in *. cbn [forallb].
    destruct (is_bad (view mi)) eqn:B.
    - intros _. rewrite bad_iff_rejected in B. apply negb_true_iff in B.
      destruct (existsb (mpath_is mi) fnames), (field_value_ok mi); try discriminate; cbn; try reflexivity.
      now rewrite andb_false_r.
    - cbn [orb]. intros H. specialize (IH H).
      destruct (existsb (mpath_is mi) fnames), (field_value_ok mi); cbn [andb]; try reflexivity; try (now rewrite andb_false_r).
      exact IH.
  Qed.

  Lemma none_bad_accepted items : existsb (fun mi => is_bad (view mi)) items = false ->
    known_only fnames items = true /\ forallb field_value_ok items = true.
  Proof.
    induction items as [|mi r IH]; [split; reflexivity|]. cbn [existsb]. intros H. apply orb_false_iff in H as [B H].
    destruct (IH H) as [A1 A2]. rewrite bad_iff_rejected in B. apply negb_false_iff in B. apply andb_true_iff in B as [B1 B2].
    unfold known_only in *. cbn [forallb]. now rewrite B1, B2, A1, A2.
  Qed.

  (** the order-free predicate on kinds IS the reading *)
  Theorem wf_kinds_is_reading items : wf_kinds (map view items) = field_items_wf items.
  Proof.
    destruct (existsb (fun mi => is_bad (view mi)) items) eqn:B.
    - (* some item is bad: both sides reject *)
      assert (L : wf_kinds (map view items) = false).
      { unfold wf_kinds. rewrite cnt_map_view, <- existsb_filter, B. reflexivity. }
      rewrite L. symmetry. unfold field_items_wf. pose proof (some_bad_rejected items B) as R.
      destruct (known_only fnames items); [|reflexivity]. cbn [andb] in *. rewrite R. now rewrite !andb_false_r.
    - destruct (none_bad_accepted items B) as [K V].
      assert (P : forall mi, In mi items -> is_bad (view mi) = false).
      { intros mi Hin. destruct (is_bad (view mi)) eqn:E; [|reflexivity]. exfalso.
        assert (existsb (fun mi => is_bad (view mi)) items = true) by (apply existsb_exists; eauto). congruence. }
      unfold wf_kinds, field_items_wf, at_most_once, Spec.C10.count. cbn [forallb]. rewrite K, V.
      rewrite !cnt_map_view, <- (existsb_filter (fun mi => is_bad (view mi))), B.
      rewrite (length_filter_ext (fun mi => is_rename (view mi)) (fun mi => mpath_is mi "rename") items) by (intros x Hx; apply (kind_is_name x (P x Hx))).
      rewrite (length_filter_ext (fun mi => is_default (view mi)) (fun mi => mpath_is mi "default") items) by (intros x Hx; apply (kind_is_name x (P x Hx))).
      rewrite (length_filter_ext (fun mi => is_with (view mi)) (fun mi => mpath_is mi "with") items) by (intros x Hx; apply (kind_is_name x (P x Hx))).
      rewrite (length_filter_ext (fun mi => is_skip (view mi)) (fun mi => mpath_is mi "skip") items) by (intros x Hx; apply (kind_is_name x (P x Hx))).
      rewrite (length_filter_ext (fun mi => is_multiple (view mi)) (fun mi => mpath_is mi "multiple") items) by (intros x Hx; apply (kind_is_name x (P x Hx))).
      rewrite (length_filter_ext (fun mi => is_flatten (view mi)) (fun mi => mpath_is mi "flatten") items) by (intros x Hx; apply (kind_is_name x (P x Hx))).
      rewrite (length_filter_ext (fun mi => is_post (view mi)) (fun mi => (mpath_is mi "map" || mpath_is mi "and_then")%bool) items)
        by (intros x Hx; apply (kind_is_name x (P x Hx))).
      rewrite (length_filter_ext (fun mi => is_skip_true (view mi))
                 (fun mi => (mpath_is mi "skip" && val_is (TOption (TSpanned TBool)) true mi)%bool) items)
        by (intros x Hx; apply (kind_is_name x (P x Hx))).
      rewrite (length_filter_ext (fun mi => is_multiple_true (view mi))
                 (fun mi => (mpath_is mi "multiple" && val_is (TOption TBool) true mi)%bool) items)
        by (intros x Hx; apply (kind_is_name x (P x Hx))).
      rewrite (length_filter_or (fun mi => mpath_is mi "map") (fun mi => mpath_is mi "and_then") items).
      2:{ intros x _. destruct (mpath_is x "map") eqn:M; [|reflexivity]. now rewrite (names_excl x "map" "and_then" ltac:(discriminate) M). }
      rewrite !existsb_filter. cbn [negb andb]. 
      repeat match goal with |- context [Nat.leb ?a 1] => destruct (Nat.leb a 1) end; cbn [andb]; try reflexivity.
  Qed.

  Lemma all_items_lists attrs : forall items, all_items attrs = Some items ->
    Forall list_attr attrs /\ items = flat_items attrs.
  Proof.
    induction attrs as [|a r IH]; intros items; cbn [all_items].
    - intros [= <-]. split; [constructor|reflexivity].
    - destruct (attr_items a) as [x|] eqn:A; [|discriminate]. destruct (all_items r) as [y|] eqn:R; [|discriminate].
      intros [= <-]. destruct (IH y eq_refl) as [F ->].
      destruct a as [i l|i p|i p ti its|i p ti es msg|i p e]; cbn [attr_items] in A; try discriminate.
      + injection A as <-. split; [constructor; [exact I|exact F]|reflexivity].
      + destruct (forallb is_meta its) eqn:M; [|discriminate]. injection A as <-.
        split; [constructor; [cbn; now apply forallb_Forall_true|exact F]|reflexivity].
  Qed.

  (** THE FIELD THEOREM: for every field, whatever its `#[darling(..)]` attributes look like, in any
      order and any split - the chain [InputField::parse_nested] reports no error exactly when
      the reading [field_wf] of Spec/C10.v holds. *)
  Theorem field_accepts_iff_reading rf :
    Forall attr_shaped (rf_attrs rf) ->
    (snd (parse_attributes field_step (field0 rf) (rf_attrs rf)) = [] <-> field_wf (rf_attrs rf) = true).
  Proof.
    intros SH. split.
    - intros E. destruct (accepted_attrs_are_lists field_step (rf_attrs rf) SH (field0 rf) [] E) as [A L].
      rewrite (field_wf_items _ _ A), <- wf_kinds_is_reading.
      now apply (field_attrs_accept_iff_wf reparse reparse_preds rf (rf_attrs rf) L).
    - intros W. destruct (all_items (rf_attrs rf)) as [items|] eqn:A.
      + destruct (all_items_lists _ _ A) as [L ->]. rewrite (field_wf_items _ _ A), <- wf_kinds_is_reading in W.
        now apply (field_attrs_accept_iff_wf reparse reparse_preds rf (rf_attrs rf) L).
      + unfold Spec.C10.field_wf in W. rewrite A in W. discriminate.
  Qed.
End FieldBridge.

(** ** what the converters of the option values return: any [Ok] leaving the default dispatchers
    comes out of one of the hooks *)
From DarlingModel Require Import Conv.RoutingProofs Conv.WrapperProofs.

Section OkSources.
  Variable F : fm.
  Hypothesis no_meta : o_meta F = None.
  Hypothesis no_value : o_value F = None.
  Hypothesis no_expr : o_expr F = None.
  Hypothesis no_list : o_list F = None.

  Definition from_hook (v : value) : Prop :=
    from_word F = Ok v \/ (exists s, from_string F s = Ok v) \/ (exists b, from_bool F b = Ok v) \/ (exists c, from_char F c = Ok v).

  Lemma map_err_Ok {A} f (r : res A) v : map_err f r = Ok v -> r = Ok v.
  Proof. destruct r; cbn; congruence. Qed.

  Lemma from_value_ok_source i l v : from_value F i l = Ok v -> from_hook v.
  Proof.
    unfold from_value. rewrite no_value. unfold default_from_value. intros H. apply map_err_Ok in H.
    destruct l; try discriminate; unfold from_hook; eauto 6.
  Qed.

  Lemma from_expr_ok_source e v : default_from_expr F e = Ok v -> from_hook v.
  Proof.
    induction e as [i l | i g IH | i p | i es | i k | i nl]; cbn [default_from_expr]; intros H; apply map_err_Ok in H; try discriminate.
    - now apply (from_value_ok_source i l).
    - now apply IH.
    - destruct (is_numeric nl); [now apply (from_value_ok_source i nl)|discriminate].
  Qed.

  Lemma from_meta_ok_source m v : from_meta F m = Ok v -> from_hook v.
  Proof.
    unfold from_meta. rewrite no_meta. destruct m as [i l|i p|i p ti items|i p ti es msg|i p e]; cbn [default_from_meta]; try discriminate;
      intros H; try apply map_err_Ok in H.
    - unfold from_hook. now left.
    - unfold from_list in H. rewrite no_list in H. discriminate.
    - unfold from_expr in H. rewrite no_expr in H. now apply (from_expr_ok_source e).
  Qed.
End OkSources.

Lemma string_ok m v : from_meta string_fm m = Ok v -> exists s, v = VStr s.
Proof.
  intros H. apply from_meta_ok_source in H; try reflexivity.
  destruct H as [H|[[s H]|[[b H]|[c H]]]]; try discriminate. cbn in H. injection H as <-. eauto.
Qed.

Lemma bool_ok m v : from_meta bool_fm m = Ok v -> exists b, v = VBool b.
Proof.
  intros H. apply from_meta_ok_source in H; try reflexivity.
  destruct H as [H|[[s H]|[[b H]|[c H]]]]; try discriminate.
  - cbn in H. injection H as <-. eauto.
  - cbn in H. unfold bool_from_string in H. repeat match type of H with context [if ?c then _ else _] => destruct c end; try discriminate; injection H as <-; eauto.
  - cbn in H. injection H as <-. eauto.
Qed.

Section Closed.
  Variable reparse : grammar -> string -> option string.
  Variable reparse_preds : string -> option (list string).
  Notation conv := (conv reparse reparse_preds).

  Lemma conv_rename_typed mi v : conv (TOption TString) mi = Ok v -> exists s, v = VSome (VStr s).
  Proof.
    unfold Resolve.conv, FM. cbn [fm_of]. rewrite option_transparent.
    destruct (from_meta string_fm mi) as [x|e|m] eqn:R; cbn [map_ok]; try discriminate. intros [= <-].
    destruct (string_ok mi x R) as [s ->]. eauto.
  Qed.

  Lemma conv_multiple_typed mi v : conv (TOption TBool) mi = Ok v -> exists b, as_bool v = Some b.
  Proof.
    unfold Resolve.conv, FM. cbn [fm_of]. rewrite option_transparent.
    destruct (from_meta bool_fm mi) as [x|e|m] eqn:R; cbn [map_ok]; try discriminate. intros [= <-].
    destruct (bool_ok mi x R) as [b ->]. exists b. reflexivity.
  Qed.

  Lemma conv_skip_typed mi v : conv (TOption (TSpanned TBool)) mi = Ok v -> exists b, as_bool v = Some b.
  Proof.
    unfold Resolve.conv, FM. cbn [fm_of]. rewrite option_transparent, spanned_meta.
    destruct (from_meta bool_fm mi) as [x|e|m] eqn:R; cbn [map_ok map_err]; try discriminate. intros [= <-].
    destruct (bool_ok mi x R) as [b ->]. exists b. reflexivity.
  Qed.

  Lemma conv_flatten_typed mi v : conv TFlag mi = Ok v -> exists sp, v = VFlag (Some sp).
  Proof.
    unfold Resolve.conv, FM. cbn [fm_of]. unfold from_meta. cbn [flag_fm o_meta].
    destruct mi; try (intros [= <-]; eauto); try discriminate;
      match goal with |- context [match ?r with Ok _ => _ | Err _ => _ | Panic _ => _ end] => destruct r end; discriminate.
  Qed.

  (** the field theorem with nothing assumed about the converters *)
  Theorem field_chain_is_the_reading rf :
    Forall attr_shaped (rf_attrs rf) ->
    (snd (parse_attributes (field_step reparse reparse_preds) (field0 rf) (rf_attrs rf)) = []
     <-> field_wf reparse reparse_preds (rf_attrs rf) = true).
  Proof.
    exact (field_accepts_iff_reading reparse reparse_preds conv_rename_typed conv_skip_typed conv_multiple_typed conv_flatten_typed rf).
  Qed.
End Closed.

(** ** one variant's own options: the reading of Spec/C10.v = the order-free predicate on kinds *)
From DarlingModel Require Import Options.VariantOrderProofs.

Section VariantBridge.
  Variable reparse : grammar -> string -> option string.
  Variable reparse_preds : string -> option (list string).
  Notation conv := (conv reparse reparse_preds).
  Notation vview := (vview reparse reparse_preds).
  Notation variant_step := (variant_step reparse reparse_preds).
  Notation variant_value_ok := (variant_value_ok reparse reparse_preds).

  Lemma conv_word_typed mi v : conv (TOption (TSpanned TBool)) mi = Ok v -> exists b sp, v = VSome (VSpanned (VBool b) sp).
  Proof.
    unfold Resolve.conv, FM. cbn [fm_of]. rewrite option_transparent, spanned_meta.
    destruct (from_meta bool_fm mi) as [x|e|m] eqn:R; cbn [map_ok map_err]; try discriminate. intros [= <-].
    destruct (bool_ok mi x R) as [b ->]. eauto.
  Qed.

  Definition vnames : list string := ["rename"; "skip"; "word"].
  Definition is_vbad (o : vopt) : bool := match o with VoBad | VoUnknown => true | _ => false end.
  Definition is_vo (k o : vopt) : bool :=
    match o, k with
    | VoRename, VoRename | VoSkip, VoSkip | VoWord, VoWord | VoBad, VoBad | VoUnknown, VoUnknown => true
    | _, _ => false
    end.

  Ltac other_vnames mi a H :=
    repeat match goal with
           | |- context [mpath_is mi ?n] => rewrite (names_excl mi a n ltac:(discriminate) H)
           end.

  Lemma vbad_iff_rejected mi :
    is_vbad (vview mi) = negb (existsb (mpath_is mi) vnames && variant_value_ok mi).
  Proof.
    unfold VariantOrderProofs.vview, Spec.C10.variant_value_ok, vnames. cbn [existsb].
    destruct (mpath_is mi "rename") eqn:N1.
    { other_vnames mi "rename" N1. cbn [orb andb]. destruct (conv (TOption TString) mi) as [v|e|m] eqn:C; try reflexivity.
      destruct (conv_rename_typed reparse reparse_preds mi v C) as [s ->]. reflexivity. }
    destruct (mpath_is mi "skip") eqn:N2.
    { other_vnames mi "skip" N2. cbn [orb andb]. destruct (conv (TOption TBool) mi) as [v|e|m] eqn:C; try reflexivity.
      destruct (conv_multiple_typed reparse reparse_preds mi v C) as [b ->]. reflexivity. }
    destruct (mpath_is mi "word") eqn:N3.
    { cbn [orb andb]. destruct (conv (TOption (TSpanned TBool)) mi) as [v|e|m] eqn:C; try reflexivity.
      destruct (conv_word_typed mi v C) as [b [sp ->]]. reflexivity. }
    reflexivity.
  Qed.

  Lemma vkind_is_name mi : is_vbad (vview mi) = false ->
    is_vo VoRename (vview mi) = mpath_is mi "rename" /\ is_vo VoSkip (vview mi) = mpath_is mi "skip"
    /\ is_vo VoWord (vview mi) = mpath_is mi "word".
  Proof.
    unfold VariantOrderProofs.vview.
    destruct (mpath_is mi "rename") eqn:N1.
    { other_vnames mi "rename" N1. destruct (conv (TOption TString) mi) as [[]| |]; try discriminate.
      destruct v; try discriminate. intros _. repeat split. }
    destruct (mpath_is mi "skip") eqn:N2.
    { other_vnames mi "skip" N2. destruct (conv (TOption TBool) mi) as [v|e|m]; try discriminate.
      destruct (as_bool v); try discriminate. intros _. repeat split. }
    destruct (mpath_is mi "word") eqn:N3.
    { destruct (conv (TOption (TSpanned TBool)) mi) as [v|e|m]; try discriminate.
      destruct v; try discriminate. destruct v; try discriminate. destruct v; try discriminate. intros _. repeat split. }
    discriminate.
  Qed.

  Lemma vcnt_map k l : vcnt k (map vview l) = List.length (filter (fun mi => is_vo k (vview mi)) l).
  Proof.
    unfold vcnt. induction l as [|x r IH]; [reflexivity|]. cbn [map filter]. fold (is_vo k (vview x)).
    destruct (is_vo k (vview x)); cbn [List.length]; now rewrite IH.
  Qed.

  (** the reading's predicate on a variant's own options *)
  Definition variant_items_wf (unit : bool) (items : list nested) : bool :=
    known_only vnames items && at_most_once vnames items && forallb variant_value_ok items
    && (Nat.eqb (count "word" items) 0 || unit).

  Lemma vsome_bad_rejected items : existsb (fun mi => is_vbad (vview mi)) items = true ->
    (known_only vnames items && forallb variant_value_ok items)%bool = false.
  Proof.
    induction items as [|mi r IH]; [discriminate|]. cbn [existsb]. unfold known_only in *. cbn [forallb].
    destruct (is_vbad (vview mi)) eqn:B.
    - intros _. rewrite vbad_iff_rejected in B. apply negb_true_iff in B.
      destruct (existsb (mpath_is mi) vnames), (variant_value_ok mi); try discriminate; cbn; try reflexivity.
      now rewrite andb_false_r.
    - cbn [orb]. intros H. specialize (IH H).
      destruct (existsb (mpath_is mi) vnames), (variant_value_ok mi); cbn [andb]; try reflexivity; try (now rewrite andb_false_r).
      exact IH.
  Qed.

  Lemma vnone_bad_accepted items : existsb (fun mi => is_vbad (vview mi)) items = false ->
    known_only vnames items = true /\ forallb variant_value_ok items = true.
  Proof.
    induction items as [|mi r IH]; [split; reflexivity|]. cbn [existsb]. intros H. apply orb_false_iff in H as [B H].
    destruct (IH H) as [A1 A2]. rewrite vbad_iff_rejected in B. apply negb_false_iff in B. apply andb_true_iff in B as [B1 B2].
    unfold known_only in *. cbn [forallb]. now rewrite B1, B2, A1, A2.
  Qed.

  Lemma vbad_counts items :
    existsb (fun mi => is_vbad (vview mi)) items = false <->
    (vcnt VoBad (map vview items) = 0 /\ vcnt VoUnknown (map vview items) = 0)%nat.
  Proof.
    rewrite !vcnt_map. induction items as [|mi r IH]; [cbn; tauto|]. cbn [existsb filter].
    destruct (vview mi); cbn [is_vbad is_vo orb List.length]; try exact IH; split; try discriminate; intros [A B]; discriminate.
  Qed.

  Theorem vwf_is_reading unit items :
    vwf unit (map vview items) <-> variant_items_wf unit items = true.
  Proof.
    destruct (existsb (fun mi => is_vbad (vview mi)) items) eqn:B.
    - split.
      + intros [H1 [H2 _]]. assert (existsb (fun mi => is_vbad (vview mi)) items = false) by (apply vbad_counts; auto). congruence.
      + intros W. exfalso. pose proof (vsome_bad_rejected items B) as R. unfold variant_items_wf in W.
        destruct (known_only vnames items); [|discriminate]. cbn [andb] in *.
        destruct (at_most_once vnames items); [|discriminate]. cbn [andb] in W. rewrite R in W. discriminate.
    - destruct (vnone_bad_accepted items B) as [K V]. pose proof (proj1 (vbad_counts items) B) as [Z1 Z2].
      assert (P : forall mi, In mi items -> is_vbad (vview mi) = false).
      { intros mi Hin. destruct (is_vbad (vview mi)) eqn:E; [|reflexivity]. exfalso.
        assert (existsb (fun mi => is_vbad (vview mi)) items = true) by (apply existsb_exists; eauto). congruence. }
      unfold vwf, vwf_from, variant_items_wf, at_most_once, Spec.C10.count. rewrite K, V. unfold vnames. cbn [forallb].
      rewrite !vcnt_map in *.
      rewrite (length_filter_ext (fun mi => is_vo VoRename (vview mi)) (fun mi => mpath_is mi "rename") items) by (intros x Hx; apply (vkind_is_name x (P x Hx))).
      rewrite (length_filter_ext (fun mi => is_vo VoSkip (vview mi)) (fun mi => mpath_is mi "skip") items) by (intros x Hx; apply (vkind_is_name x (P x Hx))).
      rewrite (length_filter_ext (fun mi => is_vo VoWord (vview mi)) (fun mi => mpath_is mi "word") items) by (intros x Hx; apply (vkind_is_name x (P x Hx))).
      cbn [andb]. rewrite ?andb_true_iff, ?orb_true_iff, ?Nat.leb_le, ?Nat.eqb_eq.
      destruct unit; intuition (try lia; try discriminate; try congruence).
  Qed.
End VariantBridge.

Section VariantClosed.
  Variable reparse : grammar -> string -> option string.
  Variable reparse_preds : string -> option (list string).

  (** THE VARIANT THEOREM (a variant's own options): any attributes, any order, any split *)
  Theorem variant_chain_is_the_reading ident style attrs :
    Forall attr_shaped attrs ->
    (snd (parse_attributes (variant_step reparse reparse_preds) (mkV ident None None None style []) attrs) = []
     <-> exists items, all_items attrs = Some items
                       /\ variant_items_wf reparse reparse_preds (is_unit style) items = true).
  Proof.
    intros SH. split.
    - intros E. destruct (accepted_attrs_are_lists (variant_step reparse reparse_preds) attrs SH _ [] E) as [A L].
      exists (flat_items attrs). split; [exact A|]. apply vwf_is_reading.
      now apply (variant_attrs_accept_iff_wf reparse reparse_preds ident style attrs L).
    - intros [items [A W]]. destruct (all_items_lists _ _ A) as [L ->].
      apply (variant_attrs_accept_iff_wf reparse reparse_preds ident style attrs L). now apply vwf_is_reading.
  Qed.
End VariantClosed.

(** ** the container's options *)
From DarlingModel Require Import Options.ContainerOrderProofs.

Section ContainerBridge.
  Variable reparse : grammar -> string -> option string.
  Variable reparse_preds : string -> option (list string).
  Notation conv := (conv reparse reparse_preds).
  Notation cview := (cview reparse reparse_preds).
  Notation container_value_ok := (container_value_ok reparse reparse_preds).

  Lemma rename_rule_typed mi v : from_meta rename_rule_fm mi = Ok v -> exists s, v = VStr s.
  Proof.
    intros H. apply from_meta_ok_source in H; try reflexivity.
    destruct H as [H|[[s H]|[[b H]|[c H]]]]; try discriminate. unfold from_string in H. cbn [rename_rule_fm o_string] in H.
    destruct (existsb (str_eqb s) rename_rules); [|discriminate]. injection H as <-. eauto.
  Qed.

  Definition is_cerr (o : copt) : bool := match o with CoErr => true | _ => false end.

  Ltac other_cnames mi a H :=
    repeat match goal with
           | |- context [mpath_is mi ?n] =>
               let N := fresh in
               assert (N : a <> n) by discriminate; rewrite (names_excl mi a n N H); clear N
           end.

  Ltac leaf :=
    cbn [existsb orb andb negb is_cerr];
    repeat match goal with
           | |- context [match ?r with Ok _ => _ | Err _ => _ | Panic _ => _ end] => destruct r eqn:?
           end;
    cbn [is_ok is_cerr negb andb]; try reflexivity.

  (** an item is an error for the chain (in every state) exactly when the reading rejects it *)
  Lemma cerr_iff_rejected t mi :
    is_cerr (cview t mi) = negb (existsb (mpath_is mi) (container_names t) && container_value_ok t mi).
  Proof.
    destruct t;
    unfold ContainerOrderProofs.cview, outer_view, core_view, Spec.C10.container_value_ok, container_names, outer_names, core_names;
    cbn [existsb app];
    (destruct (mpath_is mi "default") eqn:N1; [other_cnames mi "default" N1; leaf|]);
    (destruct (mpath_is mi "rename_all") eqn:N2;
     [other_cnames mi "rename_all" N2; cbn [orb andb negb];
      destruct (from_meta rename_rule_fm mi) as [v|e|m] eqn:C; try reflexivity;
      destruct (rename_rule_typed mi v C) as [s ->]; reflexivity|]);
    (destruct (mpath_is mi "map") eqn:N3; [other_cnames mi "map" N3; leaf|]);
    (destruct (mpath_is mi "and_then") eqn:N4; [other_cnames mi "and_then" N4; leaf|]);
    (destruct (mpath_is mi "bound") eqn:N5; [other_cnames mi "bound" N5; leaf|]);
    (destruct (mpath_is mi "allow_unknown_fields") eqn:N6;
     [other_cnames mi "allow_unknown_fields" N6; cbn [orb andb negb];
      destruct (conv (TOption TBool) mi) as [v|e|m] eqn:C; try reflexivity;
      destruct (conv_multiple_typed reparse reparse_preds mi v C) as [b ->]; reflexivity|]);
    (destruct (mpath_is mi "from_word") eqn:N7; [other_cnames mi "from_word" N7; leaf|]);
    (destruct (mpath_is mi "from_none") eqn:N8; [other_cnames mi "from_none" N8; leaf|]);
    (destruct (mpath_is mi "attributes") eqn:N9; [other_cnames mi "attributes" N9; leaf|]);
    (destruct (mpath_is mi "forward_attrs") eqn:N10;
     [other_cnames mi "forward_attrs" N10;
      destruct mi as [i l|i p|i p ti items|i p ti es msg|i p e]; try (cbn in N10; discriminate); leaf|]);
    (destruct (mpath_is mi "from_ident") eqn:N11; [other_cnames mi "from_ident" N11; leaf|]);
    (destruct (mpath_is mi "supports") eqn:N12; [leaf|]);
    reflexivity.
  Qed.

  Definition is_co (k o : copt) : bool :=
    match o, k with
    | CoDefault, CoDefault | CoFromIdent, CoFromIdent | CoPost, CoPost | CoAuk, CoAuk
    | CoFromWord, CoFromWord | CoFromNone, CoFromNone | CoFree, CoFree | CoErr, CoErr => true
    | _, _ => false
    end.

  Ltac kleaf :=
    cbn [is_cerr is_co];
    repeat match goal with
           | |- context [match ?r with Ok _ => _ | Err _ => _ | Panic _ => _ end] => destruct r eqn:?
           end;
    cbn [is_cerr is_co orb]; try discriminate; intros _; repeat split.

  (** for an item the reading accepts, the kind of a once-only option is its name *)
  Lemma ckind_is_name t mi : is_cerr (cview t mi) = false ->
    is_co CoDefault (cview t mi) = mpath_is mi "default"
    /\ is_co CoFromIdent (cview t mi) = mpath_is mi "from_ident"
    /\ is_co CoPost (cview t mi) = (mpath_is mi "map" || mpath_is mi "and_then")%bool
    /\ is_co CoAuk (cview t mi) = mpath_is mi "allow_unknown_fields"
    /\ is_co CoFromWord (cview t mi) = mpath_is mi "from_word"
    /\ is_co CoFromNone (cview t mi) = mpath_is mi "from_none".
  Proof.
    destruct t;
    unfold ContainerOrderProofs.cview, outer_view, core_view;
    (destruct (mpath_is mi "default") eqn:N1; [other_cnames mi "default" N1; kleaf|]);
    (destruct (mpath_is mi "rename_all") eqn:N2;
     [other_cnames mi "rename_all" N2; destruct (from_meta rename_rule_fm mi) as [v|e|m] eqn:C; try discriminate;
      destruct v; try discriminate; intros _; repeat split|]);
    (destruct (mpath_is mi "map") eqn:N3; [other_cnames mi "map" N3; kleaf|]);
    (destruct (mpath_is mi "and_then") eqn:N4; [other_cnames mi "and_then" N4; kleaf|]);
    (destruct (mpath_is mi "bound") eqn:N5; [other_cnames mi "bound" N5; kleaf|]);
    (destruct (mpath_is mi "allow_unknown_fields") eqn:N6;
     [other_cnames mi "allow_unknown_fields" N6; destruct (conv (TOption TBool) mi) as [v|e|m] eqn:C; try discriminate;
      destruct (as_bool v); try discriminate; intros _; repeat split|]);
    (destruct (mpath_is mi "from_word") eqn:N7; [other_cnames mi "from_word" N7; kleaf|]);
    (destruct (mpath_is mi "from_none") eqn:N8; [other_cnames mi "from_none" N8; kleaf|]);
    (destruct (mpath_is mi "attributes") eqn:N9; [other_cnames mi "attributes" N9; kleaf|]);
    (destruct (mpath_is mi "forward_attrs") eqn:N10;
     [other_cnames mi "forward_attrs" N10;
      destruct mi as [i l|i p|i p ti items|i p ti es msg|i p e]; try (cbn in N10; discriminate); kleaf|]);
    (destruct (mpath_is mi "from_ident") eqn:N11; [other_cnames mi "from_ident" N11; kleaf|]);
    (destruct (mpath_is mi "supports") eqn:N12; [kleaf|]);
    discriminate.
  Qed.

  Lemma ccnt_map t k l : ccnt k (map (cview t) l) = List.length (filter (fun mi => is_co k (cview t mi)) l).
  Proof.
    unfold ccnt. induction l as [|x r IH]; [reflexivity|]. cbn [map filter]. fold (is_co k (cview t x)).
    destruct (is_co k (cview t x)); cbn [List.length]; now rewrite IH.
  Qed.

  (** `default` written after `from_ident` (the recorded finding), on kinds and on items *)
  Fixpoint kdafi (seen : bool) (l : list copt) : bool :=
    match l with
    | [] => false
    | CoDefault :: r => seen || kdafi seen r
    | CoFromIdent :: r => kdafi true r
    | _ :: r => kdafi seen r
    end.

  Fixpoint default_after_from_ident (seen : bool) (items : list nested) : bool :=
    match items with
    | [] => false
    | mi :: r =>
        if mpath_is mi "default" then seen || default_after_from_ident seen r
        else if mpath_is mi "from_ident" then default_after_from_ident true r
        else default_after_from_ident seen r
    end.

  Lemma kdafi_true l : kdafi true l = negb (Nat.eqb (ccnt CoDefault l) 0).
  Proof. induction l as [|o r IH]; [reflexivity|]. destruct o; cbn [kdafi orb]; unfold ccnt in *; cbn; try exact IH; reflexivity. Qed.

  Lemma kdafi_no_default s l : ccnt CoDefault l = 0%nat -> kdafi s l = false.
  Proof.
    revert s. induction l as [|o r IH]; intros s H; [reflexivity|]. destruct o; cbn [kdafi]; unfold ccnt in *; cbn in H; try (apply IH; exact H).
    discriminate.
  Qed.

  Lemma dok_false_is l : dok false l = true <-> (ccnt CoDefault l <= 1)%nat /\ kdafi false l = false.
  Proof.
    induction l as [|o r IH]; [cbn; split; [intros _; split; [lia|reflexivity]|reflexivity]|].
    destruct o; cbn [dok kdafi negb andb orb]; rewrite ?dok_true_spec, ?kdafi_true;
      try (unfold ccnt in *; cbn [filter List.length]; exact IH).
    - unfold ccnt. cbn [filter List.length]. fold (ccnt CoDefault r). split.
      + intros H. split; [lia|]. now apply kdafi_no_default.
      + intros [H _]. lia.
    - unfold ccnt. cbn [filter]. fold (ccnt CoDefault r). split.
      + intros H. rewrite H. split; [lia|reflexivity].
      + intros [_ H]. apply negb_false_iff in H. now apply Nat.eqb_eq in H.
  Qed.

  Lemma kdafi_items t items : (forall mi, In mi items -> is_cerr (cview t mi) = false) ->
    forall s, kdafi s (map (cview t) items) = default_after_from_ident s items.
  Proof.
    induction items as [|mi r IH]; intros P s; [reflexivity|].
    assert (Pr : forall x, In x r -> is_cerr (cview t x) = false) by (intros x Hx; apply P; now right).
    destruct (ckind_is_name t mi (P mi (or_introl eq_refl))) as [D [F _]].
    cbn [map kdafi default_after_from_ident]. rewrite <- D, <- F.
    destruct (cview t mi); cbn [is_co]; rewrite ?IH by exact Pr; reflexivity.
  Qed.

  (** the reading's predicate on the container's items *)
  Definition container_items_wf (t : dtrait) (items : list nested) : bool :=
    known_only (container_names t) items
    && at_most_once ["default"; "allow_unknown_fields"; "from_word"; "from_none"] items
    && Nat.leb (count "map" items + count "and_then" items) 1
    && forallb (container_value_ok t) items.

  Lemma container_wf_items t attrs items : all_items attrs = Some items ->
    container_wf reparse reparse_preds t attrs = container_items_wf t items.
  Proof. intros H. unfold Spec.C10.container_wf. now rewrite H. Qed.

  Lemma csome_bad_rejected t items : existsb (fun mi => is_cerr (cview t mi)) items = true ->
    (known_only (container_names t) items && forallb (container_value_ok t) items)%bool = false.
  Proof.
    induction items as [|mi r IH]; [discriminate|]. cbn [existsb]. unfold known_only in *. cbn [forallb].
    destruct (is_cerr (cview t mi)) eqn:B.
    - intros _. rewrite cerr_iff_rejected in B. apply negb_true_iff in B.
      destruct (existsb (mpath_is mi) (container_names t)), (container_value_ok t mi); try discriminate; cbn; try reflexivity.
      now rewrite andb_false_r.
    - cbn [orb]. intros H. specialize (IH H).
      destruct (existsb (mpath_is mi) (container_names t)), (container_value_ok t mi); cbn [andb]; try reflexivity; try (now rewrite andb_false_r).
      exact IH.
  Qed.

  Lemma cnone_bad_accepted t items : existsb (fun mi => is_cerr (cview t mi)) items = false ->
    known_only (container_names t) items = true /\ forallb (container_value_ok t) items = true.
  Proof.
    induction items as [|mi r IH]; [split; reflexivity|]. cbn [existsb]. intros H. apply orb_false_iff in H as [B H].
    destruct (IH H) as [A1 A2]. rewrite cerr_iff_rejected in B. apply negb_false_iff in B. apply andb_true_iff in B as [B1 B2].
    unfold known_only in *. cbn [forallb]. now rewrite B1, B2, A1, A2.
  Qed.

  (** the machine's verdict on kinds IS the reading, plus the one order-sensitive clause *)
  Theorem cok_is_reading t items :
    cok (mkS false false false false false) (map (cview t) items) = true <->
    container_items_wf t items = true /\ default_after_from_ident false items = false.
  Proof.
    rewrite cok_spec. unfold once. rewrite dok_false_is.
    destruct (existsb (fun mi => is_cerr (cview t mi)) items) eqn:B.
    - split.
      + intros [Z _]. exfalso. rewrite ccnt_map in Z. rewrite <- (Nat.eqb_eq) in Z. rewrite <- existsb_filter in Z.
        change (fun mi => is_co CoErr (cview t mi)) with (fun mi => is_co CoErr (cview t mi)) in Z.
        assert (E : existsb (fun mi => is_co CoErr (cview t mi)) items = existsb (fun mi => is_cerr (cview t mi)) items).
        { clear. induction items as [|x r IH]; [reflexivity|]. cbn [existsb]. rewrite IH. destruct (cview t x); reflexivity. }
        rewrite E, B in Z. discriminate.
      + intros [W _]. exfalso. pose proof (csome_bad_rejected t items B) as R. unfold container_items_wf in W.
        destruct (known_only (container_names t) items); [|discriminate]. cbn [andb] in *.
        destruct (at_most_once _ items); [|discriminate]. destruct (Nat.leb _ 1); [|discriminate]. cbn [andb] in W. rewrite R in W. discriminate.
    - destruct (cnone_bad_accepted t items B) as [K V].
      assert (P : forall mi, In mi items -> is_cerr (cview t mi) = false).
      { intros mi Hin. destruct (is_cerr (cview t mi)) eqn:E; [|reflexivity]. exfalso.
        assert (existsb (fun mi => is_cerr (cview t mi)) items = true) by (apply existsb_exists; eauto). congruence. }
      assert (Z : ccnt CoErr (map (cview t) items) = 0%nat).
      { rewrite ccnt_map. apply Nat.eqb_eq. rewrite <- existsb_filter.
        assert (E : existsb (fun mi => is_co CoErr (cview t mi)) items = existsb (fun mi => is_cerr (cview t mi)) items).
        { clear. induction items as [|x r IH]; [reflexivity|]. cbn [existsb]. rewrite IH. destruct (cview t x); reflexivity. }
        now rewrite E, B. }
      rewrite (kdafi_items t items P false).
      unfold container_items_wf, at_most_once, Spec.C10.count. rewrite K, V. cbn [forallb].
      rewrite !ccnt_map.
      rewrite (length_filter_ext (fun mi => is_co CoDefault (cview t mi)) (fun mi => mpath_is mi "default") items) by (intros x Hx; apply (ckind_is_name t x (P x Hx))).
      rewrite (length_filter_ext (fun mi => is_co CoAuk (cview t mi)) (fun mi => mpath_is mi "allow_unknown_fields") items) by (intros x Hx; apply (ckind_is_name t x (P x Hx))).
      rewrite (length_filter_ext (fun mi => is_co CoFromWord (cview t mi)) (fun mi => mpath_is mi "from_word") items) by (intros x Hx; apply (ckind_is_name t x (P x Hx))).
      rewrite (length_filter_ext (fun mi => is_co CoFromNone (cview t mi)) (fun mi => mpath_is mi "from_none") items) by (intros x Hx; apply (ckind_is_name t x (P x Hx))).
      rewrite (length_filter_ext (fun mi => is_co CoPost (cview t mi)) (fun mi => (mpath_is mi "map" || mpath_is mi "and_then")%bool) items)
        by (intros x Hx; apply (ckind_is_name t x (P x Hx))).
      rewrite (length_filter_or (fun mi => mpath_is mi "map") (fun mi => mpath_is mi "and_then") items).
      2:{ intros x _. destruct (mpath_is x "map") eqn:M; [|reflexivity]. now rewrite (names_excl x "map" "and_then" ltac:(discriminate) M). }
      rewrite ccnt_map in Z. cbn [andb]. rewrite ?andb_true_iff, ?Nat.leb_le. intuition lia.
  Qed.
End ContainerBridge.

Section ContainerClosed.
  Variable reparse : grammar -> string -> option string.
  Variable reparse_preds : string -> option (list string).

  (** THE CONTAINER THEOREM: for every derive and every list of `#[darling(..)]` attributes on the
      receiver, in any order and any split, the chain reports no error exactly when the reading
      [container_wf] of Spec/C10.v holds AND no `default` is written after a `from_ident` - the one
      order-sensitive clause, which is the recorded finding. *)
  Theorem container_chain_is_the_reading t attrs :
    Forall attr_shaped attrs ->
    (snd (parse_attributes (container_step reparse reparse_preds t) copts0 attrs) = []
     <-> container_wf reparse reparse_preds t attrs = true
         /\ exists items, all_items attrs = Some items /\ default_after_from_ident false items = false).
  Proof.
    intros SH. split.
    - intros E. destruct (accepted_attrs_are_lists (container_step reparse reparse_preds t) attrs SH copts0 [] E) as [A L].
      unfold parse_attributes in E. rewrite (parse_attributes_flat_c reparse reparse_preds t attrs L) in E.
      apply (container_chain_accepts_iff reparse reparse_preds t (flat_items attrs) (flat_items_meta attrs L)) in E.
      change (cabs copts0) with (mkS false false false false false) in E.
      apply cok_is_reading in E as [W D]. rewrite (container_wf_items reparse reparse_preds t attrs _ A). split; [exact W|eauto].
    - intros [W [items [A D]]]. destruct (all_items_lists _ _ A) as [L ->].
      rewrite (container_wf_items reparse reparse_preds t attrs _ A) in W.
      unfold parse_attributes. rewrite (parse_attributes_flat_c reparse reparse_preds t attrs L).
      apply (container_chain_accepts_iff reparse reparse_preds t (flat_items attrs) (flat_items_meta attrs L)).
      change (cabs copts0) with (mkS false false false false false). apply cok_is_reading. split; assumption.
  Qed.

  (** ... so wherever `from_ident` is not written the reading alone decides *)
  Lemma no_from_ident_no_dafi items : count "from_ident" items = 0%nat -> forall s, s = false -> default_after_from_ident s items = false.
  Proof.
    induction items as [|mi r IH]; intros C s ->; [reflexivity|]. cbn [default_after_from_ident].
    unfold Spec.C10.count in *. cbn [filter] in C.
    destruct (mpath_is mi "from_ident") eqn:F; [cbn in C; discriminate|].
    destruct (mpath_is mi "default"); cbn [orb]; now apply IH.
  Qed.

  Corollary container_chain_is_the_reading_without_from_ident t attrs :
    Forall attr_shaped attrs ->
    (forall items, all_items attrs = Some items -> count "from_ident" items = 0%nat) ->
    (snd (parse_attributes (container_step reparse reparse_preds t) copts0 attrs) = []
     <-> container_wf reparse reparse_preds t attrs = true).
  Proof.
    intros SH NF. rewrite (container_chain_is_the_reading t attrs SH). split; [tauto|].
    intros W. split; [exact W|]. destruct (all_items attrs) as [items|] eqn:A.
    - exists items. split; [reflexivity|]. now apply (no_from_ident_no_dafi items (NF items eq_refl)).
    - unfold Spec.C10.container_wf in W. rewrite A in W. discriminate.
  Qed.
End ContainerClosed.
