(** Options/ContainerOrderProofs.v — C10 for the container options: the chain
    (Options/Resolve.v [container_step], per derive) refines a five-bit abstract machine on
    option kinds, for every item list, every order and every split over attributes.  Most
    container options may be repeated (the last one wins); `default`, `map` / `and_then`,
    `allow_unknown_fields`, `from_word`, `from_none` may occur once.  The chain is order-free
    EXCEPT for one pair: `from_ident` installs a stand-in `default`, so a `default` written after
    it is reported as a repetition while the same two options in the other order are accepted
    (the recorded finding).  Both facts are theorems here. *)
From DarlingModel Require Import Options.Resolve Options.FieldOrderProofs.
From Coq Require Import Permutation.
Local Open Scope string_scope.
Local Open Scope list_scope.

Inductive copt : Type :=
| CoDefault | CoFromIdent | CoPost | CoAuk | CoFromWord | CoFromNone
| CoFree          (* a repeatable option in an accepted form *)
| CoErr.          (* an unknown option, or a known one in a rejected form: an error in every state *)

Section CView.
  Variable reparse : grammar -> string -> option string.
  Variable reparse_preds : string -> option (list string).
  Notation conv := (conv reparse reparse_preds).
  Notation container_step := (container_step reparse reparse_preds).

  Definition core_view (mi : nested) : copt :=
    if mpath_is mi "default" then match conv_default reparse mi with Ok _ => CoDefault | _ => CoErr end
    else if mpath_is mi "rename_all" then match from_meta rename_rule_fm mi with Ok (VStr _) => CoFree | _ => CoErr end
    else if (mpath_is mi "map" || mpath_is mi "and_then")%bool then match conv TPath mi with Ok _ => CoPost | _ => CoErr end
    else if mpath_is mi "bound" then match conv (TOption TWherePreds) mi with Ok _ => CoFree | _ => CoErr end
    else if mpath_is mi "allow_unknown_fields" then
      match conv (TOption TBool) mi with
      | Ok v => match as_bool v with Some _ => CoAuk | None => CoErr end
      | _ => CoErr
      end
    else CoErr.

  Definition outer_view (mi : nested) : copt :=
    if mpath_is mi "attributes" then match conv TPathList mi with Ok _ => CoFree | _ => CoErr end
    else if mpath_is mi "forward_attrs" then
      match mi with
      | NPath _ _ => CoFree
      | NList _ _ _ items => match from_list pathlist_fm items with Ok _ => CoFree | _ => CoErr end
      | NLit _ _ => CoFree
      | _ => CoErr
      end
    else if mpath_is mi "from_ident" then CoFromIdent
    else core_view mi.

  Definition cview (t : dtrait) (mi : nested) : copt :=
    match t with
    | DFromMeta =>
        if mpath_is mi "from_word" then match conv TCallable mi with Ok _ => CoFromWord | _ => CoErr end
        else if mpath_is mi "from_none" then match conv TCallable mi with Ok _ => CoFromNone | _ => CoErr end
        else core_view mi
    | DFromDeriveInput =>
        if mpath_is mi "supports" then match conv_supports_di mi with Ok _ => CoFree | _ => CoErr end else outer_view mi
    | DFromVariant =>
        if mpath_is mi "supports" then match conv_supports_v mi with Ok _ => CoFree | _ => CoErr end else outer_view mi
    | _ => outer_view mi
    end.

  (** the abstract state: which of the once-only options have been seen (`default` also by proxy) *)
  Record cstate : Type := mkS { s_default : bool; s_post : bool; s_auk : bool; s_word : bool; s_none : bool }.

  Definition cabs (c : copts) : cstate :=
    mkS (is_some (Resolve.c_default c)) (is_some (Resolve.c_post c)) (is_some (Resolve.c_auk c)) (is_some (Resolve.c_from_word c)) (Resolve.c_from_none c).

  Definition cstep (s : cstate) (o : copt) : cstate * bool :=
    match o with
    | CoDefault => if s_default s then (s, true) else (mkS true (s_post s) (s_auk s) (s_word s) (s_none s), false)
    | CoFromIdent => (mkS true (s_post s) (s_auk s) (s_word s) (s_none s), false)
    | CoPost => if s_post s then (s, true) else (mkS (s_default s) true (s_auk s) (s_word s) (s_none s), false)
    | CoAuk => if s_auk s then (s, true) else (mkS (s_default s) (s_post s) true (s_word s) (s_none s), false)
    | CoFromWord => if s_word s then (s, true) else (mkS (s_default s) (s_post s) (s_auk s) true (s_none s), false)
    | CoFromNone => if s_none s then (s, true) else (mkS (s_default s) (s_post s) (s_auk s) (s_word s) true, false)
    | CoFree => (s, false)
    | CoErr => (s, true)
    end.

  Lemma core_step_refines c mi :
    let '(c', o) := core_step reparse reparse_preds c mi in
    cabs c' = fst (cstep (cabs c) (core_view mi)) /\ is_some o = snd (cstep (cabs c) (core_view mi)).
  Proof.
    unfold Resolve.core_step, core_view.
    destruct (mpath_is mi "default").
    { destruct (Resolve.c_default c) eqn:D.
      - destruct (conv_default reparse mi); cbn; unfold cabs; rewrite ?D; cbn; auto.
      - destruct (conv_default reparse mi); cbn; unfold cabs; rewrite ?D; cbn; auto. }
    destruct (mpath_is mi "rename_all").
    { destruct (from_meta rename_rule_fm mi) as [v|e|m]; [destruct v|..]; cbn; unfold cabs; cbn; auto. }
    destruct (mpath_is mi "map" || mpath_is mi "and_then")%bool.
    { destruct (Resolve.c_post c) eqn:P.
      - destruct (str_eqb (mpath_str mi) s); destruct (conv TPath mi); cbn; unfold cabs; rewrite ?P; cbn; auto.
      - destruct (conv TPath mi); cbn; unfold cabs; rewrite ?P; cbn; auto. }
    destruct (mpath_is mi "bound").
    { destruct (conv (TOption TWherePreds) mi); cbn; unfold cabs; cbn; auto. }
    destruct (mpath_is mi "allow_unknown_fields").
    { destruct (Resolve.c_auk c) eqn:A.
      - destruct (conv (TOption TBool) mi) as [v|e|m]; [destruct (as_bool v)|..]; cbn; unfold cabs; rewrite ?A; cbn; auto.
      - destruct (conv (TOption TBool) mi) as [v|e|m]; [destruct (as_bool v)|..]; cbn; unfold cabs; rewrite ?A; cbn; auto. }
    cbn. auto.
  Qed.

  Lemma outer_step_refines c mi :
    let '(c', o) := outer_step reparse reparse_preds c mi in
    cabs c' = fst (cstep (cabs c) (outer_view mi)) /\ is_some o = snd (cstep (cabs c) (outer_view mi)).
  Proof.
    unfold Resolve.outer_step, outer_view.
    destruct (mpath_is mi "attributes").
    { destruct (conv TPathList mi); cbn; unfold cabs; cbn; auto. }
    destruct (mpath_is mi "forward_attrs").
    { destruct mi as [i l|i p|i p ti items|i p ti es msg|i p e].
      - cbn; unfold cabs; cbn; auto.
      - cbn; unfold cabs; cbn; auto.
      - destruct (from_list pathlist_fm items); cbn; unfold cabs; cbn; auto.
      - cbn; unfold cabs; cbn; auto.
      - destruct (default_from_expr fm_default e); cbn; unfold cabs; cbn; auto. }
    destruct (mpath_is mi "from_ident"); [cbn; unfold cabs; cbn; auto|].
    apply core_step_refines.
  Qed.

  Lemma container_step_refines t c mi :
    let '(c', o) := container_step t c mi in
    cabs c' = fst (cstep (cabs c) (cview t mi)) /\ is_some o = snd (cstep (cabs c) (cview t mi)).
  Proof.
    destruct t; cbn [Resolve.container_step cview]; try apply outer_step_refines.
    - unfold from_meta_step. destruct (mpath_is mi "from_word").
      { destruct (Resolve.c_from_word c) eqn:W.
        - destruct (conv TCallable mi); cbn; unfold cabs; rewrite ?W; cbn; auto.
        - destruct (conv TCallable mi); cbn; unfold cabs; rewrite ?W; cbn; auto. }
      destruct (mpath_is mi "from_none").
      { destruct (Resolve.c_from_none c) eqn:N.
        - destruct (conv TCallable mi); cbn; unfold cabs; rewrite ?N; cbn; auto.
        - destruct (conv TCallable mi); cbn; unfold cabs; rewrite ?N; cbn; auto. }
      apply core_step_refines.
    - unfold di_step. destruct (mpath_is mi "supports"); [|apply outer_step_refines].
      destruct (conv_supports_di mi); cbn; unfold cabs; cbn; auto.
    - unfold v_step. destruct (mpath_is mi "supports"); [|apply outer_step_refines].
      destruct (conv_supports_v mi); cbn; unfold cabs; cbn; auto.
  Qed.

  (** ** the fold *)
  Fixpoint cok (s : cstate) (l : list copt) : bool :=
    match l with
    | [] => true
    | o :: r => let '(s', e) := cstep s o in negb e && cok s' r
    end.

  Lemma items_step_meta_c t (c : copts) errs mi : is_meta mi = true ->
    items_step (container_step t) (c, errs) mi = (fst (container_step t c mi), errs ++ errs_of (snd (container_step t c mi))).
  Proof. destruct mi; cbn [is_meta]; try discriminate; intros _; cbn [items_step]; destruct (container_step t c _); reflexivity. Qed.

  Lemma container_fold t items : Forall (fun mi => is_meta mi = true) items ->
    forall c errs,
      snd (fold_left (items_step (container_step t)) items (c, errs)) = [] <-> errs = [] /\ cok (cabs c) (map (cview t) items) = true.
  Proof.
    induction 1 as [|mi r M _ IH]; intros c errs.
    - cbn. tauto.
    - cbn [fold_left map cok]. rewrite (items_step_meta_c t c errs mi M), IH.
      pose proof (container_step_refines t c mi) as R. destruct (container_step t c mi) as [c' o]. cbn [fst snd]. destruct R as [R1 R2].
      destruct (cstep (cabs c) (cview t mi)) as [s' e]. cbn [fst snd] in *. subst s' e.
      destruct o as [x|]; cbn [is_some errs_of negb andb].
      + split; [intros [H _]; apply app_eq_nil in H as [_ H]; discriminate|intros [_ H]; discriminate].
      + rewrite app_nil_r. tauto.
  Qed.

  (** For every list of container option items: the chain reports no error exactly when the
      abstract machine accepts the list of option kinds. *)
  Theorem container_chain_accepts_iff t items :
    Forall (fun mi => is_meta mi = true) items ->
    (snd (fold_left (items_step (container_step t)) items (copts0, [])) = [] <-> cok (cabs copts0) (map (cview t) items) = true).
  Proof. intros M. rewrite (container_fold t items M). tauto. Qed.

  (** ** what the machine accepts, said without a machine *)
  Definition ccnt (k : copt) (l : list copt) : nat :=
    List.length (filter (fun o => match o, k with
                                  | CoDefault, CoDefault | CoFromIdent, CoFromIdent | CoPost, CoPost | CoAuk, CoAuk
                                  | CoFromWord, CoFromWord | CoFromNone, CoFromNone | CoFree, CoFree | CoErr, CoErr => true
                                  | _, _ => false
                                  end) l).

  (** no `default` after a `default` or a `from_ident` ([hd]: one of them was already seen) *)
  Fixpoint dok (hd : bool) (l : list copt) : bool :=
    match l with
    | [] => true
    | CoDefault :: r => negb hd && dok true r
    | CoFromIdent :: r => dok true r
    | _ :: r => dok hd r
    end.

  Definition once (seen : bool) (k : copt) (l : list copt) : Prop :=
    if seen then ccnt k l = 0%nat else (ccnt k l <= 1)%nat.

  Lemma cok_spec l : forall hd hp ha hw hn,
    cok (mkS hd hp ha hw hn) l = true <->
    ccnt CoErr l = 0%nat /\ once hp CoPost l /\ once ha CoAuk l /\ once hw CoFromWord l /\ once hn CoFromNone l /\ dok hd l = true.
  Proof.
    induction l as [|o r IH]; intros hd hp ha hw hn.
    - cbn. unfold once. cbn. destruct hp, ha, hw, hn; intuition lia.
    - cbn [cok]. destruct o; cbn [cstep s_default s_post s_auk s_word s_none].
      + destruct hd; cbn [negb andb dok]; [split; [discriminate|intros [_ [_ [_ [_ [_ H]]]]]; discriminate]|].
        rewrite IH. unfold once, ccnt. cbn. tauto.
      + cbn [negb andb dok]. rewrite IH. unfold once, ccnt. cbn. tauto.
      + destruct hp; cbn [negb andb dok].
        * split; [discriminate|intros [_ [H _]]; unfold once, ccnt in H; cbn in H; discriminate].
        * rewrite IH. unfold once, ccnt. cbn. intuition lia.
      + destruct ha; cbn [negb andb dok].
        * split; [discriminate|intros [_ [_ [H _]]]; unfold once, ccnt in H; cbn in H; discriminate].
        * rewrite IH. unfold once, ccnt. cbn. intuition lia.
      + destruct hw; cbn [negb andb dok].
        * split; [discriminate|intros [_ [_ [_ [H _]]]]; unfold once, ccnt in H; cbn in H; discriminate].
        * rewrite IH. unfold once, ccnt. cbn. intuition lia.
      + destruct hn; cbn [negb andb dok].
        * split; [discriminate|intros [_ [_ [_ [_ [H _]]]]]; unfold once, ccnt in H; cbn in H; discriminate].
        * rewrite IH. unfold once, ccnt. cbn. intuition lia.
      + cbn [negb andb dok]. rewrite IH. unfold once, ccnt. cbn. tauto.
      + cbn [negb andb]. split; [discriminate|intros [H _]; unfold ccnt in H; cbn in H; discriminate].
  Qed.

  (** [dok false] in words: whenever a `default` is written, no `default` and no `from_ident` precedes it *)
  Lemma dok_true_spec l : dok true l = true <-> ccnt CoDefault l = 0%nat.
  Proof.
    induction l as [|o r IH]; [cbn; tauto|]. destruct o; cbn [dok negb andb]; unfold ccnt in *; cbn; try exact IH.
    split; [discriminate|lia].
  Qed.

  Lemma dok_false_spec l :
    dok false l = true <->
    forall pre suf, l = pre ++ CoDefault :: suf -> ccnt CoDefault pre = 0%nat /\ ccnt CoFromIdent pre = 0%nat.
  Proof.
    induction l as [|o r IH].
    - cbn. split; [intros _ pre suf E; destruct pre; discriminate|reflexivity].
    - assert (Step : o <> CoDefault -> o <> CoFromIdent -> (dok false (o :: r) = dok false r)) by (intros A B; destruct o; try reflexivity; contradiction).
      destruct o.
      + cbn [dok negb andb]. rewrite dok_true_spec. split.
        * intros H pre suf E. destruct pre as [|x pre]; [cbn; auto|]. cbn in E. injection E as <- ->.
          exfalso. unfold ccnt in H. rewrite filter_app in H. cbn in H. rewrite app_length in H. cbn in H. lia.
        * intros H. destruct (ccnt CoDefault r) eqn:C; [reflexivity|]. exfalso.
          assert (In CoDefault r).
          { unfold ccnt in C. destruct (filter _ r) as [|y ys] eqn:F; [discriminate|].
            assert (Hin : In y (filter (fun o => match o with CoDefault => true | _ => false end) r)) by (rewrite F; now left).
            apply filter_In in Hin as [Hin Hy]. destruct y; try discriminate. exact Hin. }
          apply in_split in H0 as [p [q ->]]. destruct (H (CoDefault :: p) q eq_refl) as [A _]. unfold ccnt in A. cbn in A. discriminate.
      + cbn [dok]. rewrite dok_true_spec. split.
        * intros H pre suf E. destruct pre as [|x pre]; [discriminate|]. cbn in E. injection E as <- ->.
          exfalso. unfold ccnt in H. rewrite filter_app in H. cbn in H. rewrite app_length in H. cbn in H. lia.
        * intros H. destruct (ccnt CoDefault r) eqn:C; [reflexivity|]. exfalso.
          assert (In CoDefault r).
          { unfold ccnt in C. destruct (filter _ r) as [|y ys] eqn:F; [discriminate|].
            assert (Hin : In y (filter (fun o => match o with CoDefault => true | _ => false end) r)) by (rewrite F; now left).
            apply filter_In in Hin as [Hin Hy]. destruct y; try discriminate. exact Hin. }
          apply in_split in H0 as [p [q ->]]. destruct (H (CoFromIdent :: p) q eq_refl) as [_ A]. unfold ccnt in A. cbn in A. discriminate.
      + rewrite Step by discriminate. rewrite IH. split; intros H pre suf E.
        * destruct pre as [|x pre]; [discriminate|]. cbn in E. injection E as <- ->. destruct (H pre suf eq_refl). unfold ccnt in *. cbn. auto.
        * subst r. destruct (H (CoPost :: pre) suf eq_refl). unfold ccnt in *. cbn in *. auto.
      + rewrite Step by discriminate. rewrite IH. split; intros H pre suf E.
        * destruct pre as [|x pre]; [discriminate|]. cbn in E. injection E as <- ->. destruct (H pre suf eq_refl). unfold ccnt in *. cbn. auto.
        * subst r. destruct (H (CoAuk :: pre) suf eq_refl). unfold ccnt in *. cbn in *. auto.
      + rewrite Step by discriminate. rewrite IH. split; intros H pre suf E.
        * destruct pre as [|x pre]; [discriminate|]. cbn in E. injection E as <- ->. destruct (H pre suf eq_refl). unfold ccnt in *. cbn. auto.
        * subst r. destruct (H (CoFromWord :: pre) suf eq_refl). unfold ccnt in *. cbn in *. auto.
      + rewrite Step by discriminate. rewrite IH. split; intros H pre suf E.
        * destruct pre as [|x pre]; [discriminate|]. cbn in E. injection E as <- ->. destruct (H pre suf eq_refl). unfold ccnt in *. cbn. auto.
        * subst r. destruct (H (CoFromNone :: pre) suf eq_refl). unfold ccnt in *. cbn in *. auto.
      + rewrite Step by discriminate. rewrite IH. split; intros H pre suf E.
        * destruct pre as [|x pre]; [discriminate|]. cbn in E. injection E as <- ->. destruct (H pre suf eq_refl). unfold ccnt in *. cbn. auto.
        * subst r. destruct (H (CoFree :: pre) suf eq_refl). unfold ccnt in *. cbn in *. auto.
      + rewrite Step by discriminate. rewrite IH. split; intros H pre suf E.
        * destruct pre as [|x pre]; [discriminate|]. cbn in E. injection E as <- ->. destruct (H pre suf eq_refl). unfold ccnt in *. cbn. auto.
        * subst r. destruct (H (CoErr :: pre) suf eq_refl). unfold ccnt in *. cbn in *. auto.
  Qed.

  (** without `from_ident` the predicate is a condition on counts, hence order-free *)
  Lemma dok_no_from_ident l : ccnt CoFromIdent l = 0%nat -> (dok false l = true <-> (ccnt CoDefault l <= 1)%nat).
  Proof.
    assert (G : forall l hd, ccnt CoFromIdent l = 0%nat -> (dok hd l = true <-> if hd then ccnt CoDefault l = 0%nat else (ccnt CoDefault l <= 1)%nat)).
    { induction l0 as [|o r IH]; intros hd Z; [destruct hd; cbn; intuition lia|].
      destruct o; unfold ccnt in Z; cbn in Z; try discriminate; fold (ccnt CoFromIdent r) in Z;
        try (cbn [dok]; rewrite (IH hd Z); unfold ccnt; cbn; tauto).
      cbn [dok]. destruct hd; cbn [negb andb].
      - unfold ccnt. cbn. split; [discriminate|lia].
      - rewrite (IH true Z). unfold ccnt. cbn. lia. }
    intros Z. exact (G l false Z).
  Qed.

  Lemma ccnt_perm k l l' : Permutation l l' -> ccnt k l = ccnt k l'.
  Proof.
    unfold ccnt. induction 1 as [|x l l' _ IH|x y l|l l' l'' _ IH1 _ IH2]; cbn; try congruence.
    - destruct x, k; cbn; congruence.
    - destruct x, y, k; reflexivity.
  Qed.

  (** Acceptance of the container options of a derive WITHOUT `from_ident` (FromMeta never has
      it) does not depend on the order in which they are written ... *)
  Theorem container_chain_order_free_without_from_ident t items items' :
    Forall (fun mi => is_meta mi = true) items -> Permutation items items' ->
    ccnt CoFromIdent (map (cview t) items) = 0%nat ->
    (snd (fold_left (items_step (container_step t)) items (copts0, [])) = []
     <-> snd (fold_left (items_step (container_step t)) items' (copts0, [])) = []).
  Proof.
    intros M P Z.
    assert (M' : Forall (fun mi => is_meta mi = true) items').
    { rewrite Forall_forall in *. intros x Hx. apply M. eapply Permutation_in; [apply Permutation_sym; exact P|exact Hx]. }
    pose proof (Permutation_map (cview t) P) as PK.
    assert (Z' : ccnt CoFromIdent (map (cview t) items') = 0%nat) by (now rewrite <- (ccnt_perm _ _ _ PK)).
    rewrite (container_chain_accepts_iff t items M), (container_chain_accepts_iff t items' M').
    unfold cabs. cbn. rewrite !cok_spec. unfold once. rewrite (dok_no_from_ident _ Z), (dok_no_from_ident _ Z').
    now rewrite !(ccnt_perm _ _ _ PK).
  Qed.

  (** ... and in general it accepts exactly: no malformed or unknown option, each of `map` /
      `and_then`, `allow_unknown_fields`, `from_word`, `from_none` at most once, and no `default`
      preceded by a `default` or by a `from_ident` - the only place where order matters. *)
  Theorem container_chain_accepts_exactly t items :
    Forall (fun mi => is_meta mi = true) items ->
    let l := map (cview t) items in
    (snd (fold_left (items_step (container_step t)) items (copts0, [])) = [] <->
     ccnt CoErr l = 0%nat /\ (ccnt CoPost l <= 1)%nat /\ (ccnt CoAuk l <= 1)%nat /\ (ccnt CoFromWord l <= 1)%nat /\ (ccnt CoFromNone l <= 1)%nat
     /\ forall pre suf, l = pre ++ CoDefault :: suf -> ccnt CoDefault pre = 0%nat /\ ccnt CoFromIdent pre = 0%nat).
  Proof.
    intros M l. rewrite (container_chain_accepts_iff t items M). unfold cabs. cbn. rewrite cok_spec. unfold once. rewrite dok_false_spec. tauto.
  Qed.

  (** any split over `#[darling(..)]` attributes *)
  Lemma parse_attributes_flat_c t attrs : Forall list_attr attrs ->
    forall (c : copts) errs,
      fold_left (attr_step (container_step t)) attrs (c, errs) = fold_left (items_step (container_step t)) (flat_items attrs) (c, errs).
  Proof.
    induction 1 as [|a r Ha _ IH]; intros c errs; [reflexivity|].
    destruct a as [i l|i p|i p ti items|i p ti es msg|i p e]; cbn in Ha; try contradiction.
    - cbn [fold_left flat_items]. apply IH.
    - cbn [fold_left flat_items Resolve.attr_step]. rewrite fold_left_app.
      destruct (fold_left (items_step (container_step t)) items (c, errs)) as [c1 e1]. apply IH.
  Qed.

  Theorem container_attrs_accept_exactly t attrs :
    Forall list_attr attrs ->
    let l := map (cview t) (flat_items attrs) in
    (snd (parse_attributes (container_step t) copts0 attrs) = [] <->
     ccnt CoErr l = 0%nat /\ (ccnt CoPost l <= 1)%nat /\ (ccnt CoAuk l <= 1)%nat /\ (ccnt CoFromWord l <= 1)%nat /\ (ccnt CoFromNone l <= 1)%nat
     /\ forall pre suf, l = pre ++ CoDefault :: suf -> ccnt CoDefault pre = 0%nat /\ ccnt CoFromIdent pre = 0%nat).
  Proof.
    intros H. unfold parse_attributes. rewrite parse_attributes_flat_c by assumption.
    exact (container_chain_accepts_exactly t (flat_items attrs) (flat_items_meta attrs H)).
  Qed.

  Theorem container_attrs_order_and_split_free_without_from_ident t attrs attrs' :
    Forall list_attr attrs -> Forall list_attr attrs' -> Permutation (flat_items attrs) (flat_items attrs') ->
    ccnt CoFromIdent (map (cview t) (flat_items attrs)) = 0%nat ->
    (snd (parse_attributes (container_step t) copts0 attrs) = [] <-> snd (parse_attributes (container_step t) copts0 attrs') = []).
  Proof.
    intros H H' P Z. unfold parse_attributes. rewrite !parse_attributes_flat_c by assumption.
    exact (container_chain_order_free_without_from_ident t _ _ (flat_items_meta attrs H) P Z).
  Qed.
End CView.
