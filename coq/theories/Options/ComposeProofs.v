(** Options/ComposeProofs.v — towards [resolve = Accepted <-> well_formed_10]: what an accepted
    field leaves behind (its flatten flag is the reading's), the options of the magic members that
    read options, and the fold over the fields of a struct body. *)
From DarlingModel Require Import Options.Resolve Options.FieldOrderProofs Options.VariantOrderProofs Spec.C10 Options.SpecBridge.
From Coq Require Import Permutation ZifyBool Lia.
Local Open Scope string_scope.
Local Open Scope list_scope.

Section Compose.
  Variable reparse : grammar -> string -> option string.
  Variable reparse_preds : string -> option (list string).
  Notation conv := (conv reparse reparse_preds).
  Notation view := (view reparse reparse_preds).
  Notation field_step := (field_step reparse reparse_preds).
  Notation field_wf := (field_wf reparse reparse_preds).
  Notation from_field := (from_field reparse reparse_preds).

  (** *** an accepted field carries the flatten flag exactly when `flatten` is among its options *)
  Lemma accepted_field_flatten cd rf :
    Forall attr_shaped (rf_attrs rf) ->
    snd (from_field cd rf) = [] ->
    is_some (f_flatten (fst (from_field cd rf))) = is_flatten_field (rf_attrs rf).
  Proof.
    intros SH E. unfold Resolve.from_field in *.
    destruct (parse_attributes field_step (field0 rf) (rf_attrs rf)) as [f errs] eqn:PA. cbn [fst snd] in *. subst errs.
    assert (E : snd (parse_attributes field_step (field0 rf) (rf_attrs rf)) = []) by now rewrite PA.
    destruct (accepted_attrs_are_lists field_step (rf_attrs rf) SH (field0 rf) [] E) as [A L].
    pose proof (proj1 (field_attrs_accept_iff_wf reparse reparse_preds rf (rf_attrs rf) L) E) as W.
    unfold with_inherited. cbn [f_flatten]. unfold is_flatten_field. rewrite A.
    (* the abstract state after the fold *)
    unfold parse_attributes in PA. rewrite (parse_attributes_flat reparse reparse_preds (rf_attrs rf) L) in PA.
    pose proof (items_fold_refines reparse reparse_preds (flat_items (rf_attrs rf)) (flat_items_meta (rf_attrs rf) L) (field0 rf) [] (post_ok0 rf)) as R.
    rewrite PA in R. change (abs (field0 rf)) with a0 in R. cbn [negb] in R.
    pose proof (afold_spec (map view (flat_items (rf_attrs rf)))) as [_ T]. unfold afold in T.
    destruct (fold_left _ (map view (flat_items (rf_attrs rf))) (a0, false)) as [s' e]. destruct R as [R1 _]. cbn [fst] in T.
    destruct (T W) as [pb ->]. apply (f_equal a_flat) in R1. unfold abs, state_of in R1. cbn [a_flat cfg_of c_flatten] in R1.
    rewrite R1. clear R1 T PA.
    (* kinds = names on an accepted list *)
    assert (NB : existsb (fun mi => is_bad (view mi)) (flat_items (rf_attrs rf)) = false).
    { unfold wf_kinds in W. repeat rewrite andb_true_iff in W. destruct W as [[[[[[[[W0 _] _] _] _] _] _] _] _].
      rewrite cnt_map_view in W0. rewrite <- existsb_filter in W0. now apply negb_true_iff in W0. }
    assert (P : forall mi, In mi (flat_items (rf_attrs rf)) -> is_bad (view mi) = false).
    { intros mi Hin. destruct (is_bad (view mi)) eqn:B; [|reflexivity]. exfalso.
      assert (existsb (fun mi => is_bad (view mi)) (flat_items (rf_attrs rf)) = true) by (apply existsb_exists; eauto). congruence. }
    rewrite cnt_map_view.
    rewrite (length_filter_ext (fun mi => is_flatten (view mi)) (fun mi => mpath_is mi "flatten") _)
      by (intros x Hx; apply (kind_is_name reparse reparse_preds x (P x Hx))).
    unfold Spec.C10.count. generalize (List.length (filter (fun mi => mpath_is mi "flatten") (flat_items (rf_attrs rf)))). intros n.
    unfold sat. destruct n as [|[|n]]; reflexivity.
  Qed.

  (** *** the magic members that read options (`attrs`, and `data` of FromDeriveInput): only `with`,
      at most once, a path *)
  Notation forwarded_step := (forwarded_step reparse reparse_preds).

  Definition fwd_items_wf (items : list nested) : bool :=
    known_only ["with"] items && Nat.leb (count "with" items) 1
    && forallb (fun mi => is_ok (conv (TOption TPath) mi)) items.

  Lemma forwarded_fold items : Forall (fun mi => is_meta mi = true) items -> forall hw errs,
    snd (fold_left (items_step forwarded_step) items (hw, errs)) = [] <->
    errs = [] /\ forallb (fun mi => mpath_is mi "with" && is_ok (conv (TOption TPath) mi)) items = true
    /\ (if hw then List.length items = 0 else List.length items <= 1)%nat.
  Proof.
    induction 1 as [|mi r M _ IH]; intros hw errs.
    - cbn. destruct hw; intuition lia.
    - cbn [fold_left forallb List.length].
      assert (St : items_step forwarded_step (hw, errs) mi
                   = (fst (forwarded_step hw mi), errs ++ errs_of (snd (forwarded_step hw mi)))).
      { destruct mi; cbn [is_meta] in M; try discriminate; cbn [items_step]; destruct (forwarded_step hw _); reflexivity. }
      rewrite St, IH. unfold Resolve.forwarded_step. destruct (mpath_is mi "with") eqn:N.
      + destruct hw.
        * cbn [fst snd errs_of]. split; [intros [E _]; apply app_eq_nil in E as [_ E]; discriminate|intros [_ [_ L]]; discriminate].
        * destruct (conv (TOption TPath) mi) as [v|e|m]; cbn [fst snd errs_of is_ok andb].
          -- rewrite app_nil_r. split; [intros [E [F L]]; repeat split; auto; lia|intros [E [F L]]; repeat split; auto; lia].
          -- split; [intros [E _]; apply app_eq_nil in E as [_ E]; discriminate|intros [_ [F _]]; discriminate].
          -- split; [intros [E _]; apply app_eq_nil in E as [_ E]; discriminate|intros [_ [F _]]; discriminate].
      + cbn [fst snd errs_of andb]. split; [intros [E _]; apply app_eq_nil in E as [_ E]; discriminate|intros [_ [F _]]; discriminate].
  Qed.

  Lemma fwd_items_wf_spec items :
    fwd_items_wf items = true <->
    forallb (fun mi => mpath_is mi "with" && is_ok (conv (TOption TPath) mi)) items = true /\ (List.length items <= 1)%nat.
  Proof.
    unfold fwd_items_wf, known_only, Spec.C10.count. rewrite !andb_true_iff, Nat.leb_le.
    assert (A : forall l, forallb (fun mi => existsb (mpath_is mi) ["with"]) l = true /\ forallb (fun mi => is_ok (conv (TOption TPath) mi)) l = true
                          <-> forallb (fun mi => mpath_is mi "with" && is_ok (conv (TOption TPath) mi)) l = true).
    { induction l as [|x l IHl]; [cbn; tauto|]. cbn [forallb existsb]. rewrite orb_false_r, !andb_true_iff, <- IHl. tauto. }
    rewrite <- A. split.
    - intros [[K C] V]. split; [tauto|].
      assert (E : filter (fun mi => mpath_is mi "with") items = items).
      { clear -K. induction items as [|x l IH]; [reflexivity|]. cbn [forallb existsb] in K. rewrite orb_false_r in K. apply andb_true_iff in K as [K1 K2].
        cbn [filter]. rewrite K1. now rewrite IH. }
      now rewrite E in C.
    - intros [[K V] L]. repeat split; auto. etransitivity; [|exact L].
      clear. induction items as [|x l IH]; [reflexivity|]. cbn [filter]. destruct (mpath_is x "with"); cbn [List.length]; lia.
  Qed.

  (** the magic member's chain accepts exactly the reading [magic_wf] *)
  Theorem forwarded_chain_is_the_reading attrs :
    Forall attr_shaped attrs ->
    (snd (parse_attributes forwarded_step false attrs) = []
     <-> exists items, all_items attrs = Some items /\ fwd_items_wf items = true).
  Proof.
    intros SH. split.
    - intros E. destruct (accepted_attrs_are_lists forwarded_step attrs SH false [] E) as [A L].
      exists (flat_items attrs). split; [exact A|]. apply fwd_items_wf_spec.
      unfold parse_attributes in E.
      assert (F : forall (hw : bool) errs, fold_left (attr_step forwarded_step) attrs (hw, errs)
                                            = fold_left (items_step forwarded_step) (flat_items attrs) (hw, errs)).
      { clear -L. induction L as [|a r Ha _ IH]; intros hw errs; [reflexivity|].
        destruct a as [i l|i p|i p ti items|i p ti es msg|i p e]; cbn in Ha; try contradiction.
        - cbn [fold_left flat_items]. apply IH.
        - cbn [fold_left flat_items Resolve.attr_step]. rewrite fold_left_app.
          destruct (fold_left (items_step forwarded_step) items (hw, errs)) as [h1 e1]. apply IH. }
      rewrite F in E. apply (forwarded_fold _ (flat_items_meta attrs L)) in E. tauto.
    - intros [items [A W]]. destruct (all_items_lists _ _ A) as [L ->]. apply fwd_items_wf_spec in W.
      unfold parse_attributes.
      assert (F : forall (hw : bool) errs, fold_left (attr_step forwarded_step) attrs (hw, errs)
                                            = fold_left (items_step forwarded_step) (flat_items attrs) (hw, errs)).
      { clear -L. induction L as [|a r Ha _ IH]; intros hw errs; [reflexivity|].
        destruct a as [i l|i p|i p ti items|i p ti es msg|i p e]; cbn in Ha; try contradiction.
        - cbn [fold_left flat_items]. apply IH.
        - cbn [fold_left flat_items Resolve.attr_step]. rewrite fold_left_app.
          destruct (fold_left (items_step forwarded_step) items (hw, errs)) as [h1 e1]. apply IH. }
      rewrite F. apply (forwarded_fold _ (flat_items_meta attrs L)). tauto.
  Qed.

  (** *** the fields of a struct body *)
  Notation body_field := (body_field reparse reparse_preds).
  Notation magic_wf := (magic_wf reparse reparse_preds).

  Definition field_ok (t : dtrait) (rf : rfield) : bool :=
    if is_magic t rf then magic_wf t rf else field_wf (rf_attrs rf).

  Definition magic_entry (rf : rfield) : string * span :=
    (match rf_ident rf with Some s => s | None => "" end,
     match rf_ident_span rf with Some s => s | None => rf_span rf end).

  Lemma magic_wf_reads t rf : reads_options t rf = true ->
    (magic_wf t rf = true <-> exists items, all_items (rf_attrs rf) = Some items /\ fwd_items_wf items = true).
  Proof.
    intros R. unfold Spec.C10.magic_wf. rewrite R. destruct (all_items (rf_attrs rf)) as [items|].
    - unfold fwd_items_wf. split; [eauto|]. now intros [x [[= <-] W]].
    - split; [discriminate|]. intros [x [[=] _]].
  Qed.

  (** one step of the fold: an acceptable field is recorded (as an ordinary field or as a magic
      member) and leaves the errors alone; any other adds at least one error *)
  Lemma body_field_spec t cd b rf : Forall attr_shaped (rf_attrs rf) ->
    let b' := body_field t cd b rf in
    if field_ok t rf
    then b_errs b' = b_errs b
         /\ b_fields b' = b_fields b ++ (if is_magic t rf then [] else [fst (from_field cd rf)])
         /\ b_magic b' = b_magic b ++ (if is_magic t rf then [magic_entry rf] else [])
    else exists e es, b_errs b' = b_errs b ++ e :: es.
  Proof.
    intros SH. unfold Resolve.body_field, field_ok, is_magic, reads_options, magic_entry.
    destruct (rf_ident rf) as [n|] eqn:I; cbn [andb].
    - destruct (existsb (str_eqb n) (magic_fields t)) eqn:M.
      + (* a magic member *)
        destruct (str_eqb n "attrs" || (str_eqb n "data" && match t with DFromDeriveInput => true | _ => false end))%bool eqn:R.
        * assert (RO : reads_options t rf = true) by (unfold reads_options; now rewrite I).
          pose proof (magic_wf_reads t rf RO) as MW.
          pose proof (forwarded_chain_is_the_reading (rf_attrs rf) SH) as FC.
          destruct (parse_attributes forwarded_step false (rf_attrs rf)) as [hw errs]. cbn [snd] in FC.
          destruct (magic_wf t rf) eqn:W.
          -- assert (errs = []) by (apply FC, MW; reflexivity). subst errs. cbn [b_errs b_fields b_magic]. rewrite app_nil_r. auto.
          -- destruct errs as [|e es].
             ++ exfalso. assert (false = true) by (apply MW, FC; reflexivity). discriminate.
             ++ cbn [b_errs]. eauto.
        * assert (W : magic_wf t rf = true).
          { unfold Spec.C10.magic_wf, reads_options. rewrite I, R. reflexivity. }
          rewrite W. cbn [b_errs b_fields b_magic]. rewrite app_nil_r. auto.
      + (* an ordinary named field *)
        pose proof (field_chain_is_the_reading reparse reparse_preds rf SH) as FC.
        unfold Resolve.from_field. destruct (parse_attributes field_step (field0 rf) (rf_attrs rf)) as [f errs]. cbn [fst snd] in *.
        destruct (field_wf (rf_attrs rf)) eqn:W.
        * assert (errs = []) by (apply FC; reflexivity). subst errs. cbn [b_errs b_fields b_magic]. rewrite app_nil_r. auto.
        * destruct errs as [|e es]; [exfalso; assert (false = true) by (apply FC; reflexivity); discriminate|].
          cbn [b_errs]. eauto.
    - pose proof (field_chain_is_the_reading reparse reparse_preds rf SH) as FC.
      unfold Resolve.from_field. destruct (parse_attributes field_step (field0 rf) (rf_attrs rf)) as [f errs]. cbn [fst snd] in *.
      destruct (field_wf (rf_attrs rf)) eqn:W.
      + assert (errs = []) by (apply FC; reflexivity). subst errs. cbn [b_errs b_fields b_magic]. rewrite app_nil_r. auto.
      + destruct errs as [|e es]; [exfalso; assert (false = true) by (apply FC; reflexivity); discriminate|].
        cbn [b_errs]. eauto.
  Qed.

  Lemma body_fold_errs_prefix t cd rfs : forall b, exists more, b_errs (fold_left (body_field t cd) rfs b) = b_errs b ++ more.
  Proof.
    induction rfs as [|rf r IH]; intros b; cbn [fold_left]; [exists []; now rewrite app_nil_r|].
    destruct (IH (body_field t cd b rf)) as [m Hm]. rewrite Hm.
    assert (P : exists m1, b_errs (body_field t cd b rf) = b_errs b ++ m1).
    { unfold Resolve.body_field. destruct (_ && _)%bool.
      - destruct (_ || _)%bool.
        + destruct (parse_attributes _ false (rf_attrs rf)) as [hw [|e es]]; cbn [b_errs]; [exists []; now rewrite app_nil_r|eauto].
        + cbn [b_errs]. exists []. now rewrite app_nil_r.
      - destruct (from_field cd rf) as [f [|e es]]; cbn [b_errs]; [exists []; now rewrite app_nil_r|eauto]. }
    destruct P as [m1 ->]. rewrite <- app_assoc. eauto.
  Qed.

  (** THE STRUCT-BODY FOLD: no error exactly when every field is acceptable; the ordinary fields and
      the magic members are then exactly those of the declaration, in order *)
  Theorem body_fold_spec t cd rfs : Forall (fun rf => Forall attr_shaped (rf_attrs rf)) rfs -> forall b,
    let b' := fold_left (body_field t cd) rfs b in
    (b_errs b' = [] <-> b_errs b = [] /\ forallb (field_ok t) rfs = true)
    /\ (forallb (field_ok t) rfs = true ->
        b_fields b' = b_fields b ++ map (fun rf => fst (from_field cd rf)) (filter (fun rf => negb (is_magic t rf)) rfs)
        /\ b_magic b' = b_magic b ++ map magic_entry (filter (is_magic t) rfs)).
  Proof.
    induction 1 as [|rf r SH _ IH]; intros b; cbn [fold_left forallb filter map].
    - rewrite !app_nil_r. intuition.
    - pose proof (body_field_spec t cd b rf SH) as ST. cbv zeta in ST.
      destruct (IH (body_field t cd b rf)) as [IH1 IH2]. cbv zeta in IH1, IH2.
      destruct (field_ok t rf) eqn:FO; cbn [andb].
      + destruct ST as [E [F M]]. rewrite IH1, E. split; [tauto|].
        intros W. destruct (IH2 W) as [F2 M2]. rewrite F2, M2, F, M.
        destruct (is_magic t rf); cbn [negb map app]; rewrite <- ?app_assoc; cbn [app]; rewrite ?app_nil_r; auto.
      + destruct ST as [e [es E]]. split; [|discriminate].
        split; [|intros [_ H]; discriminate].
        intros H. exfalso. destruct (body_fold_errs_prefix t cd r (body_field t cd b rf)) as [m Hm].
        rewrite Hm, E in H. apply app_eq_nil in H as [H _]. apply app_eq_nil in H as [_ H]. discriminate.
  Qed.

  (** *** more than one flatten field *)
  Lemma flatten_errors_nil fs :
    flatten_errors fs = [] <-> (List.length (filter (fun f => is_some (f_flatten f)) fs) <= 1)%nat.
  Proof.
    unfold flatten_errors.
    assert (E : List.length (flat_map (fun f => match f_flatten f with Some s => [s] | None => [] end) fs)
                = List.length (filter (fun f => is_some (f_flatten f)) fs)).
    { induction fs as [|f r IH]; [reflexivity|]. cbn [flat_map filter]. destruct (f_flatten f); cbn [is_some app List.length]; now rewrite IH. }
    rewrite <- E. destruct (flat_map _ fs) as [|a [|b r]]; cbn [List.length map]; split; intros H; try reflexivity; try lia; discriminate.
  Qed.

  Lemma accepted_fields_flatten cd t rfs :
    Forall (fun rf => Forall attr_shaped (rf_attrs rf)) rfs -> forallb (field_ok t) rfs = true ->
    List.length (filter (fun f => is_some (f_flatten f))
                        (map (fun rf => fst (from_field cd rf)) (filter (fun rf => negb (is_magic t rf)) rfs)))
    = List.length (filter (fun rf => negb (is_magic t rf) && is_flatten_field (rf_attrs rf)) rfs).
  Proof.
    induction 1 as [|rf r SH _ IH]; [reflexivity|]. cbn [forallb filter]. intros W. apply andb_true_iff in W as [W1 W2].
    specialize (IH W2). destruct (is_magic t rf) eqn:M; cbn [negb andb map filter]; [exact IH|].
    unfold field_ok in W1. rewrite M in W1.
    assert (E : snd (from_field cd rf) = []).
    { unfold Resolve.from_field. pose proof (proj2 (field_chain_is_the_reading reparse reparse_preds rf SH) W1) as E.
      destruct (parse_attributes field_step (field0 rf) (rf_attrs rf)). exact E. }
    rewrite (accepted_field_flatten cd rf SH E). destruct (is_flatten_field (rf_attrs rf)); cbn [List.length]; now rewrite IH.
  Qed.

  (** *** a struct body: [parse_body] + [validate_body] report nothing exactly when the reading's
      body rules hold (the container's final state enters through what it recorded of
      `forward_attrs` and `from_word`) *)
  Notation resolve_body := (resolve_body reparse reparse_preds).

  Definition struct_reading (t : dtrait) (has_fwd has_word : bool) (style : rstyle) (rfs : list rfield) : bool :=
    forallb (field_ok t) rfs
    && (match style with
        | StTuple => Nat.eqb (List.length rfs) 1
                     && match t with DFromField | DFromVariant | DFromTypeParam => false | _ => true end
        | _ => true
        end)
    && Nat.leb (List.length (filter (fun rf => negb (is_magic t rf) && is_flatten_field (rf_attrs rf)) rfs)) 1
    && (if is_outer t
        then negb (existsb (fun rf => match rf_ident rf with Some n => str_eqb n "attrs" | None => false end) rfs) || has_fwd
        else negb (has_word && match style, rfs with StUnit, _ => true | StTuple, [_] => true | _, _ => false end)).

  Lemma tuple_fields_not_magic t rfs : Forall (fun rf => rf_ident rf = None) rfs -> filter (fun rf => negb (is_magic t rf)) rfs = rfs.
  Proof. induction 1 as [|rf r H _ IH]; [reflexivity|]. cbn [filter]. unfold is_magic at 1. rewrite H. cbn [negb]. now rewrite IH. Qed.

  Lemma attrs_is_magic t rf : is_outer t = true ->
    (match rf_ident rf with Some n => str_eqb n "attrs" | None => false end) = true -> is_magic t rf = true.
  Proof.
    intros O H. unfold is_magic. destruct (rf_ident rf) as [n|]; [|discriminate]. unfold str_eqb in H. apply String.eqb_eq in H. subst n.
    destruct t; try discriminate; reflexivity.
  Qed.

  Lemma find_attrs_magic t rfs : is_outer t = true ->
    (match find (fun m : string * span => str_eqb (fst m) "attrs") (map magic_entry (filter (is_magic t) rfs)) with Some _ => true | None => false end)
    = existsb (fun rf => match rf_ident rf with Some n => str_eqb n "attrs" | None => false end) rfs.
  Proof.
    intros O. induction rfs as [|rf r IH]; [reflexivity|]. cbn [filter existsb].
    destruct (match rf_ident rf with Some n => str_eqb n "attrs" | None => false end) eqn:A.
    - rewrite (attrs_is_magic t rf O A). cbn [map find]. unfold magic_entry at 1. cbn [fst].
      destruct (rf_ident rf) as [n|]; [|discriminate]. now rewrite A.
    - cbn [orb]. destruct (is_magic t rf) eqn:M; [|exact IH]. cbn [map find]. unfold magic_entry at 1. cbn [fst].
      destruct (rf_ident rf) as [n|].
      + rewrite A. exact IH.
      + unfold is_magic in M. now destruct (rf_ident rf).
  Qed.

  Lemma app_nil_iff {A} (x y : list A) : x ++ y = [] <-> x = [] /\ y = [].
  Proof. split; [apply app_eq_nil|intros [-> ->]; reflexivity]. Qed.

  Theorem struct_body_is_the_reading t c d style rfs fspan :
    rd_body d = RStruct style rfs fspan ->
    Forall (fun rf => Forall attr_shaped (rf_attrs rf)) rfs ->
    (style = StTuple -> Forall (fun rf => rf_ident rf = None) rfs) ->
    (snd (resolve_body t c d) = []
     <-> struct_reading t (is_some (c_forward_attrs c)) (is_some (c_from_word c)) style rfs = true).
  Proof.
    intros B SH TU. unfold Resolve.resolve_body. rewrite B.
    set (cd := match Resolve.c_default c with Some _ => true | None => false end).
    pose proof (body_fold_spec t cd rfs SH (mkB [] [] [])) as [F1 F2]. cbv zeta in F1, F2. cbn [b_errs b_fields b_magic app] in F1, F2.
    set (b := fold_left (body_field t cd) rfs (mkB [] [] [])) in *. cbn [snd].
    unfold struct_reading. destruct (forallb (field_ok t) rfs) eqn:FO.
    - destruct (F2 eq_refl) as [BF BM]. assert (BE : b_errs b = []) by (apply F1; auto). rewrite BE. cbn [app andb].
      rewrite !app_nil_iff.
      (* the four rule groups, one by one *)
      assert (V1 : flatten_errors (b_fields b) = []
                   <-> Nat.leb (List.length (filter (fun rf => negb (is_magic t rf) && is_flatten_field (rf_attrs rf)) rfs)) 1 = true).
      { rewrite flatten_errors_nil, BF, (accepted_fields_flatten cd t rfs SH FO), Nat.leb_le. tauto. }
      assert (T : (match style with StTuple => if Nat.eqb (List.length rfs) 1 then [] else [tuple_error fspan] | _ => [] end = []
                   /\ match t, style, b_fields b with
                      | (DFromField | DFromVariant | DFromTypeParam), StTuple, [_] =>
                          [with_span (rd_ident_span d) (new_err (KUnsupportedShape "one unnamed field" (Some "named fields or no fields")))]
                      | _, _, _ => []
                      end = [])
                  <-> match style with
                      | StTuple => Nat.eqb (List.length rfs) 1 && match t with DFromField | DFromVariant | DFromTypeParam => false | _ => true end
                      | _ => true
                      end = true).
      { destruct style; try (destruct t; tauto).
        rewrite BF, (tuple_fields_not_magic t rfs (TU eq_refl)).
        destruct rfs as [|x [|y r]]; cbn [List.length Nat.eqb map]; destruct t; cbn; split; intros H; try tauto; try discriminate; try (destruct H; discriminate); auto. }
      assert (V2 : (if is_outer t
                    then match find (fun m => str_eqb (fst m) "attrs") (b_magic b), c_forward_attrs c with
                         | Some (_, sp), None => [with_span sp (custom "field will not be populated because `forward_attrs` is not set on the struct")]
                         | _, _ => []
                         end
                    else match c_from_word c with
                         | Some sp =>
                             match style, b_fields b with
                             | StUnit, _ => [with_span sp (custom "`from_word` cannot be used on unit structs because it conflicts with the generated impl")]
                             | StTuple, [_] => [with_span sp (custom "`from_word` cannot be used on newtype structs because the implementation is entirely delegated to the inner type")]
                             | _, _ => []
                             end
                         | None => []
                         end) = []
                   <-> (if is_outer t
                        then negb (existsb (fun rf => match rf_ident rf with Some n => str_eqb n "attrs" | None => false end) rfs) || is_some (c_forward_attrs c)
                        else negb (is_some (c_from_word c) && match style, rfs with StUnit, _ => true | StTuple, [_] => true | _, _ => false end)) = true).
      { destruct (is_outer t) eqn:O.
        - rewrite BM, <- (find_attrs_magic t rfs O).
          destruct (find _ (map magic_entry (filter (is_magic t) rfs))) as [[n sp]|]; destruct (c_forward_attrs c); cbn; split; intros H; try reflexivity; discriminate.
        - destruct (c_from_word c) as [sp|]; cbn [is_some andb negb]; [|tauto].
          destruct style; cbn; try tauto; try (split; intros H; discriminate).
          rewrite BF, (tuple_fields_not_magic t rfs (TU eq_refl)).
          destruct rfs as [|x [|y r]]; cbn [map]; split; intros H; try reflexivity; discriminate. }
      rewrite !andb_true_iff. tauto.
    - cbn [andb]. split; [|discriminate]. intros H. exfalso.
      apply app_eq_nil in H as [H _]. assert (X : [] = [] /\ false = true) by (apply F1; exact H). destruct X; discriminate.
  Qed.

  (** *** what an error-free container chain has recorded *)
  Notation container_step := (container_step reparse reparse_preds).

  (** a projection of the state that an error-free step sets exactly at the items named [n] *)
  Lemma tracked_fold {S : Type} (stepf : S -> nested -> arm S) (pr : S -> bool) (n : string) :
    (forall s mi, is_meta mi = true -> snd (stepf s mi) = None -> pr (fst (stepf s mi)) = (pr s || mpath_is mi n)%bool) ->
    forall items, Forall (fun mi => is_meta mi = true) items -> forall s errs,
      snd (fold_left (items_step stepf) items (s, errs)) = [] ->
      pr (fst (fold_left (items_step stepf) items (s, errs))) = (pr s || existsb (fun mi => mpath_is mi n) items)%bool.
  Proof.
    intros H items M. induction M as [|mi r Hm _ IH]; intros s errs E; cbn [fold_left existsb]; [now rewrite orb_false_r|].
    cbn [fold_left] in E.
    assert (St : items_step stepf (s, errs) mi = (fst (stepf s mi), errs ++ errs_of (snd (stepf s mi)))).
    { destruct mi; cbn [is_meta] in Hm; try discriminate; cbn [items_step]; destruct (stepf s _); reflexivity. }
    rewrite St in *. rewrite (IH _ _ E).
    destruct (snd (stepf s mi)) as [e|] eqn:O.
    - exfalso. destruct (items_fold_prefix stepf r (fst (stepf s mi)) (errs ++ errs_of (Some e))) as [m Hm2].
      rewrite Hm2 in E. apply app_eq_nil in E as [E _]. apply app_eq_nil in E as [_ E]. discriminate.
    - rewrite (H s mi Hm O). now rewrite orb_assoc.
  Qed.

  Lemma has_option_items attrs items n : all_items attrs = Some items ->
    has_option n attrs = existsb (fun mi => mpath_is mi n) items.
  Proof.
    intros A. unfold has_option, Spec.C10.count. rewrite A.
    induction items as [|x r IH] in |- *; [reflexivity|]. cbn [filter existsb]. destruct (mpath_is x n); cbn [List.length]; [reflexivity|].
    clear IH. induction r as [|y r IHr]; [reflexivity|]. cbn [filter existsb]. destruct (mpath_is y n); [reflexivity|exact IHr].
  Qed.

  Ltac crush_step :=
    repeat match goal with
           | |- context [if mpath_is ?mi ?n then _ else _] => destruct (mpath_is mi n) eqn:?
           | |- context [if (mpath_is ?mi ?a || mpath_is ?mi ?b)%bool then _ else _] => destruct (mpath_is mi a) eqn:?; destruct (mpath_is mi b) eqn:?; cbn [orb]
           | |- context [match ?x with _ => _ end] =>
               lazymatch x with
               | context [mpath_is] => fail
               | _ => destruct x eqn:?
               end
           end;
    cbn [fst snd c_forward_attrs c_from_word is_some orb] in *; try discriminate; try reflexivity; try (now rewrite orb_false_r).

  Lemma container_step_fw t c mi : is_meta mi = true -> snd (container_step t c mi) = None ->
    is_some (c_forward_attrs (fst (container_step t c mi))) = (is_some (c_forward_attrs c) || mpath_is mi "forward_attrs")%bool.
  Proof.
    intros M. destruct (mpath_is mi "forward_attrs") eqn:F.
    - rewrite orb_true_r.
      destruct t; unfold Resolve.container_step, di_step, v_step, outer_step, from_meta_step, core_step;
        repeat match goal with
               | |- context [mpath_is mi ?n] =>
                   let N := fresh in assert (N : "forward_attrs" <> n) by discriminate;
                   rewrite (names_excl mi "forward_attrs" n N F); clear N
               end; cbn [orb]; rewrite ?F;
        destruct mi; try (cbn in M; discriminate); try (cbn in F; discriminate); crush_step.
    - rewrite orb_false_r.
      destruct t; unfold Resolve.container_step, di_step, v_step, outer_step, from_meta_step, core_step; rewrite ?F; crush_step.
  Qed.

  Lemma container_step_ww t c mi : is_meta mi = true -> snd (container_step t c mi) = None ->
    is_some (c_from_word (fst (container_step t c mi))) = (is_some (c_from_word c) || mpath_is mi "from_word")%bool.
  Proof.
    intros M. destruct (mpath_is mi "from_word") eqn:F.
    - rewrite orb_true_r.
      destruct t; unfold Resolve.container_step, di_step, v_step, outer_step, from_meta_step, core_step;
        repeat match goal with
               | |- context [mpath_is mi ?n] =>
                   let N := fresh in assert (N : "from_word" <> n) by discriminate;
                   rewrite (names_excl mi "from_word" n N F); clear N
               end; cbn [orb]; rewrite ?F;
        destruct mi; try (cbn in M; discriminate); try (cbn in F; discriminate); crush_step.
    - rewrite orb_false_r.
      destruct t; unfold Resolve.container_step, di_step, v_step, outer_step, from_meta_step, core_step; rewrite ?F; crush_step.
  Qed.

  (** what the accepted container chain leaves in the state the body rules look at *)
  Theorem accepted_container_records t attrs :
    Forall attr_shaped attrs ->
    snd (parse_attributes (container_step t) copts0 attrs) = [] ->
    let c := fst (parse_attributes (container_step t) copts0 attrs) in
    is_some (c_forward_attrs c) = has_option "forward_attrs" attrs
    /\ is_some (c_from_word c) = has_option "from_word" attrs.
  Proof.
    intros SH E. destruct (accepted_attrs_are_lists (container_step t) attrs SH copts0 [] E) as [A L].
    cbv zeta. rewrite !(has_option_items attrs _ _ A). unfold parse_attributes in *.
    rewrite (ContainerOrderProofs.parse_attributes_flat_c reparse reparse_preds t attrs L) in *.
    pose proof (flat_items_meta attrs L) as M. split.
    - rewrite (tracked_fold (container_step t) (fun c => is_some (c_forward_attrs c)) "forward_attrs"
                 (fun s mi Hm Ho => container_step_fw t s mi Hm Ho) (flat_items attrs) M copts0 [] E). reflexivity.
    - rewrite (tracked_fold (container_step t) (fun c => is_some (c_from_word c)) "from_word"
                 (fun s mi Hm Ho => container_step_ww t s mi Hm Ho) (flat_items attrs) M copts0 [] E). reflexivity.
  Qed.


  (** *** `attributes(..)`: the last one wins; FromAttributes needs it non-empty *)
  Lemma tracked_last {S : Type} (stepf : S -> nested -> arm S) (pr : S -> bool) (n : string) (val : nested -> bool) :
    (forall s mi, is_meta mi = true -> snd (stepf s mi) = None ->
                  pr (fst (stepf s mi)) = if mpath_is mi n then val mi else pr s) ->
    forall items, Forall (fun mi => is_meta mi = true) items -> forall s errs,
      snd (fold_left (items_step stepf) items (s, errs)) = [] ->
      pr (fst (fold_left (items_step stepf) items (s, errs)))
      = fold_left (fun d mi => if mpath_is mi n then val mi else d) items (pr s).
  Proof.
    intros H items M. induction M as [|mi r Hm _ IH]; intros s errs E; cbn [fold_left]; [reflexivity|].
    cbn [fold_left] in E.
    assert (St : items_step stepf (s, errs) mi = (fst (stepf s mi), errs ++ errs_of (snd (stepf s mi)))).
    { destruct mi; cbn [is_meta] in Hm; try discriminate; cbn [items_step]; destruct (stepf s _); reflexivity. }
    rewrite St in *. rewrite (IH _ _ E).
    destruct (snd (stepf s mi)) as [e|] eqn:O.
    - exfalso. destruct (items_fold_prefix stepf r (fst (stepf s mi)) (errs ++ errs_of (Some e))) as [m Hm2].
      rewrite Hm2 in E. apply app_eq_nil in E as [E _]. apply app_eq_nil in E as [_ E]. discriminate.
    - now rewrite (H s mi Hm O).
  Qed.

  Definition nonempty_list (mi : nested) : bool := match mi with NList _ _ _ (_ :: _) => true | _ => false end.

  Lemma last_wins_rev n items : forall d,
    fold_left (fun d mi => if mpath_is mi n then nonempty_list mi else d) items d
    = match rev (filter (fun mi => mpath_is mi n) items) with
      | x :: _ => nonempty_list x
      | [] => d
      end.
  Proof.
    induction items as [|mi r IH]; intros d; [reflexivity|]. cbn [fold_left filter]. rewrite IH.
    destruct (mpath_is mi n); [|reflexivity]. cbn [rev].
    destruct (rev (filter (fun mi0 => mpath_is mi0 n) r)) as [|x xs]; reflexivity.
  Qed.

  Lemma pathlist_go_len items : forall vs, pathlist_go items = Ok vs -> List.length vs = List.length items.
  Proof.
    induction items as [|it r IH]; intros vs; cbn [pathlist_go]; [intros [= <-]; reflexivity|].
    destruct it; try discriminate. destruct (pathlist_go r) as [ws|e|m]; try discriminate. intros [= <-]. cbn. now rewrite (IH ws eq_refl).
  Qed.

  Lemma conv_pathlist_ok mi v : conv TPathList mi = Ok v ->
    exists i p ti items vs, mi = NList i p ti items /\ v = VList vs /\ List.length vs = List.length items.
  Proof.
    unfold Resolve.conv, FM. cbn [fm_of]. unfold from_meta. cbn [pathlist_fm o_meta].
    destruct mi as [i l|i p|i p ti items|i p ti es msg|i p e]; cbn [default_from_meta]; try discriminate.
    - intros H. apply map_err_Ok in H. unfold from_list in H. cbn [o_list pathlist_fm] in H. cbv beta in H.
      destruct (pathlist_go items) as [vs|x|m] eqn:G; cbn [map_ok] in H; try discriminate. injection H as <-.
      exists i, p, ti, items, vs. repeat split. now apply pathlist_go_len.
    - intros H. apply map_err_Ok in H. unfold from_expr in H. cbn [o_expr] in H.
      apply from_expr_ok_source in H; [|reflexivity].
      destruct H as [H|[[s H]|[[b H]|[c H]]]]; unfold from_word, from_string, from_bool, from_char in H; cbn in H; discriminate H.
  Qed.

  Definition has_names (c : copts) : bool := match c_attr_names c with [] => false | _ => true end.

  Lemma container_step_names t c mi : is_meta mi = true -> snd (container_step t c mi) = None ->
    has_names (fst (container_step t c mi)) = if mpath_is mi "attributes" then nonempty_list mi else has_names c.
  Proof.
    intros M. destruct (mpath_is mi "attributes") eqn:F.
    - destruct t; unfold Resolve.container_step, di_step, v_step, outer_step, from_meta_step, core_step;
        repeat match goal with
               | |- context [mpath_is mi ?n] =>
                   let N := fresh in assert (N : "attributes" <> n) by discriminate;
                   rewrite (names_excl mi "attributes" n N F); clear N
               end; cbn [orb]; rewrite ?F; try (cbn [snd]; discriminate);
        (destruct (conv TPathList mi) as [v|e|m] eqn:C; cbn [fst snd]; try discriminate; intros _;
         destruct (conv_pathlist_ok mi v C) as [i [p [ti [items [vs [-> [-> L]]]]]]];
         unfold has_names; cbn [c_attr_names strs_of nonempty_list];
         destruct vs, items; cbn in L; try discriminate; reflexivity).
    - destruct t; unfold Resolve.container_step, di_step, v_step, outer_step, from_meta_step, core_step, has_names; rewrite ?F;
        repeat match goal with
               | |- context [if mpath_is ?mi ?n then _ else _] => destruct (mpath_is mi n) eqn:?
               | |- context [if (mpath_is ?mi ?a || mpath_is ?mi ?b)%bool then _ else _] => destruct (mpath_is mi a) eqn:?; destruct (mpath_is mi b) eqn:?; cbn [orb]
               | |- context [match ?x with _ => _ end] =>
                   lazymatch x with
                   | context [mpath_is] => fail
                   | context [c_attr_names] => fail
                   | _ => destruct x eqn:?
                   end
               end;
        cbn [fst snd c_attr_names] in *; try discriminate; try reflexivity.
  Qed.

  (** the last `attributes(..)` of an accepted container is what the state holds *)
  Theorem accepted_container_names t attrs items :
    Forall attr_shaped attrs -> all_items attrs = Some items ->
    snd (parse_attributes (container_step t) copts0 attrs) = [] ->
    has_names (fst (parse_attributes (container_step t) copts0 attrs))
    = match rev (filter (fun mi => mpath_is mi "attributes") items) with
      | NList _ _ _ (_ :: _) :: _ => true
      | _ => false
      end.
  Proof.
    intros SH A E. destruct (all_items_lists _ _ A) as [L ->].
    unfold parse_attributes in *. rewrite (ContainerOrderProofs.parse_attributes_flat_c reparse reparse_preds t attrs L) in *.
    rewrite (tracked_last (container_step t) has_names "attributes" nonempty_list
               (fun s mi Hm Ho => container_step_names t s mi Hm Ho) (flat_items attrs) (flat_items_meta attrs L) copts0 [] E).
    rewrite last_wins_rev. change (has_names copts0) with false.
    destruct (rev (filter (fun mi => mpath_is mi "attributes") (flat_items attrs))) as [|x xs]; [reflexivity|].
    destruct x as [| |i p ti [|y ys]| |]; reflexivity.
  Qed.

  (** *** a struct receiver, whole: the derive accepts exactly the well-formed declarations *)
  Notation resolve := (resolve reparse reparse_preds).
  Notation well_formed_10 := (well_formed_10 reparse reparse_preds).
  Notation container_wf := (container_wf reparse reparse_preds).

  Definition no_default_after_from_ident (attrs : list nested) : Prop :=
    exists items, all_items attrs = Some items /\ default_after_from_ident false items = false.

  Theorem resolve_struct_is_the_reading t d style rfs fspan :
    rd_body d = RStruct style rfs fspan ->
    Forall attr_shaped (rd_attrs d) ->
    Forall (fun rf => Forall attr_shaped (rf_attrs rf)) rfs ->
    (style = StTuple -> Forall (fun rf => rf_ident rf = None) rfs) ->
    ((exists c b, resolve t d = Accepted c b)
     <-> well_formed_10 t d = true /\ no_default_after_from_ident (rd_attrs d)).
  Proof.
    intros B SHc SHf TU. unfold Resolve.resolve, Spec.C10.well_formed_10. rewrite B.
    pose proof (container_chain_is_the_reading reparse reparse_preds t (rd_attrs d) SHc) as CC.
    destruct (parse_attributes (container_step t) copts0 (rd_attrs d)) as [c errs] eqn:PA. cbn [snd] in CC.
    destruct errs as [|e es].
    - (* the container chain is clean *)
      destruct (proj1 CC eq_refl) as [CW [items [A D]]].
      assert (E : snd (parse_attributes (container_step t) copts0 (rd_attrs d)) = []) by now rewrite PA.
      pose proof (accepted_container_records t (rd_attrs d) SHc E) as [RF RW]. rewrite PA in RF, RW. cbn [fst] in RF, RW.
      pose proof (accepted_container_names t (rd_attrs d) items SHc A E) as RN. rewrite PA in RN. cbn [fst] in RN.
      pose proof (struct_body_is_the_reading t c d style rfs fspan B SHf TU) as SB. rewrite RF, RW in SB.
      rewrite CW. cbn [andb].
      assert (FO : forallb (fun rf => if is_magic t rf then magic_wf t rf else field_wf (rf_attrs rf)) rfs = forallb (field_ok t) rfs) by reflexivity.
      rewrite FO. unfold struct_reading in SB.
      destruct (Resolve.resolve_body reparse reparse_preds t c d) as [ob errs2] eqn:RB. cbn [snd] in SB.
      assert (OB : exists b, ob = Some b).
      { unfold Resolve.resolve_body in RB. rewrite B in RB. destruct (fold_left _ rfs _). injection RB as <- _. eauto. }
      destruct OB as [b ->].
      destruct errs2 as [|e2 es2].
      + (* the body is clean *)
        pose proof (proj1 SB eq_refl) as SR. repeat rewrite andb_true_iff in SR. destruct SR as [[[S1 S2] S3] S4].
        rewrite S1, S2, S3. cbn [andb]. destruct (is_outer t) eqn:O.
        * rewrite S4. cbn [andb]. destruct t; try discriminate; try (split; [intros _; split; [reflexivity|exists items; auto]|eauto]).
          (* FromAttributes: the name rule *)
          unfold newtype_body. rewrite B. rewrite A.
          assert (HN : (match c_attr_names c with [] => true | _ => false end) = negb (has_names c)) by (unfold has_names; destruct (c_attr_names c); reflexivity).
          rewrite HN, RN.
          destruct style; destruct rfs as [|x [|y r]]; cbn [negb andb];
            destruct (rev (filter (fun mi => mpath_is mi "attributes") items)) as [|[| |? ? ? [|? ?]| |] ?]; cbn [negb];
            split; try (intros [c0 [b0 H]]; discriminate); try (intros _; split; [reflexivity|exists items; auto]);
            try (intros [H _]; discriminate); eauto.
        * rewrite S4. destruct t; try discriminate. split; [intros _; split; [reflexivity|exists items; auto]|eauto].
      + (* the body has errors *)
        split; [intros [c0 [b0 H]]; discriminate|].
        intros [W _]. exfalso.
        assert (SR : forallb (field_ok t) rfs
                     && match style with
                        | StTuple => Nat.eqb (List.length rfs) 1 && match t with DFromField | DFromVariant | DFromTypeParam => false | _ => true end
                        | _ => true
                        end
                     && Nat.leb (List.length (filter (fun rf => negb (is_magic t rf) && is_flatten_field (rf_attrs rf)) rfs)) 1
                     && (if is_outer t
                         then negb (existsb (fun rf => match rf_ident rf with Some n => str_eqb n "attrs" | None => false end) rfs)
                              || has_option "forward_attrs" (rd_attrs d)
                         else negb (has_option "from_word" (rd_attrs d)
                                    && match style, rfs with StUnit, _ => true | StTuple, [_] => true | _, _ => false end)) = true).
        { repeat rewrite andb_true_iff in W. destruct W as [[[W1 W2] W3] W4]. rewrite W1, W2, W3. cbn [andb].
          destruct (is_outer t); [apply andb_true_iff in W4 as [W4 _]; exact W4|exact W4]. }
        apply SB in SR. discriminate.
    - (* the container chain has errors *)
      split; [intros [c0 [b0 H]]; discriminate|].
      intros [W [items [A D]]]. exfalso. apply andb_true_iff in W as [W _]. repeat rewrite andb_true_iff in W. destruct W as [[[W _] _] _].
      assert (X : e :: es = []) by (apply CC; split; [exact W|exists items; auto]). discriminate.
  Qed.

  (** *** enum receivers (FromMeta) *)
  Notation variant_step := (variant_step reparse reparse_preds).
  Notation from_variant := (from_variant reparse reparse_preds).
  Notation variant_fields := (variant_fields reparse reparse_preds).
  Notation val_is := (val_is reparse reparse_preds).

  Definition word_true (v : vopts) : bool := match v_word v with Some (true, _) => true | _ => false end.
  Definition skip_true (v : vopts) : bool := match v_skip v with Some true => true | _ => false end.

  Lemma variant_step_word v mi : is_meta mi = true -> snd (variant_step v mi) = None ->
    word_true (fst (variant_step v mi)) = (word_true v || (mpath_is mi "word" && val_is (TOption (TSpanned TBool)) true mi))%bool.
  Proof.
    intros M. unfold Resolve.variant_step, word_true, Spec.C10.val_is.
    destruct (mpath_is mi "rename") eqn:N1.
    { rewrite (names_excl mi "rename" "word" ltac:(discriminate) N1). cbn [andb]. rewrite orb_false_r.
      destruct (v_attr_name v); cbn [fst snd]; try discriminate.
      destruct (conv (TOption TString) mi) as [[]| |]; cbn [fst snd]; try discriminate; try (destruct v0; cbn [fst snd]; try discriminate; reflexivity). }
    destruct (mpath_is mi "skip") eqn:N2.
    { rewrite (names_excl mi "skip" "word" ltac:(discriminate) N2). cbn [andb]. rewrite orb_false_r.
      destruct (v_skip v); cbn [fst snd]; try discriminate.
      destruct (conv (TOption TBool) mi) as [x| |]; cbn [fst snd]; try discriminate. destruct (as_bool x); cbn [fst snd]; try discriminate. reflexivity. }
    destruct (mpath_is mi "word") eqn:N3; [|cbn [fst snd]; discriminate].
    cbn [andb]. destruct (v_word v) as [[b0 s0]|]; cbn [fst snd]; try discriminate.
    destruct (v_style v); cbn [fst snd]; try discriminate.
    destruct (conv (TOption (TSpanned TBool)) mi) as [x| |]; cbn [fst snd]; try discriminate.
    destruct x; cbn [fst snd]; try discriminate. destruct x; cbn [fst snd]; try discriminate. destruct x; cbn [fst snd]; try discriminate.
    intros _. cbn [v_word as_bool]. destruct b; reflexivity.
  Qed.

  Lemma variant_step_skip v mi : is_meta mi = true -> snd (variant_step v mi) = None ->
    skip_true (fst (variant_step v mi)) = (skip_true v || (mpath_is mi "skip" && val_is (TOption TBool) true mi))%bool.
  Proof.
    intros M. unfold Resolve.variant_step, skip_true, Spec.C10.val_is.
    destruct (mpath_is mi "rename") eqn:N1.
    { rewrite (names_excl mi "rename" "skip" ltac:(discriminate) N1). cbn [andb]. rewrite orb_false_r.
      destruct (v_attr_name v); cbn [fst snd]; try discriminate.
      destruct (conv (TOption TString) mi) as [[]| |]; cbn [fst snd]; try discriminate; try (destruct v0; cbn [fst snd]; try discriminate; reflexivity). }
    destruct (mpath_is mi "skip") eqn:N2.
    { cbn [andb]. destruct (v_skip v) as [b0|]; cbn [fst snd]; try discriminate.
      destruct (conv (TOption TBool) mi) as [x| |]; cbn [fst snd]; try discriminate. destruct (as_bool x) as [b|]; cbn [fst snd]; try discriminate.
      intros _. cbn [v_skip]. destruct b; reflexivity. }
    cbn [andb]. rewrite orb_false_r.
    destruct (mpath_is mi "word") eqn:N3; [|cbn [fst snd]; discriminate].
    destruct (v_word v) as [[b0 s0]|]; cbn [fst snd]; try discriminate.
    destruct (v_style v); cbn [fst snd]; try discriminate.
    destruct (conv (TOption (TSpanned TBool)) mi) as [x| |]; cbn [fst snd]; try discriminate.
    destruct x; cbn [fst snd]; try discriminate. destruct x; cbn [fst snd]; try discriminate. destruct x; cbn [fst snd]; try discriminate.
    reflexivity.
  Qed.

  Lemma variant_fields_spec cd fs : Forall (fun rf => Forall attr_shaped (rf_attrs rf)) fs ->
    (snd (variant_fields cd fs) = [] <-> forallb (fun rf => field_wf (rf_attrs rf)) fs = true)
    /\ (forallb (fun rf => field_wf (rf_attrs rf)) fs = true -> fst (variant_fields cd fs) = map (fun rf => fst (from_field cd rf)) fs)
    /\ (snd (variant_fields cd fs) = [] \/ exists e es, snd (variant_fields cd fs) = e :: es).
  Proof.
    induction 1 as [|rf r SH _ IH]; cbn [Resolve.variant_fields forallb map]; [repeat split; auto|].
    pose proof (field_chain_is_the_reading reparse reparse_preds rf SH) as FC.
    assert (FE : snd (from_field cd rf) = snd (parse_attributes field_step (field0 rf) (rf_attrs rf))).
    { unfold Resolve.from_field. destruct (parse_attributes field_step (field0 rf) (rf_attrs rf)); reflexivity. }
    destruct (from_field cd rf) as [f errs] eqn:FF. cbn [snd fst] in *. rewrite <- FE in FC.
    destruct errs as [|e es].
    - rewrite (proj1 FC eq_refl). cbn [andb]. destruct (variant_fields cd r) as [fs' errs']. cbn [fst snd] in *.
      destruct IH as [I1 [I2 I3]]. split; [exact I1|]. split; [|exact I3]. intros W. now rewrite (I2 W).
    - assert (W : field_wf (rf_attrs rf) = false) by (destruct (field_wf (rf_attrs rf)); [assert (X : e :: es = []) by (now apply FC); discriminate|reflexivity]).
      rewrite W. cbn [andb fst snd]. repeat split; try discriminate. right. eauto.
  Qed.

  Definition variant_own_wf (rv : rvariant) : Prop :=
    exists items, all_items (rv_attrs rv) = Some items
                  /\ variant_items_wf reparse reparse_preds (is_unit (rv_style rv)) items = true.

  (** an accepted variant, and what it carries *)
  Theorem from_variant_spec rv :
    Forall attr_shaped (rv_attrs rv) -> Forall (fun rf => Forall attr_shaped (rf_attrs rf)) (rv_fields rv) ->
    ((exists v, from_variant false rv = (Some v, []))
     <-> variant_own_wf rv /\ forallb (fun rf => field_wf (rf_attrs rf)) (rv_fields rv) = true
         /\ (match rv_style rv with StTuple => Nat.eqb (List.length (rv_fields rv)) 1 || variant_skipped reparse reparse_preds rv | _ => true end) = true)
    /\ (forall v, from_variant false rv = (Some v, []) ->
          word_true v = variant_has_word reparse reparse_preds rv
          /\ v_fields v = map (fun rf => fst (from_field false rf)) (rv_fields rv))
    /\ (forall es, from_variant false rv = (None, es) -> es <> []).
  Proof.
    intros SHv SHf. unfold Resolve.from_variant.
    pose proof (variant_chain_is_the_reading reparse reparse_preds (rv_ident rv) (rv_style rv) (rv_attrs rv) SHv) as VC.
    destruct (parse_attributes variant_step (mkV (rv_ident rv) None None None (rv_style rv) []) (rv_attrs rv)) as [v errs] eqn:PA. cbn [snd] in VC.
    destruct errs as [|e es].
    - destruct (proj1 VC eq_refl) as [items [A OW]].
      assert (E : snd (parse_attributes variant_step (mkV (rv_ident rv) None None None (rv_style rv) []) (rv_attrs rv)) = []) by now rewrite PA.
      destruct (all_items_lists _ _ A) as [L ->].
      (* what the chain recorded *)
      assert (RW : word_true v = variant_has_word reparse reparse_preds rv /\ skip_true v = variant_skipped reparse reparse_preds rv).
      { unfold Spec.C10.variant_has_word, Spec.C10.variant_skipped. rewrite A. unfold parse_attributes in PA, E.
        rewrite (VariantOrderProofs.parse_attributes_flat_v reparse reparse_preds (rv_attrs rv) L) in PA, E.
        pose proof (flat_items_meta (rv_attrs rv) L) as M. split.
        - pose proof (tracked_fold variant_step word_true "word") as T. clear T.
          assert (G : forall items0, Forall (fun mi => is_meta mi = true) items0 -> forall v0 errs0,
                        snd (fold_left (items_step variant_step) items0 (v0, errs0)) = [] ->
                        word_true (fst (fold_left (items_step variant_step) items0 (v0, errs0)))
                        = (word_true v0 || existsb (fun mi => mpath_is mi "word" && val_is (TOption (TSpanned TBool)) true mi) items0)%bool).
          { intros items0 M0. induction M0 as [|mi r Hm _ IH]; intros v0 errs0 E0; cbn [fold_left existsb]; [now rewrite orb_false_r|].
            cbn [fold_left] in E0.
            assert (St : items_step variant_step (v0, errs0) mi = (fst (variant_step v0 mi), errs0 ++ errs_of (snd (variant_step v0 mi)))).
            { destruct mi; cbn [is_meta] in Hm; try discriminate; cbn [items_step]; destruct (variant_step v0 _); reflexivity. }
            rewrite St in *. rewrite (IH _ _ E0).
            destruct (snd (variant_step v0 mi)) as [e|] eqn:O.
            - exfalso. destruct (items_fold_prefix variant_step r (fst (variant_step v0 mi)) (errs0 ++ errs_of (Some e))) as [m Hm2].
              rewrite Hm2 in E0. apply app_eq_nil in E0 as [E0 _]. apply app_eq_nil in E0 as [_ E0]. discriminate.
            - rewrite (variant_step_word v0 mi Hm O). now rewrite orb_assoc. }
          specialize (G _ M _ [] E). rewrite PA in G. cbn [fst] in G. exact G.
        - assert (G : forall items0, Forall (fun mi => is_meta mi = true) items0 -> forall v0 errs0,
                        snd (fold_left (items_step variant_step) items0 (v0, errs0)) = [] ->
                        skip_true (fst (fold_left (items_step variant_step) items0 (v0, errs0)))
                        = (skip_true v0 || existsb (fun mi => mpath_is mi "skip" && val_is (TOption TBool) true mi) items0)%bool).
          { intros items0 M0. induction M0 as [|mi r Hm _ IH]; intros v0 errs0 E0; cbn [fold_left existsb]; [now rewrite orb_false_r|].
            cbn [fold_left] in E0.
            assert (St : items_step variant_step (v0, errs0) mi = (fst (variant_step v0 mi), errs0 ++ errs_of (snd (variant_step v0 mi)))).
            { destruct mi; cbn [is_meta] in Hm; try discriminate; cbn [items_step]; destruct (variant_step v0 _); reflexivity. }
            rewrite St in *. rewrite (IH _ _ E0).
            destruct (snd (variant_step v0 mi)) as [e|] eqn:O.
            - exfalso. destruct (items_fold_prefix variant_step r (fst (variant_step v0 mi)) (errs0 ++ errs_of (Some e))) as [m Hm2].
              rewrite Hm2 in E0. apply app_eq_nil in E0 as [E0 _]. apply app_eq_nil in E0 as [_ E0]. discriminate.
            - rewrite (variant_step_skip v0 mi Hm O). now rewrite orb_assoc. }
          specialize (G _ M _ [] E). rewrite PA in G. cbn [fst] in G. exact G. }
      destruct RW as [RW RS].
      destruct (variant_fields_spec false (rv_fields rv) SHf) as [F1 [F2 F3]].
      destruct (variant_fields false (rv_fields rv)) as [fs ferrs]. cbn [fst snd] in *.
      assert (OWN : variant_own_wf rv) by (exists (flat_items (rv_attrs rv)); auto).
      destruct ferrs as [|fe fes].
      + pose proof (proj1 F1 eq_refl) as FW. pose proof (F2 FW) as FS. subst fs. rewrite map_length.
        fold (skip_true v). rewrite RS.
        destruct (rv_style rv); cbn [andb negb]; try (repeat split; [eauto|intros _; eauto|intros v0 [= <-]; cbn [v_word v_fields]; auto|intros v0 [= <-]; auto|intros es [=]]);
          try (split; [split; [intros _; auto|intros _; eauto]|split; [intros v0 [= <-]; unfold word_true in *; cbn [v_word v_fields]; auto|intros es [=]]]).
        destruct (Nat.eqb (List.length (rv_fields rv)) 1); cbn [negb andb orb].
        * split; [split; [intros _; auto|intros _; eauto]|split; [intros v0 [= <-]; unfold word_true in *; cbn [v_word v_fields]; auto|intros es [=]]].
        * destruct (variant_skipped reparse reparse_preds rv); cbn [negb].
          -- split; [split; [intros _; auto|intros _; eauto]|split; [intros v0 [= <-]; unfold word_true in *; cbn [v_word v_fields]; auto|intros es [=]]].
          -- split; [split; [intros [v0 H]; discriminate|intros [_ [_ H]]; discriminate]|split; [intros v0 H; discriminate|intros es [= <-]; discriminate]].
      + assert (FW : forallb (fun rf => field_wf (rf_attrs rf)) (rv_fields rv) = false).
        { destruct (forallb _ (rv_fields rv)); [assert (X : fe :: fes = []) by (now apply F1); discriminate|reflexivity]. }
        rewrite FW. split; [split; [intros [v0 H]; discriminate|intros [_ [H _]]; discriminate]|split; [intros v0 H; discriminate|intros es [= <-]; discriminate]].
    - split; [split; [intros [v0 H]; discriminate|]|split; [intros v0 H; discriminate|intros es0 [= <-]; discriminate]].
      intros [[items [A OW]] _]. exfalso. assert (X : e :: es = []) by (apply VC; eauto). discriminate.
  Qed.

  Notation variant_wf := (variant_wf reparse reparse_preds).
  Notation variant_has_word := (variant_has_word reparse reparse_preds).
  Notation variant_skipped := (variant_skipped reparse reparse_preds).

  Definition variant_accepted (rv : rvariant) : Prop :=
    variant_own_wf rv /\ forallb (fun rf => field_wf (rf_attrs rf)) (rv_fields rv) = true
    /\ (match rv_style rv with StTuple => Nat.eqb (List.length (rv_fields rv)) 1 || variant_skipped rv | _ => true end) = true.

  Lemma variant_wf_split rv :
    variant_wf rv = true <->
    variant_accepted rv /\ (List.length (filter (fun rf => is_flatten_field (rf_attrs rf)) (rv_fields rv)) <= 1)%nat.
  Proof.
    unfold Spec.C10.variant_wf, variant_accepted, variant_own_wf, variant_items_wf, vnames.
    destruct (all_items (rv_attrs rv)) as [items|].
    - rewrite !andb_true_iff, Nat.leb_le. split.
      + intros [[[[[[A B] C] D] E] F] G]. split; [split; [|split; [exact E|exact G]]|exact F].
        exists items. split; [reflexivity|]. rewrite A, B, C. cbn [andb]. unfold is_unit. exact D.
      + intros [[[x [[= <-] W]] [E G]] F]. repeat rewrite andb_true_iff in W. destruct W as [[[A B] C] D].
        unfold is_unit in D. repeat split; auto.
    - split; [discriminate|]. intros [[[x [[=] _]] _] _].
  Qed.

  Lemma from_variant_total rv :
    (exists v, from_variant false rv = (Some v, [])) \/ (exists es, from_variant false rv = (None, es)).
  Proof.
    unfold Resolve.from_variant. destruct (parse_attributes variant_step _ (rv_attrs rv)) as [v [|e es]]; [|eauto].
    destruct (variant_fields false (rv_fields rv)) as [fs [|fe fes]]; [|eauto].
    destruct (_ && _ && _)%bool; eauto.
  Qed.

  (** the fold over the variants *)
  Definition vstep (acc : list vopts * list err) (rv : rvariant) : list vopts * list err :=
    let '(vs, errs) := acc in
    match from_variant false rv with
    | (Some v, _) => (vs ++ [v], errs)
    | (None, es) => (vs, errs ++ es)
    end.

  Lemma vfold_prefix rvs : forall vs errs, exists more, snd (fold_left vstep rvs (vs, errs)) = errs ++ more.
  Proof.
    induction rvs as [|rv r IH]; intros vs errs; cbn [fold_left]; [exists []; now rewrite app_nil_r|].
    unfold vstep at 2. destruct (from_variant false rv) as [[v|] es].
    - apply IH.
    - destruct (IH vs (errs ++ es)) as [m Hm]. rewrite Hm, <- app_assoc. eauto.
  Qed.

  Theorem variants_fold_spec rvs :
    Forall (fun rv => Forall attr_shaped (rv_attrs rv) /\ Forall (fun rf => Forall attr_shaped (rf_attrs rf)) (rv_fields rv)) rvs ->
    forall vs0,
      (snd (fold_left vstep rvs (vs0, [])) = [] <-> Forall variant_accepted rvs)
      /\ (Forall variant_accepted rvs ->
          exists vs, fst (fold_left vstep rvs (vs0, [])) = vs0 ++ vs
                     /\ Forall2 (fun rv v => word_true v = variant_has_word rv
                                            /\ v_fields v = map (fun rf => fst (from_field false rf)) (rv_fields rv)) rvs vs).
  Proof.
    induction 1 as [|rv r [SHv SHf] _ IH]; intros vs0; cbn [fold_left].
    - split; [split; [constructor|reflexivity]|]. intros _. exists []. rewrite app_nil_r. split; [reflexivity|constructor].
    - destruct (from_variant_spec rv SHv SHf) as [S1 [S2 S3]]. unfold vstep at 2 4.
      destruct (from_variant_total rv) as [[v Hv]|[es Hes]].
      + rewrite Hv. destruct (IH (vs0 ++ [v])) as [I1 I2]. pose proof (proj1 S1 (ex_intro _ v Hv)) as ACC. split.
        * rewrite I1. split; [intros F; constructor; assumption|intros F; now inversion F].
        * intros F. inversion F as [|? ? _ Fr]; subst. destruct (I2 Fr) as [vs [E FF]].
          exists (v :: vs). rewrite E, <- app_assoc. split; [reflexivity|]. constructor; [now apply S2|exact FF].
      + rewrite Hes. pose proof (S3 es Hes) as NE. cbn [app]. split.
        * split.
          -- intros E. exfalso. destruct (vfold_prefix r vs0 es) as [m Hm]. rewrite Hm in E. apply app_eq_nil in E as [E _]. contradiction.
          -- intros F. exfalso. inversion F as [|? ? ACC _]; subst. destruct (proj2 S1 ACC) as [v Hv]. congruence.
        * intros F. exfalso. inversion F as [|? ? ACC _]; subst. destruct (proj2 S1 ACC) as [v Hv]. congruence.
  Qed.

  Lemma accepted_plain_fields_flatten cd fs :
    Forall (fun rf => Forall attr_shaped (rf_attrs rf)) fs -> forallb (fun rf => field_wf (rf_attrs rf)) fs = true ->
    List.length (filter (fun f => is_some (f_flatten f)) (map (fun rf => fst (from_field cd rf)) fs))
    = List.length (filter (fun rf => is_flatten_field (rf_attrs rf)) fs).
  Proof.
    induction 1 as [|rf r SH _ IH]; [reflexivity|]. cbn [forallb filter map]. intros W. apply andb_true_iff in W as [W1 W2].
    specialize (IH W2).
    assert (E : snd (from_field cd rf) = []).
    { unfold Resolve.from_field. pose proof (proj2 (field_chain_is_the_reading reparse reparse_preds rf SH) W1) as E.
      destruct (parse_attributes field_step (field0 rf) (rf_attrs rf)). exact E. }
    rewrite (accepted_field_flatten cd rf SH E). destruct (is_flatten_field (rf_attrs rf)); cbn [List.length]; now rewrite IH.
  Qed.

  Definition vrel (rv : rvariant) (v : vopts) : Prop :=
    word_true v = variant_has_word rv /\ v_fields v = map (fun rf => fst (from_field false rf)) (rv_fields rv).

  Lemma words_length rvs vs : Forall2 vrel rvs vs ->
    List.length (flat_map (fun v => match v_word v with Some (true, s) => [s] | _ => [] end) vs)
    = List.length (filter variant_has_word rvs).
  Proof.
    induction 1 as [|rv v r vr [W _] _ IH]; [reflexivity|]. cbn [flat_map filter]. rewrite app_length, IH.
    unfold word_true in W. rewrite <- W. destruct (v_word v) as [[[] s]|]; reflexivity.
  Qed.

  Lemma variants_flatten rvs vs : Forall2 vrel rvs vs ->
    Forall (fun rv => Forall (fun rf => Forall attr_shaped (rf_attrs rf)) (rv_fields rv)) rvs ->
    Forall variant_accepted rvs ->
    (flat_map (fun v => flatten_errors (v_fields v)) vs = []
     <-> Forall (fun rv => (List.length (filter (fun rf => is_flatten_field (rf_attrs rf)) (rv_fields rv)) <= 1)%nat) rvs).
  Proof.
    induction 1 as [|rv v r vr [_ F] _ IH]; intros SH ACC; [cbn; split; [constructor|reflexivity]|].
    inversion SH as [|? ? SHf SHr]; subst. inversion ACC as [|? ? [_ [FW _]] ACr]; subst.
    cbn [flat_map]. rewrite app_nil_iff, (IH SHr ACr), flatten_errors_nil, F, (accepted_plain_fields_flatten false (rv_fields rv) SHf FW).
    split; [intros [A B]; constructor; assumption|intros H; inversion H; auto].
  Qed.

  Theorem resolve_enum_is_the_reading t d rvs :
    rd_body d = REnum rvs ->
    Forall attr_shaped (rd_attrs d) ->
    Forall (fun rv => Forall attr_shaped (rv_attrs rv) /\ Forall (fun rf => Forall attr_shaped (rf_attrs rf)) (rv_fields rv)) rvs ->
    ((exists c b, resolve t d = Accepted c b)
     <-> well_formed_10 t d = true /\ no_default_after_from_ident (rd_attrs d)).
  Proof.
    intros B SHc SHv. unfold Resolve.resolve, Spec.C10.well_formed_10. rewrite B.
    pose proof (container_chain_is_the_reading reparse reparse_preds t (rd_attrs d) SHc) as CC.
    destruct (parse_attributes (container_step t) copts0 (rd_attrs d)) as [c errs] eqn:PA. cbn [snd] in CC.
    destruct (is_outer t) eqn:O.
    { (* an element-level trait never takes an enum *)
      split; [|intros [H _]; discriminate]. intros [c0 [b0 H]]. exfalso. destruct errs; [|discriminate].
      unfold Resolve.resolve_body in H. rewrite B, O in H. discriminate H. }
    destruct t; try discriminate.
    destruct errs as [|e es].
    - destruct (proj1 CC eq_refl) as [CW [items [A D]]].
      assert (E : snd (parse_attributes (container_step DFromMeta) copts0 (rd_attrs d)) = []) by now rewrite PA.
      pose proof (accepted_container_records DFromMeta (rd_attrs d) SHc E) as [_ RW]. rewrite PA in RW. cbn [fst] in RW.
      rewrite CW. cbn [andb].
      unfold Resolve.resolve_body. rewrite B. cbn [is_outer].
      change (fold_left _ rvs ([], [])) with (fold_left vstep rvs ([], [])).
      destruct (variants_fold_spec rvs SHv []) as [V1 V2].
      destruct (fold_left vstep rvs ([], [])) as [vs verrs] eqn:VF. cbn [fst snd] in V1, V2.
      assert (SHf : Forall (fun rv => Forall (fun rf => Forall attr_shaped (rf_attrs rf)) (rv_fields rv)) rvs)
        by (revert SHv; apply Forall_impl; tauto).
      destruct verrs as [|ve ves].
      + pose proof (proj1 V1 eq_refl) as ACC. destruct (V2 ACC) as [vs' [-> REL]]. cbn [app] in *.
        pose proof (words_length rvs vs' REL) as WL. pose proof (variants_flatten rvs vs' REL SHf ACC) as VFl.
        set (words := flat_map (fun v => match v_word v with Some (true, s) => [s] | _ => [] end) vs') in *.
        assert (FW : forallb variant_wf rvs = true <-> Forall (fun rv => (List.length (filter (fun rf => is_flatten_field (rf_attrs rf)) (rv_fields rv)) <= 1)%nat) rvs).
        { rewrite forallb_forall, Forall_forall. rewrite Forall_forall in ACC. split.
          - intros H rv Hin. now apply (variant_wf_split rv), H.
          - intros H rv Hin. apply variant_wf_split. split; [now apply ACC|now apply H]. }
        assert (HW : existsb variant_has_word rvs = negb (Nat.eqb (List.length words) 0)).
        { rewrite WL. rewrite <- existsb_filter. now rewrite negb_involutive. }
        rewrite HW, <- WL, <- RW. cbn [app].
        destruct (flat_map (fun v => flatten_errors (v_fields v)) vs') as [|fe fes] eqn:V0.
        * assert (FWt : forallb variant_wf rvs = true) by (apply FW, VFl; reflexivity). rewrite FWt. cbn [andb app].
          destruct words as [|w1 [|w2 wr]]; cbn [List.length Nat.leb Nat.eqb negb andb map app];
            destruct (c_from_word c); cbn [is_some andb negb app];
            split; try (intros _; split; [reflexivity|exists items; auto]); try (intros [cc [bb H]]; discriminate);
            try (intros [H _]; discriminate); eauto.
        * assert (FWf : forallb variant_wf rvs = false).
          { destruct (forallb variant_wf rvs); [|reflexivity]. assert (X : fe :: fes = []) by (apply VFl, FW; reflexivity). discriminate. }
          rewrite FWf. cbn [andb]. split; [intros [cc [bb H]]; discriminate|intros [H _]; discriminate].
      + assert (FWf : forallb variant_wf rvs = false).
        { destruct (forallb variant_wf rvs) eqn:FWt; [|reflexivity]. exfalso.
          assert (ACC : Forall variant_accepted rvs).
          { rewrite forallb_forall in FWt. apply Forall_forall. intros rv Hin. now apply (variant_wf_split rv), FWt. }
          assert (X : ve :: ves = []) by (now apply V1). discriminate. }
        rewrite FWf. cbn [andb]. split; [intros [cc [bb H]]; discriminate|intros [H _]; discriminate].
    - split; [intros [c0 [b0 H]]; discriminate|].
      intros [W [items [A D]]]. exfalso. repeat rewrite andb_true_iff in W. destruct W as [[[W _] _] _].
      assert (X : e :: es = []) by (apply CC; split; [exact W|exists items; auto]). discriminate.
  Qed.

  (** *** the whole derive *)
  (** what a declaration read from syn looks like: its `#[darling ..]` attributes are never bare
      literals, and the fields of a tuple struct have no identifier *)
  Definition decl_shaped (d : rdecl) : Prop :=
    Forall attr_shaped (rd_attrs d)
    /\ match rd_body d with
       | RStruct style rfs _ =>
           Forall (fun rf => Forall attr_shaped (rf_attrs rf)) rfs
           /\ (style = StTuple -> Forall (fun rf => rf_ident rf = None) rfs)
       | REnum rvs =>
           Forall (fun rv => Forall attr_shaped (rv_attrs rv) /\ Forall (fun rf => Forall attr_shaped (rf_attrs rf)) (rv_fields rv)) rvs
       | RUnion => True
       end.

  (** THE COMPOSITION: for each of the six derives and every declaration - struct, enum or union, any
      options anywhere, in any order and any split over attributes - the derive emits an
      implementation exactly when the declaration is well-formed in the sense of Spec/C10.v (the
      reading evaluated on the code in every run) and no `default` is written after a `from_ident`
      on the container (the recorded finding). *)
  Theorem resolve_is_the_reading t d :
    decl_shaped d ->
    ((exists c b, resolve t d = Accepted c b)
     <-> well_formed_10 t d = true /\ no_default_after_from_ident (rd_attrs d)).
  Proof.
    intros [SHc SHb]. destruct (rd_body d) as [style rfs fspan|rvs|] eqn:B.
    - destruct SHb as [SHf TU]. now apply (resolve_struct_is_the_reading t d style rfs fspan).
    - now apply (resolve_enum_is_the_reading t d rvs).
    - unfold Resolve.resolve, Spec.C10.well_formed_10. rewrite B. split; [intros [c [b H]]; discriminate|intros [H _]; discriminate].
  Qed.
End Compose.

(** the hypothesis of the composition theorem, executable (evaluated on every declaration the
    check runs: Exec/DeriveCase.v [holds10]) *)
Definition attr_shapedb (a : nested) : bool := match a with NLit _ _ => false | _ => true end.
Definition decl_shapedb (d : rdecl) : bool :=
  forallb attr_shapedb (rd_attrs d)
  && match rd_body d with
     | RStruct style rfs _ =>
         forallb (fun rf => forallb attr_shapedb (rf_attrs rf)) rfs
         && match style with
            | StTuple => forallb (fun rf => match rf_ident rf with None => true | Some _ => false end) rfs
            | _ => true
            end
     | REnum rvs =>
         forallb (fun rv => forallb attr_shapedb (rv_attrs rv)
                            && forallb (fun rf => forallb attr_shapedb (rf_attrs rf)) (rv_fields rv)) rvs
     | RUnion => true
     end.

Lemma attrs_shapedb_sound l : forallb attr_shapedb l = true -> Forall attr_shaped l.
Proof.
  intros H. apply Forall_forall. intros a Hin. rewrite forallb_forall in H. specialize (H a Hin). destruct a; try exact I. discriminate.
Qed.

Lemma decl_shapedb_sound d : decl_shapedb d = true -> decl_shaped d.
Proof.
  unfold decl_shapedb, decl_shaped. intros H. apply andb_true_iff in H as [H1 H2]. split; [now apply attrs_shapedb_sound|].
  destruct (rd_body d) as [style rfs fspan|rvs|]; [| |exact I].
  - apply andb_true_iff in H2 as [H2 H3]. split.
    + apply Forall_forall. intros rf Hin. rewrite forallb_forall in H2. now apply attrs_shapedb_sound, H2.
    + intros ->. apply Forall_forall. intros rf Hin. rewrite forallb_forall in H3. specialize (H3 rf Hin). now destruct (rf_ident rf).
  - apply Forall_forall. intros rv Hin. rewrite forallb_forall in H2. specialize (H2 rv Hin). apply andb_true_iff in H2 as [A B].
    split; [now apply attrs_shapedb_sound|]. apply Forall_forall. intros rf Hf. rewrite forallb_forall in B. now apply attrs_shapedb_sound, B.
Qed.
