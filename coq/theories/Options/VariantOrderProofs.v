(** Options/VariantOrderProofs.v — C10 for one variant: the chain [InputVariant::parse_nested]
    (Options/Resolve.v [variant_step]) accepts EXACTLY the option lists that satisfy an order-free
    predicate over the multiset of option kinds - every list, every order, every split over
    attributes: each of `rename`, `skip`, `word` at most once and in its accepted form, `word`
    only on a unit variant, nothing else. *)
From DarlingModel Require Import Options.Resolve Options.FieldOrderProofs.
From Coq Require Import Permutation.
Local Open Scope string_scope.
Local Open Scope list_scope.

Inductive vopt : Type := VoRename | VoSkip | VoWord | VoBad | VoUnknown.

Section VView.
  Variable reparse : grammar -> string -> option string.
  Variable reparse_preds : string -> option (list string).
  Notation conv := (conv reparse reparse_preds).
  Notation variant_step := (variant_step reparse reparse_preds).

  Definition vview (mi : nested) : vopt :=
    if mpath_is mi "rename" then
      match conv (TOption TString) mi with Ok (VSome (VStr _)) => VoRename | _ => VoBad end
    else if mpath_is mi "skip" then
      match conv (TOption TBool) mi with
      | Ok x => match as_bool x with Some _ => VoSkip | None => VoBad end
      | _ => VoBad
      end
    else if mpath_is mi "word" then
      match conv (TOption (TSpanned TBool)) mi with Ok (VSome (VSpanned (VBool _) _)) => VoWord | _ => VoBad end
    else VoUnknown.

  Definition vcnt (k : vopt) (l : list vopt) : nat :=
    List.length (filter (fun o => match o, k with
                                  | VoRename, VoRename | VoSkip, VoSkip | VoWord, VoWord | VoBad, VoBad | VoUnknown, VoUnknown => true
                                  | _, _ => false
                                  end) l).

  (** the order-free predicate, relative to what the state already holds *)
  Definition vwf_from (unit : bool) (has_name has_skip has_word : bool) (l : list vopt) : Prop :=
    vcnt VoBad l = 0%nat /\ vcnt VoUnknown l = 0%nat
    /\ (if has_name then vcnt VoRename l = 0 else vcnt VoRename l <= 1)%nat
    /\ (if has_skip then vcnt VoSkip l = 0 else vcnt VoSkip l <= 1)%nat
    /\ (if has_word then vcnt VoWord l = 0 else vcnt VoWord l <= 1)%nat
    /\ (unit = false -> has_word = false -> vcnt VoWord l = 0%nat).

  Definition vwf (unit : bool) (l : list vopt) : Prop := vwf_from unit false false false l.

  Definition is_unit (s : rstyle) : bool := match s with StUnit => true | _ => false end.

  (** `word` on a non-unit variant leaves the state unchanged and reports an error *)
  Lemma variant_step_cases v mi :
    let '(v', o) := variant_step v mi in
    v_style v' = v_style v /\
    match vview mi with
    | VoRename =>
        if FieldOrderProofs.is_some (v_attr_name v) then v' = v /\ o <> None
        else FieldOrderProofs.is_some (v_attr_name v') = true /\ v_skip v' = v_skip v /\ v_word v' = v_word v /\ o = None
    | VoSkip =>
        if FieldOrderProofs.is_some (v_skip v) then v' = v /\ o <> None
        else FieldOrderProofs.is_some (v_skip v') = true /\ v_attr_name v' = v_attr_name v /\ v_word v' = v_word v /\ o = None
    | VoWord =>
        if FieldOrderProofs.is_some (v_word v) then v' = v /\ o <> None
        else if is_unit (v_style v)
             then FieldOrderProofs.is_some (v_word v') = true /\ v_attr_name v' = v_attr_name v /\ v_skip v' = v_skip v /\ o = None
             else v' = v /\ o <> None
    | VoBad | VoUnknown => v' = v /\ o <> None
    end.
  Proof.
    unfold Resolve.variant_step, vview.
    destruct (mpath_is mi "rename").
    { destruct (v_attr_name v) eqn:A.
      - destruct (conv (TOption TString) mi) as [[]| |]; try destruct v0; cbn; rewrite ?A; cbn; repeat split; try discriminate.
      - destruct (conv (TOption TString) mi) as [x|e|m]; [|cbn; rewrite ?A; repeat split; discriminate..].
        destruct x; try (cbn; rewrite ?A; repeat split; discriminate).
        destruct x; cbn; rewrite ?A; cbn; repeat split; try discriminate. }
    destruct (mpath_is mi "skip").
    { destruct (v_skip v) eqn:A.
      - destruct (conv (TOption TBool) mi) as [x|e|m]; [destruct (as_bool x)|..]; cbn; rewrite ?A; cbn; repeat split; discriminate.
      - destruct (conv (TOption TBool) mi) as [x|e|m]; [destruct (as_bool x)|..]; cbn; rewrite ?A; cbn; repeat split; try discriminate. }
    destruct (mpath_is mi "word").
    { destruct (v_word v) eqn:A.
      - destruct (conv (TOption (TSpanned TBool)) mi) as [x|e|m]; [|cbn; rewrite ?A; repeat split; discriminate..].
        destruct x; try (cbn; rewrite ?A; repeat split; discriminate). destruct x; try (cbn; rewrite ?A; repeat split; discriminate).
        destruct x; cbn; rewrite ?A; repeat split; discriminate.
      - destruct (v_style v) eqn:St.
        + destruct (conv (TOption (TSpanned TBool)) mi) as [x|e|m]; [|cbn; rewrite ?A, ?St; repeat split; discriminate..].
          destruct x; try (cbn; rewrite ?A, ?St; repeat split; discriminate). destruct x; try (cbn; rewrite ?A, ?St; repeat split; discriminate).
          destruct x; cbn; rewrite ?A, ?St; cbn; repeat split; try discriminate.
        + destruct (conv (TOption (TSpanned TBool)) mi) as [x|e|m]; [|cbn; rewrite ?A, ?St; repeat split; discriminate..].
          destruct x; try (cbn; rewrite ?A, ?St; repeat split; discriminate). destruct x; try (cbn; rewrite ?A, ?St; repeat split; discriminate).
          destruct x; cbn; rewrite ?A, ?St; cbn; repeat split; discriminate.
        + destruct (conv (TOption (TSpanned TBool)) mi) as [x|e|m]; [|cbn; rewrite ?A, ?St; repeat split; discriminate..].
          destruct x; try (cbn; rewrite ?A, ?St; repeat split; discriminate). destruct x; try (cbn; rewrite ?A, ?St; repeat split; discriminate).
          destruct x; cbn; rewrite ?A, ?St; cbn; repeat split; discriminate. }
    cbn. repeat split; discriminate.
  Qed.

  Definition variant_items_errors (items : list nested) (v : vopts) : list err :=
    snd (fold_left (items_step variant_step) items (v, [])).

  Lemma items_step_meta_v (v : vopts) errs mi : is_meta mi = true ->
    items_step variant_step (v, errs) mi = (fst (variant_step v mi), errs ++ errs_of (snd (variant_step v mi))).
  Proof. destruct mi; cbn [is_meta]; try discriminate; intros _; cbn [items_step]; destruct (variant_step v _); reflexivity. Qed.

  Lemma app_errs_nil errs (o : option err) : errs ++ errs_of o = [] <-> errs = [] /\ o = None.
  Proof.
    destruct o as [e|]; cbn.
    - split; [intros H; apply app_eq_nil in H as [_ H]; discriminate|intros [_ H]; discriminate].
    - rewrite app_nil_r. tauto.
  Qed.

  Lemma variant_fold items : Forall (fun mi => is_meta mi = true) items ->
    forall v errs,
      snd (fold_left (items_step variant_step) items (v, errs)) = [] <->
      errs = [] /\ vwf_from (is_unit (v_style v)) (FieldOrderProofs.is_some (v_attr_name v)) (FieldOrderProofs.is_some (v_skip v))
                            (FieldOrderProofs.is_some (v_word v)) (map vview items).
  Proof.
    induction 1 as [|mi r M _ IH]; intros v errs.
    - cbn. unfold vwf_from. cbn. split; [intros ->|tauto]. repeat split; auto; destruct (FieldOrderProofs.is_some _); auto.
    - cbn [fold_left map]. rewrite (items_step_meta_v v errs mi M). rewrite IH, app_errs_nil.
      pose proof (variant_step_cases v mi) as C. destruct (variant_step v mi) as [v' o]. cbn [fst snd].
      destruct C as [St C]. rewrite St. unfold vwf_from.
      destruct (vview mi) eqn:K; cbn [vcnt filter List.length].
      + (* rename *)
        destruct (FieldOrderProofs.is_some (v_attr_name v)) eqn:A.
        * destruct C as [-> Ho]. split; [intros [[_ H] _]; contradiction|intros [_ [_ [_ [H _]]]]; cbn in H; discriminate].
        * destruct C as [A' [S' [W' ->]]]. rewrite A', S', W'. fold (vcnt VoRename (map vview r)) (vcnt VoSkip (map vview r)) (vcnt VoWord (map vview r))
            (vcnt VoBad (map vview r)) (vcnt VoUnknown (map vview r)). cbn. intuition lia.
      + destruct (FieldOrderProofs.is_some (v_skip v)) eqn:A.
        * destruct C as [-> Ho]. split; [intros [[_ H] _]; contradiction|intros [_ [_ [_ [_ [H _]]]]]; cbn in H; discriminate].
        * destruct C as [A' [S' [W' ->]]]. rewrite A', S', W'. fold (vcnt VoRename (map vview r)) (vcnt VoSkip (map vview r)) (vcnt VoWord (map vview r))
            (vcnt VoBad (map vview r)) (vcnt VoUnknown (map vview r)). cbn. intuition lia.
      + destruct (FieldOrderProofs.is_some (v_word v)) eqn:A.
        * destruct C as [-> Ho]. split; [intros [[_ H] _]; contradiction|intros [_ [_ [_ [_ [_ [H _]]]]]]; cbn in H; discriminate].
        * destruct (is_unit (v_style v)) eqn:U.
          -- destruct C as [A' [S' [W' ->]]]. rewrite A', S', W'. fold (vcnt VoRename (map vview r)) (vcnt VoSkip (map vview r)) (vcnt VoWord (map vview r))
               (vcnt VoBad (map vview r)) (vcnt VoUnknown (map vview r)). cbn. intuition (try lia; try discriminate).
          -- destruct C as [-> Ho]. split; [intros [[_ H] _]; contradiction|].
             intros [_ [_ [_ [_ [_ [_ H]]]]]]. specialize (H eq_refl eq_refl). cbn in H. discriminate.
      + destruct C as [-> Ho]. split; [intros [[_ H] _]; contradiction|intros [_ [H _]]; cbn in H; discriminate].
      + destruct C as [-> Ho]. split; [intros [[_ H] _]; contradiction|intros [_ [_ [H _]]]; cbn in H; discriminate].
  Qed.

  (** For every list of option items (any order): the chain reports no error exactly when the
      multiset of option kinds is well-formed for the variant's style. *)
  Theorem variant_chain_accepts_iff_wf ident style items :
    Forall (fun mi => is_meta mi = true) items ->
    (variant_items_errors items (mkV ident None None None style []) = [] <-> vwf (is_unit style) (map vview items)).
  Proof.
    intros M. unfold variant_items_errors. rewrite (variant_fold items M). cbn. unfold vwf. tauto.
  Qed.

  Lemma vcnt_perm k l l' : Permutation l l' -> vcnt k l = vcnt k l'.
  Proof.
    unfold vcnt. induction 1 as [|x l l' _ IH|x y l|l l' l'' _ IH1 _ IH2]; cbn; try congruence.
    - destruct x, k; cbn; congruence.
    - destruct x, y, k; reflexivity.
  Qed.

  Theorem vwf_order_free unit l l' : Permutation l l' -> (vwf unit l <-> vwf unit l').
  Proof. intros P. unfold vwf, vwf_from. now rewrite !(vcnt_perm _ l l' P). Qed.

  Theorem variant_chain_order_free ident style items items' :
    Forall (fun mi => is_meta mi = true) items -> Permutation items items' ->
    (variant_items_errors items (mkV ident None None None style []) = []
     <-> variant_items_errors items' (mkV ident None None None style []) = []).
  Proof.
    intros M P.
    assert (M' : Forall (fun mi => is_meta mi = true) items').
    { rewrite Forall_forall in *. intros x Hx. apply M. eapply Permutation_in; [apply Permutation_sym; exact P|exact Hx]. }
    rewrite (variant_chain_accepts_iff_wf ident style items M), (variant_chain_accepts_iff_wf ident style items' M').
    apply vwf_order_free. now apply Permutation_map.
  Qed.

  (** any split over attributes *)
  Lemma parse_attributes_flat_v attrs : Forall list_attr attrs ->
    forall (v : vopts) errs,
      fold_left (attr_step variant_step) attrs (v, errs) = fold_left (items_step variant_step) (flat_items attrs) (v, errs).
  Proof.
    induction 1 as [|a r Ha _ IH]; intros v errs; [reflexivity|].
    destruct a as [i l|i p|i p ti items|i p ti es msg|i p e]; cbn in Ha; try contradiction.
    - cbn [fold_left flat_items]. apply IH.
    - cbn [fold_left flat_items Resolve.attr_step]. rewrite fold_left_app.
      destruct (fold_left (items_step variant_step) items (v, errs)) as [v1 e1]. apply IH.
  Qed.

  Theorem variant_attrs_accept_iff_wf ident style attrs :
    Forall list_attr attrs ->
    (snd (parse_attributes variant_step (mkV ident None None None style []) attrs) = []
     <-> vwf (is_unit style) (map vview (flat_items attrs))).
  Proof.
    intros H. unfold parse_attributes. rewrite parse_attributes_flat_v by assumption.
    exact (variant_chain_accepts_iff_wf ident style (flat_items attrs) (flat_items_meta attrs H)).
  Qed.

  Theorem variant_attrs_split_and_order_free ident style attrs attrs' :
    Forall list_attr attrs -> Forall list_attr attrs' ->
    Permutation (flat_items attrs) (flat_items attrs') ->
    (snd (parse_attributes variant_step (mkV ident None None None style []) attrs) = []
     <-> snd (parse_attributes variant_step (mkV ident None None None style []) attrs') = []).
  Proof.
    intros H H' P. rewrite (variant_attrs_accept_iff_wf ident style attrs H), (variant_attrs_accept_iff_wf ident style attrs' H').
    apply vwf_order_free. now apply Permutation_map.
  Qed.
End VView.
