(** Options/FieldOrderProofs.v — C10 for one field: the order-sensitive chain
    [InputField::parse_nested] (Options/Resolve.v [field_step], with its state-dependent conflict
    checks: `flatten` after `rename` is caught by the flatten arm, `rename` after `flatten` by the
    rename arm, ...) accepts EXACTLY the option lists that satisfy an ORDER-FREE predicate over
    the multiset of option kinds - for every list, every order, every split over attributes.

    Three steps: (1) each item is viewed as an option kind; [field_step] refines an abstract
    step on kinds; (2) the abstract fold is error-free iff a local condition holds at every
    position; (3) the conjunction of the local conditions equals the order-free predicate. *)
From DarlingModel Require Import Options.Resolve.
From Coq Require Import Permutation ZifyBool.
Local Open Scope string_scope.
Local Open Scope list_scope.

(** ** option kinds *)
Inductive fopt : Type :=
| FoRename | FoDefault | FoWith | FoSkip (b : bool) | FoMap | FoAndThen | FoMultiple (b : bool) | FoFlatten
| FoBad            (* a known option whose value is not in its accepted form *)
| FoUnknown.       (* not an option of a field *)

Section View.
  Variable reparse : grammar -> string -> option string.
  Variable reparse_preds : string -> option (list string).
  Notation conv := (conv reparse reparse_preds).
  Notation field_step := (field_step reparse reparse_preds).

  Definition view (mi : nested) : fopt :=
    if mpath_is mi "rename" then
      match conv (TOption TString) mi with Ok (VSome (VStr _)) => FoRename | _ => FoBad end
    else if mpath_is mi "default" then
      match conv_default reparse mi with Ok _ => FoDefault | _ => FoBad end
    else if mpath_is mi "with" then
      match conv TCallable mi with Ok _ => FoWith | _ => FoBad end
    else if mpath_is mi "skip" then
      match conv (TOption (TSpanned TBool)) mi with
      | Ok v => match as_bool v with Some b => FoSkip b | None => FoBad end
      | _ => FoBad
      end
    else if mpath_is mi "map" then
      match conv TPath mi with Ok _ => FoMap | _ => FoBad end
    else if mpath_is mi "and_then" then
      match conv TPath mi with Ok _ => FoAndThen | _ => FoBad end
    else if mpath_is mi "multiple" then
      match conv (TOption TBool) mi with
      | Ok v => match as_bool v with Some b => FoMultiple b | None => FoBad end
      | _ => FoBad
      end
    else if mpath_is mi "flatten" then
      match conv TFlag mi with Ok (VFlag (Some _)) => FoFlatten | _ => FoBad end
    else FoUnknown.

  (** ** the abstract state and step *)
  Record astate : Type := mkA {
    a_rename : bool; a_default : bool; a_with : bool; a_skip : option bool;
    a_post : option bool;          (* Some false = map, Some true = and_then *)
    a_multiple : option bool; a_flat : bool }.

  Definition a0 : astate := mkA false false false None None None false.

  Definition is_true (o : option bool) : bool := match o with Some true => true | _ => false end.
  Definition is_some {A} (o : option A) : bool := match o with Some _ => true | None => false end.

  (** the new state and whether an error is reported *)
  Definition astep (s : astate) (o : fopt) : astate * bool :=
    match o with
    | FoRename =>
        if a_rename s then (s, true)
        else (mkA true (a_default s) (a_with s) (a_skip s) (a_post s) (a_multiple s) (a_flat s), a_flat s)
    | FoDefault =>
        if a_default s then (s, true)
        else (mkA (a_rename s) true (a_with s) (a_skip s) (a_post s) (a_multiple s) (a_flat s), false)
    | FoWith =>
        if a_with s then (s, true)
        else (mkA (a_rename s) (a_default s) true (a_skip s) (a_post s) (a_multiple s) (a_flat s), a_flat s)
    | FoSkip b =>
        if is_some (a_skip s) then (s, true)
        else (mkA (a_rename s) (a_default s) (a_with s) (Some b) (a_post s) (a_multiple s) (a_flat s), (b && a_flat s)%bool)
    | FoMap =>
        if is_some (a_post s) then (s, true)
        else (mkA (a_rename s) (a_default s) (a_with s) (a_skip s) (Some false) (a_multiple s) (a_flat s), false)
    | FoAndThen =>
        if is_some (a_post s) then (s, true)
        else (mkA (a_rename s) (a_default s) (a_with s) (a_skip s) (Some true) (a_multiple s) (a_flat s), false)
    | FoMultiple b =>
        if is_some (a_multiple s) then (s, true)
        else (mkA (a_rename s) (a_default s) (a_with s) (a_skip s) (a_post s) (Some b) (a_flat s), (b && a_flat s)%bool)
    | FoFlatten =>
        if a_flat s then (s, true)
        else (mkA (a_rename s) (a_default s) (a_with s) (a_skip s) (a_post s) (a_multiple s) true,
              (is_true (a_multiple s) || a_rename s || a_with s || is_true (a_skip s))%bool)
    | FoBad | FoUnknown => (s, true)
    end.

  (** the abstraction of the resolved field options *)
  Definition abs (f : fopts) : astate :=
    mkA (is_some (f_attr_name f)) (is_some (f_default f)) (f_with f) (f_skip f)
        (match f_post f with
         | Some t => Some (str_eqb t "and_then")
         | None => None
         end)
        (f_multiple f) (is_some (f_flatten f)).

  (** names are exclusive *)
  Lemma mpath_is_excl mi a b : mpath_is mi a = true -> mpath_is mi b = true -> a = b.
  Proof.
    unfold mpath_is. destruct (meta_path mi) as [p|]; [|discriminate]. unfold is_ident.
    destruct (get_ident p) as [id|]; [|discriminate]. unfold str_eqb. intros A B.
    apply String.eqb_eq in A. apply String.eqb_eq in B. congruence.
  Qed.

  Lemma mpath_is_str mi a : mpath_is mi a = true -> mpath_str mi = unraw a.
  Proof.
    unfold mpath_is, mpath_str. destruct (meta_path mi) as [p|]; [|discriminate]. unfold is_ident, get_ident.
    destruct p as [pi pl ps]. cbn [p_leading p_segs]. destruct pl; [discriminate|].
    destruct ps as [|[id args] [|x r]]; try discriminate.
    destruct (str_eqb args ""); [|discriminate]. unfold str_eqb. intros A. apply String.eqb_eq in A.
    unfold path_to_string. cbn. now subst.
  Qed.

  (** a state reached without errors never holds a `post` other than map / and_then *)
  Definition post_ok (f : fopts) : Prop :=
    match f_post f with Some t => t = "map" \/ t = "and_then" | None => True end.

  (** (1) [field_step] refines [astep] on the item's kind *)
  Lemma field_step_refines f mi :
    post_ok f ->
    let '(f', o) := field_step f mi in
    let '(s', e) := astep (abs f) (view mi) in
    abs f' = s' /\ (is_some o = e) /\ post_ok f'.
  Proof.
    intros PO. unfold Resolve.field_step, view.
    destruct (mpath_is mi "rename") eqn:N1.
    { destruct (f_attr_name f) as [n|] eqn:AN.
      - destruct (conv (TOption TString) mi) as [[]| |]; try destruct v; cbn; unfold abs; rewrite ?AN; cbn; auto.
      - destruct (conv (TOption TString) mi) as [v|e|m]; [|cbn; unfold abs; rewrite AN; cbn; auto..].
        destruct v; try (cbn; unfold abs; rewrite AN; cbn; auto; fail).
        destruct v; try (cbn; unfold abs; rewrite AN; cbn; auto; fail).
        cbn. unfold abs. rewrite AN. cbn. destruct (f_flatten f); cbn; auto. }
    destruct (mpath_is mi "default") eqn:N2.
    { destruct (f_default f) as [d|] eqn:AD.
      - destruct (conv_default reparse mi); cbn; unfold abs; rewrite ?AD; cbn; auto.
      - destruct (conv_default reparse mi); cbn; unfold abs; rewrite ?AD; cbn; auto. }
    destruct (mpath_is mi "with") eqn:N3.
    { destruct (f_with f) eqn:AW.
      - destruct (conv TCallable mi); cbn; unfold abs; rewrite ?AW; cbn; auto.
      - destruct (conv TCallable mi); cbn; unfold abs; rewrite ?AW; cbn; auto.
        destruct (f_flatten f); cbn; auto. }
    destruct (mpath_is mi "skip") eqn:N4.
    { destruct (f_skip f) as [b0|] eqn:AS.
      - destruct (conv (TOption (TSpanned TBool)) mi) as [v|e|m]; [destruct (as_bool v)|..]; cbn; unfold abs; rewrite ?AS; cbn; auto.
      - destruct (conv (TOption (TSpanned TBool)) mi) as [v|e|m]; [destruct (as_bool v) as [b|]|..]; cbn; unfold abs; rewrite ?AS; cbn; auto.
        destruct b, (f_flatten f); cbn; auto. }
    destruct (mpath_is mi "map") eqn:N5.
    { cbn [orb]. rewrite (mpath_is_str mi "map" N5). cbn [unraw].
      destruct (f_post f) as [t0|] eqn:AP.
      - destruct (str_eqb "map" t0); destruct (conv TPath mi); cbn; unfold abs; rewrite ?AP; cbn; auto.
      - destruct (conv TPath mi); cbn; unfold abs; rewrite ?AP; cbn; auto. }
    destruct (mpath_is mi "and_then") eqn:N6.
    { cbn [orb]. rewrite (mpath_is_str mi "and_then" N6). cbn [unraw].
      destruct (f_post f) as [t0|] eqn:AP.
      - destruct (str_eqb "and_then" t0); destruct (conv TPath mi); cbn; unfold abs; rewrite ?AP; cbn; auto.
      - destruct (conv TPath mi); cbn; unfold abs; rewrite ?AP; cbn; auto. }
    cbn [orb].
    destruct (mpath_is mi "multiple") eqn:N7.
    { destruct (f_multiple f) as [b0|] eqn:AM.
      - destruct (conv (TOption TBool) mi) as [v|e|m]; [destruct (as_bool v)|..]; cbn; unfold abs; rewrite ?AM; cbn; auto.
      - destruct (conv (TOption TBool) mi) as [v|e|m]; [destruct (as_bool v) as [b|]|..]; cbn; unfold abs; rewrite ?AM; cbn; auto.
        destruct b, (f_flatten f); cbn; auto. }
    destruct (mpath_is mi "flatten") eqn:N8.
    { destruct (f_flatten f) as [s0|] eqn:AF.
      - destruct (conv TFlag mi) as [[]| |]; try destruct s; cbn; unfold abs; rewrite ?AF; cbn; auto.
      - destruct (conv TFlag mi) as [v|e|m]; [|cbn; unfold abs; rewrite AF; cbn; auto..].
        destruct v; try (cbn; unfold abs; rewrite AF; cbn; auto; fail).
        destruct s as [sp|]; [|cbn; unfold abs; rewrite AF; cbn; auto].
        cbn. unfold abs. rewrite AF. cbn.
        destruct (f_multiple f) as [[|]|], (f_attr_name f), (f_with f), (f_skip f) as [[|]|]; cbn; auto. }
    cbn. auto.
  Qed.

  (** ** (2) the fold *)
  Lemma post_ok0 rf : post_ok (field0 rf).
  Proof. exact I. Qed.

  (** item lists of meta items only (a literal item is an error at once) *)
  Lemma items_step_meta (f : fopts) errs mi : is_meta mi = true ->
    items_step field_step (f, errs) mi = (fst (field_step f mi), errs ++ errs_of (snd (field_step f mi))).
  Proof. destruct mi; cbn [is_meta]; try discriminate; intros _; cbn [items_step]; destruct (field_step f _); reflexivity. Qed.

  Lemma items_fold_refines items : Forall (fun mi => is_meta mi = true) items ->
    forall f errs, post_ok f ->
      let '(f', errs') := fold_left (items_step field_step) items (f, errs) in
      let '(s', e) := fold_left (fun acc o => let '(s', e) := astep (fst acc) o in (s', (snd acc || e)%bool))
                                (map view items) (abs f, negb (match errs with [] => true | _ => false end)) in
      abs f' = s' /\ (negb (match errs' with [] => true | _ => false end) = e) /\ post_ok f'.
  Proof.
    induction 1 as [|mi r M _ IH]; intros f errs PO.
    - cbn. auto.
    - cbn [fold_left map]. rewrite (items_step_meta f errs mi M). cbn [fst snd].
      pose proof (field_step_refines f mi PO) as R.
      destruct (field_step f mi) as [f' o] eqn:FS. destruct (astep (abs f) (view mi)) as [s' e] eqn:AS.
      destruct R as [R1 [R2 R3]]. cbn [fst snd].
      specialize (IH f' (errs ++ errs_of o) R3).
      replace (negb match errs ++ errs_of o with [] => true | _ :: _ => false end)
        with (negb match errs with [] => true | _ :: _ => false end || e)%bool in IH
        by (rewrite <- R2; destruct errs, o; reflexivity).
      rewrite R1 in IH. exact IH.
  Qed.

  (** ** (3) the order-free predicate on kinds *)
  Definition cnt (p : fopt -> bool) (l : list fopt) : nat := List.length (filter p l).

  Definition is_rename o := match o with FoRename => true | _ => false end.
  Definition is_default o := match o with FoDefault => true | _ => false end.
  Definition is_with o := match o with FoWith => true | _ => false end.
  Definition is_skip o := match o with FoSkip _ => true | _ => false end.
  Definition is_skip_true o := match o with FoSkip true => true | _ => false end.
  Definition is_post o := match o with FoMap | FoAndThen => true | _ => false end.
  Definition is_multiple o := match o with FoMultiple _ => true | _ => false end.
  Definition is_multiple_true o := match o with FoMultiple true => true | _ => false end.
  Definition is_flatten o := match o with FoFlatten => true | _ => false end.
  Definition is_bad o := match o with FoBad | FoUnknown => true | _ => false end.

  (** only known options in their accepted form; none repeated (map and and_then share one
      slot); flatten together with none of rename / with / skip = true / multiple = true *)
  Definition wf_kinds (l : list fopt) : bool :=
    Nat.eqb (cnt is_bad l) 0
    && Nat.leb (cnt is_rename l) 1 && Nat.leb (cnt is_default l) 1 && Nat.leb (cnt is_with l) 1
    && Nat.leb (cnt is_skip l) 1 && Nat.leb (cnt is_post l) 1 && Nat.leb (cnt is_multiple l) 1
    && Nat.leb (cnt is_flatten l) 1
    && (Nat.eqb (cnt is_flatten l) 0
        || (Nat.eqb (cnt is_rename l) 0 && Nat.eqb (cnt is_with l) 0
            && Nat.eqb (cnt is_skip_true l) 0 && Nat.eqb (cnt is_multiple_true l) 0)).

  (** *** saturated counts: a finite abstraction of an option list *)
  Definition sat (n : nat) : nat := Nat.min n 2.

  Record cfg : Type := mkCfg {
    c_bad : nat; c_rename : nat; c_default : nat; c_with : nat; c_skip : nat; c_post : nat;
    c_multiple : nat; c_flatten : nat; c_skip_true : nat; c_multiple_true : nat }.

  Definition cfg_of (l : list fopt) : cfg :=
    mkCfg (sat (cnt is_bad l)) (sat (cnt is_rename l)) (sat (cnt is_default l)) (sat (cnt is_with l))
          (sat (cnt is_skip l)) (sat (cnt is_post l)) (sat (cnt is_multiple l)) (sat (cnt is_flatten l))
          (sat (cnt is_skip_true l)) (sat (cnt is_multiple_true l)).

  Definition inc (b : bool) (n : nat) : nat := sat (n + (if b then 1 else 0)).

  Definition bump (c : cfg) (o : fopt) : cfg :=
    mkCfg (inc (is_bad o) (c_bad c)) (inc (is_rename o) (c_rename c)) (inc (is_default o) (c_default c))
          (inc (is_with o) (c_with c)) (inc (is_skip o) (c_skip c)) (inc (is_post o) (c_post c))
          (inc (is_multiple o) (c_multiple c)) (inc (is_flatten o) (c_flatten c))
          (inc (is_skip_true o) (c_skip_true c)) (inc (is_multiple_true o) (c_multiple_true c)).

  (** the order-free predicate read off the saturated counts *)
  Definition wfb (c : cfg) : bool :=
    Nat.eqb (c_bad c) 0
    && Nat.leb (c_rename c) 1 && Nat.leb (c_default c) 1 && Nat.leb (c_with c) 1
    && Nat.leb (c_skip c) 1 && Nat.leb (c_post c) 1 && Nat.leb (c_multiple c) 1
    && Nat.leb (c_flatten c) 1
    && (Nat.eqb (c_flatten c) 0
        || (Nat.eqb (c_rename c) 0 && Nat.eqb (c_with c) 0
            && Nat.eqb (c_skip_true c) 0 && Nat.eqb (c_multiple_true c) 0)).

  Lemma sat_eqb0 n : Nat.eqb (sat n) 0 = Nat.eqb n 0.
  Proof. destruct n as [|[|n]]; reflexivity. Qed.
  Lemma sat_leb1 n : Nat.leb (sat n) 1 = Nat.leb n 1.
  Proof. destruct n as [|[|n]]; reflexivity. Qed.

  Lemma wf_kinds_cfg l : wf_kinds l = wfb (cfg_of l).
  Proof. unfold wf_kinds, wfb, cfg_of. cbn [c_bad c_rename c_default c_with c_skip c_post c_multiple c_flatten c_skip_true c_multiple_true].
         now rewrite !sat_eqb0, !sat_leb1. Qed.

  Lemma cnt_snoc p l o : cnt p (l ++ [o]) = (cnt p l + (if p o then 1 else 0))%nat.
  Proof. unfold cnt. rewrite filter_app, app_length. cbn. destruct (p o); reflexivity. Qed.

  Lemma sat_add n k : sat (n + k) = sat (sat n + k).
  Proof. unfold sat. lia. Qed.

  Lemma cfg_snoc l o : cfg_of (l ++ [o]) = bump (cfg_of l) o.
  Proof.
    unfold cfg_of, bump, inc. cbn [c_bad c_rename c_default c_with c_skip c_post c_multiple c_flatten c_skip_true c_multiple_true].
    rewrite !cnt_snoc. f_equal; apply sat_add.
  Qed.

  (** the state an error-free prefix with these counts leaves behind ([pb]: whether the post
      option seen was and_then) *)
  Definition state_of (c : cfg) (pb : bool) : astate :=
    mkA (Nat.ltb 0 (c_rename c)) (Nat.ltb 0 (c_default c)) (Nat.ltb 0 (c_with c))
        (if Nat.ltb 0 (c_skip c) then Some (Nat.ltb 0 (c_skip_true c)) else None)
        (if Nat.ltb 0 (c_post c) then Some pb else None)
        (if Nat.ltb 0 (c_multiple c) then Some (Nat.ltb 0 (c_multiple_true c)) else None)
        (Nat.ltb 0 (c_flatten c)).

  Definition obool_eqb (a b : option bool) : bool :=
    match a, b with None, None => true | Some x, Some y => Bool.eqb x y | _, _ => false end.

  Definition astate_eqb (a b : astate) : bool :=
    Bool.eqb (a_rename a) (a_rename b) && Bool.eqb (a_default a) (a_default b) && Bool.eqb (a_with a) (a_with b)
    && obool_eqb (a_skip a) (a_skip b) && obool_eqb (a_post a) (a_post b) && obool_eqb (a_multiple a) (a_multiple b)
    && Bool.eqb (a_flat a) (a_flat b).

  Lemma astate_eqb_eq a b : astate_eqb a b = true -> a = b.
  Proof.
    destruct a as [a1 a2 a3 a4 a5 a6 a7], b as [b1 b2 b3 b4 b5 b6 b7]. unfold astate_eqb. cbn [a_rename a_default a_with a_skip a_post a_multiple a_flat].
    rewrite !andb_true_iff. intros [[[[[[H1 H2] H3] H4] H5] H6] H7].
    apply Bool.eqb_prop in H1, H2, H3, H7. subst.
    assert (O : forall x y, obool_eqb x y = true -> x = y).
    { intros [x|] [y|]; cbn; try discriminate; [|reflexivity]. intros H. apply Bool.eqb_prop in H. now subst. }
    apply O in H4, H5, H6. now subst.
  Qed.

  (** one step from a well-formed configuration: error-free exactly when the bumped
      configuration is still well-formed, and then the state is the bumped configuration's *)
  Definition check (c : cfg) (pb : bool) (o : fopt) : bool :=
    let '(s', e) := astep (state_of c pb) o in
    Bool.eqb (negb e) (wfb (bump c o))
    && implb (wfb (bump c o)) (existsb (fun pb' => astate_eqb s' (state_of (bump c o) pb')) [true; false]).

  Definition all_kinds : list fopt :=
    [FoRename; FoDefault; FoWith; FoSkip true; FoSkip false; FoMap; FoAndThen; FoMultiple true; FoMultiple false;
     FoFlatten; FoBad; FoUnknown].

  Definition three : list nat := [0; 1; 2]%nat.

  Definition all_cfgs : list cfg :=
    flat_map (fun a => flat_map (fun b => flat_map (fun c => flat_map (fun d => flat_map (fun e =>
    flat_map (fun f => flat_map (fun g => flat_map (fun h => flat_map (fun i => map (fun j =>
      mkCfg a b c d e f g h i j) three) three) three) three) three) three) three) three) three) three.

  (** configurations that lists can have: the `true` counts are bounded by the plain ones *)
  Definition consistent (c : cfg) : bool :=
    Nat.leb (c_skip_true c) (c_skip c) && Nat.leb (c_multiple_true c) (c_multiple c).

  (** the finite sweep: 3^10 configurations x 2 x 12 option kinds, decided by computation *)
  Lemma sweep :
    forallb (fun c => implb (wfb c && consistent c) (forallb (fun pb => forallb (check c pb) all_kinds) [true; false])) all_cfgs = true.
  Proof. vm_compute. reflexivity. Qed.

  Lemma cnt_le (p q : fopt -> bool) l : (forall o, p o = true -> q o = true) -> (cnt p l <= cnt q l)%nat.
  Proof.
    intros H. unfold cnt. induction l as [|x r IH]; cbn; [lia|].
    destruct (p x) eqn:P; [rewrite (H x P); cbn; lia|]. destruct (q x); cbn; lia.
  Qed.

  Lemma cfg_consistent l : consistent (cfg_of l) = true.
  Proof.
    unfold consistent, cfg_of. cbn [c_skip c_skip_true c_multiple c_multiple_true].
    pose proof (cnt_le is_skip_true is_skip l ltac:(intros [] H; try discriminate; destruct b; try discriminate; reflexivity)) as L1.
    pose proof (cnt_le is_multiple_true is_multiple l ltac:(intros [] H; try discriminate; destruct b; try discriminate; reflexivity)) as L2.
    apply andb_true_iff. split; apply Nat.leb_le; unfold sat; lia.
  Qed.

  Lemma sat_three n : In (sat n) three.
  Proof.
    assert (H : (sat n = 0 \/ sat n = 1 \/ sat n = 2)%nat) by (unfold sat; lia).
    destruct H as [ E | [ E | E ] ]; rewrite E; cbn; auto.
  Qed.

  Lemma cfg_in_all l : In (cfg_of l) all_cfgs.
  Proof.
    unfold all_cfgs, cfg_of.
    repeat (apply in_flat_map; eexists; split; [apply sat_three|]).
    apply in_map. apply sat_three.
  Qed.

  Lemma kind_in_all o : In o all_kinds.
  Proof. destruct o; try destruct b; cbn; tauto. Qed.

  Definition tracks (s : astate) (l : list fopt) : Prop := exists pb, s = state_of (cfg_of l) pb.

  Lemma astep_spec s l o :
    wf_kinds l = true -> tracks s l ->
    (snd (astep s o) = negb (wf_kinds (l ++ [o])))
    /\ (wf_kinds (l ++ [o]) = true -> tracks (fst (astep s o)) (l ++ [o])).
  Proof.
    intros W [pb ->]. rewrite wf_kinds_cfg in W. rewrite !wf_kinds_cfg, cfg_snoc.
    pose proof sweep as S. rewrite forallb_forall in S. specialize (S _ (cfg_in_all l)). rewrite W, cfg_consistent in S. cbn [implb andb] in S.
    rewrite forallb_forall in S. specialize (S pb ltac:(destruct pb; cbn; auto)).
    rewrite forallb_forall in S. specialize (S o (kind_in_all o)). unfold check in S.
    destruct (astep (state_of (cfg_of l) pb) o) as [s' e]. cbn [fst snd].
    apply andb_true_iff in S as [S1 S2]. apply Bool.eqb_prop in S1. split.
    - rewrite <- S1. now destruct e.
    - intros W'. rewrite W' in S2. cbn [implb] in S2. apply existsb_exists in S2 as [pb' [_ E]].
      apply astate_eqb_eq in E. exists pb'. rewrite cfg_snoc. exact E.
  Qed.

  Definition afold (s : astate) (l : list fopt) : astate * bool :=
    fold_left (fun acc o => let '(s', e) := astep (fst acc) o in (s', (snd acc || e)%bool)) l (s, false).

  Lemma afold_snoc s l o :
    afold s (l ++ [o]) = let '(s1, e1) := afold s l in let '(s2, e2) := astep s1 o in (s2, (e1 || e2)%bool).
  Proof. unfold afold. rewrite fold_left_app. cbn. destruct (fold_left _ l (s, false)) as [s1 e1]. cbn. destruct (astep s1 o); reflexivity. Qed.

  (** adding an item never repairs a list *)
  Lemma wf_kinds_mono l o : wf_kinds (l ++ [o]) = true -> wf_kinds l = true.
  Proof.
    rewrite !wf_kinds_cfg, cfg_snoc. generalize (cfg_of l) as c. intros c.
    unfold wfb, bump, inc. cbn [c_bad c_rename c_default c_with c_skip c_post c_multiple c_flatten c_skip_true c_multiple_true].
    rewrite !sat_eqb0, !sat_leb1. rewrite !andb_true_iff, !orb_true_iff, !andb_true_iff, !Nat.leb_le, !Nat.eqb_eq.
    intros H. repeat split; lia.
  Qed.

  Theorem afold_spec l :
    snd (afold a0 l) = negb (wf_kinds l)
    /\ (wf_kinds l = true -> tracks (fst (afold a0 l)) l).
  Proof.
    induction l as [|o l IH] using rev_ind.
    - cbn. split; [reflexivity|]. intros _. exists false. reflexivity.
    - rewrite afold_snoc. destruct (afold a0 l) as [s1 e1] eqn:AF. destruct IH as [E IH]. cbn [fst snd] in *.
      destruct (wf_kinds l) eqn:W.
      + destruct (astep_spec s1 l o W (IH eq_refl)) as [S1 S2].
        destruct (astep s1 o) as [s2 e2]. cbn [fst snd] in *. rewrite E. cbn [negb orb]. split; [exact S1|exact S2].
      + destruct (astep s1 o) as [s2 e2]. cbn [fst snd]. rewrite E. cbn [negb orb].
        destruct (wf_kinds (l ++ [o])) eqn:W'; [apply wf_kinds_mono in W'; congruence|].
        split; [reflexivity|discriminate].
  Qed.

  (** ** the theorem for one field *)
  Definition field_items_errors (rf_items : list nested) (f : fopts) : list err :=
    snd (fold_left (items_step field_step) rf_items (f, [])).

  (** For every list of option items (any order): the chain reports no error exactly when the
      multiset of option kinds is well-formed. *)
  Theorem field_chain_accepts_iff_wf rf items :
    Forall (fun mi => is_meta mi = true) items ->
    (field_items_errors items (field0 rf) = [] <-> wf_kinds (map view items) = true).
  Proof.
    intros M. unfold field_items_errors.
    pose proof (items_fold_refines items M (field0 rf) [] (post_ok0 rf)) as R.
    destruct (fold_left (items_step field_step) items (field0 rf, [])) as [f' errs'].
    change (abs (field0 rf)) with a0 in R. cbn [negb] in R.
    pose proof (afold_spec (map view items)) as [E _]. unfold afold in E.
    destruct (fold_left _ (map view items) (a0, false)) as [s' e]. destruct R as [_ [R2 _]]. cbn [snd] in *.
    destruct errs'; cbn in R2; subst e; destruct (wf_kinds (map view items)); cbn in *; split; congruence.
  Qed.

  (** ** order-freedom *)
  Lemma cnt_perm p l l' : Permutation l l' -> cnt p l = cnt p l'.
  Proof.
    unfold cnt. induction 1 as [|x l l' _ IH|x y l|l l' l'' _ IH1 _ IH2]; cbn; try congruence.
    - destruct (p x); cbn; congruence.
    - destruct (p x), (p y); reflexivity.
  Qed.

  Theorem wf_kinds_order_free l l' : Permutation l l' -> wf_kinds l = wf_kinds l'.
  Proof. intros P. unfold wf_kinds. now rewrite !(cnt_perm _ l l' P). Qed.

  (** Acceptance of a field's options does not depend on the order in which they are written. *)
  Theorem field_chain_order_free rf items items' :
    Forall (fun mi => is_meta mi = true) items -> Permutation items items' ->
    (field_items_errors items (field0 rf) = [] <-> field_items_errors items' (field0 rf) = []).
  Proof.
    intros M P.
    assert (M' : Forall (fun mi => is_meta mi = true) items').
    { rewrite Forall_forall in *. intros x Hx. apply M. eapply Permutation_in; [apply Permutation_sym; exact P|exact Hx]. }
    rewrite (field_chain_accepts_iff_wf rf items M), (field_chain_accepts_iff_wf rf items' M').
    now rewrite (wf_kinds_order_free _ _ (Permutation_map view P)).
  Qed.
  (** ** any split over attributes *)
  (** the option items of attributes that are bare words or lists *)
  Fixpoint flat_items (attrs : list nested) : list nested :=
    match attrs with
    | [] => []
    | NList _ _ _ items :: r => items ++ flat_items r
    | _ :: r => flat_items r
    end.

  Definition list_attr (a : nested) : Prop :=
    match a with
    | NPath _ _ => True
    | NList _ _ _ items => Forall (fun mi => is_meta mi = true) items
    | _ => False
    end.

  Lemma parse_attributes_flat attrs : Forall list_attr attrs ->
    forall (f : fopts) errs,
      fold_left (attr_step field_step) attrs (f, errs) = fold_left (items_step field_step) (flat_items attrs) (f, errs).
  Proof.
    induction 1 as [|a r Ha _ IH]; intros f errs; [reflexivity|].
    destruct a as [i l|i p|i p ti items|i p ti es msg|i p e]; cbn in Ha; try contradiction.
    - cbn [fold_left flat_items]. apply IH.
    - cbn [fold_left flat_items Resolve.attr_step]. rewrite fold_left_app.
      destruct (fold_left (items_step field_step) items (f, errs)) as [f1 e1]. apply IH.
  Qed.

  Lemma flat_items_meta attrs : Forall list_attr attrs -> Forall (fun mi => is_meta mi = true) (flat_items attrs).
  Proof.
    induction 1 as [|a r Ha _ IH]; [constructor|].
    destruct a; cbn in Ha; try contradiction; cbn [flat_items]; [exact IH|].
    apply Forall_app. split; assumption.
  Qed.

  (** A field whose `#[darling(..)]` attributes are words or lists of meta items is accepted by
      the chain exactly when the multiset of ALL its option kinds, over all its attributes, is
      well-formed: neither the order of the options nor the way they are split over attributes
      matters. *)
  Theorem field_attrs_accept_iff_wf rf attrs :
    Forall list_attr attrs ->
    (snd (parse_attributes field_step (field0 rf) attrs) = [] <-> wf_kinds (map view (flat_items attrs)) = true).
  Proof.
    intros H. unfold parse_attributes. rewrite parse_attributes_flat by assumption.
    exact (field_chain_accepts_iff_wf rf (flat_items attrs) (flat_items_meta attrs H)).
  Qed.

  Theorem field_attrs_split_and_order_free rf attrs attrs' :
    Forall list_attr attrs -> Forall list_attr attrs' ->
    Permutation (flat_items attrs) (flat_items attrs') ->
    (snd (parse_attributes field_step (field0 rf) attrs) = [] <-> snd (parse_attributes field_step (field0 rf) attrs') = []).
  Proof.
    intros H H' P. rewrite (field_attrs_accept_iff_wf rf attrs H), (field_attrs_accept_iff_wf rf attrs' H').
    now rewrite (wf_kinds_order_free _ _ (Permutation_map view P)).
  Qed.
End View.
