(** Options/Resolve.v — derive time: how the six derives read a receiver declaration
    (core/src/options).  A transliteration of the [parse_nested] chains with their
    state-dependent checks, of [parse_attributes] / [parse_body] / [validate_body], including the
    accumulator discipline and every [?].  Result: the declaration is accepted, or rejected with
    a list of errors in the order the diagnostics are emitted. *)
From DarlingModel Require Export Conv.Targets Shape.Shape.
From DarlingModel Require Usage.Usage.
Local Open Scope string_scope.

(** ** Declarations as written *)
Record rfield : Type := mkRField {
  rf_ident : option string;            (* as printed by [Ident::to_string] *)
  rf_span : span;                      (* the whole field *)
  rf_ident_span : option span;
  rf_attrs : list nested;              (* its [#[darling ...]] attributes, in source order *)
  rf_ty : Usage.node;
}.

Inductive rstyle : Type := StUnit | StNamed | StTuple.

Record rvariant : Type := mkRVariant {
  rv_ident : string;
  rv_span : span;
  rv_attrs : list nested;
  rv_style : rstyle;
  rv_fields : list rfield;
  rv_fields_span : span;
}.

Inductive rbody : Type :=
| RStruct (style : rstyle) (fields : list rfield) (fields_span : span)
| REnum (variants : list rvariant)
| RUnion.

Record rdecl : Type := mkRDecl {
  rd_ident_span : span;
  rd_attrs : list nested;
  rd_body : rbody;
  rd_type_params : list string;
}.

Inductive dtrait : Type :=
| DFromMeta | DFromDeriveInput | DFromField | DFromVariant | DFromTypeParam | DFromAttributes.

(** ** Resolved options (what code generation consumes) *)
Inductive dflt : Type := DTrait | DExplicit | DInherit.

Record fopts : Type := mkF {
  f_ident : option string;
  f_attr_name : option string;
  f_default : option dflt;
  f_with : bool;
  f_skip : option bool;
  f_post : option string;              (* "map" | "and_then" *)
  f_multiple : option bool;
  f_flatten : option span;             (* Flag: where the word was seen *)
  f_ty : Usage.node;
}.

Record vopts : Type := mkV {
  v_ident : string;
  v_attr_name : option string;
  v_skip : option bool;
  v_word : option (bool * span);
  v_style : rstyle;
  v_fields : list fopts;
}.

Record copts : Type := mkC {
  c_default : option dflt;
  c_rename_all : option string;
  c_post : option string;
  c_bound : bool;
  c_auk : option bool;
  (* FromMeta *)
  c_from_word : option span;           (* span of the callable *)
  c_from_none : bool;
  (* OuterFrom *)
  c_attr_names : list string;
  c_forward_attrs : option (option (list string));   (* Some None = All *)
  c_from_ident : bool;
  c_supports_di : option di_shape_set;
  c_supports_v : option data_shape;
}.

Definition copts0 : copts :=
  mkC None None None false None None false [] None false None None.

Inductive resolved_body : Type :=
| SStruct (style : rstyle) (fields : list fopts) (magic : list string)
| SEnum (variants : list vopts).

(** ** Monadic plumbing: a step returns the new state and the errors it pushed, or panics. *)
Inductive step (S : Type) : Type :=
| SOk (s : S) (errs : list err)
| SPanic (msg : string).
Arguments SOk {S} s errs.
Arguments SPanic {S} msg.

Section Resolve.
  Variable reparse : grammar -> string -> option string.
  Variable reparse_preds : string -> option (list string).

  Definition no_pf (_ : bool) (_ : string) : option N := None.
  Definition no_arr (_ : string) : option expr := None.
  Definition FM (t : target) : fm := fm_of no_pf reparse no_arr reparse_preds t.

  (** [FromMeta::from_meta(mi)?] for an option value: [Ok v] or the error to return. *)
  Definition conv (t : target) (mi : nested) : res value := from_meta (FM t) mi.

  Definition mpath_is (mi : nested) (s : string) : bool :=
    match meta_path mi with Some p => is_ident p s | None => false end.
  Definition mpath_str (mi : nested) : string :=
    match meta_path mi with Some p => path_to_string p | None => "" end.
  Definition mspan (mi : nested) : span := i_span (ninfo mi).
  Definition pspan (mi : nested) : span :=
    match meta_path mi with Some p => i_span (p_info p) | None => mspan mi end.

  Definition dup_field (mi : nested) : err :=
    with_span (mspan mi) (new_err (KDuplicateField (mpath_str mi))).
  Definition unknown_field (mi : nested) : err :=
    with_span (mspan mi) (new_err (KUnknownField (mpath_str mi) None)).
  Definition conflict (a b : string) (mi : nested) : err :=
    with_span (mspan mi) (custom ("`" ++ a ++ "` and `" ++ b ++ "` cannot be used together")).

  (** One arm outcome: [parse_nested] returns [Ok(())] or [Err(e)]; the state is mutated in place. *)
  Definition arm (S : Type) := (S * option err)%type.

  (** [DefaultExpression::from_meta] *)
  Definition conv_default (mi : nested) : res dflt :=
    match mi with
    | NPath _ _ => Ok DTrait
    | NList i _ _ _ | NBadList i _ _ _ _ => Err (with_span (i_span i) (unsupported_format "list"))
    | NNameValue _ _ e => map_ok (fun _ => DExplicit) (path_from_expr reparse e)
    | NLit _ _ => Panic "model: literal"
    end.

  Definition as_bool (v : value) : option bool :=
    match v with
    | VSome (VBool b) | VBool b | VSome (VSpanned (VBool b) _) => Some b
    | _ => None
    end.

  (** ** InputField::parse_nested *)
  Definition field_step (f : fopts) (mi : nested) : arm fopts :=
    let set_name n := mkF (f_ident f) n (f_default f) (f_with f) (f_skip f) (f_post f) (f_multiple f) (f_flatten f) (f_ty f) in
    let set_default d := mkF (f_ident f) (f_attr_name f) d (f_with f) (f_skip f) (f_post f) (f_multiple f) (f_flatten f) (f_ty f) in
    let set_with := mkF (f_ident f) (f_attr_name f) (f_default f) true (f_skip f) (f_post f) (f_multiple f) (f_flatten f) (f_ty f) in
    let set_skip b := mkF (f_ident f) (f_attr_name f) (f_default f) (f_with f) b (f_post f) (f_multiple f) (f_flatten f) (f_ty f) in
    let set_post p := mkF (f_ident f) (f_attr_name f) (f_default f) (f_with f) (f_skip f) p (f_multiple f) (f_flatten f) (f_ty f) in
    let set_multiple b := mkF (f_ident f) (f_attr_name f) (f_default f) (f_with f) (f_skip f) (f_post f) b (f_flatten f) (f_ty f) in
    let set_flatten s := mkF (f_ident f) (f_attr_name f) (f_default f) (f_with f) (f_skip f) (f_post f) (f_multiple f) s (f_ty f) in
    let flat := match f_flatten f with Some _ => true | None => false end in
    if mpath_is mi "rename" then
      match f_attr_name f with
      | Some _ => (f, Some (dup_field mi))
      | None =>
          match conv (TOption TString) mi with
          | Ok (VSome (VStr s)) =>
              (set_name (Some s), if flat then Some (conflict "flatten" "rename" mi) else None)
          | Err e => (f, Some e)
          | _ => (f, Some (custom "model: rename"))
          end
      end
    else if mpath_is mi "default" then
      match f_default f with
      | Some _ => (f, Some (dup_field mi))
      | None => match conv_default mi with
                | Ok d => (set_default (Some d), None)
                | Err e => (f, Some e)
                | Panic _ => (f, Some (custom "model: default"))
                end
      end
    else if mpath_is mi "with" then
      if f_with f then (f, Some (dup_field mi))
      else match conv TCallable mi with
           | Ok _ => (set_with, if flat then Some (conflict "flatten" "with" mi) else None)
           | Err e => (f, Some e)
           | Panic _ => (f, Some (custom "model: with"))
           end
    else if mpath_is mi "skip" then
      match f_skip f with
      | Some _ => (f, Some (dup_field mi))
      | None =>
          match conv (TOption (TSpanned TBool)) mi with
          | Ok v =>
              match as_bool v with
              | Some b => (set_skip (Some b), if (b && flat)%bool then Some (conflict "flatten" "skip" mi) else None)
              | None => (f, Some (custom "model: skip"))
              end
          | Err e => (f, Some e)
          | Panic _ => (f, Some (custom "model: skip"))
          end
      end
    else if (mpath_is mi "map" || mpath_is mi "and_then")%bool then
      let t := mpath_str mi in
      match f_post f with
      | Some t0 =>
          if str_eqb t t0 then (f, Some (dup_field mi))
          else (f, Some (with_span (mspan mi)
                           (custom ("Options `" ++ t ++ "` and `" ++ t0 ++ "` are mutually exclusive"))))
      | None =>
          match conv TPath mi with
          | Ok _ => (set_post (Some t), None)
          | Err e => (f, Some e)
          | Panic _ => (f, Some (custom "model: map"))
          end
      end
    else if mpath_is mi "multiple" then
      match f_multiple f with
      | Some _ => (f, Some (dup_field mi))
      | None =>
          match conv (TOption TBool) mi with
          | Ok v =>
              match as_bool v with
              | Some b => (set_multiple (Some b),
                           if (b && flat)%bool then Some (conflict "flatten" "multiple" mi) else None)
              | None => (f, Some (custom "model: multiple"))
              end
          | Err e => (f, Some e)
          | Panic _ => (f, Some (custom "model: multiple"))
          end
      end
    else if mpath_is mi "flatten" then
      if flat then (f, Some (dup_field mi))
      else match conv TFlag mi with
           | Ok (VFlag (Some s)) =>
               let conflicts :=
                 ((if match f_multiple f with Some true => true | _ => false end
                   then [conflict "flatten" "multiple" mi] else [])
                    ++ (if match f_attr_name f with Some _ => true | None => false end
                        then [conflict "flatten" "rename" mi] else [])
                    ++ (if f_with f then [conflict "flatten" "with" mi] else [])
                    ++ (if match f_skip f with Some true => true | _ => false end
                        then [conflict "flatten" "skip" mi] else []))%list in
               (set_flatten (Some s),
                match conflicts with
                | [] => None
                | [e] => Some e
                | _ => Some (Multi conflicts [] None)
                end)
           | Err e => (f, Some e)
           | _ => (f, Some (custom "model: flatten"))
           end
    else (f, Some (unknown_field mi)).

  (** ** [parse_attr] / [parse_attributes] (after the C06 repair) *)
  Definition name_value_error (i : info) : err :=
    with_span (i_span i) (custom "Name-value arguments are not supported. Use #[darling(...)]").

  (** leaves of an error in flattening order (a conflict bundle contributes several) *)
  Definition errs_of (o : option err) : list err :=
    match o with Some e => [e] | None => [] end.

  Section Attrs.
    Context {S : Type}.
    Variable stepf : S -> nested -> arm S.

    Definition items_step (acc : S * list err) (item : nested) : S * list err :=
      let '(s, errs) := acc in
      match item with
      | NLit i _ => (s, errs ++ [with_span (i_span i) (unsupported_format "literal")])%list
      | _ => let '(s', o) := stepf s item in (s', errs ++ errs_of o)%list
      end.

    Definition attr_step (acc : S * list err) (attr : nested) : S * list err :=
      let '(s, errs) := acc in
      match attr with
      | NPath _ _ => acc
      | NNameValue i _ _ => (s, errs ++ [name_value_error i])%list
      | NBadList _ _ _ es msg => (s, errs ++ [from_syn es msg])%list
      | NList _ _ _ items => fold_left items_step items (s, errs)
      | NLit _ _ => acc
      end.

    Definition parse_attributes (s : S) (attrs : list nested) : S * list err :=
      fold_left attr_step attrs (s, []).
  End Attrs.

  (** [InputField::from_field]: attributes, then inherited settings. *)
  Definition field0 (rf : rfield) : fopts :=
    mkF (rf_ident rf) None None false None None None None (rf_ty rf).

  Definition with_inherited (cdefault : bool) (f : fopts) : fopts :=
    mkF (f_ident f) (f_attr_name f)
        (match f_default f with
         | Some d => Some d
         | None => if cdefault then Some DInherit
                   else match f_skip f with Some true => Some DTrait | _ => None end
         end)
        (f_with f) (f_skip f) (f_post f) (f_multiple f) (f_flatten f) (f_ty f).

  Definition from_field (cdefault : bool) (rf : rfield) : fopts * list err :=
    let '(f, errs) := parse_attributes field_step (field0 rf) (rf_attrs rf) in
    (with_inherited cdefault f, errs).

  (** ** InputVariant *)
  Definition variant_step (v : vopts) (mi : nested) : arm vopts :=
    if mpath_is mi "rename" then
      match v_attr_name v with
      | Some _ => (v, Some (dup_field mi))
      | None =>
          match conv (TOption TString) mi with
          | Ok (VSome (VStr s)) => (mkV (v_ident v) (Some s) (v_skip v) (v_word v) (v_style v) (v_fields v), None)
          | Err e => (v, Some e)
          | _ => (v, Some (custom "model: rename"))
          end
      end
    else if mpath_is mi "skip" then
      match v_skip v with
      | Some _ => (v, Some (dup_field mi))
      | None =>
          match conv (TOption TBool) mi with
          | Ok x => match as_bool x with
                    | Some b => (mkV (v_ident v) (v_attr_name v) (Some b) (v_word v) (v_style v) (v_fields v), None)
                    | None => (v, Some (custom "model: skip"))
                    end
          | Err e => (v, Some e)
          | Panic _ => (v, Some (custom "model: skip"))
          end
      end
    else if mpath_is mi "word" then
      match v_word v with
      | Some _ => (v, Some (dup_field mi))
      | None =>
          match v_style v with
          | StUnit =>
              match conv (TOption (TSpanned TBool)) mi with
              | Ok (VSome (VSpanned (VBool b) s)) =>
                  (mkV (v_ident v) (v_attr_name v) (v_skip v) (Some (b, s)) (v_style v) (v_fields v), None)
              | Err e => (v, Some e)
              | _ => (v, Some (custom "model: word"))
              end
          | _ => (v, Some (with_span (mspan mi)
                             (custom "Unexpected field: `word`. `#[darling(word)]` can only be applied to a unit variant")))
          end
      end
    else (v, Some (unknown_field mi)).

  Definition tuple_error (s : span) : err :=
    with_span s (new_err (KUnsupportedShape "unnamed fields"
                            (Some "named fields, one unnamed field, or no fields"))).

  (** fields of a variant: stop at the first failing field ([?] in the loop) *)
  Fixpoint variant_fields (cdefault : bool) (fs : list rfield) : list fopts * list err :=
    match fs with
    | [] => ([], [])
    | rf :: r =>
        let '(f, errs) := from_field cdefault rf in
        match errs with
        | [] => let '(fs', errs') := variant_fields cdefault r in (f :: fs', errs')
        | _ => ([], errs)
        end
    end.

  Definition from_variant (cdefault : bool) (rv : rvariant) : option vopts * list err :=
    let v0 := mkV (rv_ident rv) None None None (rv_style rv) [] in
    let '(v, errs) := parse_attributes variant_step v0 (rv_attrs rv) in
    match errs with
    | _ :: _ => (None, errs)
    | [] =>
        let '(fs, ferrs) := variant_fields cdefault (rv_fields rv) in
        match ferrs with
        | _ :: _ => (None, ferrs)
        | [] =>
            let v' := mkV (v_ident v) (v_attr_name v) (v_skip v) (v_word v) (v_style v) fs in
            if (match rv_style rv with StTuple => true | _ => false end
                && negb (Nat.eqb (List.length fs) 1)
                && negb (match v_skip v with Some true => true | _ => false end))%bool
            then (None, [tuple_error (rv_fields_span rv)])
            else (Some v', [])
        end
    end.

  (** ** Container options: Core / FromMetaOptions / OuterFrom / FdiOptions / FromVariantOptions *)
  Definition rename_rules : list string :=
    ["lowercase"; "PascalCase"; "camelCase"; "snake_case"; "SCREAMING_SNAKE_CASE"; "kebab-case"].

  (** [RenameRule::from_meta] through the default dispatcher: a string naming a rule. *)
  Definition rename_rule_fm : fm :=
    mkFm None None None None None None None None
         (Some (fun s => if existsb (str_eqb s) rename_rules then Ok (VStr s) else Err (unknown_value s)))
         None.

  (** [DataShape::set_word] with [prefix]; [trim_start_matches] removes every repetition. *)
  Fixpoint trim_prefix_fuel (fuel : nat) (prefix w : string) : string :=
    match fuel with
    | O => w
    | S f =>
        if (negb (str_eqb prefix "") && String.prefix prefix w)%bool
        then trim_prefix_fuel f prefix (String.substring (String.length prefix)
                                           (String.length w - String.length prefix) w)
        else w
    end.
  (** after the C10 repair the prefix is stripped exactly once *)
  Definition strip_prefix (prefix w : string) : string :=
    if String.prefix prefix w
    then String.substring (String.length prefix) (String.length w - String.length prefix) w
    else w.

  Definition shape_word_of (s : string) : option shape_word :=
    if str_eqb s "newtype" then Some SWNewtype else if str_eqb s "named" then Some SWNamed
    else if str_eqb s "tuple" then Some SWTuple else if str_eqb s "unit" then Some SWUnit
    else if str_eqb s "any" then Some SWAny else None.

  Definition first_seg (p : path) : string :=
    match p_segs p with (s, _) :: _ => s | [] => "" end.
  Definition first_seg_span (p : path) : span := i_span (p_info p).

  (** a shape word is a single identifier ([struct_named::x] is not [struct_named]) *)
  Definition not_a_word (p : path) : err := with_span (i_span (p_info p)) (unknown_value (path_to_string p)).

  (** [DeriveInputShapeSet::from_list]: every bad word is reported. *)
  Fixpoint di_words (d : di_shape_set) (items : list nested) : di_shape_set * list err :=
    match items with
    | [] => (d, [])
    | NPath i p :: r =>
        match get_ident p with
        | None => let '(d', es) := di_words d r in (d', not_a_word p :: es)
        | Some w =>
            let bad := let '(d', es) := di_words d r in (d', with_span (i_span (p_info p)) (unknown_value w) :: es) in
            if str_eqb w "any" then di_words (di_set WAny d) r
            else if String.prefix "enum_" w then
              match shape_word_of (strip_prefix "enum_" w) with
              | Some sw => di_words (di_set (WEnum sw) d) r
              | None => bad
              end
            else if String.prefix "struct_" w then
              match shape_word_of (strip_prefix "struct_" w) with
              | Some sw => di_words (di_set (WStruct sw) d) r
              | None => bad
              end
            else bad
        end
    | n :: r =>
        let '(d', es) := di_words d r in
        (d', with_span (i_span (ninfo n)) (unsupported_format "non-word") :: es)
    end.

  (** [DataShape::from_list]: accumulates. *)
  Fixpoint ds_words (d : data_shape) (items : list nested) : data_shape * list err :=
    match items with
    | [] => (d, [])
    | NPath i p :: r =>
        match get_ident p with
        | None => let '(d', es) := ds_words d r in (d', not_a_word p :: es)
        | Some w =>
            match shape_word_of w with
            | Some sw => ds_words (ds_set sw d) r
            | None => let '(d', es) := ds_words d r in (d', unknown_value w :: es)
            end
        end
    | n :: r =>
        let '(d', es) := ds_words d r in
        (d', with_span (i_span (ninfo n)) (unsupported_format "non-word") :: es)
    end.

  Definition bundle_errs (es : list err) : err :=
    match es with [e] => e | _ => Multi es [] None end.

  (** value of [supports(..)] through [Option<T>::from_meta] and the default dispatcher of T *)
  Definition conv_supports_di (mi : nested) : res di_shape_set :=
    match mi with
    | NPath i _ => Err (with_span (i_span i) (unsupported_format "word"))
    | NList i _ _ items =>
        let '(d, es) := di_words (mkDI ds_empty ds_empty false) items in
        match es with [] => Ok d | _ => Err (with_span (i_span i) (bundle_errs es)) end
    | NBadList _ _ _ es msg => Err (from_syn es msg)
    | NNameValue i _ e => map_err (with_span (i_span i)) (map_ok (fun _ => mkDI ds_empty ds_empty false)
                                                                 (default_from_expr fm_default e))
    | NLit _ _ => Panic "model: literal"
    end.

  Definition conv_supports_v (mi : nested) : res data_shape :=
    match mi with
    | NPath i _ => Err (with_span (i_span i) (unsupported_format "word"))
    | NList i _ _ items =>
        let '(d, es) := ds_words ds_empty items in
        match es with [] => Ok d | _ => Err (with_span (i_span i) (bundle_errs es)) end
    | NBadList _ _ _ es msg => Err (from_syn es msg)
    | NNameValue i _ e => map_err (with_span (i_span i)) (map_ok (fun _ => ds_empty) (default_from_expr fm_default e))
    | NLit _ _ => Panic "model: literal"
    end.

  Definition strs_of (v : value) : list string :=
    match v with VList vs => map (fun x => match x with VToks s => s | _ => "" end) vs | _ => [] end.

  Definition core_step (c : copts) (mi : nested) : arm copts :=
    let upd d ra po bo au :=
      mkC d ra po bo au (c_from_word c) (c_from_none c) (c_attr_names c) (c_forward_attrs c)
          (c_from_ident c) (c_supports_di c) (c_supports_v c) in
    if mpath_is mi "default" then
      match c_default c with
      | Some _ => (c, Some (with_span (mspan mi) (new_err (KDuplicateField "default"))))
      | None =>
          (* [self.default = FromMeta::from_meta(mi)?] : Option<DefaultExpression> *)
          match conv_default mi with
          | Ok d => (upd (Some d) (c_rename_all c) (c_post c) (c_bound c) (c_auk c), None)
          | Err e => (c, Some e)
          | Panic _ => (c, Some (custom "model: default"))
          end
      end
    else if mpath_is mi "rename_all" then
      match from_meta rename_rule_fm mi with
      | Ok (VStr s) => (upd (c_default c) (Some s) (c_post c) (c_bound c) (c_auk c), None)
      | Err e => (c, Some e)
      | _ => (c, Some (custom "model: rename_all"))
      end
    else if (mpath_is mi "map" || mpath_is mi "and_then")%bool then
      let t := mpath_str mi in
      match c_post c with
      | Some t0 =>
          if str_eqb t t0 then (c, Some (with_span (mspan mi) (new_err (KDuplicateField t))))
          else (c, Some (with_span (mspan mi)
                           (custom ("Options `" ++ t ++ "` and `" ++ t0 ++ "` are mutually exclusive"))))
      | None =>
          match conv TPath mi with
          | Ok _ => (upd (c_default c) (c_rename_all c) (Some t) (c_bound c) (c_auk c), None)
          | Err e => (c, Some e)
          | Panic _ => (c, Some (custom "model: map"))
          end
      end
    else if mpath_is mi "bound" then
      match conv (TOption TWherePreds) mi with
      | Ok _ => (upd (c_default c) (c_rename_all c) (c_post c) true (c_auk c), None)
      | Err e => (c, Some e)
      | Panic _ => (c, Some (custom "model: bound"))
      end
    else if mpath_is mi "allow_unknown_fields" then
      match c_auk c with
      | Some _ => (c, Some (with_span (mspan mi) (new_err (KDuplicateField "allow_unknown_fields"))))
      | None =>
          match conv (TOption TBool) mi with
          | Ok v => match as_bool v with
                    | Some b => (upd (c_default c) (c_rename_all c) (c_post c) (c_bound c) (Some b), None)
                    | None => (c, Some (custom "model: auk"))
                    end
          | Err e => (c, Some e)
          | Panic _ => (c, Some (custom "model: auk"))
          end
      end
    else (c, Some (unknown_field mi)).

  Definition from_meta_step (c : copts) (mi : nested) : arm copts :=
    let setw w n :=
      mkC (c_default c) (c_rename_all c) (c_post c) (c_bound c) (c_auk c) w n (c_attr_names c)
          (c_forward_attrs c) (c_from_ident c) (c_supports_di c) (c_supports_v c) in
    let callable_span :=
      match mi with NNameValue _ _ e => i_span (einfo (strip_groups e)) | _ => mspan mi end in
    if mpath_is mi "from_word" then
      match c_from_word c with
      | Some _ => (c, Some (with_span (pspan mi) (new_err (KDuplicateField "from_word"))))
      | None => match conv TCallable mi with
                | Ok _ => (setw (Some callable_span) (c_from_none c), None)
                | Err e => (c, Some e)
                | Panic _ => (c, Some (custom "model: from_word"))
                end
      end
    else if mpath_is mi "from_none" then
      if c_from_none c then (c, Some (with_span (pspan mi) (new_err (KDuplicateField "from_none"))))
      else match conv TCallable mi with
           | Ok _ => (setw (c_from_word c) true, None)
           | Err e => (c, Some e)
           | Panic _ => (c, Some (custom "model: from_none"))
           end
    else core_step c mi.

  Definition outer_step (c : copts) (mi : nested) : arm copts :=
    let seto names fwd fi d :=
      mkC d (c_rename_all c) (c_post c) (c_bound c) (c_auk c) (c_from_word c) (c_from_none c) names fwd fi
          (c_supports_di c) (c_supports_v c) in
    if mpath_is mi "attributes" then
      match conv TPathList mi with
      | Ok v => (seto (strs_of v) (c_forward_attrs c) (c_from_ident c) (c_default c), None)
      | Err e => (c, Some e)
      | Panic _ => (c, Some (custom "model: attributes"))
      end
    else if mpath_is mi "forward_attrs" then
      (* Option<ForwardAttrsFilter>: word = All, list = PathList::from_list *)
      match mi with
      | NPath _ _ => (seto (c_attr_names c) (Some None) (c_from_ident c) (c_default c), None)
      | NList i _ _ items =>
          match from_list pathlist_fm items with
          | Ok v => (seto (c_attr_names c) (Some (Some (strs_of v))) (c_from_ident c) (c_default c), None)
          | Err e => (c, Some (with_span (i_span i) e))
          | Panic _ => (c, Some (custom "model: forward_attrs"))
          end
      | NBadList _ _ _ es msg => (c, Some (from_syn es msg))
      | NNameValue i _ e =>
          match default_from_expr fm_default e with
          | Err x => (c, Some (with_span (i_span i) x))
          | _ => (c, Some (custom "model: forward_attrs"))
          end
      | NLit _ _ => (c, None)
      end
    else if mpath_is mi "from_ident" then
      (seto (c_attr_names c) (c_forward_attrs c) true (Some DTrait), None)
    else core_step c mi.

  Definition di_step (c : copts) (mi : nested) : arm copts :=
    if mpath_is mi "supports" then
      match conv_supports_di mi with
      | Ok d => (mkC (c_default c) (c_rename_all c) (c_post c) (c_bound c) (c_auk c) (c_from_word c) (c_from_none c)
                     (c_attr_names c) (c_forward_attrs c) (c_from_ident c) (Some d) (c_supports_v c), None)
      | Err e => (c, Some e)
      | Panic _ => (c, Some (custom "model: supports"))
      end
    else outer_step c mi.

  Definition v_step (c : copts) (mi : nested) : arm copts :=
    if mpath_is mi "supports" then
      match conv_supports_v mi with
      | Ok d => (mkC (c_default c) (c_rename_all c) (c_post c) (c_bound c) (c_auk c) (c_from_word c) (c_from_none c)
                     (c_attr_names c) (c_forward_attrs c) (c_from_ident c) (c_supports_di c) (Some d), None)
      | Err e => (c, Some e)
      | Panic _ => (c, Some (custom "model: supports"))
      end
    else outer_step c mi.

  Definition container_step (t : dtrait) : copts -> nested -> arm copts :=
    match t with
    | DFromMeta => from_meta_step
    | DFromDeriveInput => di_step
    | DFromVariant => v_step
    | _ => outer_step
    end.

  (** ** The body *)
  Definition magic_fields (t : dtrait) : list string :=
    match t with
    | DFromMeta => []
    | DFromDeriveInput => ["vis"; "data"; "generics"; "ident"; "attrs"]
    | DFromField => ["vis"; "ty"; "ident"; "attrs"]
    | DFromVariant => ["discriminant"; "fields"; "ident"; "attrs"]
    | DFromTypeParam => ["bounds"; "default"; "ident"; "attrs"]
    | DFromAttributes => ["attrs"]             (* a list of attributes has no identifier: `ident` is an ordinary field *)
    end.

  (** [ForwardedField::parse_nested] for [attrs] / [data] *)
  Definition forwarded_step (has_with : bool) (mi : nested) : arm bool :=
    if mpath_is mi "with" then
      if has_with then (has_with, Some (dup_field mi))
      else match conv (TOption TPath) mi with
           | Ok _ => (true, None)
           | Err e => (has_with, Some e)
           | Panic _ => (has_with, Some (custom "model: with"))
           end
    else (has_with, Some (with_span (mspan mi) (new_err (KUnknownField (mpath_str mi) None)))).

  Record bstate : Type := mkB {
    b_fields : list fopts;
    b_magic : list (string * span);       (* magic fields seen, with the field ident's span *)
    b_errs : list err;
  }.

  (** one field of a struct receiver: magic by name, otherwise an ordinary field *)
  Definition body_field (t : dtrait) (cdefault : bool) (b : bstate) (rf : rfield) : bstate :=
    let name := match rf_ident rf with Some s => s | None => "" end in
    let isp := match rf_ident_span rf with Some s => s | None => rf_span rf end in
    if (match rf_ident rf with Some _ => true | None => false end
        && existsb (str_eqb name) (magic_fields t))%bool
    then
      if (str_eqb name "attrs" || (str_eqb name "data" && match t with DFromDeriveInput => true | _ => false end))%bool
      then
        let '(_, errs) := parse_attributes forwarded_step false (rf_attrs rf) in
        match errs with
        | [] => mkB (b_fields b) (b_magic b ++ [(name, isp)]) (b_errs b)
        | _ => mkB (b_fields b) (b_magic b) (b_errs b ++ errs)
        end
      else mkB (b_fields b) (b_magic b ++ [(name, isp)]) (b_errs b)
    else
      let '(f, errs) := from_field cdefault rf in
      match errs with
      | [] => mkB (b_fields b ++ [f]) (b_magic b) (b_errs b)
      | _ => mkB (b_fields b) (b_magic b) (b_errs b ++ errs)
      end.

  Definition flatten_errors (fs : list fopts) : list err :=
    let spans := flat_map (fun f => match f_flatten f with Some s => [s] | None => [] end) fs in
    match spans with
    | _ :: _ :: _ =>
        map (fun s => with_span s (custom "`#[darling(flatten)]` can only be applied to one field")) spans
    | _ => []
    end.

  Definition is_outer (t : dtrait) : bool := match t with DFromMeta => false | _ => true end.

  (** [parse_body]: fields / variants accumulate, then the tuple check, then [validate_body]. *)
  Definition resolve_body (t : dtrait) (c : copts) (d : rdecl) : option resolved_body * list err :=
    let cdefault := match c_default c with Some _ => true | None => false end in
    match rd_body d with
    | RUnion => (None, [custom "Unions are not supported"])
    | RStruct style rfs fspan =>
        let b := fold_left (body_field t cdefault) rfs (mkB [] [] []) in
        let tuple_errs :=
          match style with
          | StTuple => if Nat.eqb (List.length rfs) 1 then [] else [tuple_error fspan]
          | _ => []
          end in
        let v1 := flatten_errors (b_fields b) in
        let v2 :=
          if is_outer t then
            match find (fun m => str_eqb (fst m) "attrs") (b_magic b), c_forward_attrs c with
            | Some (_, sp), None =>
                [with_span sp (custom "field will not be populated because `forward_attrs` is not set on the struct")]
            | _, _ => []
            end
          else
            match c_from_word c with
            | Some sp =>
                (* the check looks at the fields that were read successfully *)
                match style, b_fields b with
                | StUnit, _ =>
                    [with_span sp (custom "`from_word` cannot be used on unit structs because it conflicts with the generated impl")]
                | StTuple, [_] =>
                    [with_span sp (custom "`from_word` cannot be used on newtype structs because the implementation is entirely delegated to the inner type")]
                | _, _ => []
                end
            | None => []
            end in
        (* FromField / FromVariant / FromTypeParam have no delegating newtype form *)
        let v3 :=
          match t, style, b_fields b with
          | (DFromField | DFromVariant | DFromTypeParam), StTuple, [_] =>
              [with_span (rd_ident_span d)
                 (new_err (KUnsupportedShape "one unnamed field" (Some "named fields or no fields")))]
          | _, _, _ => []
          end in
        let errs := (b_errs b ++ tuple_errs ++ v1 ++ v2 ++ v3)%list in
        (Some (SStruct style (b_fields b) (map fst (b_magic b))), errs)
    | REnum rvs =>
        if is_outer t then
          (* every variant is rejected by the default [parse_variant]; then the enum itself *)
          (None,
           (map (fun rv => with_span (rv_span rv) (unsupported_format "enum variant")) rvs
              ++ [with_span (rd_ident_span d) (new_err (KUnsupportedShape "enum" None))])%list)
        else
          let step (acc : list vopts * list err) (rv : rvariant) :=
            let '(vs, errs) := acc in
            (* the fields of a variant do not inherit the container default: an enum value has no such fields *)
            match from_variant false rv with
            | (Some v, _) => (vs ++ [v], errs)%list
            | (None, es) => (vs, errs ++ es)%list
            end in
          let '(vs, errs) := fold_left step rvs ([], []) in
          (* only a true value designates the word variant (`word = false` opts out) *)
          let words := flat_map (fun v => match v_word v with Some (true, s) => [s] | _ => [] end) vs in
          (* [Core::validate_body]: at most one flatten field per struct variant *)
          let v0 := flat_map (fun v => flatten_errors (v_fields v)) vs in
          let v1 :=
            match words, c_from_word c with
            | _ :: _, Some sp => [with_span sp (custom "`from_word` cannot be used with an enum that also uses `word`")]
            | _, _ => []
            end in
          let v2 :=
            match words with
            | _ :: _ :: _ => map (fun s => with_span s (custom "`#[darling(word)]` can only be applied to one variant")) words
            | _ => []
            end in
          (Some (SEnum vs), (errs ++ v0 ++ v1 ++ v2)%list)
    end.

  (** ** The whole derive *)
  Inductive outcome : Type :=
  | Accepted (c : copts) (b : resolved_body)
  | Rejected (errs : list err).

  Definition newtype_body (d : rdecl) : bool :=
    match rd_body d with RStruct StTuple [_] _ => true | _ => false end.

  Definition resolve (t : dtrait) (d : rdecl) : outcome :=
    match rd_body d with
    | RUnion => Rejected [custom "Unions are not supported"]          (* Core::start *)
    | _ =>
        let '(c, errs) := parse_attributes (container_step t) copts0 (rd_attrs d) in
        match errs with
        | _ :: _ => Rejected errs                                      (* parse_attributes(..)? *)
        | [] =>
            match resolve_body t c d with
            | (Some b, []) =>
                match t with
                | DFromAttributes =>
                    if (negb (newtype_body d) && match c_attr_names c with [] => true | _ => false end)%bool
                    then Rejected [custom "FromAttributes without attributes collects nothing"]
                    else Accepted c b
                | _ => Accepted c b
                end
            | (_, errs') => Rejected errs'
            end
        end
    end.

  (** diagnostics in emission order: the leaves of the errors, flattened *)
  Definition diags_of (errs : list err) : list diag :=
    flat_map (fun e => map single_diag (into_vec e)) errs.
End Resolve.
