(** Options/Emit.v — what the emitted implementations introduce and name, as far as C20's hygiene
    clause is concerned (codegen/*.rs): the locals the generated functions declare in the scope
    shared with user-supplied tokens, the binders of inner scopes, and the roots of the paths
    through which dependencies are named. *)
From DarlingModel Require Export Base.Prelude.
Local Open Scope string_scope.

(** locals and parameters declared by generated code in the function scope where the receiver's
    own field locals live and where user callables (`with`, `from_word`, ..) are spliced in *)
Definition generated_locals : list string :=
  ["__items"; "__item"; "__inner"; "__name"; "__other"; "__len"; "__val"; "__errors"; "__flatten";
   "__default"; "__fwd_attrs"; "__attr"; "__data"; "__err"; "__di"; "__field"; "__variant"; "__body";
   "__validate_body"; "__type_fallback"; "__value"; "__outer"; "__nested"; "__type_param"].

(** binders of inner scopes (closure parameters, the nested shape-validation function, the
    parameter of from_string): no field local is referenced inside those scopes *)
Definition scoped_binders : list string :=
  ["e"; "lit"; "struct_check"; "enum_check"; "variant_errors"; "variant"; "data"; "struct_data"].

(** the root of every global path in emitted code *)
Definition path_roots : list string := ["darling"].

(** a user name is ordinary when it does not start with a double underscore *)
Definition ordinary (n : string) : bool := negb (String.prefix "__" n).

Definition all_generated : bool := forallb (String.prefix "__") generated_locals.
