(** Exec/UsageCase.v — correspondence cases for the usage analysis (C19). *)
From DarlingModel Require Import Base.Prelude Usage.Usage.
Local Open Scope string_scope.

Record caseUsage : Type := {
  u_lifetimes : bool;              (* uses_lifetimes instead of uses_type_params *)
  u_declare : purpose;
  u_set : list string;
  u_nodes : list node;             (* one type, or the field types of a collection *)
  u_expected : list string;        (* the generator's ground truth: parameters planted at use positions *)
  u_obs : option (list string);    (* None = the implementation panicked *)
}.

Fixpoint insert_s (x : string) (l : list string) : list string :=
  match l with
  | [] => [x]
  | y :: r => match String.compare x y with
              | Lt => x :: l
              | Eq => l
              | Gt => y :: insert_s x r
              end
  end.
Definition sort_set (l : list string) : list string := fold_right insert_s [] l.

Definition model_usage (c : caseUsage) : option (list string) :=
  let r := if u_lifetimes c then collect_lt (u_declare c) (u_set c) (u_nodes c)
           else collect_tp (u_declare c) (u_set c) (u_nodes c) in
  match r with UOk h => Some (sort_set h) | UPanic _ => None end.

Definition agree19 (c : caseUsage) : bool :=
  option_eqb (list_eqb str_eqb) (model_usage c) (option_map sort_set (u_obs c)).

(** exactly the planted uses, and nothing outside the queried set *)
Definition holds19 (c : caseUsage) : bool :=
  match u_obs c with
  | Some h =>
      list_eqb str_eqb (sort_set h) (sort_set (u_expected c))
      && forallb (fun x => mem x (u_set c)) h
  | None => false
  end.

Definition run19 (cs : list caseUsage) : string :=
  report (map (fun ic : N * caseUsage => (fst ic, agree19 (snd ic), holds19 (snd ic)))
              (combine (map N.of_nat (seq 0 (List.length cs))) cs)).
