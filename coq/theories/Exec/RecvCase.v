(** Exec/RecvCase.v — correspondence cases for derived receivers (C01-C03, C07, C09, C17). *)
From DarlingModel Require Import Run.Recv Run.InsideProofs Run.SpecSound Run.SpecCount Exec.ErrObs Exec.ConvCase.
Local Open Scope string_scope.

(** The fixed library of user callables (harness/vh-rt/src/corpus.rs has the Rust spellings). *)
Definition interp_with_lib (f : fnid) (item : nested) : res value :=
  if str_eqb f "w_len" then
    map_ok (fun v => match v with VStr s => VInt (Z.of_nat (String.length s)) | _ => VUnit end)
           (from_meta string_fm item)
  else if str_eqb f "w_opt_len" then
    (* a converter for an Option<i64> field: when the item is absent the field holds the type's value-for-absent *)
    map_ok (fun v => match v with VStr s => VSome (VInt (Z.of_nat (String.length s))) | _ => VUnit end)
           (from_meta string_fm item)
  else if str_eqb f "w_fail" then Err (custom "w_fail")
  else Panic ("model: unknown with-function " ++ f).

Definition interp_fn_lib (consts : list (string * value)) (f : fnid) (v : value) : res value :=
  if str_eqb f "m_bang" then match v with VStr s => Ok (VStr (s ++ "!")) | _ => Panic "model: m_bang" end
  else if str_eqb f "m_not" then match v with VBool b => Ok (VBool (negb b)) | _ => Panic "model: m_not" end
  else if str_eqb f "a_nonempty" then
    match v with VStr s => if str_eqb s "" then Err (custom "empty") else Ok (VStr s) | _ => Panic "model: a_nonempty" end
  else if str_eqb f "m_inc" then match v with VInt z => Ok (VInt (z + 1)) | _ => Panic "model: m_inc" end
  else if str_eqb f "a_small" then
    match v with VInt z => if (z <? 4)%Z then Ok (VInt z) else Err (custom "big") | _ => Panic "model: a_small" end
  else if str_eqb f "d_list" then Ok (VList [VInt 7; VInt 8])
  else if str_eqb f "d_seven" then Ok (VInt 7)
  else if str_eqb f "d_hello" then Ok (VStr "hello")
  else if (str_eqb f "cm_id" || str_eqb f "ca_ok")%bool then Ok v
  else if str_eqb f "ca_fail" then Err (custom "ca_fail")
  else match find (fun kv => str_eqb (fst kv) f) consts with
       | Some kv => Ok (snd kv)
       | None => Panic ("model: unknown function " ++ f)
       end.

Record caseRecv : Type := {
  rc_ty : ty;
  rc_consts : list (string * value);
  rc_pf : list (string * option N * option N);
  rc_or : oracles;
  rc_sugg : bool;
  rc_sim : list (string * string * N);
  rc_entry : entry;
  rc_input : nested;
  rc_obs : conv_obs;
}.

Definition recv_fm (c : caseRecv) : fm :=
  impl_of (pf_of (rc_pf c)) (reparse_of (rc_or c)) (reparse_arr_of (rc_or c)) (reparse_preds_of (rc_or c))
          (rc_sugg c) (sim_of (rc_sim c)) interp_with_lib (interp_fn_lib (rc_consts c)) (rc_ty c).

Definition model_recv (c : caseRecv) : conv_obs :=
  match rc_entry c with
  | EMeta => conv_obs_of (from_meta (recv_fm c) (rc_input c))
  | ENested => conv_obs_of (from_nested (recv_fm c) (rc_input c))
  | ENone => CNone (from_none (recv_fm c))
  end.

Definition agree_recv (c : caseRecv) : bool := conv_obs_eqb (model_recv c) (rc_obs c).

Definition run_recv (holds : caseRecv -> bool) (cs : list caseRecv) : string :=
  report (map (fun ic : N * caseRecv => (fst ic, agree_recv (snd ic), holds (snd ic)))
              (combine (map N.of_nat (seq 0 (List.length cs))) cs)).

(** C07 on the observation: a value or an error, never a panic *)
Definition holds07 (c : caseRecv) : bool :=
  match rc_obs c with CPanic _ => false | _ => true end.

(** ** C01 / C02 / C09 on the implementation's output, against the per-field specification *)
From DarlingModel Require Import Spec.C01.

Definition expected_of (c : caseRecv) : option value :=
  expected (pf_of (rc_pf c)) (reparse_of (rc_or c)) (reparse_arr_of (rc_or c)) (reparse_preds_of (rc_or c))
           interp_with_lib (interp_fn_lib (rc_consts c)) (rc_ty c) (rc_input c).

(** C01: a mistake-free input (one the specification gives a value) parses to exactly that value *)
Definition holds01 (c : caseRecv) : bool :=
  (* [wf_specb]: the receiver meets the hypotheses of Run/SpecSound.v [expected_sound] *)
  wf_specb (rc_ty c)
  && match rc_entry c, expected_of c with
     | EMeta, Some v => match rc_obs c with COk v' => value_eqb v v' | _ => false end
     | _, _ => true
     end.
Definition nontrivial01 (c : caseRecv) : bool :=
  match rc_entry c, expected_of c with EMeta, Some _ => true | _, _ => false end.

Definition mistakes_of (c : caseRecv) : N :=
  mistakes (pf_of (rc_pf c)) (reparse_of (rc_or c)) (reparse_arr_of (rc_or c)) (reparse_preds_of (rc_or c))
           interp_with_lib (interp_fn_lib (rc_consts c)) (rc_ty c) (rc_input c).

(** "name" or "name[3]" -> "name" *)
Fixpoint before_bracket (s : string) : string :=
  match s with
  | EmptyString => EmptyString
  | String c r => if Ascii.eqb c "["%char then EmptyString else String c (before_bracket r)
  end.
Fixpoint before_slash (s : string) : string :=
  match s with
  | EmptyString => EmptyString
  | String c r => if Ascii.eqb c "/"%char then EmptyString else String c (before_slash r)
  end.
Fixpoint split_slash_aux (cur : string) (s : string) : list string :=
  match s with
  | EmptyString => [cur]
  | String c r => if Ascii.eqb c "/"%char then cur :: split_slash_aux EmptyString r
                  else split_slash_aux (cur ++ String c EmptyString) r
  end.
Definition split_slash (s : string) : list string := split_slash_aux EmptyString s.

(** "each [leaf] names the offending item and its outer-to-inner location path", read on the input:
    the location path of a leaf is the chain of the NAMES of the items that enclose the leaf's span,
    outermost first (the root item excluded) - up to, or up to and including, the item whose range
    the span is (an unknown or repeated item is located by what encloses it, a rejected value under
    its own name).  `flatten` adds no segment and no nesting; `name[3]` counts as `name`. *)
Fixpoint path_candidates (fuel : nat) (items : list nested) (s : span) : list (list string) :=
  match fuel with
  | O => [[]]
  | S fuel' =>
      match find (fun it => span_inside s (i_span (ninfo it))) items with
      | None => [[]]
      | Some it =>
          let name := Spec.C01.item_name it in
          (* the leaf is about the item itself: its whole range, or the range of its NAME (a repeated map key) *)
          if (span_eqb s (i_span (ninfo it))
              || match meta_path it with Some p => span_inside s (i_span (p_info p)) | None => false end)%bool
          then [[]; [name]]
          else
            match it with
            | NList _ _ _ inner => map (cons name) (path_candidates fuel' inner s)
            | _ => [[name]]
            end
      end
  end.

Fixpoint depth_of (n : nested) : nat :=
  match n with
  | NList _ _ _ items => S (fold_left Nat.max (map depth_of items) 0)
  | _ => 1
  end.

Definition leaf_path_ok (input : nested) (l : string * option string * option span) : bool :=
  let '(_, locs, sp) := l in
  match sp with
  | None => true                                    (* spans are C03's concern *)
  | Some s =>
      let path := match locs with None => [] | Some j => map before_bracket (split_slash j) end in
      let cands := match input with NList _ _ _ items => path_candidates (depth_of input) items s | _ => [[]] end in
      existsb (list_eqb str_eqb path) cands
  end.

Definition paths_ok (input : nested) (o : conv_obs) : bool :=
  match o with
  | CErr e => forallb (leaf_path_ok input) (obs_leaves None None e)
  | _ => true
  end.

(** C02: parsing fails exactly when the specification finds a mistake, and then the error has
    exactly one leaf per mistake, each located by the names of the items around it *)
Definition holds02 (c : caseRecv) : bool :=
  (* [kwfb]: the receiver meets the hypotheses of Run/SpecCount.v [mistakes_count] *)
  kwfb (interp_fn_lib (rc_consts c)) (rc_ty c) &&
  match rc_entry c with
  | EMeta =>
      match expected_of c, rc_obs c with
      | Some v, COk v' => value_eqb v v' && N.eqb (mistakes_of c) 0
      | None, CErr (Obs n _ _ _ _ _) =>
          N.ltb 0 (mistakes_of c) && N.eqb n (mistakes_of c)
          && (negb (wfpb (rc_input c)) || paths_ok (rc_input c) (rc_obs c))     (* [wfpb]: the ranges of the input nest as its items do *)
      | _, _ => false
      end
  | _ => true
  end.
Definition nontrivial02 (c : caseRecv) : bool :=
  match rc_entry c, expected_of c with EMeta, None => true | _, _ => false end.

Definition run_recv_counted (holds nontrivial : caseRecv -> bool) (cs : list caseRecv) : string :=
  (run_recv holds cs ++ "#" ++ N_to_string (N.of_nat (List.length (filter nontrivial cs))))%string.


(** ** C03 on the implementation's errors for receivers parsed from a meta item: every leaf is
    spanned; the span lies inside the input item, equals the range of some node of the input
    (never a made-up coarser range), is the mistake's own node for the kinds whose node can be told
    from the message, and - when the leaf is located under a name - lies inside a top-level item
    with that name. *)
Fixpoint expr_spans (e : expr) : list span :=
  match e with
  | ELit i _ | EOther i _ | ENeg i _ => [i_span i]
  | EGroup i g => i_span i :: expr_spans g
  | EPath i p => [i_span i; i_span (p_info p)]
  | EArray i es => i_span i :: flat_map expr_spans es
  end.

Fixpoint node_spans (n : nested) : list span :=
  match n with
  | NLit i _ => [i_span i]
  | NPath i p => [i_span i; i_span (p_info p)]
  | NList i p ti items => i_span i :: i_span (p_info p) :: i_span ti :: flat_map node_spans items
  | NBadList i p ti es _ => [i_span i; i_span (p_info p); i_span ti; es]
  | NNameValue i p e => i_span i :: i_span (p_info p) :: expr_spans e
  end.

(** the mistake's own node, by kind ("inside the offending item or value itself"): a literal where a
    named item is required is reported at a literal (a literal item, or the value of an item); a
    surplus item of a one-item list at an item that is not the first of its list *)
Fixpoint lit_spans (n : nested) : list span :=
  match n with
  | NLit i _ => [i_span i]
  | NList _ _ _ items => flat_map lit_spans items
  | NNameValue _ _ e => expr_spans e
  | _ => []
  end.
Fixpoint surplus_spans (n : nested) : list span :=
  match n with
  | NList _ _ _ items => (map (fun it => i_span (ninfo it)) (tl items) ++ flat_map surplus_spans items)%list
  | _ => []
  end.
Definition kind_blame_ok (input : nested) (body : string) (s : span) : bool :=
  if prefix "Unexpected meta-item format `literal`" body then existsb (span_eqb s) (lit_spans input)
  else if prefix "Too many items" body then existsb (span_eqb s) (surplus_spans input)
  else true.


Definition top_items (n : nested) : list nested :=
  match n with NList _ _ _ items => items | _ => [] end.

Definition leaf_span_ok (input : nested) (l : string * option string * option span) : bool :=
  let '(body, locs, sp) := l in
  match sp with
  | None => false
  | Some s =>
      span_inside s (i_span (ninfo input))
      && existsb (span_eqb s) (node_spans input)
      && kind_blame_ok input body s
      && match locs with
         | None => true
         | Some path =>
             let first := before_bracket (before_slash path) in
             let named := filter (fun it => str_eqb (Spec.C01.item_name it) first) (top_items input) in
             match named with
             | [] => true                      (* located under a name that is not written (e.g. missing nested item) *)
             | _ => existsb (fun it => span_inside s (i_span (ninfo it))) named
             end
         end
  end.

Definition holds03 (c : caseRecv) : bool :=
  match rc_entry c, rc_obs c with
  | EMeta, CErr o =>
      (* [wfpb]: the input meets the positional well-formedness the theorems of Run/InsideProofs.v assume *)
      wfpb (rc_input c) && forallb (leaf_span_ok (rc_input c)) (obs_leaves None None o)
  | _, _ => true
  end.
Definition nontrivial03 (c : caseRecv) : bool :=
  match rc_entry c, rc_obs c with EMeta, CErr _ => true | _, _ => false end.

(** ** C09: enum receivers: the specification's verdict, and never a skipped variant *)
Definition produced_variant_ok (c : caseRecv) : bool :=
  match rc_ty c, rc_obs c with
  | TEnumR _ _ vs, COk (VVariant id _) =>
      existsb (fun v => str_eqb (vi_ident (fst v)) id && negb (vi_skip (fst v))) vs
  | TEnumR _ _ _, COk _ => false
  | _, _ => true
  end.
Definition holds09 (c : caseRecv) : bool := holds02 c && produced_variant_ok c.
Definition nontrivial09 (c : caseRecv) : bool :=
  match rc_ty c with TEnumR _ _ _ => true | _ => false end.

(** ** C17 on the implementation's errors, at every depth: each unknown-field leaf is resolved
    to the position its location path designates in the receiver's declaration; the names valid
    at that position are the addressable fields of that level together with those of its flatten
    members (innermost first - the order in which the parsers consult them) or the non-skipped
    variants of an enum.  The leaf must name something NOT valid there, and its message must be
    exactly the one the argmax specification (Spec/C17.v) gives for those candidates - so the
    suggestion is a valid name of that very position, the best match, above the threshold, and
    never a name of an enclosing receiver for something rejected deeper. *)
From DarlingModel Require Import Spec.C17.

Inductive position : Type := PTy (t : ty) | PFields (fs : list (finfo * ty)).

Fixpoint valid_names (t : ty) : list string :=
  match t with
  | TStructR _ fs =>
      ((fix flat (l : list (finfo * ty)) : list string :=
          match l with
          | [] => []
          | (f, ft) :: r => ((if fi_flatten f then valid_names ft else []) ++ flat r)%list
          end) fs
       ++ map fi_name (filter addressable (map fst fs)))%list
  | TEnumR _ _ vs => variant_names vs
  | TOpt t' | TBox t' | TRes t' | TNewtypeR _ t' => valid_names t'
  | _ => []
  end.

Definition fields_names (fs : list (finfo * ty)) : list string :=
  map fi_name (filter addressable (map fst fs)).

Definition pos_names (p : position) : list string :=
  match p with PTy t => valid_names t | PFields fs => fields_names fs end.

Definition own_field (fs : list (finfo * ty)) (seg : string) : option ty :=
  option_map snd (find (fun ft => addressable (fst ft) && str_eqb (fi_name (fst ft)) seg) fs).

Fixpoint descend (t : ty) (seg : string) : option position :=
  match t with
  | TStructR _ fs =>
      match own_field fs seg with
      | Some ft => Some (PTy ft)
      | None =>
          (fix flat (l : list (finfo * ty)) : option position :=
             match l with
             | [] => None
             | (f, ft) :: r =>
                 match (if fi_flatten f then descend ft seg else None) with
                 | Some p => Some p
                 | None => flat r
                 end
             end) fs
      end
  | TEnumR _ _ vs =>
      match find (fun v : vinfo * list (finfo * ty) => negb (vi_skip (fst v)) && str_eqb (vi_name (fst v)) seg) vs with
      | Some (vi, fs) =>
          match vi_style vi, fs with
          | VsNewtype, (_, ft) :: _ => Some (PTy ft)
          | _, _ =>
              (* a struct variant is a struct level of its own: own fields, and the names of its flatten members *)
              Some (PTy (TStructR (mkCI (vi_ident vi) None None (vi_auk vi) None None) fs))
          end
      | None => None
      end
  | TOpt t' | TBox t' | TRes t' | TNewtypeR _ t' => descend t' seg
  | _ => None
  end.

Definition descend_pos (p : position) (seg : string) : option position :=
  match p with
  | PTy t => descend t seg
  | PFields fs => option_map PTy (own_field fs seg)
  end.


Fixpoint resolve (p : position) (path : list string) : option position :=
  match path with
  | [] => Some p
  | seg :: r => match descend_pos p (before_bracket seg) with Some q => resolve q r | None => None end
  end.

(** the name between the first pair of backticks of "Unknown field: `name`..." *)
Fixpoint until_tick (s : string) : string :=
  match s with
  | EmptyString => EmptyString
  | String c r => if Ascii.eqb c "`"%char then EmptyString else String c (until_tick r)
  end.
Definition unknown_prefix : string := "Unknown field: `".
Definition unknown_name (body : string) : string :=
  until_tick (substring (String.length unknown_prefix) (String.length body) body).

Definition leaf_ok17 (c : caseRecv) (l : string * option string * option span) : bool :=
  let '(body, locs, _) := l in
  if String.prefix unknown_prefix body then
    let path := match locs with None => [] | Some j => split_slash j end in
    match resolve (PTy (rc_ty c)) path with
    | None => true                          (* a position the declaration does not describe (map values, user functions) *)
    | Some p =>
        let cands := pos_names p in
        let u := unknown_name body in
        negb (existsb (str_eqb u) cands)
        && str_eqb body (unknown_msg u (if rc_sugg c then best_match (sim_of (rc_sim c)) u cands else None))
    end
  else
    (* a suggestion is attached only to unknown-field errors *)
    true.

Definition holds17 (c : caseRecv) : bool :=
  match rc_entry c, rc_obs c with
  | EMeta, CErr o => forallb (leaf_ok17 c) (obs_leaves None None o)
  | _, _ => true
  end.
Definition nontrivial17 (c : caseRecv) : bool :=
  match rc_entry c, rc_obs c with
  | EMeta, CErr o =>
      existsb (fun l : string * option string * option span =>
                 String.prefix unknown_prefix (fst (fst l))
                 && match resolve (PTy (rc_ty c)) (match snd (fst l) with None => [] | Some j => split_slash j end) with
                    | Some _ => true | None => false end)
              (obs_leaves None None o)
  | _, _ => false
  end.

(** ** C03 for the built-in scalar targets: every leaf of a rejection is spanned inside the
    offending item, and inside the value itself when the item has one. *)
Definition holds03conv (c : caseConv) : bool :=
  match k_target c, k_entry c with
  | TAtomicBool, ENested => true
  | _, ENone => true
  | _, _ =>
      match k_obs c with
      | CErr o => leaf_spans_inside (blame_span (k_input c)) o
      | _ => true
      end
  end.
Definition nontrivial03conv (c : caseConv) : bool := match k_obs c with CErr _ => true | _ => false end.
Definition run_conv_counted (holds nontrivial : caseConv -> bool) (cs : list caseConv) : string :=
  (run_conv holds cs ++ "#" ++ N_to_string (N.of_nat (List.length (filter nontrivial cs))))%string.
