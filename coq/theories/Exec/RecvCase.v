(** Exec/RecvCase.v — correspondence cases for derived receivers (C01-C03, C07, C09, C17). *)
From DarlingModel Require Import Run.Recv Exec.ErrObs Exec.ConvCase.
Local Open Scope string_scope.

(** The fixed library of user callables (harness/vh-rt/src/corpus.rs has the Rust spellings). *)
Definition interp_with_lib (f : fnid) (item : nested) : res value :=
  if str_eqb f "w_len" then
    map_ok (fun v => match v with VStr s => VInt (Z.of_nat (String.length s)) | _ => VUnit end)
           (from_meta string_fm item)
  else if str_eqb f "w_fail" then Err (custom "w_fail")
  else Panic ("model: unknown with-function " ++ f).

Definition interp_fn_lib (consts : list (string * value)) (f : fnid) (v : value) : res value :=
  if str_eqb f "m_bang" then match v with VStr s => Ok (VStr (s ++ "!")) | _ => Panic "model: m_bang" end
  else if str_eqb f "m_not" then match v with VBool b => Ok (VBool (negb b)) | _ => Panic "model: m_not" end
  else if str_eqb f "a_nonempty" then
    match v with VStr s => if str_eqb s "" then Err (custom "empty") else Ok (VStr s) | _ => Panic "model: a_nonempty" end
  else if str_eqb f "d_seven" then Ok (VInt 7)
  else if str_eqb f "d_hello" then Ok (VStr "hello")
  else if (str_eqb f "cm_id" || str_eqb f "ca_ok")%bool then Ok v
  else if str_eqb f "ca_fail" then Err (custom "ca_fail")
  else match find (fun kv => str_eqb (fst kv) f) consts with
       | Some kv => Ok (snd kv)
       | None => Panic ("model: unknown function " ++ f)
       end.

Record caseRecv : Type := {
  rc_ty : ty;
  rc_consts : list (string * value);
  rc_pf : list (string * option N * option N);
  rc_or : oracles;
  rc_sugg : bool;
  rc_sim : list (string * string * N);
  rc_entry : entry;
  rc_input : nested;
  rc_obs : conv_obs;
}.

Definition recv_fm (c : caseRecv) : fm :=
  impl_of (pf_of (rc_pf c)) (reparse_of (rc_or c)) (reparse_arr_of (rc_or c)) (reparse_preds_of (rc_or c))
          (rc_sugg c) (sim_of (rc_sim c)) interp_with_lib (interp_fn_lib (rc_consts c)) (rc_ty c).

Definition model_recv (c : caseRecv) : conv_obs :=
  match rc_entry c with
  | EMeta => conv_obs_of (from_meta (recv_fm c) (rc_input c))
  | ENested => conv_obs_of (from_nested (recv_fm c) (rc_input c))
  | ENone => CNone (from_none (recv_fm c))
  end.

Definition agree_recv (c : caseRecv) : bool := conv_obs_eqb (model_recv c) (rc_obs c).

Definition run_recv (holds : caseRecv -> bool) (cs : list caseRecv) : string :=
  report (map (fun ic : N * caseRecv => (fst ic, agree_recv (snd ic), holds (snd ic)))
              (combine (map N.of_nat (seq 0 (List.length cs))) cs)).

(** C07 on the observation: a value or an error, never a panic *)
Definition holds07 (c : caseRecv) : bool :=
  match rc_obs c with CPanic _ => false | _ => true end.

(** ** C01 / C02 / C09 on the implementation's output, against the per-field specification *)
From DarlingModel Require Import Spec.C01.

Definition expected_of (c : caseRecv) : option value :=
  expected (pf_of (rc_pf c)) (reparse_of (rc_or c)) (reparse_arr_of (rc_or c)) (reparse_preds_of (rc_or c))
           interp_with_lib (interp_fn_lib (rc_consts c)) (rc_ty c) (rc_input c).

(** C01: a mistake-free input (one the specification gives a value) parses to exactly that value *)
Definition holds01 (c : caseRecv) : bool :=
  match rc_entry c, expected_of c with
  | EMeta, Some v => match rc_obs c with COk v' => value_eqb v v' | _ => false end
  | _, _ => true
  end.
Definition nontrivial01 (c : caseRecv) : bool :=
  match rc_entry c, expected_of c with EMeta, Some _ => true | _, _ => false end.

Definition mistakes_of (c : caseRecv) : N :=
  mistakes (pf_of (rc_pf c)) (reparse_of (rc_or c)) (reparse_arr_of (rc_or c)) (reparse_preds_of (rc_or c))
           interp_with_lib (interp_fn_lib (rc_consts c)) (rc_ty c) (rc_input c).

(** C02: parsing fails exactly when the specification finds a mistake, and then the error has
    exactly one leaf per mistake *)
Definition holds02 (c : caseRecv) : bool :=
  match rc_entry c with
  | EMeta =>
      match expected_of c, rc_obs c with
      | Some v, COk v' => value_eqb v v' && N.eqb (mistakes_of c) 0
      | None, CErr (Obs n _ _ _ _ _) => N.ltb 0 (mistakes_of c) && N.eqb n (mistakes_of c)
      | _, _ => false
      end
  | _ => true
  end.
Definition nontrivial02 (c : caseRecv) : bool :=
  match rc_entry c, expected_of c with EMeta, None => true | _, _ => false end.

Definition run_recv_counted (holds nontrivial : caseRecv -> bool) (cs : list caseRecv) : string :=
  (run_recv holds cs ++ "#" ++ N_to_string (N.of_nat (List.length (filter nontrivial cs))))%string.

