(** Exec/ElemCase.v — correspondence cases for element-level receivers (C08, C16 and the
    element-level entry points of C01 / C02 / C07): the model of Run/Outer.v evaluated on what
    syn parsed, against what the real derived code returned; and the executable readings of C08 /
    C16 evaluated on the implementation's own outputs. *)
From DarlingModel Require Import Run.Recv Run.Outer Exec.ErrObs Exec.ConvCase Exec.RecvCase.
Local Open Scope string_scope.

(** The fixed library of user functions for `attrs(with = ..)` / `data(with = ..)`
    (harness/vh-rt/src/ecorpus.rs has the Rust spellings). *)
Definition interp_attrs_lib (f : fnid) (attrs : list attribute) : res value :=
  let n := Z.of_nat (List.length attrs) in
  if str_eqb f "fa_len" then Ok (VInt n)
  else if str_eqb f "fa_max1" then (if Z.ltb 1 n then Err (custom "too many attrs") else Ok (VInt n))
  else Panic ("model: unknown attrs function " ++ f).

Definition body_kind (b : dbody) : string :=
  match b with DStruct _ _ => "struct" | DEnum _ => "enum" | DUnion => "union" end.

Definition interp_data_lib (f : fnid) (b : dbody) : res value :=
  if str_eqb f "dw_kind" then Ok (VStr (body_kind b))
  else if str_eqb f "dw_no_enum" then
    match b with DEnum _ => Err (custom "no enums") | _ => Ok (VStr (body_kind b)) end
  else Panic ("model: unknown data function " ++ f).

Inductive erecv : Type :=
| ERField (fc : fconv)
| ERVariant (vc : vconv)
| ERTypeParam (tc : tpconv)
| ERDerive (r : direcv)
| ERAttrs (b : obase).

Inductive einput : Type :=
| EIField (fe : felem)
| EIVariant (ve : velem)
| EITypeParam (p : gparam)
| EIDerive (d : dinput)
| EIAttrs (attrs : list attribute).

Record caseElem : Type := {
  ce_recv : erecv;
  ce_consts : list (string * value);
  ce_pf : list (string * option N * option N);
  ce_or : oracles;
  ce_sugg : bool;
  ce_sim : list (string * string * N);
  ce_input : einput;
  ce_obs : conv_obs;
  ce_twin : option conv_obs;          (* the same receiver on the canonical re-partition of the same items *)
  ce_reprint : option string;         (* Fields<syn::Field>::try_from(..).to_token_stream() *)
  ce_fields_toks : option string;     (* the original fields' tokens *)
  ce_sub : option (list conv_obs);    (* the body's element converter run on every field / variant on its own *)
}.

Definition model_elem (c : caseElem) : conv_obs :=
  let pf := pf_of (ce_pf c) in
  let rp := reparse_of (ce_or c) in
  let ra := reparse_arr_of (ce_or c) in
  let rq := reparse_preds_of (ce_or c) in
  let sg := ce_sugg c in
  let sm := sim_of (ce_sim c) in
  let fn := interp_fn_lib (ce_consts c) in
  match ce_recv c, ce_input c with
  | ERField fc, EIField fe => conv_obs_of (from_field pf rp ra rq sg sm interp_with_lib fn interp_attrs_lib fc fe)
  | ERVariant vc, EIVariant ve => conv_obs_of (from_variant pf rp ra rq sg sm interp_with_lib fn interp_attrs_lib vc ve)
  | ERTypeParam tc, EITypeParam (GpType i attrs ident bounds default) =>
      conv_obs_of (from_type_param pf rp ra rq sg sm interp_with_lib fn interp_attrs_lib tc i attrs ident bounds default)
  | ERDerive r, EIDerive d =>
      conv_obs_of (from_derive_input pf rp ra rq sg sm interp_with_lib fn interp_attrs_lib interp_data_lib r d)
  | ERAttrs b, EIAttrs attrs => conv_obs_of (from_attributes pf rp ra rq sg sm interp_with_lib fn interp_attrs_lib b attrs)
  | ERAttrs b, EIDerive d => conv_obs_of (from_attributes pf rp ra rq sg sm interp_with_lib fn interp_attrs_lib b (din_attrs d))
  | _, _ => CPanic "model: receiver / input kind mismatch"
  end.

Definition agree_elem (c : caseElem) : bool := conv_obs_eqb (model_elem c) (ce_obs c).

Definition run_elem_counted (holds nontrivial : caseElem -> bool) (cs : list caseElem) : string :=
  (report (map (fun ic : N * caseElem => (fst ic, agree_elem (snd ic), holds (snd ic)))
               (combine (map N.of_nat (seq 0 (List.length cs))) cs))
   ++ "#" ++ N_to_string (N.of_nat (List.length (filter nontrivial cs))))%string.

(** ** C07 *)
Definition holds07e (c : caseElem) : bool := match ce_obs c with CPanic _ => false | _ => true end.

(** ** the parts of the case every reading below needs *)
Definition case_base (c : caseElem) : option obase :=
  match ce_recv c with
  | ERField (FcRecv b _) | ERVariant (VcRecv b _ _ _) | ERTypeParam (TpRecv b _) | ERAttrs b => Some b
  | ERDerive r => Some (dr_b r)
  | _ => None
  end.

Definition case_attrs (c : caseElem) : list attribute :=
  match ce_input c with
  | EIField fe => fe_attrs fe
  | EIVariant ve => ve_attrs ve
  | EITypeParam (GpType _ attrs _ _ _) => attrs
  | EITypeParam _ => []
  | EIDerive d => din_attrs d
  | EIAttrs attrs => attrs
  end.

Definition field_of (v : value) (name : string) : option value :=
  match v with
  | VStruct kvs => option_map snd (find (fun kv => str_eqb (fst kv) name) kvs)
  | _ => None
  end.

(** values and errors compared without spans (two partitions of the same items sit at different
    places in the source) *)
Fixpoint erase_obs_spans (o : obs) : obs :=
  match o with
  | Obs n d b l _ kids => Obs n d b l None (map erase_obs_spans kids)
  end.

Fixpoint erase_spans (v : value) : value :=
  let ekvs := fun l : list (string * value) => map (fun kv => (fst kv, erase_spans (snd kv))) l in
  match v with
  | VSome x => VSome (erase_spans x)
  | VPtr x => VPtr (erase_spans x)
  | VResOk x => VResOk (erase_spans x)
  | VResErr e => VResErrObs (erase_obs_spans (obs_of e))
  | VResErrObs o => VResErrObs (erase_obs_spans o)
  | VMetaOk x => VMetaOk (erase_spans x)
  | VExplicit x => VExplicit (erase_spans x)
  | VSpanned x _ => VSpanned (erase_spans x) (0, 0, 0, 0)%N
  | VWithOrig x s => VWithOrig (erase_spans x) s
  | VFlag (Some _) => VFlag (Some (0, 0, 0, 0)%N)
  | VList xs => VList (map erase_spans xs)
  | VMap kvs => VMap (ekvs kvs)
  | VStruct kvs => VStruct (ekvs kvs)
  | VVariant n kvs => VVariant n (ekvs kvs)
  | _ => v
  end.

Definition conv_obs_eqb_nospan (a b : conv_obs) : bool :=
  match a, b with
  | COk x, COk y => value_eqb (erase_spans x) (erase_spans y)
  | CErr x, CErr y => obs_eqb false x y
  | CPanic x, CPanic y => str_eqb x y
  | CNone x, CNone y => option_eqb value_eqb x y
  | _, _ => false
  end.

(** ** C08, read from the property text:
    (1) the outcome equals the outcome on the canonical re-partition of the same selected items
        (one attribute holding all of them, nothing else but the forwarded attributes), value for
        value and error for error (spans aside);
    (2) the `attrs` member holds exactly the attributes that are not consumed and that
        forward_attrs selects, unmodified, in source order. *)
Definition consumed (b : obase) (a : attribute) : bool := existsb (str_eqb (attr_name a)) (ob_names b).
Definition forwarded_spec (b : obase) (attrs : list attribute) : list value :=
  map attr_toks
      (filter (fun a => negb (consumed b a)
                        && match ob_fwd b with
                           | Some None => true
                           | Some (Some l) => existsb (str_eqb (attr_name a)) l
                           | None => false
                           end) attrs).

Definition holds08 (c : caseElem) : bool :=
  match case_base c with
  | None => true
  | Some b =>
      (match ce_twin c with Some t => conv_obs_eqb_nospan (ce_obs c) t | None => true end)
      && match ce_obs c, ob_attrs b with
         | COk v, Some None =>
             (* without a post-transform the value is the struct itself *)
             match ci_post (ob_c b), field_of v "attrs" with
             | None, Some (VList got) => list_eqb value_eqb got (forwarded_spec b (case_attrs c))
             | None, _ => false
             | Some _, _ => true
             end
         | COk v, Some (Some f) =>
             match ci_post (ob_c b), field_of v "attrs" with
             | None, Some (VInt n) => Z.eqb n (Z.of_nat (List.length (forwarded_spec b (case_attrs c))))
             | None, _ => false
             | Some _, _ => true
             end
         | _, _ => true
         end
  end.
Definition nontrivial08 (c : caseElem) : bool :=
  match case_base c with
  | Some b => negb (match filter (consumed b) (case_attrs c) with [] => true | _ => false end)
              || negb (match forwarded_spec b (case_attrs c) with [] => true | _ => false end)
  | None => false
  end.

(** ** C16, read from the property text, on the implementation's Ok value:
    every pass-through magic member equals the corresponding part of the input element; the
    `data` / `fields` member has the input body's kind and style and one entry per input field /
    variant; a union is an error; the re-printed field list reproduces the original. *)
Fixpoint strip_trailing_comma (s : string) : string :=
  (* "{ a : u8 , }" -> "{ a : u8 }"; "(u8 ,)": drop a ", " that directly precedes a closing delimiter *)
  match s with
  | EmptyString => EmptyString
  | String c r =>
      match r with
      | String sp r' =>
          if (Ascii.eqb c ","%char && Ascii.eqb sp " "%char
              && match r' with
                 | String d _ => Ascii.eqb d "}"%char || Ascii.eqb d ")"%char
                 | EmptyString => false
                 end)%bool
          then strip_trailing_comma r'
          else String c (strip_trailing_comma r)
      | EmptyString => String c EmptyString
      end
  end.

Definition pass_expected (c : caseElem) (m : string) : option value :=
  match ce_input c with
  | EIField fe =>
      if str_eqb m "ident" then Some (opt_toks (fe_ident fe))
      else if str_eqb m "vis" then Some (VToks (fe_vis fe))
      else if str_eqb m "ty" then Some (VToks (fe_ty fe)) else None
  | EIVariant ve =>
      if str_eqb m "ident" then Some (VToks (ve_ident ve))
      else if str_eqb m "discriminant" then Some (opt_toks (ve_discr ve)) else None
  | EITypeParam (GpType _ _ ident bounds default) =>
      if str_eqb m "ident" then Some (VToks ident)
      else if str_eqb m "bounds" then Some (VList (map VToks bounds))
      else if str_eqb m "default" then Some (opt_toks default) else None
  | EIDerive d =>
      if str_eqb m "ident" then Some (VToks (din_ident d))
      else if str_eqb m "vis" then Some (VToks (din_vis d)) else None
  | _ => None
  end.

Definition case_pass (c : caseElem) : list string :=
  match ce_recv c with
  | ERField (FcRecv _ p) | ERVariant (VcRecv _ p _ _) | ERTypeParam (TpRecv _ p) => p
  | ERDerive r => dr_pass r
  | _ => []
  end.

Definition style_count_ok (v : value) (style : fstyle) (n : nat) : bool :=
  match field_of v "style", field_of v "fields" with
  | Some (VStr s), Some (VList l) => str_eqb s (style_name style) && Nat.eqb (List.length l) n
  | _, _ => false
  end.

Definition body_ok (c : caseElem) (v : value) : bool :=
  match ce_recv c, ce_input c with
  | ERDerive r, EIDerive d =>
      match dr_data r with
      | Some (DcData _ _) =>
          match field_of v "data", din_body d with
          | Some (VVariant "Struct" [(_, fv)]), DStruct style fs => style_count_ok fv style (List.length fs)
          | Some (VVariant "Enum" [(_, VList l)]), DEnum vs => Nat.eqb (List.length l) (List.length vs)
          | _, _ => false                         (* in particular: a union never yields a value *)
          end
      | _ => true
      end
  | ERVariant (VcRecv _ _ (Some _) _), EIVariant ve =>
      match field_of v "fields" with
      | Some fv => style_count_ok fv (ve_style ve) (List.length (ve_fields ve))
      | None => false
      end
  | _, _ => true
  end.

Definition generics_ok (c : caseElem) (v : value) : bool :=
  match ce_recv c, ce_input c with
  | ERDerive r, EIDerive d =>
      match dr_generics r with
      | Some GcSyn => option_eqb value_eqb (field_of v "generics") (Some (generics_toks (din_generics d)))
      | Some (GcMirror _) =>
          match field_of v "generics" with
          | Some g =>
              match field_of g "params", field_of g "where_clause" with
              | Some (VList ps), Some w =>
                  Nat.eqb (List.length ps) (List.length (g_params (din_generics d)))
                  && value_eqb w (opt_toks (g_where (din_generics d)))
              | _, _ => false
              end
          | None => false
          end
      | _ => true
      end
  | _, _ => true
  end.

Definition reprint_ok (c : caseElem) : bool :=
  match ce_reprint c, ce_fields_toks c with
  | Some r, Some o => str_eqb (strip_trailing_comma r) (strip_trailing_comma o)
  | _, _ => true
  end.

Definition has_post (c : caseElem) : bool :=
  match case_base c with Some b => match ci_post (ob_c b) with Some _ => true | None => false end | None => false end.

(** Is the receiver's own attribute layer free of errors (so that the body is converted at all)?
    The one place where the reading of C16 consults the model: it decides WHICH inputs the
    body-conversion clauses apply to, not what they demand. *)
Definition attr_layer_clean (c : caseElem) : bool :=
  let pf := pf_of (ce_pf c) in
  let rp := reparse_of (ce_or c) in
  let ra := reparse_arr_of (ce_or c) in
  let rq := reparse_preds_of (ce_or c) in
  let fn := interp_fn_lib (ce_consts c) in
  let clean (b : obase) (attrs : list attribute) (shape_err : option err) :=
    match outer_state pf rp ra rq (ce_sugg c) (sim_of (ce_sim c)) interp_with_lib fn b
                      (extract pf rp ra rq (ce_sugg c) (sim_of (ce_sim c)) interp_with_lib fn interp_attrs_lib b attrs) shape_err with
    | Ok (st, _) => match ps_errs st with [] => true | _ => false end
    | _ => false
    end in
  match ce_recv c, ce_input c with
  | ERDerive r, EIDerive d =>
      clean (dr_b r) (din_attrs d)
            (match dr_supports r with
             | Some sset => match validate_body sset (body_shape (din_body d)) with Err e => Some e | _ => None end
             | None => None
             end)
      && match dr_generics r with Some (GcMirror _) | Some (GcWithOrig (GcMirror _)) => false | _ => true end
  | ERVariant (VcRecv b _ _ sup), EIVariant ve =>
      clean b (ve_attrs ve)
            (match sup with
             | Some ds => match ss_check (ds_to_set ds) (shape_of (ve_style ve) (List.length (ve_fields ve))) with Err e => Some e | _ => None end
             | None => None
             end)
  | _, _ => false
  end.

(** names under which the failures of the body's elements are located (named fields, and variants) *)
Definition sub_names (c : caseElem) : list (option string) :=
  match ce_input c with
  | EIDerive d =>
      match din_body d with
      | DStruct StNamed fs => map fe_ident fs
      | DStruct _ fs => map (fun _ => None) fs
      | DEnum vs => map (fun ve => Some (ve_ident ve)) vs
      | DUnion => []
      end
  | EIVariant ve =>
      match ve_style ve with StNamed => map fe_ident (ve_fields ve) | _ => map (fun _ => None) (ve_fields ve) end
  | _ => []
  end.

Definition sub_err_leaves (subs : list conv_obs) (names : list (option string))
  : list (string * option string) :=
  flat_map (fun sn : conv_obs * option string =>
              match fst sn with
              | CErr o => map (fun l : string * option string * option span =>
                                 (fst (fst l), join_locs (snd sn) (snd (fst l)))) (obs_leaves None None o)
              | _ => []
              end) (combine subs names).

Definition leaf2_eqb (a b : string * option string) : bool :=
  str_eqb (fst a) (fst b) && option_eqb str_eqb (snd a) (snd b).

(** "Body conversion fails exactly when some field or variant fails (all such failures are
    reported, named fields located by their name) or the element is a union": evaluated on the
    implementation's own per-element outcomes. *)
Definition body_failures_ok (c : caseElem) : bool :=
  match ce_sub c with
  | None => true
  | Some subs =>
      if negb (attr_layer_clean c) then true
      else if existsb (fun s => match s with CPanic _ => true | _ => false end) subs then true
      else
        let want := sub_err_leaves subs (sub_names c) in
        match want, ce_obs c with
        | [], COk _ => true
        | [], CErr _ => false                      (* no element failed, yet the body conversion did *)
        | _ :: _, CErr o =>
            let got := map (fun l : string * option string * option span => (fst (fst l), snd (fst l))) (obs_leaves None None o) in
            list_eqb leaf2_eqb got want            (* all failures, in order, nothing else *)
        | _ :: _, COk _ => has_post c              (* an element failed but the conversion succeeded *)
        | _, _ => true
        end
  end.

Definition union_is_error (c : caseElem) : bool :=
  match ce_recv c, ce_input c with
  | ERDerive r, EIDerive d =>
      match dr_data r, din_body d, ce_obs c with
      | Some (DcData _ _), DUnion, COk _ => false
      | _, _, _ => true
      end
  | _, _ => true
  end.

Definition holds16 (c : caseElem) : bool :=
  reprint_ok c && union_is_error c && body_failures_ok c
  && match ce_obs c with
     | COk v =>
         if has_post c then true
         else forallb (fun m => match pass_expected c m with
                                | Some e => option_eqb value_eqb (field_of v m) (Some e)
                                | None => true
                                end) (case_pass c)
              && body_ok c v && generics_ok c v
     | _ => true
     end.
Definition nontrivial16 (c : caseElem) : bool :=
  match ce_obs c with
  | COk _ => negb (match case_pass c with [] => true | _ => false end)
             || match ce_recv c with
                | ERDerive r => match dr_data r, dr_generics r with None, None => false | _, _ => true end
                | ERVariant (VcRecv _ _ (Some _) _) => true
                | _ => false
                end
  | _ => false
  end.
