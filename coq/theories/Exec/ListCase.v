(** Exec/ListCase.v — correspondence cases for [NestedMeta::parse_meta_list] (C15 A). *)
From DarlingModel Require Import Base.Prelude Conv.ListParse.

(** What the implementation returned: per item (is literal, start, length in token trees). *)
Record caseList : Type := {
  l_tbl : list row;
  l_obs : option (list (bool * N * N));
  l_reparse_same : bool;      (* printing the items comma-separated and parsing again gave the same items *)
}.

Definition pitem_view (it : pitem) : bool * N * N :=
  match it with PItem b s n => (b, N.of_nat s, N.of_nat n) end.

Definition view_eqb (a b : bool * N * N) : bool :=
  Bool.eqb (fst (fst a)) (fst (fst b)) && N.eqb (snd (fst a)) (snd (fst b)) && N.eqb (snd a) (snd b).

Definition agree_list (c : caseList) : bool :=
  option_eqb (list_eqb view_eqb) (option_map (map pitem_view) (parse_meta_list (l_tbl c))) (l_obs c).

(** The specification, decided directly on the table (no fuel, no loop state): walk the
    claimed items and check each is an item followed by a comma or the end. *)
Fixpoint seq_check (tbl : list row) (p : nat) (items : list (bool * N * N)) : bool :=
  match items with
  | [] => match nth_error tbl p with None => true | Some _ => false end
  | (b, s, n) :: rest =>
      match item_at tbl p with
      | Some (PItem b' s' n') =>
          Bool.eqb b b' && N.eqb s (N.of_nat s') && N.eqb n (N.of_nat n')
          && match nth_error tbl (p + n') with
             | None => match rest with [] => true | _ => false end
             | Some r => is_comma r && seq_check tbl (S (p + n')) rest
             end
      | None => false
      end
  end.

(** rejection is right when no prefix-respecting sequence exists: decided by the model's loop *)
Definition holds_list (c : caseList) : bool :=
  match l_obs c with
  | Some items => seq_check (l_tbl c) 0 items && l_reparse_same c
  | None => match parse_meta_list (l_tbl c) with None => true | Some _ => false end
  end.

Definition run_list (cs : list caseList) : string :=
  report (map (fun ic : N * caseList => (fst ic, agree_list (snd ic), holds_list (snd ic)))
              (combine (map N.of_nat (seq 0 (List.length cs))) cs)).
