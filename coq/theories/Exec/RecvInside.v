(** Exec/RecvInside.v — the instance of Run/InsideProofs.v the correspondence check runs: with the
    fixed library of user callables (Exec/RecvCase.v; harness/vh-rt/src/corpus.rs) the theorem's
    assumptions about user code are facts, so for every case whose receiver mentions only plain
    library targets the model's errors point inside the input - for all inputs, not only the
    generated ones. *)
From DarlingModel Require Import Run.Recv Run.TotalProofs Run.InsideProofs Run.LeafTotal Run.LeafInside Exec.ErrObs Exec.ConvCase Exec.RecvCase.
Local Open Scope string_scope.
Local Open Scope list_scope.

Lemma unsp_custom s : unsp (custom s).
Proof. apply unsp_new. Qed.

Lemma lib_with_inside w it e :
  is_meta it = true -> wfp it -> interp_with_lib w it = Err e -> okw (in_span (i_span (ninfo it))) None e.
Proof.
  intros M W. unfold interp_with_lib. destruct (str_eqb w "w_len").
  - destruct (from_meta string_fm it) as [v|y|m] eqn:R; cbn [map_ok]; try discriminate. intros [= <-].
    apply oks_okw. now apply (proj1 string_inside).
  - destruct (str_eqb w "w_opt_len").
    + destruct (from_meta string_fm it) as [v|y|m] eqn:R; cbn [map_ok]; try discriminate. intros [= <-].
      apply oks_okw. now apply (proj1 string_inside).
    + destruct (str_eqb w "w_fail"); [|discriminate]. intros [= <-]. apply unsp_okw, unsp_custom.
Qed.

Lemma lib_fn_unsp consts g v e : interp_fn_lib consts g v = Err e -> unsp e.
Proof.
  unfold interp_fn_lib.
  repeat match goal with
         | |- (if ?b then _ else _) = _ -> _ => destruct b
         | |- match ?x with _ => _ end = _ -> _ => destruct x
         end; try discriminate; intros [= <-]; apply unsp_custom.
Qed.

Theorem checked_instance_inside (c : caseRecv) :
  leaves_ok (fun tg => plain tg = true) (rc_ty c) -> inside_fm (recv_fm c).
Proof.
  intros L. unfold recv_fm.
  apply (impl_inside _ _ _ _ _ _ _ _ (fun tg => plain tg = true)); auto.
  - intros tg P. now apply plain_inside.
  - apply lib_with_inside.
  - apply lib_fn_unsp.
Qed.
