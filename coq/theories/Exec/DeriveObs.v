(** Exec/DeriveObs.v — what a derive returned, as the harness sees it, and C06 as a predicate on
    that observation alone. *)
From DarlingModel Require Import Base.Prelude Err.ErrTree.
Local Open Scope string_scope.

Record derive_obs : Type := {
  d_panic : option string;
  d_impls : list string;              (* trait path of every emitted impl block *)
  d_other_items : N;                  (* emitted items that are not impl blocks *)
  d_diags : list diag;                (* compile_error! invocations: (span, message) *)
  d_unparsed : bool;                  (* the non-diagnostic tokens are not a sequence of items *)
}.

Definition want_trait (t : string) : string := ":: darling :: " ++ t.

(** exactly one implementation block of the requested trait, or one or more diagnostics built
    from the offending tokens; never both, never nothing, never a panic *)
Definition holds06 (trait : string) (o : derive_obs) : bool :=
  match d_panic o with
  | Some _ => false
  | None =>
      negb (d_unparsed o) && N.eqb (d_other_items o) 0
      && match d_impls o, d_diags o with
         | [t], [] => str_eqb t (want_trait trait)
         | [], _ :: _ => true
         | _, _ => false
         end
  end.
