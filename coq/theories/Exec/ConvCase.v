(** Exec/ConvCase.v — correspondence cases for library conversions (C11-C15): target, input item
    as syn parsed it, what the real [from_meta] / [from_nested_meta] / [from_none] returned. *)
From DarlingModel Require Import Conv.Targets Exec.ErrObs.
Local Open Scope string_scope.

(** ** Decidable equality on values (maps compared as sorted by key). *)
Fixpoint insert_kv {A} (k : string) (v : A) (l : list (string * A)) : list (string * A) :=
  match l with
  | [] => [(k, v)]
  | (k', v') :: r =>
      match String.compare k k' with
      | Gt => (k', v') :: insert_kv k v r
      | _ => (k, v) :: l
      end
  end.
Definition sort_kvs {A} (l : list (string * A)) : list (string * A) :=
  fold_right (fun kv acc => insert_kv (fst kv) (snd kv) acc) [] l.

Fixpoint value_eqb_raw (a b : value) : bool :=
  let kvs_eqb :=
    fix go (x y : list (string * value)) : bool :=
      match x, y with
      | [], [] => true
      | (k1, v1) :: x', (k2, v2) :: y' => str_eqb k1 k2 && value_eqb_raw v1 v2 && go x' y'
      | _, _ => false
      end in
  match a, b with
  | VUnit, VUnit | VNone, VNone | VInherit, VInherit => true
  | VBool x, VBool y => Bool.eqb x y
  | VInt x, VInt y => Z.eqb x y
  | VChar x, VChar y | VFloat x, VFloat y => N.eqb x y
  | VStr x, VStr y | VToks x, VToks y | VMetaErr x, VMetaErr y => str_eqb x y
  | VSome x, VSome y | VPtr x, VPtr y | VResOk x, VResOk y | VMetaOk x, VMetaOk y
  | VExplicit x, VExplicit y => value_eqb_raw x y
  | VResErrObs x, VResErrObs y => obs_eqb true x y
  | VSpanned x s, VSpanned y t => value_eqb_raw x y && span_eqb s t
  | VWithOrig x s, VWithOrig y t => value_eqb_raw x y && str_eqb s t
  | VFlag s, VFlag t => ospan_eqb s t
  | VList xs, VList ys =>
      (fix go (x y : list value) : bool :=
         match x, y with
         | [], [] => true
         | a' :: x', b' :: y' => value_eqb_raw a' b' && go x' y'
         | _, _ => false
         end) xs ys
  | VMap x, VMap y => kvs_eqb x y
  | VStruct x, VStruct y => kvs_eqb x y
  | VVariant n x, VVariant m y => str_eqb n m && kvs_eqb x y
  | _, _ => false
  end.

(** Maps are sorted by key before comparing (the harness reports them sorted). *)
Fixpoint norm_value (v : value) : value :=
  let nkvs := fun l : list (string * value) => map (fun kv => (fst kv, norm_value (snd kv))) l in
  match v with
  | VSome x => VSome (norm_value x)
  | VPtr x => VPtr (norm_value x)
  | VResOk x => VResOk (norm_value x)
  | VResErr e => VResErrObs (obs_of e)
  | VMetaOk x => VMetaOk (norm_value x)
  | VExplicit x => VExplicit (norm_value x)
  | VSpanned x s => VSpanned (norm_value x) s
  | VWithOrig x s => VWithOrig (norm_value x) s
  | VList xs => VList (map norm_value xs)
  | VMap kvs => VMap (sort_kvs (nkvs kvs))
  | VStruct kvs => VStruct (nkvs kvs)
  | VVariant n kvs => VVariant n (nkvs kvs)
  | _ => v
  end.

Definition value_eqb (a b : value) : bool := value_eqb_raw (norm_value a) (norm_value b).

(** What the harness observed.  A value holding a [darling::Result] error is observed as [obs];
    it is rendered by the driver as [OVResErr]. *)
Inductive conv_obs : Type :=
| COk (v : value)
| CErr (o : obs)
| CPanic (msg : string)
| CNone (v : option value).       (* from_none *)

Definition conv_obs_of (r : res value) : conv_obs :=
  match r with Ok v => COk v | Err e => CErr (obs_of e) | Panic m => CPanic m end.

Definition conv_obs_eqb (a b : conv_obs) : bool :=
  match a, b with
  | COk x, COk y => value_eqb x y
  | CErr x, CErr y => obs_eqb true x y
  | CPanic x, CPanic y => str_eqb x y
  | CNone x, CNone y => option_eqb value_eqb x y
  | _, _ => false
  end.

Inductive entry : Type := EMeta | ENested | ENone.

Record oracles : Type := {
  r_parse : list (grammar * string * option string);
  r_arr : list (string * option expr);
  r_preds : list (string * option (list string));
}.

Definition grammar_eqb (a b : grammar) : bool :=
  match a, b with
  | GExpr, GExpr | GPath, GPath | GIdent, GIdent | GExprArray, GExprArray | GExprPath, GExprPath
  | GExprRange, GExprRange => true
  | GSyn x, GSyn y | GPunct x, GPunct y => str_eqb x y
  | _, _ => false
  end.

Definition reparse_of (o : oracles) (g : grammar) (s : string) : option string :=
  match find (fun r => grammar_eqb (fst (fst r)) g && str_eqb (snd (fst r)) s) (r_parse o) with
  | Some r => snd r
  | None => None
  end.
Definition reparse_arr_of (o : oracles) (s : string) : option expr :=
  match find (fun r => str_eqb (fst r) s) (r_arr o) with Some r => snd r | None => None end.
Definition reparse_preds_of (o : oracles) (s : string) : option (list string) :=
  match find (fun r => str_eqb (fst r) s) (r_preds o) with Some r => snd r | None => None end.

Record caseConv : Type := {
  k_target : target;
  k_pf : list (string * option N * option N);      (* string, f32 bits, f64 bits *)
  k_or : oracles;
  k_entry : entry;
  k_input : nested;                                 (* ignored for ENone *)
  k_obs : conv_obs;
}.

Definition pf_of (tbl : list (string * option N * option N)) (is64 : bool) (s : string) : option N :=
  match find (fun r => str_eqb (fst (fst r)) s) tbl with
  | Some r => if is64 then snd r else snd (fst r)
  | None => None
  end.

Definition model_conv (c : caseConv) : conv_obs :=
  let F := fm_of (pf_of (k_pf c)) (reparse_of (k_or c)) (reparse_arr_of (k_or c))
                 (reparse_preds_of (k_or c)) (k_target c) in
  match k_entry c with
  | EMeta => conv_obs_of (from_meta F (k_input c))
  | ENested => conv_obs_of (from_nested F (k_input c))
  | ENone => CNone (from_none F)
  end.

Definition agree_conv (c : caseConv) : bool := conv_obs_eqb (model_conv c) (k_obs c).

(** ** C11 as an executable specification, written from the property text (mathematical
    reading of numerals, not the digit loop). *)

(** The literal an item supplies as its value, if any, with the literal's own range. *)
Definition value_lit (n : nested) : option (info * lit) :=
  match n with
  | NLit i l => Some (i, l)
  | NNameValue _ _ e => match strip_groups e with ELit i l => Some (i, l) | _ => None end
  | _ => None
  end.

Definition in_range_b (t : ity) (z : Z) : bool :=
  ((it_lo t <=? z) && (z <=? it_hi t) && negb (it_nonzero t && (z =? 0)))%Z%bool.

Definition spec11 (pf : bool -> string -> option N) (t : target) (n : nested) : option value :=
  match t with
  | TInt it =>
      match value_lit n with
      | Some (_, LInt d _) | Some (_, LStr d) =>
          match denote (it_signed it) d with
          | Some v => if in_range_b it v then Some (VInt v) else None
          | None => None
          end
      | _ => None
      end
  | TFloat is64 =>
      match value_lit n with
      (* an unquoted literal means its decimal value, whether it was written with a fraction or not *)
      | Some (_, LFloat d _) | Some (_, LStr d) | Some (_, LInt d _) => option_map VFloat (pf is64 d)
      | _ => None
      end
  | TBool | TAtomicBool =>
      match n with
      | NPath _ _ => Some (VBool true)
      | _ =>
          match value_lit n with
          | Some (_, LBool b) => Some (VBool b)
          | Some (_, LStr s) =>
              if str_eqb s "true" then Some (VBool true)
              else if str_eqb s "false" then Some (VBool false) else None
          | _ => None
          end
      end
  | TChar =>
      match value_lit n with
      | Some (_, LChar c) => Some (VChar c)
      | Some (_, LStr s) => match utf8_chars s with [c] => Some (VChar c) | _ => None end
      | _ => None
      end
  | TString | TPathBuf =>
      match value_lit n with Some (_, LStr s) => Some (VStr s) | _ => None end
  | TUnit => match n with NPath _ _ => Some VUnit | _ => None end
  | _ => None
  end.

(** Where a rejection must point: inside the item; inside the value when the item has one. *)
Definition blame_span (n : nested) : span :=
  match n with
  | NNameValue _ _ e => i_span (einfo e)
  | _ => i_span (ninfo n)
  end.

Definition leaf_spans_inside (sp : span) (o : obs) : bool :=
  forallb (fun l => match snd l with Some s => span_inside s sp | None => false end)
          (obs_leaves None None o).

Definition holds11 (c : caseConv) : bool :=
  match k_entry c with
  | ENone => match k_obs c with CNone None => true | _ => false end   (* scalars stay required *)
  | _ =>
      (* AtomicBool is not among C11's targets; it is only compared with bool for meta items *)
      match k_target c, k_entry c with TAtomicBool, ENested => true | _, _ =>
      match k_obs c, spec11 (pf_of (k_pf c)) (k_target c) (k_input c) with
      | COk v, Some v' => value_eqb v v'
      | CErr o, None => leaf_spans_inside (blame_span (k_input c)) o
      | _, _ => false
      end end
  end.

Definition run_conv (holds : caseConv -> bool) (cs : list caseConv) : string :=
  report (map (fun ic => (fst ic, agree_conv (snd ic), holds (snd ic)))
              (combine (map N.of_nat (seq 0 (List.length cs))) cs)).

(** ** C12 as a predicate on two observations of the implementation itself: the wrapped target
    and its inner target on the same item. *)
Inductive wrapper : Type :=
| WOption | WPtr | WResult | WResultMeta | WSpanned | WWithOriginal | WOverride.

Definition fill_root_span (s : span) (o : obs) : obs :=
  match o with
  | Obs n d b l None kids => Obs n d b l (Some s) kids
  | _ => o
  end.

Definition holds12 (w : wrapper) (entry : entry) (m : nested) (inner outer : conv_obs) : bool :=
  match entry with
  | ENone =>
      match w, inner, outer with
      | WOption, _, CNone (Some VNone) => true
      | WPtr, CNone x, CNone y => option_eqb value_eqb (option_map VPtr x) y
      | WResult, CNone x, CNone y => option_eqb value_eqb (option_map VResOk x) y
      | (WResultMeta | WSpanned | WWithOriginal | WOverride), _, CNone None => true
      | _, _, _ => false
      end
  | ENested => true      (* C12 quantifies over meta items; a bare literal in a list is not one *)
  | EMeta =>
      match w with
      | WOption =>
          match inner, outer with
          | COk v, COk v' => value_eqb (VSome v) v'
          | CErr o, CErr o' => obs_eqb true o o'
          | _, _ => false
          end
      | WPtr =>
          match inner, outer with
          | COk v, COk v' => value_eqb (VPtr v) v'
          | CErr o, CErr o' => obs_eqb true o o'
          | _, _ => false
          end
      | WResult =>
          match inner, outer with
          | COk v, COk v' => value_eqb (VResOk v) v'
          | CErr o, COk v' => value_eqb (VResErrObs o) v'
          | _, _ => false
          end
      | WResultMeta =>
          match inner, outer with
          | COk v, COk v' => value_eqb (VMetaOk v) v'
          | CErr _, COk v' => value_eqb (VMetaErr (i_toks (ninfo m))) v'
          | _, _ => false
          end
      | WSpanned =>
          match inner, outer with
          | COk v, COk v' =>
              value_eqb (VSpanned v (spanned_span m)) v'
          | CErr o, CErr o' => obs_eqb true (fill_root_span (i_span (ninfo m)) o) o'
          | _, _ => false
          end
      | WWithOriginal =>
          match inner, outer with
          | COk v, COk v' => value_eqb (VWithOrig v (i_toks (ninfo m))) v'
          | CErr o, CErr o' => obs_eqb true o o'
          | _, _ => false
          end
      | WOverride =>
          match m with
          | NPath _ _ => match outer with COk VInherit => true | _ => false end
          | _ =>
              match inner, outer with
              | COk v, COk v' => value_eqb (VExplicit v) v'
              | CErr o, CErr o' => obs_eqb true o o'
              | _, _ => false
              end
          end
      end
  end.

Record caseWrap : Type := {
  w_case : caseConv;
  w_wrapper : wrapper;
  w_inner : conv_obs;
}.

Definition run_wrap (cs : list caseWrap) : string :=
  report (map (fun ic => (fst ic, agree_conv (w_case (snd ic)),
                          holds12 (w_wrapper (snd ic)) (k_entry (w_case (snd ic))) (k_input (w_case (snd ic)))
                                  (w_inner (snd ic)) (k_obs (w_case (snd ic)))))
              (combine (map N.of_nat (seq 0 (List.length cs))) cs)).

(** ** C13 as an executable specification: what each syntax-typed target must return for an item,
    from the property text: the bare expression's own tokens, or the string's contents re-parsed
    by the target's grammar; everything else rejected with a spanned error. *)
Definition grammar_of (t : target) : option grammar :=
  match t with
  | TExpr | THelper true => Some GExpr
  | TPath => Some GPath
  | TIdent | TIdentString => Some GIdent
  | TExprType g _ => Some g
  | TSynParse g => Some g
  | TPunct n => Some (GPunct n)
  | _ => None
  end.

(** Does the target accept this (group-free) expression in bare form? *)
Definition accepts_bare (t : target) (e : expr) : bool :=
  match t, e with
  | (TExpr | THelper _), ELit _ (LStr _) => false
  | (TExpr | THelper _), _ => true
  | TPath, EPath _ _ => true
  | (TIdent | TIdentString), EPath _ p => match get_ident p with Some _ => true | None => false end
  | TExprType _ k, _ => str_eqb (expr_type_name e) k
  | TCallable, _ => str_eqb (expr_type_name e) "path" || str_eqb (expr_type_name e) "closure"
  | TLit want, ELit _ l => str_eqb want "" || str_eqb (lit_type_name l) want
  | _, _ => false
  end.

Definition bare_tokens (t : target) (e : expr) : string :=
  match t, e with
  | (TIdent | TIdentString), EPath _ p => match get_ident p with Some id => id | None => "" end
  | TPath, EPath _ p => i_toks (p_info p)
  | _, _ => i_toks (einfo e)
  end.

Definition spec13 (reparse : grammar -> string -> option string) (t : target) (m : nested) : option value :=
  match m with
  | NNameValue _ _ e0 =>
      (* the helper keeps groups; every FromMeta target sees through them *)
      let e := match t with THelper _ => e0 | _ => strip_groups e0 end in
      match t with THelper false => Some (VToks (i_toks (einfo e))) | _ =>
      if accepts_bare t e then Some (VToks (bare_tokens t e))
      else match e, grammar_of t with
           | ELit _ (LStr s), Some g =>
               match t with
               | THelper false => Some (VToks (i_toks (einfo e)))
               | _ => option_map VToks (reparse g s)
               end
           | _, _ => None
           end end
  | _ => None
  end.

Definition holds13 (c : caseConv) : bool :=
  match k_entry c with
  | EMeta =>
      match k_obs c, spec13 (reparse_of (k_or c)) (k_target c) (k_input c) with
      | COk v, Some v' => value_eqb v v'
      | CErr o, None => leaf_spans_inside (i_span (ninfo (k_input c))) o
      | _, _ => false
      end
  | _ => true
  end.

Definition run13 (cs : list (bool * caseConv)) : string :=
  report (map (fun ic : N * (bool * caseConv) =>
                 (fst ic, agree_conv (snd (snd ic)),
                  if fst (snd ic) then holds13 (snd (snd ic)) else true))
              (combine (map N.of_nat (seq 0 (List.length cs))) cs)).

(** ** C14 as a predicate on observations: the map's outcome against the element type's own
    outcome on every item (both from the implementation). *)
Definition leaf2 := (string * option string)%type.   (* body, joined location path *)

Definition leaf2_leb (a b : leaf2) : bool :=
  let key x := (fst x ++ "@" ++ match snd x with Some l => l | None => "" end)%string in
  match String.compare (key a) (key b) with Gt => false | _ => true end.

Fixpoint insert_leaf (x : leaf2) (l : list leaf2) : list leaf2 :=
  match l with
  | [] => [x]
  | y :: r => if leaf2_leb x y then x :: l else y :: insert_leaf x r
  end.
Definition sort_leaves (l : list leaf2) : list leaf2 := fold_right insert_leaf [] l.

Definition leaf2_eqb (a b : leaf2) : bool := str_eqb (fst a) (fst b) && option_eqb str_eqb (snd a) (snd b).

Definition obs_leaves2 (pre : option string) (o : obs) : list leaf2 :=
  map (fun l => (fst (fst l), snd (fst l))) (obs_leaves pre None o).

Definition key_str (K : keykind) (p : path) : option (string * string) :=
  match key_of K p with Ok kd => Some kd | _ => None end.

(** expected leaves and entries, item by item, from the observed element outcomes *)
Fixpoint expect14 (K : keykind) (seen : list string) (items : list nested) (inner : list conv_obs)
  : list leaf2 * list (string * value) :=
  match items, inner with
  | it :: r, io :: ir =>
      match meta_path it with
      | None =>
          let '(ls, es) := expect14 K seen r ir in
          (("Unexpected meta-item format `expression`", None) :: ls, es)
      | Some p =>
          let vleaves := match io with CErr o => obs_leaves2 (Some (path_to_string p)) o | _ => [] end in
          match key_str K p with
          | None =>
              let '(ls, es) := expect14 K seen r ir in
              ((("Key must be an identifier", None) :: vleaves) ++ ls, es)%list
          | Some (k, d) =>
              let '(ls, es) := expect14 K (k :: seen) r ir in
              let dup := if mem k seen then [(("Duplicate field `" ++ d ++ "`")%string, None)] else [] in
              let ent := match io with COk v => if mem k seen then [] else [(k, v)] | _ => [] end in
              ((dup ++ vleaves) ++ ls, ent ++ es)%list
          end
      end
  | _, _ => ([], [])
  end.

Record caseMap : Type := {
  m_case : caseConv;
  m_key : keykind;
  m_inner : list conv_obs;          (* the element type on each item (placeholder for literals) *)
  m_twin : option conv_obs;         (* the hash / ordered twin on the same list *)
}.

Definition holds14 (c : caseMap) : bool :=
  match k_input (m_case c) with
  | NList _ _ _ items =>
      (if Nat.eqb (List.length items) (List.length (m_inner c)) then true else false)
      && (let '(ls, es) := expect14 (m_key c) [] items (m_inner c) in
          match ls, k_obs (m_case c) with
          | [], COk (VMap kvs) =>
              value_eqb (VMap kvs) (VMap es) && Nat.eqb (List.length kvs) (List.length items)
          | _ :: _, CErr o =>
              list_eqb leaf2_eqb (sort_leaves (obs_leaves2 None o)) (sort_leaves ls)
          | _, _ => false
          end)
      && match m_twin c with Some t => conv_obs_eqb t (k_obs (m_case c)) | None => true end
  | _ => true
  end.

Definition run14 (cs : list caseMap) : string :=
  report (map (fun ic : N * caseMap => (fst ic, agree_conv (m_case (snd ic)), holds14 (snd ic)))
              (combine (map N.of_nat (seq 0 (List.length cs))) cs)).

(** ** C15 (B) on observations of a probe implementer: which hook answered is determined by the
    item's form and the set of overridden hooks; errors come back spanned, an already-spanned
    error unchanged. *)
Definition probe_span_eqb (s : option span) : bool := ospan_eqb s (Some probe_span).

(** The hook an item reaches, given which hooks exist: the first overridden one on the
    dispatch chain, or the default rejection ([None]). *)
Definition reached (F : fm) (n : nested) : option string :=
  let lit_chain (l : lit) :=
    match o_value F with
    | Some _ => Some "value"
    | None =>
        match l with
        | LBool _ => match o_bool F with Some _ => Some "bool" | None => None end
        | LStr _ => match o_string F with Some _ => Some "string" | None => None end
        | LChar _ => match o_char F with Some _ => Some "char" | None => None end
        | _ => None
        end
    end in
  match n with
  | NLit _ l => lit_chain l
  | NPath _ _ => match o_word F with Some _ => Some "word" | None => None end
  | NList _ _ _ _ => match o_list F with Some _ => Some "list" | None => None end
  | NBadList _ _ _ _ _ => None
  | NNameValue _ _ e =>
      match o_expr F with
      | Some _ => Some "expr"
      | None => match strip_groups e with ELit _ l => lit_chain l | _ => None end
      end
  end.

Definition starts_with (pre s : string) : bool := String.prefix pre s.

Definition holds15 (c : caseConv) : bool :=
  match k_target c, k_entry c with
  | TProbe F, (EMeta | ENested) =>
      let inside o := leaf_spans_inside (i_span (ninfo (k_input c))) o in
      match reached F (k_input c), k_obs c with
      | Some h, COk (VStr s) => starts_with (h ++ ":") s
      | Some h, CErr (Obs 1 _ body None sp []) =>
          (* the hook's own error: unspanned ones get a span inside the item, spanned ones keep theirs *)
          str_eqb body ("hook " ++ h)
          && (probe_span_eqb sp || inside (Obs 1 body body None sp []))
      | None, CErr o => inside o            (* default rejection, spanned inside the item *)
      | _, _ => false
      end
  | _, _ => true
  end.
