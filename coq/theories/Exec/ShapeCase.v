(** Exec/ShapeCase.v — correspondence cases for C18. *)
From DarlingModel Require Import Shape.Shape Exec.ErrObs.
Local Open Scope string_scope.

Inductive shape_obs : Type := SOk | SErr (o : obs) | SPanic (msg : string).

Definition shape_obs_of (r : res unit) : shape_obs :=
  match r with Ok _ => SOk | Err e => SErr (obs_of e) | Panic m => SPanic m end.

Definition shape_obs_eqb (a b : shape_obs) : bool :=
  match a, b with
  | SOk, SOk => true
  | SErr x, SErr y => obs_eqb false x y
  | SPanic x, SPanic y => str_eqb x y
  | _, _ => false
  end.

Inductive caseShape : Type :=
| CDerived (words : list word) (b : body) (o : shape_obs)         (* from_derive_input of a receiver with supports(words) *)
| CVariant (words : list shape_word) (s : shape) (o : shape_obs)  (* from_variant, supports(words) *)
| CApi (set : list shape) (s : shape) (contains : bool) (check : shape_obs) (display : string).

Definition ds_of_words (ws : list shape_word) : data_shape := fold_left (fun d w => ds_set w d) ws ds_empty.

Definition agree18 (c : caseShape) : bool :=
  match c with
  | CDerived ws b o => shape_obs_eqb (shape_obs_of (validate_body (di_of_words ws) b)) o
  | CVariant ws s o => shape_obs_eqb (shape_obs_of (ss_check (ds_to_set (ds_of_words ws)) s)) o
  | CApi set s c k d =>
      Bool.eqb (ss_contains (ss_new set) s) c
      && shape_obs_eqb (shape_obs_of (ss_check (ss_new set) s)) k
      && str_eqb (ss_display (ss_new set)) d
  end.

(** The documented table evaluated on the implementation's verdict. *)
Definition verdict (o : shape_obs) : option bool :=
  match o with SOk => Some true | SErr _ => Some false | SPanic _ => None end.

Definition shape_in_list (s : shape) (l : list shape) : bool :=
  existsb (fun x => match x, s with
                    | Named, Named | Tuple, Tuple | Unit, Unit | Newtype, Newtype => true
                    | Tuple, Newtype => true           (* tuple admits newtype *)
                    | _, _ => false
                    end) l.

Definition holds18 (c : caseShape) : bool :=
  match c with
  | CDerived ws b o =>
      match verdict o with
      | Some v =>
          Bool.eqb v (documented_table (di_of_words ws) b)
          && match o, b with
             | SErr e, BEnum vs =>
                 (* with some enum word: one error per non-conforming variant *)
                 if some_word (di_enum (di_of_words ws)) && negb (di_any (di_of_words ws))
                 then match e with Obs n _ _ _ _ _ =>
                        N.eqb n (N.of_nat (List.length (filter (fun v => negb (in_set (di_enum (di_of_words ws)) v)) vs)))
                      end
                 else true
             | _, _ => true
             end
      | None => false                                  (* a crash is never right *)
      end
  | CVariant ws s o =>
      match verdict o with
      | Some v => Bool.eqb v (in_set (ds_of_words ws) s)
      | None => false
      end
  | CApi set s c k _ =>
      Bool.eqb c (shape_in_list s set)
      && match verdict k with Some v => Bool.eqb v c | None => false end
  end.

Definition run18 (cs : list caseShape) : string :=
  report (map (fun ic : N * caseShape => (fst ic, agree18 (snd ic), holds18 (snd ic)))
              (combine (map N.of_nat (seq 0 (List.length cs))) cs)).
