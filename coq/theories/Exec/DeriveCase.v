(** Exec/DeriveCase.v — correspondence cases for derive time (C06, C10). *)
From DarlingModel Require Import Options.Resolve Exec.DeriveObs Exec.ConvCase Exec.ErrObs.
Local Open Scope string_scope.

Record caseDerive : Type := {
  dc_trait : dtrait;
  dc_decl : rdecl;
  dc_or : oracles;
  dc_obs : derive_obs;
}.

Definition trait_name (t : dtrait) : string :=
  match t with
  | DFromMeta => "FromMeta" | DFromDeriveInput => "FromDeriveInput" | DFromField => "FromField"
  | DFromVariant => "FromVariant" | DFromTypeParam => "FromTypeParam" | DFromAttributes => "FromAttributes"
  end.

Definition model_derive (c : caseDerive) : outcome :=
  resolve (reparse_of (dc_or c)) (reparse_preds_of (dc_or c)) (dc_trait c) (dc_decl c).

(** the harness reports a diagnostic placed at the call site (what an explicit call-site span
    and no span both produce) as [None] *)
Definition norm_diag (d : diag) : diag :=
  match fst d with
  | Some (1, 0, 1, 0)%N | Some (0, 0, 0, 0)%N => (None, snd d)
  | _ => d
  end.

(** accept / reject, and on rejection the diagnostics: positions and messages, in order *)
Definition agree_derive (c : caseDerive) : bool :=
  match d_panic (dc_obs c) with
  | Some _ => false
  | None =>
      match model_derive c with
      | Accepted _ _ =>
          match d_impls (dc_obs c), d_diags (dc_obs c) with
          | [_], [] => true
          | _, _ => false
          end
      | Rejected errs =>
          match d_impls (dc_obs c) with
          | [] => list_eqb (diag_eqb true) (map norm_diag (diags_of errs)) (d_diags (dc_obs c))
          | _ => false
          end
      end
  end.

Definition run_derive (holds : caseDerive -> bool) (cs : list caseDerive) : string :=
  report (map (fun ic : N * caseDerive => (fst ic, agree_derive (snd ic), holds (snd ic)))
              (combine (map N.of_nat (seq 0 (List.length cs))) cs)).

Definition holds06c (c : caseDerive) : bool := holds06 (trait_name (dc_trait c)) (dc_obs c).

From DarlingModel Require Import Spec.C10 Options.ComposeProofs.

(** C10 on the implementation's verdict *)
Definition holds10 (c : caseDerive) : bool :=
  match d_panic (dc_obs c) with
  | Some _ => false
  | None =>
      let accepted := match d_impls (dc_obs c), d_diags (dc_obs c) with [_], [] => true | _, _ => false end in
      let rejected := match d_impls (dc_obs c), d_diags (dc_obs c) with [], _ :: _ => true | _, _ => false end in
      let wf := well_formed_10 (reparse_of (dc_or c)) (reparse_preds_of (dc_or c)) (dc_trait c) (dc_decl c) in
      (* [decl_shapedb]: the declaration meets the hypothesis of the composition theorem
         (Options/ComposeProofs.v [resolve_is_the_reading]: the model accepts iff [wf], up to the recorded finding) *)
      decl_shapedb (dc_decl c) && (accepted || rejected) && Bool.eqb accepted wf
  end.
