(** Exec/AccObs.v — correspondence case for C05: an operation history, what the real
    accumulator did, the model's trace and the abstract specification's trace. *)
From DarlingModel Require Import Err.ErrTree Err.Builder Err.Accum Exec.ErrObs.
Local Open Scope string_scope.

(** Operations as the harness receives them: errors are builder expressions. *)
Inductive bop : Type :=
| BPush (b : bexpr) | BHandleOk (v : N) | BHandleErr (b : bexpr)
| BHandleInOk (v : N) | BHandleInErr (b : bexpr) | BExtend (bs : list bexpr)
| BCheckpoint | BFinish | BFinishWith (v : N) | BIntoInner | BDrop | BDropUnwinding.

Section Ops.
  Variable sugg : bool.
  Variable sim : string -> string -> N.

  Definition ev (b : bexpr) : option err :=
    match eval sugg sim b with BOk e => Some e | _ => None end.

  Fixpoint evs (bs : list bexpr) : option (list err) :=
    match bs with
    | [] => Some []
    | b :: r => match ev b, evs r with Some e, Some l => Some (e :: l) | _, _ => None end
    end.

  Definition op_of (b : bop) : option acc_op :=
    match b with
    | BPush x => option_map OpPush (ev x)
    | BHandleOk v => Some (OpHandleOk v)
    | BHandleErr x => option_map OpHandleErr (ev x)
    | BHandleInOk v => Some (OpHandleInOk v)
    | BHandleInErr x => option_map OpHandleInErr (ev x)
    | BExtend xs => option_map OpExtend (evs xs)
    | BCheckpoint => Some OpCheckpoint
    | BFinish => Some OpFinish
    | BFinishWith v => Some (OpFinishWith v)
    | BIntoInner => Some OpIntoInner
    | BDrop => Some OpDrop
    | BDropUnwinding => Some OpDropUnwinding
    end.

  Fixpoint ops_of (bs : list bop) : option (list acc_op) :=
    match bs with
    | [] => Some []
    | b :: r => match op_of b, ops_of r with Some o, Some l => Some (o :: l) | _, _ => None end
    end.
End Ops.

(** Observed outcome of one operation. *)
Inductive oout : Type :=
| XUnit | XValue (v : option N) | XFinished (v : option N) | XFailed (o : obs)
| XVec (os : list obs) | XFresh | XQuiet | XPanicked (msg : string).

Definition oout_of (o : acc_out) : oout :=
  match o with
  | AUnit => XUnit
  | AValue v => XValue v
  | AFinished v => XFinished v
  | AFailed e => XFailed (obs_of e)
  | AVec es => XVec (map obs_of es)
  | AFresh => XFresh
  | AQuiet => XQuiet
  | APanicked m => XPanicked m
  end.

Definition oout_eqb (a b : oout) : bool :=
  match a, b with
  | XUnit, XUnit | XFresh, XFresh | XQuiet, XQuiet => true
  | XValue x, XValue y | XFinished x, XFinished y => option_eqb N.eqb x y
  | XFailed x, XFailed y => obs_eqb true x y
  | XVec x, XVec y => list_eqb (obs_eqb true) x y
  | XPanicked x, XPanicked y => str_eqb x y
  | _, _ => false
  end.

Record case05 : Type := {
  a_sim : list (string * string * N);
  a_ops : list bop;
  a_trace : list oout;             (* what the implementation did *)
}.

(** model = implementation *)
Definition agree05 (c : case05) : bool :=
  match ops_of true (sim_of (a_sim c)) (a_ops c) with
  | Some ops => list_eqb oout_eqb (map oout_of (snd (run_ops ops))) (a_trace c)
  | None => false
  end.

(** the abstract specification, evaluated on the implementation's trace *)
Definition holds05 (c : case05) : bool :=
  match ops_of true (sim_of (a_sim c)) (a_ops c) with
  | Some ops => list_eqb oout_eqb (map oout_of (spec_trace [] ops)) (a_trace c)
  | None => false
  end.

Definition run05 (cs : list case05) : string :=
  report (map (fun ic => (fst ic, agree05 (snd ic), holds05 (snd ic)))
              (combine (map N.of_nat (seq 0 (List.length cs))) cs)).
