(** Exec/ErrObs.v — what the harness can observe of a [darling::Error] through the public API,
    the same projection computed from a model [err], and the executable specifications of C04
    (and the algebraic parts of C03) stated on observations alone, so they can be evaluated on
    what the implementation returned. *)
From DarlingModel Require Import Err.ErrTree Err.Builder.
Local Open Scope string_scope.

(** What the harness reports for one builder expression. *)
Inductive outcome04 : Type :=
| OPanic (msg : string)
| OAbsent
| OVal (o : obs)                    (* the value *)
       (flat flat2 : obs)           (* flatten(), flatten().flatten() *)
       (diags : list diag)          (* syn::Error::from(e).into_iter() : (span, message) *)
       (diags_ts : list diag).      (* write_errors() : the compile_error! invocations *)

Definition diag_eqb (with_spans : bool) (a b : diag) : bool :=
  (if with_spans then ospan_eqb (fst a) (fst b) else true) && str_eqb (snd a) (snd b).

(** Model side: the same outcome computed from the model. *)
Definition model_outcome04 (sugg : bool) (sim : string -> string -> N) (b : bexpr) : outcome04 :=
  match eval sugg sim b with
  | BPanic m => OPanic m
  | BAbsent => OAbsent
  | BOk e =>
      match flatten e, to_syn e with
      | POk f, POk ds =>
          match flatten f with
          | POk f2 => OVal (obs_of e) (obs_of f) (obs_of f2) ds ds
          | PPanic m => OPanic m
          end
      | PPanic m, _ => OPanic m
      | _, PPanic m => OPanic m
      end
  end.

Definition outcome04_eqb (with_spans : bool) (a b : outcome04) : bool :=
  match a, b with
  | OPanic x, OPanic y => str_eqb x y
  | OAbsent, OAbsent => true
  | OVal o1 f1 g1 d1 t1, OVal o2 f2 g2 d2 t2 =>
      obs_eqb with_spans o1 o2 && obs_eqb with_spans f1 f2 && obs_eqb with_spans g1 g2
      && list_eqb (diag_eqb with_spans) d1 d2 && list_eqb (diag_eqb with_spans) t1 t2
  | _, _ => false
  end.

(** ** C04 as a predicate on observations only *)

Definition join_locs (a b : option string) : option string :=
  match a, b with
  | None, x => x
  | x, None => x
  | Some x, Some y => Some (x ++ "/" ++ y)
  end.

Definition keep_span (own inh : option span) : option span :=
  match own with Some _ => own | None => inh end.

(** Leaves of an observed tree, left to right: (body, full path, own-or-inherited span). *)
Fixpoint obs_leaves (pre : option string) (inh : option span) (o : obs)
  : list (string * option string * option span) :=
  match o with
  | Obs _ _ b l s kids =>
      match kids with
      | [] => [(b, join_locs pre l, keep_span s inh)]
      | _ => flat_map (obs_leaves (join_locs pre l) (keep_span s inh)) kids
      end
  end.

Definition suffix_of (l : option string) : string :=
  match l with None => "" | Some j => " at " ++ j end.

(** Display = body, then " at path" exactly when a path exists — at every node. *)
Fixpoint display_ok (o : obs) : bool :=
  match o with
  | Obs _ d b l _ kids => str_eqb d (b ++ suffix_of l) && forallb display_ok kids
  end.

(** len = number of leaves >= 1 — at every node. *)
Fixpoint len_ok (o : obs) : bool :=
  match o with
  | Obs n _ _ _ _ kids =>
      N.eqb n (N.of_nat (List.length (obs_leaves None None o))) && N.leb 1 n && forallb len_ok kids
  end.

(** A flattened observation: one single error, or a bundle of single errors with no location. *)
Definition flat_members (f : obs) : list obs :=
  match f with
  | Obs _ _ _ _ _ [] => [f]
  | Obs _ _ _ _ _ kids => kids
  end.

Definition is_single (o : obs) : bool :=
  match o with Obs _ _ _ _ _ [] => true | _ => false end.

Definition leaf3_eqb (with_spans : bool) (a b : string * option string * option span) : bool :=
  let '(b1, l1, s1) := a in
  let '(b2, l2, s2) := b in
  str_eqb b1 b2 && option_eqb str_eqb l1 l2 && (if with_spans then ospan_eqb s1 s2 else true).

Definition member_view (o : obs) : string * option string * option span :=
  match o with Obs _ _ b l s _ => (b, l, s) end.

(** flatten yields exactly the leaves in order with full paths. *)
Definition flatten_ok (with_spans : bool) (o flat : obs) : bool :=
  forallb is_single (flat_members flat)
  && (match flat with
      | Obs _ _ _ None _ _ => true
      | Obs _ _ _ (Some _) _ [] => true          (* a single error keeps its own path *)
      | _ => false
      end)
  && list_eqb (leaf3_eqb with_spans) (map member_view (flat_members flat)) (obs_leaves None None o).

(** one diagnostic per leaf, in order, with the leaf's message (path included only when the
    diagnostic has to be placed at the call site). *)
Definition leaf_message (v : string * option string * option span) : diag :=
  let '(b, l, s) := v in
  match s with
  | Some x => (Some x, b)
  | None => (None, b ++ suffix_of l)
  end.

(** The message is keyed on where the diagnostic itself was placed, so that C04 does not depend
    on which span a leaf ends up with (that is C03's business, checked when [with_spans]). *)
Definition diag_matches (with_spans : bool) (d : diag) (v : string * option string * option span) : bool :=
  let '(b, l, s) := v in
  (if with_spans then ospan_eqb (fst d) s else true)
  && str_eqb (snd d) (match fst d with Some _ => b | None => b ++ suffix_of l end).

Fixpoint all2 {A B} (f : A -> B -> bool) (x : list A) (y : list B) : bool :=
  match x, y with
  | [], [] => true
  | a :: x', b :: y' => f a b && all2 f x' y'
  | _, _ => false
  end.

Definition diags_ok (with_spans : bool) (o : obs) (ds : list diag) : bool :=
  all2 (diag_matches with_spans) ds (obs_leaves None None o).

Definition holds04 (with_spans : bool) (r : outcome04) : bool :=
  match r with
  | OVal o f f2 ds ts =>
      len_ok o && display_ok o && len_ok f && display_ok f
      && flatten_ok with_spans o f
      && obs_eqb true f f2                        (* flattening twice = flattening once *)
      && diags_ok with_spans o ds && diags_ok with_spans o ts
  | OAbsent => true
  | OPanic _ => true                              (* panics are decided by [agree]: only multiple(vec![]) *)
  end.

(** One correspondence case. *)
Record case04 : Type := {
  c_sugg : bool;
  c_sim : list (string * string * N);
  c_expr : bexpr;
  c_out : outcome04;
}.

Definition sim_of (tbl : list (string * string * N)) (a b : string) : N :=
  match find (fun t => str_eqb (fst (fst t)) a && str_eqb (snd (fst t)) b) tbl with
  | Some t => snd t
  | None => 0%N
  end.

Definition agree04 (with_spans : bool) (c : case04) : bool :=
  outcome04_eqb with_spans (model_outcome04 (c_sugg c) (sim_of (c_sim c)) (c_expr c)) (c_out c).

Definition run04 (with_spans : bool) (cs : list case04) : string :=
  report (map (fun ic => (fst ic, agree04 with_spans (snd ic), holds04 with_spans (c_out (snd ic))))
              (combine (map N.of_nat (seq 0 (List.length cs))) cs)).
