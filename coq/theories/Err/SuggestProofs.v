(** Err/SuggestProofs.v — the suggestion machinery of core/src/error/kind.rs ([did_you_mean],
    [add_alts]) and core/src/error/mod.rs ([add_sibling_alts_for_unknown_field]) against the
    argmax specification of Spec/C17.v, for ANY similarity function. *)
From DarlingModel Require Import Err.ErrTree Err.ErrProofs Spec.C17.
Local Open Scope list_scope.

Section Suggest.
  Variable sim : string -> string -> N.

  Notation above := (above sim).
  Notation best_score := (best_score sim).
  Notation best_match := (best_match sim).
  Notation best_scored := (best_scored sim).

  Lemma above_cons u a r :
    above u (a :: r) = if N.ltb threshold (sim u a) then a :: above u r else above u r.
  Proof. reflexivity. Qed.

  Lemma best_score_cons u a r :
    best_score u (a :: r) = if N.ltb threshold (sim u a) then N.max (sim u a) (best_score u r) else best_score u r.
  Proof. unfold C17.best_score. rewrite above_cons. destruct (N.ltb threshold (sim u a)); reflexivity. Qed.

  Lemma best_scored_cons u a r :
    best_scored u (a :: r) =
      if N.ltb threshold (sim u a)
      then (if N.leb (best_score u r) (sim u a) then Some (sim u a, a) else best_scored u r)
      else best_scored u r.
  Proof.
    unfold C17.best_scored, C17.best_match. rewrite best_score_cons, above_cons.
    destruct (N.ltb threshold (sim u a)) eqn:T; [|reflexivity].
    cbn [find]. destruct (N.leb_spec (best_score u r) (sim u a)) as [L|L].
    - rewrite N.max_l by assumption. rewrite N.eqb_refl. reflexivity.
    - rewrite N.max_r by lia. replace (N.eqb (sim u a) (best_score u r)) with false; [reflexivity|].
      symmetry. apply N.eqb_neq. lia.
  Qed.

  (** the loop with a running candidate, as a closed form *)
  Definition dym_spec (u : string) (alts : list string) (cand : option (N * string)) : option (N * string) :=
    match cand with
    | Some (c0, s0) => if N.leb (best_score u alts) c0 then cand else best_scored u alts
    | None => best_scored u alts
    end.

  Lemma dym_loop_spec u alts : forall cand, dym_loop sim u alts cand = dym_spec u alts cand.
  Proof.
    induction alts as [|a r IH]; intros cand.
    - cbn [dym_loop]. unfold dym_spec. destruct cand as [[c0 s0]|]; [|reflexivity].
      change (best_score u []) with 0%N. destruct c0; reflexivity.
    - cbn [dym_loop]. rewrite IH. unfold dym_spec. rewrite best_score_cons, best_scored_cons.
      destruct (N.ltb_spec threshold (sim u a)) as [T|T]; cbn [andb].
      + destruct cand as [[c0 s0]|].
        * destruct (N.ltb_spec c0 (sim u a)) as [B|B].
          -- (* the new candidate replaces the old one *)
             destruct (N.leb_spec (best_score u r) (sim u a)) as [L|L].
             ++ replace (N.leb (N.max (sim u a) (best_score u r)) c0) with false; [reflexivity|].
                symmetry. apply N.leb_gt. lia.
             ++ replace (N.leb (N.max (sim u a) (best_score u r)) c0) with false; [reflexivity|].
                symmetry. apply N.leb_gt. lia.
          -- (* the old candidate is at least as good: kept *)
             destruct (N.leb_spec (best_score u r) c0) as [L|L].
             ++ replace (N.leb (N.max (sim u a) (best_score u r)) c0) with true; [reflexivity|].
                symmetry. apply N.leb_le. lia.
             ++ replace (N.leb (N.max (sim u a) (best_score u r)) c0) with false.
                2:{ symmetry. apply N.leb_gt. lia. }
                replace (N.leb (best_score u r) (sim u a)) with false; [reflexivity|].
                symmetry. apply N.leb_gt. lia.
        * reflexivity.
      + destruct cand as [[c0 s0]|]; reflexivity.
  Qed.

  (** [did_you_mean] IS the argmax of the specification. *)
  Lemma did_you_mean_is_best u alts : did_you_mean true sim u alts = best_scored u alts.
  Proof. unfold did_you_mean. now rewrite dym_loop_spec. Qed.

  Lemma did_you_mean_off u alts : did_you_mean false sim u alts = None.
  Proof. reflexivity. Qed.

  (** ** what the argmax means *)
  Lemma in_above u c cands : In c (above u cands) <-> In c cands /\ (threshold < sim u c)%N.
  Proof. unfold C17.above. rewrite filter_In, N.ltb_lt. tauto. Qed.

  Lemma best_score_upper u cands : forall c, In c (above u cands) -> (sim u c <= best_score u cands)%N.
  Proof.
    unfold C17.best_score. induction (above u cands) as [|x r IH]; cbn; [tauto|].
    intros c [<-|H]; [lia|]. specialize (IH c H). lia.
  Qed.

  Lemma best_score_attained u cands :
    above u cands <> [] -> exists c, In c (above u cands) /\ sim u c = best_score u cands.
  Proof.
    unfold C17.best_score. induction (above u cands) as [|x r IH]; [congruence|]. intros _.
    cbn [map fold_right]. destruct r as [|y r'].
    - exists x. split; [now left|]. cbn. lia.
    - destruct IH as [c [Hc E]]; [discriminate|].
      destruct (N.le_ge_cases (fold_right N.max 0%N (map (sim u) (y :: r'))) (sim u x)) as [L|L].
      + exists x. split; [now left|]. lia.
      + exists c. split; [now right|]. lia.
  Qed.

  Lemma best_match_some u cands s :
    best_match u cands = Some s ->
    In s cands /\ (threshold < sim u s)%N /\ (forall c, In c cands -> (sim u c <= sim u s)%N \/ (sim u c <= threshold)%N).
  Proof.
    unfold C17.best_match. intros H. apply find_some in H as [Hin E]. apply N.eqb_eq in E.
    apply in_above in Hin as [Hc Ht]. repeat split; try assumption.
    intros c Hcc. destruct (N.le_gt_cases (sim u c) threshold) as [L|L]; [now right|left].
    rewrite E. apply best_score_upper. apply in_above. now split.
  Qed.

  Lemma best_match_none u cands :
    best_match u cands = None <-> (forall c, In c cands -> (sim u c <= threshold)%N).
  Proof.
    split.
    - intros H c Hc. destruct (N.le_gt_cases (sim u c) threshold) as [L|L]; [assumption|exfalso].
      assert (NE : above u cands <> []).
      { intros E. assert (I : In c (above u cands)) by (apply in_above; now split). rewrite E in I. destruct I. }
      destruct (best_score_attained u cands NE) as [d [Hd Ed]].
      unfold C17.best_match in H. eapply find_none in H; [|exact Hd]. apply N.eqb_neq in H. congruence.
    - intros H. unfold C17.best_match. destruct (find _ _) eqn:F; [|reflexivity]. exfalso.
      apply find_some in F as [Hin _]. apply in_above in Hin as [Hc Ht]. specialize (H _ Hc). lia.
  Qed.

  (** ties: the first candidate, in list order, reaching the best score *)
  Lemma find_filter_first {A} (p q : A -> bool) l s :
    find q (filter p l) = Some s ->
    exists pre post, l = pre ++ s :: post /\ forall c, In c pre -> p c = false \/ q c = false.
  Proof.
    induction l as [|x r IH]; cbn [filter]; [discriminate|].
    destruct (p x) eqn:Px.
    - cbn [find]. destruct (q x) eqn:Qx.
      + intros [= <-]. exists [], r. split; [reflexivity|]. intros c [].
      + intros F. destruct (IH F) as [pre [post [-> Hp]]]. exists (x :: pre), post. split; [reflexivity|].
        intros c [<-|Hc]; [now right|now apply Hp].
    - intros F. destruct (IH F) as [pre [post [-> Hp]]]. exists (x :: pre), post. split; [reflexivity|].
      intros c [<-|Hc]; [now left|now apply Hp].
  Qed.

  Lemma best_match_first u cands s :
    best_match u cands = Some s ->
    exists pre post, cands = pre ++ s :: post
                     /\ forall c, In c pre -> (sim u c < sim u s)%N \/ (sim u c <= threshold)%N.
  Proof.
    intros H.
    assert (Hb : sim u s = best_score u cands).
    { unfold C17.best_match in H. apply find_some in H as [_ E]. now apply N.eqb_eq in E. }
    unfold C17.best_match, C17.above in H. apply find_filter_first in H as [pre [post [E Hp]]].
    exists pre, post. split; [exact E|]. intros c Hc.
    destruct (N.le_gt_cases (sim u c) threshold) as [L|L]; [now right|left].
    destruct (Hp c Hc) as [P|Q].
    - apply N.ltb_ge in P. lia.
    - apply N.eqb_neq in Q.
      assert (sim u c <= best_score u cands)%N.
      { apply best_score_upper. apply in_above. split; [|assumption]. rewrite E. apply in_or_app. now left. }
      lia.
  Qed.

  (** ** [add_alts]: a better earlier suggestion is never replaced by a worse one *)
  Lemma add_alts_off name cur alts : add_alts false sim name cur alts = cur.
  Proof. reflexivity. Qed.

  Lemma add_alts_spec name cur alts :
    add_alts true sim name cur alts =
      match best_scored name alts, cur with
      | Some b, Some c => if N.ltb (fst c) (fst b) then Some b else cur
      | Some b, None => Some b
      | None, _ => cur
      end.
  Proof. unfold add_alts. now rewrite did_you_mean_is_best. Qed.

  Lemma add_alts_only_improves sugg name c0 s0 alts c s :
    add_alts sugg sim name (Some (c0, s0)) alts = Some (c, s) ->
    (c0 <= c)%N /\ ((c, s) = (c0, s0) \/ (c0 < c)%N).
  Proof.
    destruct sugg; [|intros [= <- <-]; split; [lia|now left]].
    rewrite add_alts_spec. destruct (best_scored name alts) as [[cb sb]|].
    - cbn [fst]. destruct (N.ltb_spec c0 cb) as [L|L].
      + intros [= <- <-]. split; [lia|now right].
      + intros [= <- <-]. split; [lia|now left].
    - intros [= <- <-]. split; [lia|now left].
  Qed.

  Lemma add_alts_keeps_some sugg name cur alts : cur <> None -> add_alts sugg sim name cur alts <> None.
  Proof.
    intros H. destruct sugg; [|assumption]. rewrite add_alts_spec.
    destruct (best_scored name alts) as [b|]; [|assumption].
    destruct cur as [c|]; [|congruence]. destruct (N.ltb (fst c) (fst b)); congruence.
  Qed.

  (** ** sibling alternates reach only errors at their origin: a node that already has a
      location - and everything below it - is returned unchanged, at any depth *)
  Lemma add_sibling_alts_located sugg alts e :
    locs_of e <> [] -> add_sibling_alts sugg sim alts e = e.
  Proof. destruct e as [k l s | es l s]; cbn; destruct l; congruence. Qed.

  Definition upd_leaf (sugg : bool) (alts : list string)
             (v : kind * list string * option span) : kind * list string * option span :=
    let '(k, l, s) := v in
    match l, k with
    | [], KUnknownField n d => (KUnknownField n (add_alts sugg sim n d alts), l, s)
    | _, _ => v
    end.

  (** The leaves after [add_sibling_alts] are the leaves before, in order, with the same paths
      and spans; only unknown-field leaves whose complete path is empty may gain / improve a
      suggestion. *)
  Lemma add_sibling_alts_leaves sugg alts e : forall inh,
    leaves [] inh (add_sibling_alts sugg sim alts e) = map (upd_leaf sugg alts) (leaves [] inh e).
  Proof.
    induction e as [k l s | es l s IH] using err_ind'; intros inh.
    - cbn [add_sibling_alts]. destruct l as [|x l]; cbn.
      + destruct k; reflexivity.
      + reflexivity.
    - cbn [add_sibling_alts]. destruct l as [|x l].
      + cbn [leaves app]. generalize (match s with Some _ => s | None => inh end) as inh'. intros inh'.
        induction IH as [|y r Hy _ IHr]; cbn [map flat_map]; [reflexivity|].
        rewrite map_app, Hy, IHr. reflexivity.
      + (* a located bundle: nothing below it has an empty path *)
        cbn [leaves app]. generalize (match s with Some _ => s | None => inh end) as inh'. intros inh'.
        assert (G : forall (q : list string) es' i, q <> [] ->
                      map (upd_leaf sugg alts) (flat_map (leaves q i) es') = flat_map (leaves q i) es').
        { clear. intros q es'. revert q. induction es' as [|y r IHr] using (list_ind); intros q i Hq; [reflexivity|].
          cbn [flat_map]. rewrite map_app, IHr by assumption. f_equal.
          revert q i Hq. induction y as [k l s | es l s IH] using err_ind'; intros q i Hq.
          - cbn. destruct q; [congruence|]. reflexivity.
          - cbn [leaves]. generalize (match s with Some _ => s | None => i end) as i'. intros i'.
            assert (Hq' : q ++ l <> []) by (destruct q; [congruence|discriminate]).
            revert Hq'. generalize (q ++ l) as q'. intros q' Hq'.
            induction IH as [|z r' Hz _ IHr']; cbn [flat_map map]; [reflexivity|].
            rewrite map_app, Hz, IHr' by assumption. reflexivity. }
        symmetry. apply G. discriminate.
  Qed.
End Suggest.
