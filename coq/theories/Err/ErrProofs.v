(** Err/ErrProofs.v — lemmas about the error-tree model (used by Properties/C03, C04, C17). *)
From DarlingModel Require Import Err.ErrTree Err.Builder.
Local Open Scope list_scope.

(** Induction principle for the nested inductive [err]. *)
Section ErrInd.
  Variable P : err -> Prop.
  Hypothesis HL : forall k l s, P (Leaf k l s).
  Hypothesis HM : forall es l s, Forall P es -> P (Multi es l s).
  Fixpoint err_ind' (e : err) : P e :=
    match e with
    | Leaf k l s => HL k l s
    | Multi es l s =>
        HM es l s
          ((fix go (l : list err) : Forall P l :=
              match l with
              | [] => Forall_nil _
              | x :: r => Forall_cons _ (err_ind' x) (go r)
              end) es)
    end.
End ErrInd.

Lemma sumN_app a b : sumN (a ++ b) = (sumN a + sumN b)%N.
Proof. unfold sumN. induction a as [|x a IH]; cbn; [reflexivity|]. rewrite IH. lia. Qed.

Lemma length_flat_map {A B} (f : A -> list B) l :
  N.of_nat (List.length (flat_map f l)) = sumN (map (fun x => N.of_nat (List.length (f x))) l).
Proof.
  induction l as [|x l IH]; cbn; [reflexivity|].
  rewrite List.app_length, Nat2N.inj_add, IH. reflexivity.
Qed.

(** ** len counts leaves *)
Lemma len_leaves e : forall pre inh, len e = N.of_nat (List.length (leaves pre inh e)).
Proof.
  induction e as [k l s | es l s IH] using err_ind'; intros pre inh; cbn [len leaves].
  - reflexivity.
  - rewrite length_flat_map. f_equal.
    induction IH as [|x r Hx _ IHr]; cbn; [reflexivity|]. now rewrite <- Hx, IHr.
Qed.

Lemma wf_len_pos e : wf e = true -> (1 <= len e)%N.
Proof.
  induction e as [k l s | es l s IH] using err_ind'; cbn [wf len]; intros H; [lia|].
  apply andb_true_iff in H as [Hne Hall].
  destruct es as [|x r]; [discriminate|]. cbn in *.
  apply andb_true_iff in Hall as [Hx _]. inversion IH as [|? ? Px _]; subst.
  specialize (Px Hx). lia.
Qed.

(** ** into_vec yields exactly the leaves, as leaves *)
Lemma inherit_leaf inh k l s :
  inherit_span inh (Leaf k l s) = Leaf k l (match s with Some _ => s | None => inh end).
Proof. destruct inh as [x|], s as [y|]; reflexivity. Qed.

Lemma into_vec'_leaves e : forall pre inh,
  flat_map leaf_view (into_vec' pre inh e) = leaves pre inh e.
Proof.
  induction e as [k l s | es l s IH] using err_ind'; intros pre inh; cbn [into_vec' leaves].
  - rewrite inherit_leaf. reflexivity.
  - induction IH as [|x r Hx _ IHr]; cbn; [reflexivity|].
    rewrite flat_map_app, Hx, IHr. reflexivity.
Qed.

Lemma into_vec'_all_leaf e : forall pre inh, forallb is_leaf (into_vec' pre inh e) = true.
Proof.
  induction e as [k l s | es l s IH] using err_ind'; intros pre inh; cbn [into_vec'].
  - rewrite inherit_leaf. reflexivity.
  - induction IH as [|x r Hx _ IHr]; cbn; [reflexivity|].
    rewrite forallb_app, Hx, IHr. reflexivity.
Qed.

Lemma into_vec_leaves e : flat_map leaf_view (into_vec e) = leaves [] None e.
Proof.
  destruct e as [k l s | es l s]; cbn [into_vec leaves].
  - cbn. destruct s; reflexivity.
  - cbn [app]. replace (match s with Some _ => s | None => None end) with s by (destruct s; reflexivity).
    induction es as [|x r IH]; cbn; [reflexivity|].
    rewrite flat_map_app, into_vec'_leaves, IH. reflexivity.
Qed.

Lemma into_vec_all_leaf e : forallb is_leaf (into_vec e) = true.
Proof.
  destruct e as [k l s | es l s]; cbn [into_vec]; [reflexivity|].
  induction es as [|x r IH]; cbn; [reflexivity|].
  rewrite forallb_app, into_vec'_all_leaf, IH. reflexivity.
Qed.

Lemma leaf_view_length l : forallb is_leaf l = true -> List.length (flat_map leaf_view l) = List.length l.
Proof.
  induction l as [|x r IH]; cbn; [reflexivity|]. intros H. apply andb_true_iff in H as [Hx Hr].
  destruct x; [|discriminate]. cbn. now rewrite IH.
Qed.

Lemma into_vec_length e : N.of_nat (List.length (into_vec e)) = len e.
Proof.
  rewrite <- (leaf_view_length _ (into_vec_all_leaf e)), into_vec_leaves.
  symmetry. apply len_leaves.
Qed.

(** ** flatten *)
Lemma flat_leaves_id l :
  forallb is_leaf l = true -> flat_map (into_vec' [] None) l = l.
Proof.
  induction l as [|x r IH]; cbn; [reflexivity|]. intros H. apply andb_true_iff in H as [Hx Hr].
  destruct x as [k lo s|]; [|discriminate]. cbn. rewrite IH by assumption. reflexivity.
Qed.

Lemma flatten_idempotent e f : flatten e = POk f -> flatten f = POk f.
Proof.
  unfold flatten. pose proof (into_vec_all_leaf e) as Hl.
  destruct (into_vec e) as [|x [|y r]] eqn:E; cbn [multiple]; intros H; try discriminate H; injection H as <-.
  - cbn in Hl. destruct x; [|discriminate]. reflexivity.
  - cbn [into_vec]. rewrite (flat_leaves_id _ Hl). reflexivity.
Qed.

Lemma flatten_total e : wf e = true -> exists f, flatten e = POk f.
Proof.
  intros H. unfold flatten. pose proof (into_vec_length e) as L. pose proof (wf_len_pos e H) as P.
  destruct (into_vec e) as [|x [|y r]]; cbn [multiple]; eauto. cbn in L. lia.
Qed.

(** The leaves of the flattened error are the leaves of the original: same kinds, same order,
    full ancestor paths, own-or-inherited spans. *)
Lemma flatten_leaves e f : flatten e = POk f -> leaves [] None f = leaves [] None e.
Proof.
  unfold flatten. pose proof (into_vec_all_leaf e) as Hl. pose proof (into_vec_leaves e) as Hv.
  destruct (into_vec e) as [|x [|y r]] eqn:E; cbn [multiple]; intros H; try discriminate H; injection H as <-.
  - rewrite <- Hv. cbn in Hl. destruct x as [k l s|]; [|discriminate]. cbn. destruct s; reflexivity.
  - rewrite <- Hv. cbn [leaves app].
    clear E Hv. induction (x :: y :: r) as [|z t IH]; [reflexivity|].
    cbn in Hl. apply andb_true_iff in Hl as [Hz Ht]. destruct z as [k l s|]; [|discriminate].
    cbn. rewrite IH by assumption. destruct s; reflexivity.
Qed.

(** The flattened error is either one leaf or a bundle of leaves with no location and no span. *)
Lemma flatten_shape e f :
  flatten e = POk f ->
  (is_leaf f = true /\ into_vec e = [f]) \/
  (f = Multi (into_vec e) [] None /\ (2 <= List.length (into_vec e))%nat).
Proof.
  unfold flatten. pose proof (into_vec_all_leaf e) as Hl.
  destruct (into_vec e) as [|x [|y r]] eqn:E; cbn [multiple]; intros H; try discriminate H; injection H as <-.
  - left. cbn in Hl. now rewrite andb_true_r in Hl.
  - right. split; [reflexivity|]. cbn. lia.
Qed.

(** ** Display *)
Lemma display_split e : display e = (body_msg e ++ locs_suffix (locs_of e))%string.
Proof. destruct e; reflexivity. Qed.

(** ** Conversion to compiler diagnostics *)
Definition leaf_diag (v : kind * list string * option span) : diag :=
  let '(k, l, s) := v in
  match s with
  | Some x => (Some x, kind_msg k)
  | None => (None, (kind_msg k ++ locs_suffix l)%string)
  end.

Lemma single_diag_leaf k l s : single_diag (Leaf k l s) = leaf_diag (k, l, s).
Proof. unfold single_diag; cbn. destruct s; reflexivity. Qed.

Lemma map_single_diag_leaves l :
  forallb is_leaf l = true -> map single_diag l = map leaf_diag (flat_map leaf_view l).
Proof.
  induction l as [|x r IH]; cbn; [reflexivity|]. intros H. apply andb_true_iff in H as [Hx Hr].
  destruct x as [k lo s|]; [|discriminate]. cbn [leaf_view app map].
  rewrite IH by assumption. now rewrite single_diag_leaf.
Qed.

(** A bundle is [proper] when it has at least two members, recursively: what [multiple] builds. *)
Fixpoint proper (e : err) : bool :=
  match e with
  | Leaf _ _ _ => true
  | Multi es _ _ => (Nat.leb 2 (List.length es) && forallb proper es)%bool
  end.

Lemma proper_wf e : proper e = true -> wf e = true.
Proof.
  induction e as [k l s | es l s IH] using err_ind'; cbn [proper wf]; [reflexivity|].
  intros H. apply andb_true_iff in H as [Hn Hall].
  apply andb_true_iff; split.
  - destruct es; [discriminate|reflexivity].
  - clear Hn. induction IH as [|x r Hx _ IHr]; cbn in *; [reflexivity|].
    apply andb_true_iff in Hall as [Px Pr]. now rewrite Hx, IHr.
Qed.

Lemma proper_len1_leaf e : proper e = true -> len e = 1%N -> is_leaf e = true.
Proof.
  destruct e as [k l s | es l s]; [reflexivity|]. cbn [proper len]. intros H L.
  apply andb_true_iff in H as [Hn Hall]. exfalso.
  destruct es as [|x [|y r]]; try discriminate. cbn in Hall, L.
  apply andb_true_iff in Hall as [Px Hall]. apply andb_true_iff in Hall as [Py _].
  pose proof (wf_len_pos x (proper_wf x Px)). pose proof (wf_len_pos y (proper_wf y Py)). lia.
Qed.

Lemma to_syn_spec e :
  proper e = true ->
  to_syn e = POk (map leaf_diag (leaves [] None e)).
Proof.
  intros P. unfold to_syn. destruct (N.eqb (len e) 1) eqn:L.
  - apply N.eqb_eq in L. pose proof (proper_len1_leaf e P L) as Hl.
    destruct e as [k l s|]; [|discriminate]. rewrite single_diag_leaf. cbn. destruct s; reflexivity.
  - destruct (flatten_total e (proper_wf e P)) as [f Hf]. rewrite Hf.
    destruct (flatten_shape e f Hf) as [[Hlf Hv] | [Hm Hn]].
    + (* one leaf but len <> 1: impossible *)
      exfalso. pose proof (into_vec_length e) as IL. rewrite Hv in IL. cbn in IL.
      apply N.eqb_neq in L. lia.
    + subst f. cbn [into_iter]. rewrite (map_single_diag_leaves _ (into_vec_all_leaf e)).
      now rewrite into_vec_leaves.
Qed.

(** ** Everything built through the public API is a proper tree *)
Lemma proper_set_locs l e : proper (set_locs l e) = proper e.
Proof. destruct e; reflexivity. Qed.
Lemma proper_set_span s e : proper (set_span s e) = proper e.
Proof. destruct e; reflexivity. Qed.
Lemma proper_at l e : proper (at_ l e) = proper e.
Proof. apply proper_set_locs. Qed.
Lemma proper_with_span s e : proper (with_span s e) = proper e.
Proof. unfold with_span. destruct (span_of e); [reflexivity|apply proper_set_span]. Qed.

Lemma proper_multiple es e :
  forallb proper es = true -> multiple es = POk e -> proper e = true.
Proof.
  destruct es as [|x [|y r]]; cbn [multiple]; intros H E; inversion E; subst; clear E.
  - cbn in H. now rewrite andb_true_r in H.
  - cbn [proper]. now rewrite H.
Qed.

Lemma all_leaf_proper l : forallb is_leaf l = true -> forallb proper l = true.
Proof.
  induction l as [|x r IH]; cbn; [reflexivity|]. intros H. apply andb_true_iff in H as [Hx Hr].
  destruct x; [|discriminate]. now rewrite IH.
Qed.

Lemma proper_flatten e f : flatten e = POk f -> proper f = true.
Proof.
  intros H. eapply proper_multiple; [|exact H]. apply all_leaf_proper, into_vec_all_leaf.
Qed.

Lemma proper_into_iter e x : proper e = true -> In x (into_iter e) -> proper x = true.
Proof.
  destruct e as [k l s | es l s]; cbn [into_iter proper]; intros P I.
  - destruct I as [<-|[]]. reflexivity.
  - apply andb_true_iff in P as [_ Hall]. rewrite forallb_forall in Hall. now apply Hall.
Qed.

Lemma proper_add_sibling_alts sugg sim alts e :
  proper (add_sibling_alts sugg sim alts e) = proper e.
Proof.
  induction e as [k l s | es l s IH] using err_ind'; cbn [add_sibling_alts].
  - destruct l; [|reflexivity]. destruct k; reflexivity.
  - destruct l; [|reflexivity]. cbn [proper]. rewrite map_length. f_equal.
    induction IH as [|x r Hx _ IHr]; cbn; [reflexivity|]. now rewrite Hx, IHr.
Qed.

Section BexprInd.
  Variable P : bexpr -> Prop.
  Hypothesis HL : forall k, P (BLeaf k).
  Hypothesis HU : forall n a, P (BUnknownAlts n a).
  Hypothesis HS : forall s m, P (BFromSyn s m).
  Hypothesis HA : forall l b, P b -> P (BAt l b).
  Hypothesis HW : forall s b, P b -> P (BWithSpan s b).
  Hypothesis HM : forall bs, Forall P bs -> P (BMultiple bs).
  Hypothesis HF : forall b, P b -> P (BFlatten b).
  Hypothesis HI : forall n b, P b -> P (BIterNth n b).
  Hypothesis HC : forall b, P b -> P (BClone b).
  Hypothesis HD : forall a b, P b -> P (BAddAlts a b).
  Fixpoint bexpr_ind' (b : bexpr) : P b :=
    match b with
    | BLeaf k => HL k
    | BUnknownAlts n a => HU n a
    | BFromSyn s m => HS s m
    | BAt l b' => HA l b' (bexpr_ind' b')
    | BWithSpan s b' => HW s b' (bexpr_ind' b')
    | BMultiple bs =>
        HM bs ((fix go (l : list bexpr) : Forall P l :=
                  match l with
                  | [] => Forall_nil _
                  | x :: r => Forall_cons _ (bexpr_ind' x) (go r)
                  end) bs)
    | BFlatten b' => HF b' (bexpr_ind' b')
    | BIterNth n b' => HI n b' (bexpr_ind' b')
    | BClone b' => HC b' (bexpr_ind' b')
    | BAddAlts a b' => HD a b' (bexpr_ind' b')
    end.
End BexprInd.

Lemma eval_proper sugg sim b : forall e, eval sugg sim b = BOk e -> proper e = true.
Proof.
  induction b as [k | n alts | s m | l b IH | s b IH | bs IH | b IH | n b IH | b IH | alts b IH]
    using bexpr_ind'; intros e; cbn [eval].
  - intros H; inversion H; reflexivity.
  - intros H; inversion H; reflexivity.
  - intros H; inversion H; reflexivity.
  - destruct (eval sugg sim b) as [e0| |]; intros H; inversion H; subst.
    rewrite proper_at. now apply IH.
  - destruct (eval sugg sim b) as [e0| |]; intros H; inversion H; subst.
    rewrite proper_with_span. now apply IH.
  - (* multiple: generalise the accumulator *)
    assert (G : forall acc, forallb proper acc = true ->
      (fix go (l : list bexpr) (acc : list err) : bres :=
         match l with
         | [] => of_pres (multiple (rev acc))
         | x :: r => match eval sugg sim x with BOk e => go r (e :: acc) | o => o end
         end) bs acc = BOk e -> proper e = true).
    { induction IH as [|x r Hx _ IHr]; intros acc Hacc.
      - destruct (multiple (rev acc)) as [e0|] eqn:M; cbn [of_pres]; intros H; inversion H; subst.
        eapply proper_multiple; [|exact M].
        apply forallb_forall. intros y Hy. apply in_rev in Hy.
        rewrite forallb_forall in Hacc. now apply Hacc.
      - destruct (eval sugg sim x) as [e0| |] eqn:Ex; try discriminate.
        apply IHr. cbn. now rewrite (Hx e0 eq_refl), Hacc. }
    apply G. reflexivity.
  - destruct (eval sugg sim b) as [e0| |]; try discriminate.
    destruct (flatten e0) as [f|] eqn:Fl; cbn [of_pres]; intros H; inversion H; subst.
    eapply proper_flatten; eauto.
  - destruct (eval sugg sim b) as [e0| |]; try discriminate.
    destruct (nth_error (into_iter e0) n) as [x|] eqn:N; intros H; inversion H; subst.
    eapply proper_into_iter; [apply IH; reflexivity|]. eapply nth_error_In; eauto.
  - apply IH.
  - destruct (eval sugg sim b) as [e0| |]; intros H; inversion H; subst.
    rewrite proper_add_sibling_alts. now apply IH.
Qed.

(** No builder expression other than a literal [multiple(vec![])] can panic. *)
Fixpoint no_empty_multiple (b : bexpr) : bool :=
  match b with
  | BLeaf _ | BUnknownAlts _ _ | BFromSyn _ _ => true
  | BAt _ b' | BWithSpan _ b' | BFlatten b' | BIterNth _ b' | BClone b' | BAddAlts _ b' =>
      no_empty_multiple b'
  | BMultiple bs =>
      (negb (match bs with [] => true | _ => false end) && forallb no_empty_multiple bs)%bool
  end.

(** flatten, stated through the public iterator: the members of the flattened error are exactly
    the leaves of the original, left to right, with full paths. *)
Lemma flatten_members e :
  proper e = true ->
  exists f, flatten e = POk f
    /\ forallb is_leaf (into_iter f) = true
    /\ flat_map leaf_view (into_iter f) = leaves [] None e
    /\ (is_leaf f = false -> locs_of f = [] /\ span_of f = None).
Proof.
  intros P. destruct (flatten_total e (proper_wf e P)) as [f Hf]. exists f. split; [exact Hf|].
  destruct (flatten_shape e f Hf) as [[Hl Hv] | [Hm Hn]].
  - destruct f as [k l s|]; [|discriminate]. cbn [into_iter]. repeat split.
    + rewrite <- into_vec_leaves, Hv. reflexivity.
    + discriminate.
    + discriminate.
  - subst f. cbn [into_iter]. repeat split.
    + apply into_vec_all_leaf.
    + apply into_vec_leaves.
Qed.

Lemma into_iter_spec e :
  into_iter e = match e with Multi es _ _ => es | Leaf _ _ _ => [e] end.
Proof. reflexivity. Qed.

(** Only a literal [multiple(vec![])] panics. *)
Lemma eval_no_panic sugg sim b :
  no_empty_multiple b = true -> forall m, eval sugg sim b <> BPanic m.
Proof.
  induction b as [k | n alts | s m0 | l b IH | s b IH | bs IH | b IH | n b IH | b IH | alts b IH]
    using bexpr_ind'; cbn [no_empty_multiple eval]; intros H m; try discriminate.
  - specialize (IH H m). destruct (eval sugg sim b); congruence.
  - specialize (IH H m). destruct (eval sugg sim b); congruence.
  - apply andb_true_iff in H as [Hne Hall].
    assert (G : forall acc, (bs <> [] \/ acc <> []) ->
      (fix go (l : list bexpr) (acc : list err) : bres :=
         match l with
         | [] => of_pres (multiple (rev acc))
         | x :: r => match eval sugg sim x with BOk e => go r (e :: acc) | o => o end
         end) bs acc <> BPanic m).
    { clear Hne. induction IH as [|x r Hx _ IHr]; intros acc Hacc.
      - destruct Hacc as [Hc|Hc]; [congruence|].
        assert (R : rev acc <> []).
        { intros E. apply Hc. apply (f_equal (@rev err)) in E. now rewrite rev_involutive in E. }
        destruct (rev acc) as [|y [|z t]]; cbn; congruence.
      - cbn in Hall. apply andb_true_iff in Hall as [Hx1 Hr1].
        specialize (Hx Hx1 m). destruct (eval sugg sim x) as [e0| |]; try congruence.
        apply IHr; [assumption|]. right. discriminate. }
    apply G. left. destruct bs; [discriminate|discriminate].
  - specialize (IH H). pose proof (eval_proper sugg sim b) as EP.
    destruct (eval sugg sim b) as [e0| |]; [|apply IH|discriminate].
    destruct (flatten_total e0 (proper_wf e0 (EP e0 eq_refl))) as [f Hf]. rewrite Hf. cbn. discriminate.
  - specialize (IH H m). destruct (eval sugg sim b) as [e0| |]; try congruence.
    destruct (nth_error (into_iter e0) n); discriminate.
  - now apply IH.
  - specialize (IH H m). destruct (eval sugg sim b); congruence.
Qed.
