(** Err/ErrTree.v — model of [darling::Error] (core/src/error/mod.rs, core/src/error/kind.rs).
    Definitions only; proofs are in Err/ErrProofs.v. *)
From DarlingModel Require Export Base.Prelude.
Local Open Scope string_scope.

(** The ten leaf kinds of [ErrorKind] ([Multiple] is the [Multi] constructor of [err]).
    A did-you-mean suggestion carries its score: the bit pattern of the [f64] Jaro-Winkler
    similarity, which for non-negative floats is order-isomorphic to the float itself. *)
Inductive kind : Type :=
| KCustom (msg : string)
| KDuplicateField (name : string)
| KMissingField (name : string)
| KUnsupportedShape (observed : string) (expected : option string)
| KUnknownField (name : string) (dym : option (N * string))
| KUnexpectedFormat (fmt : string)
| KUnexpectedType (ty : string)
| KUnknownValue (v : string)
| KTooFewItems (min : N)
| KTooManyItems (max : N).

(** [Error { kind, locations, span }].  *)
Inductive err : Type :=
| Leaf (k : kind) (locs : list string) (sp : option span)
| Multi (es : list err) (locs : list string) (sp : option span).

Definition locs_of (e : err) : list string :=
  match e with Leaf _ l _ => l | Multi _ l _ => l end.
Definition span_of (e : err) : option span :=
  match e with Leaf _ _ s => s | Multi _ _ s => s end.
Definition set_locs (l : list string) (e : err) : err :=
  match e with Leaf k _ s => Leaf k l s | Multi es _ s => Multi es l s end.
Definition set_span (s : option span) (e : err) : err :=
  match e with Leaf k l _ => Leaf k l s | Multi es l _ => Multi es l s end.
Definition is_leaf (e : err) : bool := match e with Leaf _ _ _ => true | Multi _ _ _ => false end.

(** [Error::new(kind)] *)
Definition new_err (k : kind) : err := Leaf k [] None.

(** [Error::at]: [self.locations.insert(0, location)] *)
Definition at_ (l : string) (e : err) : err := set_locs (l :: locs_of e) e.

(** [Error::with_span]: only fills an empty span. *)
Definition with_span (s : span) (e : err) : err :=
  match span_of e with
  | Some _ => e
  | None => set_span (Some s) e
  end.

(** [Error::multiple] *)
Definition multiple (es : list err) : pres err :=
  match es with
  | [] => PPanic "Can't deal with 0 errors"
  | [e] => POk e
  | _ => POk (Multi es [] None)
  end.

(** [Error::len] / [ErrorKind::len]: deep leaf count. *)
Fixpoint len (e : err) : N :=
  match e with
  | Leaf _ _ _ => 1%N
  | Multi es _ _ => sumN (map len es)
  end.

(** [Error::prepend_at] *)
Definition prepend_at (pre : list string) (e : err) : err :=
  match pre with
  | [] => e
  | _ => set_locs (pre ++ locs_of e)%list e
  end.

(** [Error::into_vec].  The code recurses on the *re-located* child
    ([error.prepend_at(locations).into_vec()]), which is not structural; the model threads the
    accumulated prefix instead.  [into_vec_fuel] below is the literal shape of the code and
    [ErrProofs.into_vec_fuel_eq] shows the two agree whenever the fuel covers the depth.

    A span-less child inherits the span of its enclosing bundle ([inh]); this is the behaviour
    after the C03 repair (see known_findings.txt: before it, the bundle's span was dropped). *)
Definition inherit_span (inh : option span) (e : err) : err :=
  match inh with
  | Some s => with_span s e
  | None => e
  end.

Fixpoint into_vec' (pre : list string) (inh : option span) (e : err) : list err :=
  match e with
  | Leaf k l s => [inherit_span inh (Leaf k (pre ++ l)%list s)]
  | Multi es l s =>
      let inh' := match s with Some _ => s | None => inh end in
      flat_map (into_vec' (pre ++ l)%list inh') es
  end.

Definition into_vec (e : err) : list err :=
  match e with
  | Leaf _ _ _ => [e]
  | Multi es l s => flat_map (into_vec' l s) es
  end.

(** [Error::flatten] *)
Definition flatten (e : err) : pres err := multiple (into_vec e).

(** [IntoIterator for Error]: one level. *)
Definition into_iter (e : err) : list err :=
  match e with
  | Multi es _ _ => es
  | Leaf _ _ _ => [e]
  end.

(** [Display for ErrorKind] *)
Definition kind_msg (k : kind) : string :=
  match k with
  | KCustom s => s
  | KDuplicateField f => "Duplicate field `" ++ f ++ "`"
  | KMissingField f => "Missing field `" ++ f ++ "`"
  | KUnsupportedShape o None => "Unsupported shape `" ++ o ++ "`"
  | KUnsupportedShape o (Some e) => "Unsupported shape `" ++ o ++ "`. Expected " ++ e ++ "."
  | KUnknownField n None => "Unknown field: `" ++ n ++ "`"
  | KUnknownField n (Some (_, d)) => "Unknown field: `" ++ n ++ "`. Did you mean `" ++ d ++ "`?"
  | KUnexpectedFormat f => "Unexpected meta-item format `" ++ f ++ "`"
  | KUnexpectedType t => "Unexpected type `" ++ t ++ "`"
  | KUnknownValue v => "Unknown literal value `" ++ v ++ "`"
  | KTooFewItems n => "Too few items: Expected at least " ++ N_to_string n
  | KTooManyItems n => "Too many items: Expected no more than " ++ N_to_string n
  end.

Definition locs_suffix (l : list string) : string :=
  match l with
  | [] => ""
  | _ => " at " ++ join "/" l
  end.

(** [Display for Error]; [body_msg] is [Display for ErrorKind] lifted to bundles. *)
Fixpoint display (e : err) : string :=
  match e with
  | Leaf k l _ => kind_msg k ++ locs_suffix l
  | Multi es l _ =>
      (match es with
       | [x] => display x
       | _ => "Multiple errors: (" ++ join ", " (map display es) ++ ")"
       end) ++ locs_suffix l
  end.

Definition body_msg (e : err) : string :=
  match e with
  | Leaf k _ _ => kind_msg k
  | Multi es _ _ =>
      match es with
      | [x] => display x
      | _ => "Multiple errors: (" ++ join ", " (map display es) ++ ")"
      end
  end.

(** One compiler diagnostic: [None] = reported at the macro call site. *)
Definition diag := (option span * string)%type.

(** The [e.len() == 1] branch of [From<Error> for syn::Error]. *)
Definition single_diag (e : err) : diag :=
  match span_of e with
  | Some s => (Some s, body_msg e)
  | None => (None, display e)
  end.

(** [From<Error> for syn::Error] followed by iteration over the combined error, equivalently
    the [compile_error!] invocations of [write_errors]. *)
Definition to_syn (e : err) : pres (list diag) :=
  if N.eqb (len e) 1 then POk [single_diag e]
  else match flatten e with
       | POk f => POk (map single_diag (into_iter f))
       | PPanic m => PPanic m
       end.

(** [From<syn::Error> for Error] *)
Definition from_syn (s : span) (msg : string) : err := Leaf (KCustom msg) [] (Some s).

(** ** Suggestions (kind.rs [did_you_mean], [add_alts]; mod.rs [add_sibling_alts_for_unknown_field]) *)
Section Suggest.
  (** [sugg]: the [suggestions] cargo feature.  [sim a b]: bit pattern of [strsim::jaro_winkler a b]. *)
  Variable sugg : bool.
  Variable sim : string -> string -> N.

  (** [0.8_f64.to_bits()] *)
  Definition threshold : N := 4605380978949069210%N.

  Fixpoint dym_loop (field : string) (alts : list string) (cand : option (N * string))
    : option (N * string) :=
    match alts with
    | [] => cand
    | pv :: r =>
        let c := sim field pv in
        let better := match cand with None => true | Some (c0, _) => N.ltb c0 c end in
        dym_loop field r (if (N.ltb threshold c && better)%bool then Some (c, pv) else cand)
    end.

  Definition did_you_mean (field : string) (alts : list string) : option (N * string) :=
    if sugg then dym_loop field alts None else None.

  Definition unknown_field_with_alts (field : string) (alts : list string) : err :=
    new_err (KUnknownField field (did_you_mean field alts)).

  (** [ErrorUnknownField::add_alts] *)
  Definition add_alts (name : string) (cur : option (N * string)) (alts : list string)
    : option (N * string) :=
    match did_you_mean name alts with
    | Some bna =>
        match cur with
        | Some c => if N.ltb (fst c) (fst bna) then Some bna else cur
        | None => Some bna
        end
    | None => cur
    end.

  Fixpoint add_sibling_alts (alts : list string) (e : err) : err :=
    match e with
    | Leaf k l s =>
        match l with
        | _ :: _ => e
        | [] =>
            match k with
            | KUnknownField n d => Leaf (KUnknownField n (add_alts n d alts)) l s
            | _ => e
            end
        end
    | Multi es l s =>
        match l with
        | _ :: _ => e
        | [] => Multi (map (add_sibling_alts alts) es) l s
        end
    end.
End Suggest.

(** ** Well-formedness: every bundle reachable through the public API has at least two members
    (so at least one; [multiple [e]] is [e] and [multiple []] panics). *)
Fixpoint wf (e : err) : bool :=
  match e with
  | Leaf _ _ _ => true
  | Multi es _ _ => (negb (match es with [] => true | _ => false end) && forallb wf es)%bool
  end.

(** ** Plain tree traversal used as the specification of [flatten]: the leaves left to right,
    each with the concatenated location path of all its ancestors followed by its own, and its
    own span or else the nearest spanned ancestor's. *)
Fixpoint leaves (pre : list string) (inh : option span) (e : err)
  : list (kind * list string * option span) :=
  match e with
  | Leaf k l s => [(k, (pre ++ l)%list, match s with Some _ => s | None => inh end)]
  | Multi es l s =>
      flat_map (leaves (pre ++ l)%list (match s with Some _ => s | None => inh end)) es
  end.

Definition leaf_view (e : err) : list (kind * list string * option span) :=
  match e with
  | Leaf k l s => [(k, l, s)]
  | Multi es _ _ => []
  end.

(** ** Boolean equality (for the correspondence check). *)
Definition kind_eqb (a b : kind) : bool :=
  match a, b with
  | KCustom x, KCustom y => str_eqb x y
  | KDuplicateField x, KDuplicateField y => str_eqb x y
  | KMissingField x, KMissingField y => str_eqb x y
  | KUnsupportedShape o1 e1, KUnsupportedShape o2 e2 => str_eqb o1 o2 && option_eqb str_eqb e1 e2
  | KUnknownField n1 d1, KUnknownField n2 d2 =>
      str_eqb n1 n2 && option_eqb (fun p q => N.eqb (fst p) (fst q) && str_eqb (snd p) (snd q)) d1 d2
  | KUnexpectedFormat x, KUnexpectedFormat y => str_eqb x y
  | KUnexpectedType x, KUnexpectedType y => str_eqb x y
  | KUnknownValue x, KUnknownValue y => str_eqb x y
  | KTooFewItems x, KTooFewItems y => N.eqb x y
  | KTooManyItems x, KTooManyItems y => N.eqb x y
  | _, _ => false
  end.

Fixpoint err_eqb (a b : err) : bool :=
  match a, b with
  | Leaf k1 l1 s1, Leaf k2 l2 s2 => kind_eqb k1 k2 && list_eqb str_eqb l1 l2 && ospan_eqb s1 s2
  | Multi es1 l1 s1, Multi es2 l2 s2 =>
      (fix go (x y : list err) : bool :=
         match x, y with
         | [], [] => true
         | a' :: x', b' :: y' => err_eqb a' b' && go x' y'
         | _, _ => false
         end) es1 es2
      && list_eqb str_eqb l1 l2 && ospan_eqb s1 s2
  | _, _ => false
  end.

(** ** Observation of an error value through the public API (used by the correspondence check
    and by values that hold a [darling::Result]). *)
(** One node as seen from outside:
    - [o_len]   : [Error::len()]
    - [o_disp]  : [to_string()]
    - [o_body]  : the kind's message (the part of [to_string()] before the location suffix;
                  the harness recovers it as the prefix of [e.clone().at(MARK).to_string()])
    - [o_locs]  : [None] when there is no location, else the locations joined by "/"
    - [o_span]  : [explicit_span()] as a line/column range
    - [o_kids]  : [into_iter()] one level, recursively observed ([[]] for a single error) *)
Inductive obs : Type :=
| Obs (o_len : N) (o_disp o_body : string) (o_locs : option string) (o_span : option span)
      (o_kids : list obs).

Definition locs_obs (l : list string) : option string :=
  match l with [] => None | _ => Some (join "/" l) end.

Fixpoint obs_of (e : err) : obs :=
  match e with
  | Leaf k l s => Obs 1 (display e) (kind_msg k) (locs_obs l) s []
  | Multi es l s => Obs (len e) (display e) (body_msg e) (locs_obs l) s (map obs_of es)
  end.

Fixpoint obs_eqb (with_spans : bool) (a b : obs) : bool :=
  match a, b with
  | Obs n1 d1 b1 l1 s1 k1, Obs n2 d2 b2 l2 s2 k2 =>
      N.eqb n1 n2 && str_eqb d1 d2 && str_eqb b1 b2 && option_eqb str_eqb l1 l2
      && (if with_spans then ospan_eqb s1 s2 else true)
      && (fix go (x y : list obs) : bool :=
            match x, y with
            | [], [] => true
            | a' :: x', b' :: y' => obs_eqb with_spans a' b' && go x' y'
            | _, _ => false
            end) k1 k2
  end.

