(** Err/Accum.v — model of [darling::error::Accumulator] (core/src/error/mod.rs:747-920).
    Definitions only. *)
From DarlingModel Require Export Err.ErrTree.
Local Open Scope string_scope.

(** [struct Accumulator(Option<Vec<Error>>)]: [Some l] armed, [None] defused. *)
Definition acc := option (list err).

Definition acc_default : acc := Some [].

Definition defused_msg : string := "darling internal error: Accumulator accessed after defuse".

(** [impl Drop for Accumulator].  [panicking] is [std::thread::panicking()].
    Result: [Some msg] when the drop panics. *)
Definition acc_drop (panicking : bool) (a : acc) : option string :=
  if panicking then None
  else match a with
       | None => None
       | Some [] => Some "darling::error::Accumulator dropped without being finished"
       | Some l =>
           Some ("darling::error::Accumulator dropped without being finished. "
                   ++ N_to_string (N.of_nat (List.length l)) ++ " errors were lost.")
       end.

(** [push] / [extend] through [errors()]. *)
Definition acc_extend (a : acc) (es : list err) : pres acc :=
  match a with
  | Some l => POk (Some (l ++ es)%list)
  | None => PPanic defused_msg
  end.

(** [into_inner(mut self)]: [take()]s the vector; [self] is then dropped defused (no panic). *)
Definition acc_into_inner (a : acc) : pres (list err) :=
  match a with
  | Some l => POk l
  | None => PPanic defused_msg
  end.

(** [finish_with]: [Ok(success)] iff the vector is empty, else [Err(Error::multiple(errors))]. *)
Inductive finished (V : Type) : Type :=
| FinOk (v : V)
| FinErr (e : err)
| FinPanic (msg : string).
Arguments FinOk {V} v.
Arguments FinErr {V} e.
Arguments FinPanic {V} msg.

Definition acc_finish_with {V} (a : acc) (v : V) : finished V :=
  match acc_into_inner a with
  | PPanic m => FinPanic m
  | POk [] => FinOk v
  | POk l => match multiple l with POk e => FinErr e | PPanic m => FinPanic m end
  end.

(** ** Histories.  The operations of C05's quantifier.  An operation that consumes the
    accumulator leaves the variable moved-out; the next operation then starts from a fresh
    [Error::accumulator()], so every finite sequence is a legal program. *)
Inductive acc_op : Type :=
| OpPush (e : err)
| OpHandleOk (v : N)
| OpHandleErr (e : err)
| OpHandleInOk (v : N)
| OpHandleInErr (e : err)
| OpExtend (es : list err)
| OpCheckpoint
| OpFinish
| OpFinishWith (v : N)
| OpIntoInner
| OpDrop
| OpDropUnwinding.        (* dropped while the thread is already unwinding from another panic *)

Inductive acc_out : Type :=
| AUnit                               (* push / extend returned *)
| AValue (v : option N)               (* handle / handle_in *)
| AFinished (v : option N)            (* finish: Ok(()) = None; finish_with: Ok(v) *)
| AFailed (e : err)                   (* finish / finish_with / checkpoint returned Err *)
| AVec (es : list err)                (* into_inner *)
| AFresh                              (* checkpoint returned a new accumulator *)
| AQuiet                              (* dropped without panicking *)
| APanicked (msg : string).

(** Harness-level state: [None] = the variable has been moved out of. *)
Definition hstate := option acc.

Definition live (s : hstate) : acc := match s with Some a => a | None => acc_default end.

Definition step (s : hstate) (op : acc_op) : hstate * acc_out :=
  let a := live s in
  match op with
  | OpPush e | OpHandleErr e | OpHandleInErr e =>
      match acc_extend a [e] with
      | POk a' => (Some a', match op with OpPush _ => AUnit | _ => AValue None end)
      | PPanic m => (None, APanicked m)
      end
  | OpHandleOk v | OpHandleInOk v => (Some a, AValue (Some v))
  | OpExtend es =>
      match acc_extend a es with
      | POk a' => (Some a', AUnit)
      | PPanic m => (None, APanicked m)
      end
  | OpCheckpoint =>
      match acc_finish_with a tt with
      | FinOk _ => (Some acc_default, AFresh)
      | FinErr e => (None, AFailed e)
      | FinPanic m => (None, APanicked m)
      end
  | OpFinish =>
      match acc_finish_with a tt with
      | FinOk _ => (None, AFinished None)
      | FinErr e => (None, AFailed e)
      | FinPanic m => (None, APanicked m)
      end
  | OpFinishWith v =>
      match acc_finish_with a v with
      | FinOk v' => (None, AFinished (Some v'))
      | FinErr e => (None, AFailed e)
      | FinPanic m => (None, APanicked m)
      end
  | OpIntoInner =>
      match acc_into_inner a with
      | POk l => (None, AVec l)
      | PPanic m => (None, APanicked m)
      end
  | OpDrop =>
      (None, match acc_drop false a with Some m => APanicked m | None => AQuiet end)
  | OpDropUnwinding =>
      (None, match acc_drop true a with Some m => APanicked m | None => AQuiet end)
  end.

Fixpoint run_from (s : hstate) (ops : list acc_op) : hstate * list acc_out :=
  match ops with
  | [] => (s, [])
  | op :: r =>
      let '(s1, o) := step s op in
      let '(s2, os) := run_from s1 r in
      (s2, o :: os)
  end.

Definition run_ops (ops : list acc_op) : hstate * list acc_out := run_from None ops.

(** ** Abstract specification: "a list that only grows".  [recorded cur ops]: the errors recorded
    since the accumulator in use at the end of [ops] was created. *)
Definition recorded_step (cur : list err) (op : acc_op) : list err :=
  match op with
  | OpPush e | OpHandleErr e | OpHandleInErr e => (cur ++ [e])%list
  | OpExtend es => (cur ++ es)%list
  | OpHandleOk _ | OpHandleInOk _ => cur
  | OpCheckpoint | OpFinish | OpFinishWith _ | OpIntoInner | OpDrop | OpDropUnwinding => []
  end.

Definition recorded (ops : list acc_op) : list err := fold_left recorded_step ops [].

(** What the specification says the next operation must return, given what has been recorded. *)
Definition bundle (l : list err) : err :=
  match l with
  | [e] => e
  | _ => Multi l [] None
  end.

Definition spec_out (rec : list err) (op : acc_op) : acc_out :=
  match op with
  | OpPush _ | OpExtend _ => AUnit
  | OpHandleOk v | OpHandleInOk v => AValue (Some v)
  | OpHandleErr _ | OpHandleInErr _ => AValue None
  | OpCheckpoint => match rec with [] => AFresh | _ => AFailed (bundle rec) end
  | OpFinish => match rec with [] => AFinished None | _ => AFailed (bundle rec) end
  | OpFinishWith v => match rec with [] => AFinished (Some v) | _ => AFailed (bundle rec) end
  | OpIntoInner => AVec rec
  | OpDrop =>
      APanicked (match rec with
                 | [] => "darling::error::Accumulator dropped without being finished"
                 | _ => "darling::error::Accumulator dropped without being finished. "
                          ++ N_to_string (N.of_nat (List.length rec)) ++ " errors were lost."
                 end)
  | OpDropUnwinding => AQuiet
  end.

(** The whole trace according to the specification. *)
Fixpoint spec_trace (rec : list err) (ops : list acc_op) : list acc_out :=
  match ops with
  | [] => []
  | op :: r => spec_out rec op :: spec_trace (recorded_step rec op) r
  end.
