(** Err/Builder.v — the language of "error values built through the public API":
    every interleaving of constructors, at / with_span / multiple / flatten / clone / into_iter /
    add_sibling_alts_for_unknown_field that C04 (and the algebraic half of C03, C17) quantify over. *)
From DarlingModel Require Export Err.ErrTree.
Local Open Scope string_scope.

Inductive bexpr : Type :=
| BLeaf (k : kind)                                  (* custom, duplicate_field, … *)
| BUnknownAlts (name : string) (alts : list string) (* unknown_field_with_alts *)
| BFromSyn (s : span) (msg : string)                (* From<syn::Error> *)
| BAt (l : string) (b : bexpr)
| BWithSpan (s : span) (b : bexpr)
| BMultiple (bs : list bexpr)
| BFlatten (b : bexpr)
| BIterNth (n : nat) (b : bexpr)                    (* into_iter().nth(n) *)
| BClone (b : bexpr)
| BAddAlts (alts : list string) (b : bexpr).        (* add_sibling_alts_for_unknown_field *)

Inductive bres : Type :=
| BOk (e : err)
| BPanic (msg : string)
| BAbsent.                                           (* into_iter().nth(n) returned None *)

Definition of_pres (p : pres err) : bres :=
  match p with POk e => BOk e | PPanic m => BPanic m end.

Section Eval.
  Variable sugg : bool.
  Variable sim : string -> string -> N.

  Fixpoint eval (b : bexpr) : bres :=
    match b with
    | BLeaf k => BOk (new_err k)
    | BUnknownAlts n alts => BOk (unknown_field_with_alts sugg sim n alts)
    | BFromSyn s m => BOk (from_syn s m)
    | BAt l b' => match eval b' with BOk e => BOk (at_ l e) | r => r end
    | BWithSpan s b' => match eval b' with BOk e => BOk (with_span s e) | r => r end
    | BMultiple bs =>
        (* arguments are evaluated left to right; the first panic / absence wins *)
        (fix go (l : list bexpr) (acc : list err) : bres :=
           match l with
           | [] => of_pres (multiple (rev acc))
           | x :: r => match eval x with BOk e => go r (e :: acc) | o => o end
           end) bs []
    | BFlatten b' => match eval b' with BOk e => of_pres (flatten e) | r => r end
    | BIterNth n b' =>
        match eval b' with
        | BOk e => match nth_error (into_iter e) n with Some x => BOk x | None => BAbsent end
        | r => r
        end
    | BClone b' => eval b'
    | BAddAlts alts b' =>
        match eval b' with BOk e => BOk (add_sibling_alts sugg sim alts e) | r => r end
    end.
End Eval.
