(** Err/AccumProofs.v — the accumulator refines "a list that only grows". *)
From DarlingModel Require Import Err.ErrTree Err.Accum.
Local Open Scope list_scope.

Lemma multiple_bundle (l : list err) : l <> [] -> multiple l = POk (bundle l).
Proof. destruct l as [|x [|y r]]; intros H; [congruence|reflexivity|reflexivity]. Qed.

Lemma finish_with_spec {V} (rec : list err) (v : V) :
  acc_finish_with (Some rec) v = match rec with [] => FinOk v | _ => FinErr (bundle rec) end.
Proof. destruct rec as [|x [|y r]]; reflexivity. Qed.

Lemma step_refines (s : hstate) (rec : list err) (op : acc_op) :
  live s = Some rec ->
  snd (step s op) = spec_out rec op /\ live (fst (step s op)) = Some (recorded_step rec op).
Proof.
  intros L. unfold step. rewrite L.
  destruct op; cbn [acc_extend acc_into_inner acc_drop fst snd live recorded_step spec_out];
    try (split; reflexivity);
    try (rewrite finish_with_spec; destruct rec as [|x [|y r]]; split; reflexivity).
  - destruct rec as [|x r]; split; reflexivity.
Qed.

Lemma run_refines (ops : list acc_op) : forall (s : hstate) (rec : list err),
  live s = Some rec ->
  snd (run_from s ops) = spec_trace rec ops
  /\ live (fst (run_from s ops)) = Some (fold_left recorded_step ops rec).
Proof.
  induction ops as [|op r IH]; intros s rec L; cbn [run_from spec_trace fold_left].
  - split; [reflexivity|exact L].
  - destruct (step_refines s rec op L) as [Ho Hs].
    destruct (step s op) as [s1 o] eqn:E. cbn [fst snd] in Ho, Hs.
    destruct (IH s1 _ Hs) as [Ht Hl].
    destruct (run_from s1 r) as [s2 os] eqn:E2. cbn [fst snd] in *.
    split; [now rewrite Ho, Ht | exact Hl].
Qed.

Lemma run_ops_refines (ops : list acc_op) :
  snd (run_ops ops) = spec_trace [] ops /\ live (fst (run_ops ops)) = Some (recorded ops).
Proof. apply run_refines. reflexivity. Qed.

Lemma spec_trace_app rec a b :
  spec_trace rec (a ++ b) = spec_trace rec a ++ spec_trace (fold_left recorded_step a rec) b.
Proof.
  revert rec; induction a as [|op r IH]; intros rec; cbn; [reflexivity|]. now rewrite IH.
Qed.

(** The outcome of the operation that follows a history. *)
Lemma next_outcome (ops : list acc_op) (op : acc_op) :
  snd (run_ops (ops ++ [op])) = spec_trace [] ops ++ [spec_out (recorded ops) op].
Proof.
  destruct (run_ops_refines (ops ++ [op])) as [H _]. rewrite H, spec_trace_app. reflexivity.
Qed.

(** Nothing recorded is ever lost: the recorded list only grows between two consuming
    operations. *)
Definition consuming (op : acc_op) : bool :=
  match op with
  | OpCheckpoint | OpFinish | OpFinishWith _ | OpIntoInner | OpDrop | OpDropUnwinding => true
  | _ => false
  end.

Lemma recorded_grows rec ops :
  forallb (fun op => negb (consuming op)) ops = true ->
  exists more, fold_left recorded_step ops rec = rec ++ more.
Proof.
  revert rec; induction ops as [|op r IH]; intros rec H; cbn [fold_left].
  - exists []. now rewrite app_nil_r.
  - cbn in H. apply andb_true_iff in H as [Hop Hr].
    destruct (IH (recorded_step rec op) Hr) as [more Hm]. rewrite Hm.
    destruct op; cbn in Hop; try discriminate; cbn [recorded_step];
      try (exists more; reflexivity);
      try (eexists; rewrite <- app_assoc; reflexivity).
Qed.

(** No history ever touches a defused accumulator, and only an explicit, non-unwinding drop
    panics. *)
Lemma spec_trace_panics rec ops m :
  In (APanicked m) (spec_trace rec ops) -> In OpDrop ops.
Proof.
  revert rec; induction ops as [|op r IH]; intros rec; cbn [spec_trace]; [intros []|].
  intros [H|H].
  - left. destruct op; cbn in H; try discriminate;
      try (destruct rec; discriminate); reflexivity.
  - right. eapply IH; eauto.
Qed.
