From DarlingModel Require Import Shape.Shape Err.ErrProofs.
Local Open Scope string_scope.

Lemma ds_to_set_contains d s : ss_contains (ds_to_set d) s = in_set d s.
Proof. destruct d as [nt nm tp un an], s, an, nt, nm, tp, un; reflexivity. Qed.

Lemma ds_to_set_empty d : ss_is_empty (ds_to_set d) = negb (some_word d).
Proof. destruct d as [nt nm tp un an]; destruct an, nt, nm, tp, un; reflexivity. Qed.

Lemma ss_check_ok x s : ss_check x s = Ok tt <-> ss_contains x s = true.
Proof. unfold ss_check. destruct (ss_contains x s); split; try reflexivity; discriminate. Qed.

Lemma variant_errors_nil x vs : variant_errors x vs = [] <-> forallb (ss_contains x) vs = true.
Proof.
  induction vs as [|v r IH]; cbn; [tauto|]. unfold ss_check. destruct (ss_contains x v); cbn.
  - exact IH.
  - split; discriminate.
Qed.

Lemma finish_errors_ok errs : finish_errors errs = Ok tt <-> errs = [].
Proof.
  destruct errs as [|a [|b r]]; cbn; split; try reflexivity; try discriminate.
Qed.

Lemma forallb_ext_in {A} (f g : A -> bool) l : (forall x, f x = g x) -> forallb f l = forallb g l.
Proof. intros H. induction l; cbn; [reflexivity|]. now rewrite H, IHl. Qed.

(** The emitted validator accepts exactly what the documented table accepts - for every
    declaration and every body (any number of variants). *)
Theorem validate_body_table d b : validate_body d b = Ok tt <-> documented_table d b = true.
Proof.
  unfold validate_body, documented_table. destruct (di_any d); cbn [orb]; [tauto|].
  destruct b as [s | vs | ].
  - rewrite ds_to_set_empty. destruct (some_word (di_struct d)) eqn:SW; cbn [negb].
    + rewrite ss_check_ok, ds_to_set_contains. tauto.
    + split; [discriminate|]. intros H. exfalso.
      destruct (di_struct d) as [nt nm tp un an]; destruct s; cbn in *;
        destruct an, nt, nm, tp, un; discriminate.
  - rewrite ds_to_set_empty. destruct (some_word (di_enum d)) eqn:SW; cbn [negb andb].
    + rewrite finish_errors_ok, variant_errors_nil.
      rewrite (forallb_ext_in _ (in_set (di_enum d))) by (intros; apply ds_to_set_contains). tauto.
    + split; discriminate.
  - split; discriminate.
Qed.

(** Never a panic, whatever the body - a union is an ordinary error. *)
Lemma variant_errors_nonempty_multiple errs : errs <> [] -> exists e, multiple errs = POk e.
Proof. intros H. destruct errs as [|a [|b r]]; [congruence| |]; cbn; eauto. Qed.

Theorem validate_body_total d b : is_panic (validate_body d b) = false.
Proof.
  unfold validate_body. destruct (di_any d); [reflexivity|].
  destruct b as [s | vs | ]; [| |reflexivity].
  - destruct (ss_is_empty _); [reflexivity|]. unfold ss_check. destruct (ss_contains _ _); reflexivity.
  - destruct (ss_is_empty _); [reflexivity|]. unfold finish_errors.
    destruct (variant_errors _ vs) as [|a [|b r]]; reflexivity.
Qed.

Theorem union_is_error d : di_any d = false -> exists e, validate_body d BUnion = Err e.
Proof. intros H. unfold validate_body. rewrite H. eauto. Qed.

(** tuple admits newtype, not the converse *)
Theorem tuple_admits_newtype :
  ss_contains (ss_new [Tuple]) Newtype = true /\ ss_contains (ss_new [Newtype]) Tuple = false.
Proof. split; reflexivity. Qed.

(** one error per non-conforming variant *)
Definition bad_variants (x : shape_set) (vs : list shape) : N :=
  N.of_nat (List.length (filter (fun v => negb (ss_contains x v)) vs)).

Lemma variant_errors_count x vs :
  sumN (map len (variant_errors x vs)) = bad_variants x vs
  /\ List.length (variant_errors x vs) = N.to_nat (bad_variants x vs).
Proof.
  unfold bad_variants, variant_errors. induction vs as [|v r [IH1 IH2]]; [split; reflexivity|].
  cbn [flat_map filter]. unfold ss_check at 1 3. destruct (ss_contains x v); cbn [negb app map List.length].
  - split; assumption.
  - unfold sumN in *. cbn [fold_right len new_err]. rewrite IH1, IH2. split; lia.
Qed.

Lemma len_bundle_list errs e : multiple errs = POk e -> len e = sumN (map len errs).
Proof.
  destruct errs as [|a [|b r]]; cbn; try discriminate; intros [= <-].
  - unfold sumN. cbn. lia.
  - reflexivity.
Qed.

Theorem one_error_per_bad_variant d vs e :
  di_any d = false -> some_word (di_enum d) = true ->
  validate_body d (BEnum vs) = Err e -> len e = bad_variants (ds_to_set (di_enum d)) vs.
Proof.
  intros A SW. unfold validate_body. rewrite A, ds_to_set_empty, SW. cbn [negb]. unfold finish_errors.
  destruct (variant_errors_count (ds_to_set (di_enum d)) vs) as [C _].
  destruct (variant_errors (ds_to_set (di_enum d)) vs) as [|a r] eqn:E; [discriminate|].
  destruct (multiple (a :: r)) as [e0|m] eqn:M; [|discriminate]. intros [= <-].
  rewrite (len_bundle_list _ _ M). exact C.
Qed.

(** words are additive: adding a word never removes an accepted body *)
Lemma ds_set_monotone w d s : in_set d s = true -> in_set (ds_set w d) s = true.
Proof.
  destruct d as [nt nm tp un an], w, s; cbn; intros H; rewrite ?H, ?orb_true_r; try reflexivity;
    destruct an, nt, nm, tp, un; cbn in *; try reflexivity; try discriminate.
Qed.

Lemma some_word_monotone w d : some_word d = true -> some_word (ds_set w d) = true.
Proof. destruct d as [nt nm tp un an], w; cbn; destruct an, nt, nm, tp, un; cbn; intros; auto. Qed.

Theorem words_additive w d b : documented_table d b = true -> documented_table (di_set w d) b = true.
Proof.
  unfold documented_table. destruct w as [|sw|sw]; cbn [di_set di_any di_enum di_struct].
  - reflexivity.
  - destruct (di_any d); [reflexivity|]. cbn [orb]. destruct b; auto. apply ds_set_monotone.
  - destruct (di_any d); [reflexivity|]. cbn [orb]. destruct b as [s|vs|]; auto.
    intros H. apply andb_true_iff in H as [S F]. apply andb_true_iff. split.
    + now apply some_word_monotone.
    + rewrite forallb_forall in *. intros x Hx. apply ds_set_monotone. now apply F.
Qed.

(** struct words never accept an enum and vice versa *)
Theorem struct_words_reject_enums d vs :
  di_any d = false -> some_word (di_enum d) = false -> documented_table d (BEnum vs) = false.
Proof. intros A S. unfold documented_table. now rewrite A, S. Qed.

Theorem enum_words_reject_structs d s :
  di_any d = false -> some_word (di_struct d) = false -> documented_table d (BStruct s) = false.
Proof.
  intros A S. unfold documented_table. rewrite A. cbn.
  destruct (di_struct d) as [nt nm tp un an]; destruct s; cbn in *; destruct an, nt, nm, tp, un; auto; discriminate.
Qed.
