(** Shape/Shape.v — shape validation: util/shape.rs ([Shape], [ShapeSet]) and options/shape.rs
    ([DataShape], [DeriveInputShapeSet] and the [__validate_body] it emits). *)
From DarlingModel Require Export Base.Syntax.
Local Open Scope string_scope.

Inductive shape : Type := Named | Tuple | Unit | Newtype.

Definition shape_description (s : shape) : string :=
  match s with
  | Named => "named fields" | Tuple => "unnamed fields" | Unit => "no fields"
  | Newtype => "one unnamed field"
  end.

(** [ShapeSet { newtype, named, tuple, unit }] *)
Record shape_set : Type := mkSS { ss_newtype : bool; ss_named : bool; ss_tuple : bool; ss_unit : bool }.

Definition ss_empty : shape_set := mkSS false false false false.

Definition ss_insert (s : shape) (x : shape_set) : shape_set :=
  match s with
  | Named => mkSS (ss_newtype x) true (ss_tuple x) (ss_unit x)
  | Tuple => mkSS (ss_newtype x) (ss_named x) true (ss_unit x)
  | Unit => mkSS (ss_newtype x) (ss_named x) (ss_tuple x) true
  | Newtype => mkSS true (ss_named x) (ss_tuple x) (ss_unit x)
  end.

(** [ShapeSet::new] / [FromIterator] *)
Definition ss_new (l : list shape) : shape_set := fold_left (fun x s => ss_insert s x) l ss_empty.

Definition ss_is_empty (x : shape_set) : bool :=
  negb (ss_named x) && negb (ss_newtype x) && negb (ss_tuple x) && negb (ss_unit x).

(** [contains_shape]: a tuple word also admits newtypes. *)
Definition ss_contains (x : shape_set) (s : shape) : bool :=
  match s with
  | Named => ss_named x
  | Tuple => ss_tuple x
  | Unit => ss_unit x
  | Newtype => ss_newtype x || ss_tuple x
  end.

Definition ss_to_vec (x : shape_set) : list shape :=
  ((if ss_named x then [Named] else [])
     ++ (if (ss_tuple x || ss_newtype x)%bool then [if ss_tuple x then Tuple else Newtype] else [])
     ++ (if ss_unit x then [Unit] else []))%list.

(** [Display for ShapeSet] *)
Definition ss_display (x : shape_set) : string :=
  match map shape_description (ss_to_vec x) with
  | [] => "nothing"
  | [a] => a
  | [a; b] => a ++ " or " ++ b
  | [a; b; c] => a ++ ", " ++ b ++ ", or " ++ c
  | _ => "<unreachable>"
  end.

(** [ShapeSet::check] *)
Definition ss_check (x : shape_set) (s : shape) : res unit :=
  if ss_contains x s then Ok tt
  else Err (new_err (KUnsupportedShape (shape_description s) (Some (ss_display x)))).

(** [DataShape] (options/shape.rs) and the [ShapeSet] its [ToTokens] constructs. *)
Record data_shape : Type := mkDS {
  ds_newtype : bool; ds_named : bool; ds_tuple : bool; ds_unit : bool; ds_any : bool }.

Definition ds_empty : data_shape := mkDS false false false false false.

Definition ds_to_set (d : data_shape) : shape_set :=
  mkSS (ds_any d || ds_newtype d) (ds_any d || ds_named d) (ds_any d || ds_tuple d)
       (ds_any d || ds_unit d).

(** [DeriveInputShapeSet] *)
Record di_shape_set : Type := mkDI { di_enum : data_shape; di_struct : data_shape; di_any : bool }.

(** The body of the element being validated. *)
Inductive body : Type :=
| BStruct (s : shape)
| BEnum (variants : list shape)
| BUnion.

(** [accumulator.handle(check(variant))] over the variants, then [finish()]. *)
Definition variant_errors (x : shape_set) (vs : list shape) : list err :=
  flat_map (fun v => match ss_check x v with Err e => [e] | _ => [] end) vs.

Definition finish_errors (errs : list err) : res unit :=
  match errs with
  | [] => Ok tt
  | _ => match multiple errs with POk e => Err e | PPanic m => Panic m end
  end.

(** The emitted [__validate_body].  A union is reported like any other unsupported body (after
    the C18 repair; before it this arm was [unreachable!()]). *)
Definition validate_body (d : di_shape_set) (b : body) : res unit :=
  if di_any d then Ok tt
  else
    let st := ds_to_set (di_struct d) in
    let en := ds_to_set (di_enum d) in
    match b with
    | BEnum vs =>
        if ss_is_empty en
        then Err (new_err (KUnsupportedShape "enum" (Some ("struct with " ++ ss_display st))))
        else finish_errors (variant_errors en vs)
    | BStruct s =>
        if ss_is_empty st
        then Err (new_err (KUnsupportedShape "struct" (Some ("enum with " ++ ss_display en))))
        else ss_check st s
    | BUnion => Err (new_err (KUnsupportedShape "union" None))
    end.

(** ** The documented table, written declaratively. *)
Definition in_set (d : data_shape) (s : shape) : bool :=
  ds_any d ||
  match s with
  | Named => ds_named d
  | Tuple => ds_tuple d
  | Unit => ds_unit d
  | Newtype => ds_newtype d || ds_tuple d      (* a tuple word also admits newtypes *)
  end.

Definition some_word (d : data_shape) : bool :=
  ds_any d || ds_named d || ds_tuple d || ds_unit d || ds_newtype d.

Definition documented_table (d : di_shape_set) (b : body) : bool :=
  di_any d ||
  match b with
  | BStruct s => in_set (di_struct d) s
  | BEnum vs => some_word (di_enum d) && forallb (in_set (di_enum d)) vs
  | BUnion => false
  end.

(** ** Words (derive time).  The eleven words as a declaration. *)
Inductive word : Type :=
| WAny
| WStruct (w : shape_word)
| WEnum (w : shape_word)
with shape_word : Type := SWAny | SWNamed | SWTuple | SWUnit | SWNewtype.

Definition ds_set (w : shape_word) (d : data_shape) : data_shape :=
  match w with
  | SWAny => mkDS (ds_newtype d) (ds_named d) (ds_tuple d) (ds_unit d) true
  | SWNamed => mkDS (ds_newtype d) true (ds_tuple d) (ds_unit d) (ds_any d)
  | SWTuple => mkDS (ds_newtype d) (ds_named d) true (ds_unit d) (ds_any d)
  | SWUnit => mkDS (ds_newtype d) (ds_named d) (ds_tuple d) true (ds_any d)
  | SWNewtype => mkDS true (ds_named d) (ds_tuple d) (ds_unit d) (ds_any d)
  end.

Definition di_set (w : word) (d : di_shape_set) : di_shape_set :=
  match w with
  | WAny => mkDI (di_enum d) (di_struct d) true
  | WStruct s => mkDI (di_enum d) (ds_set s (di_struct d)) (di_any d)
  | WEnum s => mkDI (ds_set s (di_enum d)) (di_struct d) (di_any d)
  end.

Definition di_of_words (ws : list word) : di_shape_set :=
  fold_left (fun d w => di_set w d) ws (mkDI ds_empty ds_empty false).
