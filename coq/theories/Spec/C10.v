(** Spec/C10.v — "well-formed declaration", read from the property text: an order-free predicate
    over the SETS of options written on each element (counts, not a pass with state). *)
From DarlingModel Require Import Options.Resolve.
Local Open Scope string_scope.

Section Spec10.
  Variable reparse : grammar -> string -> option string.
  Variable reparse_preds : string -> option (list string).

  Notation conv := (conv reparse reparse_preds).

  (** the option items of one element: every attribute must be a list of meta items (a bare
      [#[darling]] is an empty list); [None] when some attribute is not *)
  Definition attr_items (a : nested) : option (list nested) :=
    match a with
    | NPath _ _ => Some []
    | NList _ _ _ items => if forallb is_meta items then Some items else None
    | _ => None
    end.

  Fixpoint all_items (attrs : list nested) : option (list nested) :=
    match attrs with
    | [] => Some []
    | a :: r =>
        match attr_items a, all_items r with
        | Some x, Some y => Some (x ++ y)%list
        | _, _ => None
        end
    end.

  Definition count (name : string) (items : list nested) : nat :=
    List.length (filter (fun mi => mpath_is mi name) items).
  Definition known_only (names : list string) (items : list nested) : bool :=
    forallb (fun mi => existsb (mpath_is mi) names) items.
  Definition at_most_once (names : list string) (items : list nested) : bool :=
    forallb (fun n => Nat.leb (count n items) 1) names.
  Definition val_is (t : target) (b : bool) (mi : nested) : bool :=
    match conv t mi with Ok v => match as_bool v with Some x => Bool.eqb x b | None => false end | _ => false end.

  (** ** one field *)
  Definition field_value_ok (mi : nested) : bool :=
    if mpath_is mi "rename" then is_ok (conv (TOption TString) mi)
    else if mpath_is mi "default" then is_ok (conv_default reparse mi)
    else if mpath_is mi "with" then is_ok (conv TCallable mi)
    else if (mpath_is mi "map" || mpath_is mi "and_then")%bool then is_ok (conv TPath mi)
    else if mpath_is mi "skip" then is_ok (conv (TOption (TSpanned TBool)) mi)
    else if mpath_is mi "multiple" then is_ok (conv (TOption TBool) mi)
    else if mpath_is mi "flatten" then is_ok (conv TFlag mi)
    else true.

  Definition field_wf (attrs : list nested) : bool :=
    match all_items attrs with
    | None => false
    | Some items =>
        known_only ["rename"; "default"; "with"; "skip"; "map"; "and_then"; "multiple"; "flatten"] items
        && at_most_once ["rename"; "default"; "with"; "skip"; "multiple"; "flatten"] items
        && Nat.leb (count "map" items + count "and_then" items) 1          (* map with and_then, or either twice *)
        && forallb field_value_ok items
        && (Nat.eqb (count "flatten" items) 0
            || (Nat.eqb (count "rename" items) 0 && Nat.eqb (count "with" items) 0
                && negb (existsb (fun mi => mpath_is mi "skip" && val_is (TOption (TSpanned TBool)) true mi) items)
                && negb (existsb (fun mi => mpath_is mi "multiple" && val_is (TOption TBool) true mi) items)))
    end.

  Definition is_flatten_field (attrs : list nested) : bool :=
    match all_items attrs with Some items => Nat.ltb 0 (count "flatten" items) | None => false end.

  (** ** one variant (FromMeta enums) *)
  Definition variant_value_ok (mi : nested) : bool :=
    if mpath_is mi "rename" then is_ok (conv (TOption TString) mi)
    else if mpath_is mi "skip" then is_ok (conv (TOption TBool) mi)
    else if mpath_is mi "word" then is_ok (conv (TOption (TSpanned TBool)) mi)
    else true.

  Definition variant_skipped (rv : rvariant) : bool :=
    match all_items (rv_attrs rv) with
    | Some items => existsb (fun mi => mpath_is mi "skip" && val_is (TOption TBool) true mi) items
    | None => false
    end.
  (** a word variant is one that says `word` / `word = true`; `word = false` opts out *)
  Definition variant_has_word (rv : rvariant) : bool :=
    match all_items (rv_attrs rv) with
    | Some items => existsb (fun mi => mpath_is mi "word" && val_is (TOption (TSpanned TBool)) true mi) items
    | None => false
    end.

  Definition variant_wf (rv : rvariant) : bool :=
    match all_items (rv_attrs rv) with
    | None => false
    | Some items =>
        known_only ["rename"; "skip"; "word"] items
        && at_most_once ["rename"; "skip"; "word"] items
        && forallb variant_value_ok items
        && (Nat.eqb (count "word" items) 0 || match rv_style rv with StUnit => true | _ => false end)
        && forallb (fun rf => field_wf (rf_attrs rf)) (rv_fields rv)
        && Nat.leb (List.length (filter (fun rf => is_flatten_field (rf_attrs rf)) (rv_fields rv))) 1      (* more than one flatten field *)
        && (match rv_style rv with
            | StTuple => Nat.eqb (List.length (rv_fields rv)) 1 || variant_skipped rv
            | _ => true
            end)
    end.

  (** ** the container *)
  Definition core_names : list string := ["default"; "rename_all"; "map"; "and_then"; "bound"; "allow_unknown_fields"].
  Definition outer_names : list string := ["attributes"; "forward_attrs"; "from_ident"].
  Definition container_names (t : dtrait) : list string :=
    match t with
    | DFromMeta => "from_word" :: "from_none" :: core_names
    | DFromDeriveInput | DFromVariant => "supports" :: (outer_names ++ core_names)%list
    | _ => (outer_names ++ core_names)%list
    end.

  Definition container_value_ok (t : dtrait) (mi : nested) : bool :=
    if mpath_is mi "default" then is_ok (conv_default reparse mi)
    else if mpath_is mi "rename_all" then is_ok (from_meta rename_rule_fm mi)
    else if (mpath_is mi "map" || mpath_is mi "and_then")%bool then is_ok (conv TPath mi)
    else if (mpath_is mi "from_word" || mpath_is mi "from_none")%bool then is_ok (conv TCallable mi)
    else if mpath_is mi "bound" then is_ok (conv (TOption TWherePreds) mi)
    else if mpath_is mi "allow_unknown_fields" then is_ok (conv (TOption TBool) mi)
    else if mpath_is mi "attributes" then is_ok (conv TPathList mi)
    else if mpath_is mi "forward_attrs" then
      match mi with
      | NPath _ _ => true
      | NList _ _ _ items => is_ok (from_list pathlist_fm items)
      | _ => false
      end
    else if mpath_is mi "supports" then
      match t with
      | DFromDeriveInput => is_ok (conv_supports_di mi)
      | _ => is_ok (conv_supports_v mi)
      end
    else true.

  Definition container_wf (t : dtrait) (attrs : list nested) : bool :=
    match all_items attrs with
    | None => false
    | Some items =>
        known_only (container_names t) items
        && at_most_once ["default"; "allow_unknown_fields"; "from_word"; "from_none"] items
        && Nat.leb (count "map" items + count "and_then" items) 1
        && forallb (container_value_ok t) items
    end.

  Definition has_option (name : string) (attrs : list nested) : bool :=
    match all_items attrs with Some items => Nat.ltb 0 (count name items) | None => false end.

  (** magic fields are recognised by name; only [attrs] and [data] read their options ([with]) *)
  Definition is_magic (t : dtrait) (rf : rfield) : bool :=
    match rf_ident rf with
    | Some n => existsb (str_eqb n) (magic_fields t)
    | None => false
    end.
  Definition reads_options (t : dtrait) (rf : rfield) : bool :=
    match rf_ident rf with
    | Some n => str_eqb n "attrs" || (str_eqb n "data" && match t with DFromDeriveInput => true | _ => false end)
    | None => false
    end.
  Definition magic_wf (t : dtrait) (rf : rfield) : bool :=
    if reads_options t rf then
      match all_items (rf_attrs rf) with
      | None => false
      | Some items =>
          known_only ["with"] items && Nat.leb (count "with" items) 1
          && forallb (fun mi => is_ok (conv (TOption TPath) mi)) items
      end
    else true.

  Definition well_formed_10 (t : dtrait) (d : rdecl) : bool :=
    match rd_body d with
    | RUnion => false
    | RStruct style rfs _ =>
        container_wf t (rd_attrs d)
        && forallb (fun rf => if is_magic t rf then magic_wf t rf else field_wf (rf_attrs rf)) rfs
        && (match style with                                                           (* a body the trait can represent *)
            | StTuple =>
                Nat.eqb (List.length rfs) 1
                && match t with DFromField | DFromVariant | DFromTypeParam => false | _ => true end   (* no delegating newtype form *)
            | _ => true
            end)
        && Nat.leb (List.length (filter (fun rf => negb (is_magic t rf) && is_flatten_field (rf_attrs rf)) rfs)) 1
        && (if is_outer t then
              (* an attrs field needs forward_attrs *)
              (negb (existsb (fun rf => match rf_ident rf with Some n => str_eqb n "attrs" | None => false end) rfs)
               || has_option "forward_attrs" (rd_attrs d))
              (* FromAttributes needs attributes(..) unless it is a newtype *)
              && (match t with
                  | DFromAttributes =>
                      match style, rfs with
                      | StTuple, [_] => true
                      | _, _ =>
                          match all_items (rd_attrs d) with
                          | Some items =>
                              (* the last attributes(..) wins and must be non-empty *)
                              match rev (filter (fun mi => mpath_is mi "attributes") items) with
                              | NList _ _ _ (_ :: _) :: _ => true
                              | _ => false
                              end
                          | None => false
                          end
                      end
                  | _ => true
                  end)
            else
              (* from_word on a unit or newtype struct *)
              negb (has_option "from_word" (rd_attrs d)
                    && match style, rfs with StUnit, _ => true | StTuple, [_] => true | _, _ => false end))
    | REnum rvs =>
        if is_outer t then false                                        (* an enum for an element-level trait *)
        else
          container_wf t (rd_attrs d)
          && forallb variant_wf rvs
          && Nat.leb (List.length (filter variant_has_word rvs)) 1       (* more than one word variant *)
          && negb (has_option "from_word" (rd_attrs d) && existsb variant_has_word rvs)
    end.
End Spec10.
