(** Spec/C01.v — the declared field mapping, written per FIELD (comprehensions over the input), not
    per item: no pass, no seen-flags, no accumulator, no error values.  [expected t m = Some v]:
    [m] is a mistake-free input for [t] and [v] is the value the declaration denotes.
    [mistakes t m]: how many mistakes the input contains (C02), by the same comprehension. *)
From DarlingModel Require Import Run.Recv.
Local Open Scope string_scope.

Section Spec.
  Variable pf : bool -> string -> option N.
  Variable reparse : grammar -> string -> option string.
  Variable reparse_arr : string -> option expr.
  Variable reparse_preds : string -> option (list string).
  Variable interp_with : fnid -> nested -> res value.
  Variable interp_fn : fnid -> value -> res value.

  Notation leaf := (leaf_fm pf reparse reparse_arr reparse_preds).

  Definition item_name (m : nested) : string :=
    match meta_path m with Some p => path_to_string p | None => "" end.

  Definition post_of (p : option (bool * fnid)) (v : value) : option value :=
    match p with
    | None => Some v
    | Some (_, f) => match interp_fn f v with Ok w => Some w | _ => None end
    end.

  Definition post_leaves (p : option (bool * fnid)) (v : value) : N :=
    match p with
    | None => 0
    | Some (_, f) => match interp_fn f v with Err e => len e | _ => 0 end
    end.

  (** first field, in declaration order, addressed by name [n] *)
  Definition addressed_by (fs : list finfo) (n : string) : option finfo :=
    find (fun f => negb (fi_skip f || fi_flatten f) && str_eqb (fi_name f) n) fs.
  Definition is_first_named (fs : list finfo) (f : finfo) : bool :=
    match addressed_by fs (fi_name f) with Some g => str_eqb (fi_ident g) (fi_ident f) | None => false end.

  Definition is_literal (m : nested) : bool := match m with NLit _ _ => true | _ => false end.

  (** what "absent" means for a type *)
  Fixpoint absent_of (t : ty) : option value :=
    match t with
    | TLeaf tg => from_none (leaf tg)
    | TOpt _ => Some VNone
    | TBox t' => option_map VPtr (absent_of t')
    | TRes t' => option_map VResOk (absent_of t')
    | TStructR c _ | TEnumR c _ _ | TNewtypeR c _ | TUnitR c =>        (* whatever its shape, a receiver's declared from_none *)
        match ci_from_none c with
        | Some f => match interp_fn f VUnit with Ok (VSome v) => Some v | _ => None end
        | None => None
        end
    end.

  Definition default_value (cdef : option value) (f : finfo) (t : ty) : option value :=
    match fi_default f with
    | Some DxTrait => Some (if fi_multiple f then VList [] else default_of t)
    | Some (DxExplicit g) => match interp_fn g VUnit with Ok v => Some v | _ => None end
    | Some DxInherit =>
        match cdef with
        | Some (VStruct kvs) => option_map snd (find (fun kv => str_eqb (fst kv) (fi_ident f)) kvs)
        | _ => None
        end
    | None => None
    end.

  (** what a [flatten] member may be: a type whose [from_list] is the derived one *)
  Fixpoint flat_target (t : ty) : bool :=
    match t with
    | TStructR _ _ | TEnumR _ _ _ => true
    | TNewtypeR _ t' => flat_target t'
    | _ => false
    end.

  Fixpoint all_some {A} (l : list (option A)) : option (list A) :=
    match l with
    | [] => Some []
    | Some x :: r => option_map (cons x) (all_some r)
    | None :: _ => None
    end.

  (** ** the value ([expected]) and the number of mistakes ([mistakes]) by mutual structural
      recursion on the type; the per-level comprehensions are local functions *)
  Fixpoint expected (t : ty) (m : nested) {struct t} : option value :=
    let fields_value :=
      fix fields_value (all_fs : list finfo) (fs : list (finfo * ty)) (items : list nested) (cdef : option value)
                       (unclaimed : list nested) {struct fs} : option (list (string * value)) :=
        match fs with
        | [] => Some []
        | (f, ft) :: r =>
            let here :=
              if fi_skip f then default_value cdef f ft
              else if fi_flatten f then
                (* the flatten member parses the unclaimed items, in order, as a list *)
                (* (a derived struct or enum, possibly behind derived newtypes: the library's Option<T> does not take a list) *)
                if flat_target ft
                then expected ft (NList (mkInfo (0,0,0,0)%N "") (mkPath (mkInfo (0,0,0,0)%N "") false []) (mkInfo (0,0,0,0)%N "") unclaimed)
                else None
              else
                let occ := if is_first_named all_fs f then filter (fun it => str_eqb (item_name it) (fi_name f)) items else [] in
                let conv_one it :=
                  match fi_with f with
                  | Some w => match interp_with w it with Ok v => post_of (fi_post f) v | _ => None end
                  | None => match expected ft it with Some v => post_of (fi_post f) v | None => None end
                  end in
                if fi_multiple f then
                  match occ, fi_default f with
                  | [], Some _ => default_value cdef f ft
                  | _, _ => option_map VList (all_some (map conv_one occ))
                  end
                else
                  match occ with
                  | [it] => conv_one it
                  | [] => match fi_default f with
                          | Some _ => default_value cdef f ft
                          | None => absent_of ft
                          end
                  | _ => None                       (* a repeated name is a mistake *)
                  end in
            match here, fields_value all_fs r items cdef unclaimed with
            | Some v, Some kvs => Some ((fi_ident f, v) :: kvs)
            | _, _ => None
            end
        end in
    let struct_value :=
      fun (c : option cinfo) (self : ty) (fs : list (finfo * ty)) (auk : bool) (items : list nested) =>
        let all_fs := map fst fs in
        let known it := match addressed_by all_fs (item_name it) with Some _ => true | None => false end in
        let unclaimed := filter (fun it => negb (known it)) items in
        let has_flat := existsb fi_flatten all_fs in
        if existsb is_literal items then None
        else if (negb has_flat && negb auk && negb (match unclaimed with [] => true | _ => false end))%bool then None
        else
          let cdef :=
            match c with
            | Some ci =>
                match ci_default ci with
                | None => Some None
                | Some CdTrait | Some CdFromIdent => Some (Some (default_of self))
                | Some (CdExplicit g) => match interp_fn g VUnit with Ok v => Some (Some v) | _ => None end
                end
            | None => Some None
            end in
          match cdef with
          | Some cd => fields_value all_fs fs items cd unclaimed
          | None => None
          end in
    match t with
    | TLeaf tg => match from_meta (leaf tg) m with Ok v => Some v | _ => None end
    | TOpt t' => option_map VSome (expected t' m)
    | TBox t' => option_map VPtr (expected t' m)
    | TRes t' => option_map VResOk (expected t' m)         (* a mistake-free input gives Ok *)
    | TUnitR _ => match m with NPath _ _ => Some (VStruct []) | _ => None end
    | TNewtypeR c inner =>
        (* the generated from_meta of a newtype wraps the inner value; no container-level post-transform is emitted *)
        option_map (fun v => VStruct [("0", v)]) (expected inner m)
    | TStructR c fs =>
        match m with
        | NList _ _ _ items =>
            match struct_value (Some c) t fs (ci_auk c) items with
            | Some kvs => post_of (ci_post c) (VStruct kvs)
            | None => None
            end
        | NPath _ _ =>
            match ci_from_word c with
            | Some f => match interp_fn f VUnit with Ok v => Some v | _ => None end
            | None => None
            end
        | _ => None
        end
    | TEnumR c wordv vs =>
        let str_case :=
          fix str_case (l : list (vinfo * list (finfo * ty))) (s : string) : option value :=
            match l with
            | [] => None
            | (vi, fs) :: r =>
                if (negb (vi_skip vi) && str_eqb (vi_name vi) s)%bool then
                  match vi_style vi, fs with
                  | VsUnit, _ => Some (VVariant (vi_ident vi) [])
                  | VsNewtype, (_, ft) :: _ => option_map (fun v => VVariant (vi_ident vi) [("0", v)]) (absent_of ft)
                  | _, _ => None
                  end
                else str_case r s
            end in
        let list_case :=
          fix list_case (l : list (vinfo * list (finfo * ty))) (inner : nested) : option value :=
            match l with
            | [] => None
            | (vi, fs) :: r =>
                if (negb (vi_skip vi) && str_eqb (vi_name vi) (item_name inner))%bool then
                  match vi_style vi, fs with
                  | VsUnit, _ => match inner with NPath _ _ => Some (VVariant (vi_ident vi) []) | _ => None end
                  | VsNewtype, (_, ft) :: _ => option_map (fun v => VVariant (vi_ident vi) [("0", v)]) (expected ft inner)
                  | VsStruct, _ =>
                      match inner with
                      | NList _ _ _ items => option_map (VVariant (vi_ident vi)) (struct_value None t fs (vi_auk vi) items)
                      | _ => None
                      end
                  | _, _ => None
                  end
                else list_case r inner
            end in
        match m with
        | NPath _ _ =>
            match ci_from_word c, wordv with
            | Some f, _ => match interp_fn f VUnit with Ok v => Some v | _ => None end
            | None, Some vid => Some (VVariant vid [])
            | None, None => None
            end
        | NNameValue _ _ e =>
            match strip_groups e with
            | ELit _ (LStr s) => str_case vs s
            | _ => None
            end
        | NList _ _ _ [inner] => if is_literal inner then None else list_case vs inner
        | _ => None
        end
    end.

  (** ** the number of mistakes in an input (C02): the same comprehension, counting *)
  Definition count_if (b : bool) : N := if b then 1%N else 0%N.

  Fixpoint mistakes (t : ty) (m : nested) {struct t} : N :=
    let fields_mistakes :=
      fix fields_mistakes (all_fs : list finfo) (fs : list (finfo * ty)) (items : list nested)
                          (unclaimed : list nested) {struct fs} : N :=
        match fs with
        | [] => 0%N
        | (f, ft) :: r =>
            let here :=
              if fi_skip f then 0%N
              else if fi_flatten f then
                mistakes ft (NList (mkInfo (0,0,0,0)%N "") (mkPath (mkInfo (0,0,0,0)%N "") false []) (mkInfo (0,0,0,0)%N "") unclaimed)
              else
                let occ := if is_first_named all_fs f then filter (fun it => str_eqb (item_name it) (fi_name f)) items else [] in
                let conv_one it :=
                  match fi_with f with
                  | Some w => match interp_with w it with
                              | Err e => len e
                              | Ok v => post_leaves (fi_post f) v
                              | Panic _ => 0%N
                              end
                  | None =>
                      let k := mistakes ft it in
                      if N.eqb k 0 then
                        match expected ft it with Some v => post_leaves (fi_post f) v | None => 0%N end
                      else k
                  end in
                if fi_multiple f then sumN (map conv_one occ)
                else
                  match occ with
                  | [] => match fi_default f, absent_of ft with
                          | None, None => 1%N              (* a required item is absent *)
                          | _, _ => 0%N
                          end
                  | it :: rest => (conv_one it + N.of_nat (List.length rest))%N    (* every repeat is a mistake *)
                  end in
            (here + fields_mistakes all_fs r items unclaimed)%N
        end in
    let struct_mistakes :=
      fun (fs : list (finfo * ty)) (auk : bool) (items : list nested) =>
        let all_fs := map fst fs in
        let metas := filter (fun it => negb (is_literal it)) items in
        let known it := match addressed_by all_fs (item_name it) with Some _ => true | None => false end in
        let unclaimed := filter (fun it => negb (known it)) metas in
        let has_flat := existsb fi_flatten all_fs in
        (N.of_nat (List.length (filter is_literal items))
         + (if (has_flat || auk)%bool then 0 else N.of_nat (List.length unclaimed))
         + fields_mistakes all_fs fs metas unclaimed)%N in
    let form_error := 1%N in
    match t with
    | TLeaf tg => match from_meta (leaf tg) m with Err e => len e | _ => 0%N end
    | TOpt t' | TBox t' => mistakes t' m
    | TRes _ => 0%N
    | TUnitR _ => match m with NPath _ _ => 0%N | _ => form_error end
    | TNewtypeR c inner => mistakes inner m
    | TStructR c fs =>
        match m with
        | NList _ _ _ items =>
            let k := struct_mistakes fs (ci_auk c) items in
            if N.eqb k 0 then
              match expected (TStructR (mkCI (ci_name c) (ci_default c) None (ci_auk c) (ci_from_word c) (ci_from_none c)) fs) m with
              | Some v => post_leaves (ci_post c) v
              | None => 0%N
              end
            else k
        | NPath _ _ =>
            match ci_from_word c with
            | Some f => match interp_fn f VUnit with Err e => len e | _ => 0%N end
            | None => form_error
            end
        | _ => form_error
        end
    | TEnumR c wordv vs =>
        let str_case :=
          fix str_case (l : list (vinfo * list (finfo * ty))) (s : string) : N :=
            match l with
            | [] => 1%N                                            (* no such variant *)
            | (vi, fs) :: r =>
                if (negb (vi_skip vi) && str_eqb (vi_name vi) s)%bool then
                  match vi_style vi, fs with
                  | VsUnit, _ => 0%N
                  | VsNewtype, (_, ft) :: _ => match absent_of ft with Some _ => 0%N | None => 1%N end
                  | _, _ => 1%N
                  end
                else str_case r s
            end in
        let list_case :=
          fix list_case (l : list (vinfo * list (finfo * ty))) (inner : nested) : N :=
            match l with
            | [] => 1%N
            | (vi, fs) :: r =>
                if (negb (vi_skip vi) && str_eqb (vi_name vi) (item_name inner))%bool then
                  match vi_style vi, fs with
                  | VsUnit, _ => match inner with NPath _ _ => 0%N | _ => 1%N end
                  | VsNewtype, (_, ft) :: _ => mistakes ft inner
                  | VsStruct, _ =>
                      match inner with
                      | NList _ _ _ items => struct_mistakes fs (vi_auk vi) items
                      | _ => 1%N
                      end
                  | _, _ => 1%N
                  end
                else list_case r inner
            end in
        match m with
        | NPath _ _ =>
            match ci_from_word c, wordv with
            | Some f, _ => match interp_fn f VUnit with Err e => len e | _ => 0%N end
            | None, Some _ => 0%N
            | None, None => form_error
            end
        | NNameValue _ _ e =>
            match strip_groups e with
            | ELit _ (LStr s) => str_case vs s
            | _ => form_error
            end
        | NList _ _ _ [inner] => if is_literal inner then 1%N else list_case vs inner
        | _ => form_error                                           (* no item, several items, malformed list *)
        end
    end.
End Spec.
