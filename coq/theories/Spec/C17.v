(** Spec/C17.v — what a did-you-mean suggestion must be, written as an argmax over the candidate
    list (no running update, no accumulator): the first candidate of maximal similarity among
    those strictly above the threshold.  No reference to the model's loop. *)
From DarlingModel Require Import Err.ErrTree.
Local Open Scope string_scope.

Section Spec.
  Variable sim : string -> string -> N.

  Definition above (u : string) (cands : list string) : list string :=
    filter (fun c => N.ltb threshold (sim u c)) cands.

  Definition best_score (u : string) (cands : list string) : N :=
    fold_right N.max 0%N (map (sim u) (above u cands)).

  Definition best_match (u : string) (cands : list string) : option string :=
    find (fun c => N.eqb (sim u c) (best_score u cands)) (above u cands).

  (** the suggestion with its score, as the error value stores it *)
  Definition best_scored (u : string) (cands : list string) : option (N * string) :=
    option_map (fun s => (sim u s, s)) (best_match u cands).
End Spec.

Definition unknown_msg (u : string) (s : option string) : string :=
  match s with
  | Some x => "Unknown field: `" ++ u ++ "`. Did you mean `" ++ x ++ "`?"
  | None => "Unknown field: `" ++ u ++ "`"
  end.
