(** Run/InsideProofs.v — C03 for derived receivers of ANY depth: every leaf of an error returned by
    the parser generated for any receiver type (structs, newtypes, unit structs, enums, wrappers,
    nested to any depth) on a meta item [m] carries a span - its own, or the one it inherits from
    an enclosing bundle when the error is flattened - and that span lies INSIDE [m]; an error
    returned for an item list has every spanned leaf inside one of the items.

    Inputs are constrained only by the positional well-formedness every parsed token tree has
    ([wfp]: a nested item lies inside its list, an expression inside its name-value item, syn's
    error position inside the malformed list).  What lies outside the derived code enters as
    hypotheses: library leaf targets, [with = ..] callables (their errors point inside the item
    they were given or nowhere), and the other user functions (their errors carry no span, since
    they never see the input). *)
From DarlingModel Require Import Run.Recv Run.RecvProofs Run.LoopProofs Run.LevelProofs Run.TotalProofs Err.ErrProofs.
Local Open Scope string_scope.
Local Open Scope list_scope.

(** ** containment of ranges is a preorder *)
Lemma pos_leb_refl l c : pos_leb l c l c = true.
Proof. unfold pos_leb. rewrite N.eqb_refl, N.leb_refl. apply orb_true_r. Qed.

Lemma pos_leb_trans l1 c1 l2 c2 l3 c3 :
  pos_leb l1 c1 l2 c2 = true -> pos_leb l2 c2 l3 c3 = true -> pos_leb l1 c1 l3 c3 = true.
Proof.
  unfold pos_leb. intros H1 H2.
  apply orb_true_iff in H1 as [H1|H1]; apply orb_true_iff in H2 as [H2|H2]; apply orb_true_iff.
  - left. apply N.ltb_lt in H1, H2. apply N.ltb_lt. lia.
  - apply andb_true_iff in H2 as [E _]. apply N.eqb_eq in E. subst. now left.
  - apply andb_true_iff in H1 as [E _]. apply N.eqb_eq in E. subst. now left.
  - apply andb_true_iff in H1 as [E1 L1]. apply andb_true_iff in H2 as [E2 L2].
    apply N.eqb_eq in E1, E2. subst. right. rewrite N.eqb_refl. cbn. apply N.leb_le in L1, L2. apply N.leb_le. lia.
Qed.

Lemma span_inside_refl s : span_inside s s = true.
Proof. destruct s as [[[a b] c] d]. cbn. now rewrite !pos_leb_refl. Qed.

Lemma span_inside_trans a b c : span_inside a b = true -> span_inside b c = true -> span_inside a c = true.
Proof.
  destruct a as [[[a1 a2] a3] a4], b as [[[b1 b2] b3] b4], c as [[[c1 c2] c3] c4]. cbn.
  intros H1 H2. apply andb_true_iff in H1 as [H1 H1']. apply andb_true_iff in H2 as [H2 H2'].
  apply andb_true_iff. split; eapply pos_leb_trans; eassumption.
Qed.

(** ** positional well-formedness of inputs *)
Fixpoint espans_in (S : span) (e : expr) : Prop :=
  span_inside (i_span (einfo e)) S = true
  /\ match e with
     | ELit i _ | ENeg i _ => True
     | EGroup _ g => espans_in S g
     | _ => True
     end.

Fixpoint wfp (n : nested) : Prop :=
  match n with
  | NLit _ _ => True
  | NPath i p => span_inside (i_span (p_info p)) (i_span i) = true
  | NList i p _ items =>
      span_inside (i_span (p_info p)) (i_span i) = true
      /\ (fix go (l : list nested) : Prop :=
            match l with
            | [] => True
            | x :: r => (span_inside (i_span (ninfo x)) (i_span i) = true /\ wfp x) /\ go r
            end) items
  | NBadList i p _ es _ => span_inside (i_span (p_info p)) (i_span i) = true /\ span_inside es (i_span i) = true
  | NNameValue i p e => span_inside (i_span (p_info p)) (i_span i) = true /\ espans_in (i_span i) e
  end.

(** executable mirrors, evaluated on every input of the correspondence check *)
Fixpoint espans_inb (S : span) (e : expr) : bool :=
  span_inside (i_span (einfo e)) S && match e with EGroup _ g => espans_inb S g | _ => true end.

Fixpoint wfpb (n : nested) : bool :=
  match n with
  | NLit _ _ => true
  | NPath i p => span_inside (i_span (p_info p)) (i_span i)
  | NList i p _ items =>
      span_inside (i_span (p_info p)) (i_span i)
      && (fix go (l : list nested) : bool :=
            match l with
            | [] => true
            | x :: r => span_inside (i_span (ninfo x)) (i_span i) && wfpb x && go r
            end) items
  | NBadList i p _ es _ => span_inside (i_span (p_info p)) (i_span i) && span_inside es (i_span i)
  | NNameValue i p e => span_inside (i_span (p_info p)) (i_span i) && espans_inb (i_span i) e
  end.

Lemma espans_inb_sound S e : espans_inb S e = true -> espans_in S e.
Proof.
  induction e as [i l | i g IH | i p | i es | i k | i l]; cbn; intros H; apply andb_true_iff in H as [H1 H2]; auto.
Qed.

Section NestedInd.
  Variable P : nested -> Prop.
  Hypothesis HLit : forall i l, P (NLit i l).
  Hypothesis HPath : forall i p, P (NPath i p).
  Hypothesis HList : forall i p ti items, Forall P items -> P (NList i p ti items).
  Hypothesis HBad : forall i p ti es msg, P (NBadList i p ti es msg).
  Hypothesis HNv : forall i p e, P (NNameValue i p e).
  Fixpoint nested_ind' (n : nested) : P n :=
    match n with
    | NLit i l => HLit i l
    | NPath i p => HPath i p
    | NList i p ti items =>
        HList i p ti items
          ((fix go (l : list nested) : Forall P l :=
              match l with [] => Forall_nil _ | x :: r => Forall_cons x (nested_ind' x) (go r) end) items)
    | NBadList i p ti es msg => HBad i p ti es msg
    | NNameValue i p e => HNv i p e
    end.
End NestedInd.

Lemma wfpb_sound n : wfpb n = true -> wfp n.
Proof.
  induction n as [i l | i p | i p ti items IH | i p ti es msg | i p e] using nested_ind'; cbn [wfpb wfp]; intros H; auto.
  - apply andb_true_iff in H as [H1 H2]. split; [exact H1|].
    induction IH as [|x r Hx _ IHr]; [exact I|]. apply andb_true_iff in H2 as [H2 H3]. apply andb_true_iff in H2 as [H2 H4].
    split; [split; [exact H2|now apply Hx]|now apply IHr].
  - apply andb_true_iff in H as [H1 H2]. now split.
  - apply andb_true_iff in H as [H1 H2]. split; [exact H1|now apply espans_inb_sound].
Qed.

Lemma wfp_path n p : wfp n -> meta_path n = Some p -> span_inside (i_span (p_info p)) (i_span (ninfo n)) = true.
Proof. destruct n; cbn; try discriminate; intros W [= <-]; tauto. Qed.

Lemma wfp_list i p ti items :
  wfp (NList i p ti items) -> Forall (fun x => span_inside (i_span (ninfo x)) (i_span i) = true /\ wfp x) items.
Proof. cbn [wfp]. intros [_ W]. revert W. induction items as [|x r IH]; [constructor|]. intros [H1 H2]. constructor; [exact H1|now apply IH]. Qed.

(** ** the spans the leaves of an error end up with when it is flattened: own, else inherited *)
Fixpoint lspans (inh : option span) (e : err) : list (option span) :=
  match e with
  | Leaf _ _ s => [match s with Some _ => s | None => inh end]
  | Multi es _ s => flat_map (lspans (match s with Some _ => s | None => inh end)) es
  end.

Lemma flat_map_ext_Forall {A B} (f g : A -> list B) l : Forall (fun x => f x = g x) l -> flat_map f l = flat_map g l.
Proof. induction 1 as [|x r Hx _ IH]; cbn; [reflexivity|]. now rewrite Hx, IH. Qed.

Lemma lspans_leaves e : forall pre inh, map snd (leaves pre inh e) = lspans inh e.
Proof.
  induction e as [k l s | es l s IH] using err_ind'; intros pre inh; cbn [leaves lspans]; [reflexivity|].
  generalize (pre ++ l) as pre'. generalize (match s with Some _ => s | None => inh end) as inh'. intros inh' pre'.
  induction IH as [|x r Hx _ IHr]; cbn; [reflexivity|]. now rewrite map_app, Hx, IHr.
Qed.

Lemma lspans_with_span s e inh : lspans inh (with_span s e) = lspans (Some s) e.
Proof. unfold with_span. destruct e as [k l [x|] | es l [x|]]; reflexivity. Qed.

Lemma lspans_at l e inh : lspans inh (at_ l e) = lspans inh e.
Proof. destruct e; reflexivity. Qed.

Lemma lspans_multiple es e inh : multiple es = POk e -> lspans inh e = flat_map (lspans inh) es.
Proof.
  destruct es as [|x [|y r]]; cbn [multiple]; [discriminate| |]; intros [= <-].
  - cbn. now rewrite app_nil_r.
  - reflexivity.
Qed.

Lemma lspans_add_sibling_alts sugg sim alts e : forall inh, lspans inh (add_sibling_alts sugg sim alts e) = lspans inh e.
Proof.
  induction e as [k l s | es l s IH] using err_ind'; intros inh; cbn [add_sibling_alts].
  - destruct l; [|reflexivity]. destruct k; reflexivity.
  - destruct l; [|reflexivity]. cbn [lspans]. generalize (match s with Some _ => s | None => inh end) as inh'. intros inh'.
    induction IH as [|x r Hx _ IHr]; cbn; [reflexivity|]. now rewrite Hx, IHr.
Qed.

(** [okw P]: every leaf that ends up with a span has one satisfying [P]; [oks P]: every leaf ends
    up with a span, and it satisfies [P] *)
Definition optw (P : span -> Prop) (o : option span) : Prop := match o with Some s => P s | None => True end.
Definition opts (P : span -> Prop) (o : option span) : Prop := match o with Some s => P s | None => False end.
Definition okw (P : span -> Prop) (inh : option span) (e : err) : Prop := Forall (optw P) (lspans inh e).
Definition oks (P : span -> Prop) (inh : option span) (e : err) : Prop := Forall (opts P) (lspans inh e).
Definition nowhere : span -> Prop := fun _ => False.
(** an error none of whose leaves has a span *)
Definition unsp (e : err) : Prop := okw nowhere None e.

Lemma oks_okw P inh e : oks P inh e -> okw P inh e.
Proof. apply Forall_impl. intros [s|]; cbn; tauto. Qed.

Lemma okw_mono (P Q : span -> Prop) inh e : (forall s, P s -> Q s) -> okw P inh e -> okw Q inh e.
Proof. intros H. apply Forall_impl. intros [s|]; cbn; auto. Qed.

Lemma oks_mono (P Q : span -> Prop) inh e : (forall s, P s -> Q s) -> oks P inh e -> oks Q inh e.
Proof. intros H. apply Forall_impl. intros [s|]; cbn; auto. Qed.

Lemma unsp_okw P e : unsp e -> okw P None e.
Proof. apply okw_mono. intros s []. Qed.

Lemma unsp_new k : unsp (new_err k).
Proof. repeat constructor. Qed.

Lemma lspans_some_all e : forall s, Forall (fun o => o <> None) (lspans (Some s) e).
Proof.
  induction e as [k l s0 | es l s0 IH] using err_ind'; intros s; cbn [lspans].
  - constructor; [destruct s0; discriminate|constructor].
  - apply Forall_flat_map.
    assert (G : exists s', match s0 with Some _ => s0 | None => Some s end = Some s') by (destruct s0; eauto).
    destruct G as [s' ->]. revert IH. apply Forall_impl. intros x Hx. apply Hx.
Qed.

Lemma okw_inherit P e : forall s, okw P None e -> P s -> okw P (Some s) e.
Proof.
  unfold okw. induction e as [k l s0 | es l s0 IH] using err_ind'; intros s; cbn [lspans].
  - destruct s0; [auto|]. intros _ Ps. constructor; [exact Ps|constructor].
  - destruct s0 as [x|]; [auto|]. intros H Ps. apply Forall_flat_map. rewrite Forall_flat_map in H.
    induction IH as [|y r Hy _ IHr]; [constructor|]. inversion H; subst. constructor; [now apply Hy|now apply IHr].
Qed.

(** the workhorse: attaching the span of the item to an error whose spanned leaves are fine
    makes every leaf spanned and fine *)
Lemma oks_with_span P e s inh : okw P None e -> P s -> oks P inh (with_span s e).
Proof.
  intros H Ps. unfold oks. rewrite lspans_with_span.
  pose proof (okw_inherit P e s H Ps) as W. pose proof (lspans_some_all e s) as A. unfold okw in W.
  revert W A. generalize (lspans (Some s) e). intros l W. induction W as [|o r Ho _ IH]; intros A; [constructor|].
  inversion A; subst. constructor; [|now apply IH]. destruct o; [exact Ho|congruence].
Qed.

Lemma oks_any_inh P e : oks P None e -> forall inh, oks P inh e.
Proof.
  unfold oks. induction e as [k l s0 | es l s0 IH] using err_ind'; cbn [lspans]; intros H inh.
  - destruct s0; [exact H|]. inversion H as [|? ? F _]; subst. destruct F.
  - destruct s0; [exact H|]. apply Forall_flat_map. rewrite Forall_flat_map in H.
    induction IH as [|y r Hy _ IHr]; [constructor|]. inversion H; subst. constructor; [now apply Hy|now apply IHr].
Qed.

Lemma oks_at P l e inh : oks P inh e -> oks P inh (at_ l e).
Proof. unfold oks. now rewrite lspans_at. Qed.

Lemma okw_at P l e inh : okw P inh e -> okw P inh (at_ l e).
Proof. unfold okw. now rewrite lspans_at. Qed.

Lemma okw_multiple P es e : Forall (okw P None) es -> multiple es = POk e -> okw P None e.
Proof.
  intros F M. unfold okw. rewrite (lspans_multiple es e None M). apply Forall_flat_map.
  revert F. apply Forall_impl. intros x Hx. exact Hx.
Qed.

Definition in_span (S : span) : span -> Prop := fun s => span_inside s S = true.
Definition in_items (l : list nested) : span -> Prop := fun s => exists it, In it l /\ span_inside s (i_span (ninfo it)) = true.

(** ** the default trait methods, for any implementer whose hooks know nothing about positions *)
Section Defaults.
  Variable F : fm.
  Hypothesis no_expr : o_expr F = None.
  Hypothesis no_meta : o_meta F = None.
  Hypothesis word_unsp : forall e, from_word F = Err e -> unsp e.
  (** [from_value] (overridden or not) blames the literal it was given, or nothing *)
  Hypothesis value_in : forall i l e, from_value F i l = Err e -> okw (in_span (i_span i)) None e.
  Hypothesis list_in : forall l e, Forall wfp l -> from_list F l = Err e -> okw (in_items l) None e.

  Lemma default_from_expr_inside S e : forall x,
    espans_in S e -> default_from_expr F e = Err x -> oks (in_span S) None x.
  Proof.
    assert (V : forall i l x, span_inside (i_span i) S = true ->
                map_err (with_span (i_span i)) (from_value F i l) = Err x -> oks (in_span S) None x).
    { intros i l x I. destruct (from_value F i l) as [v|y|m] eqn:R; cbn [map_err]; try discriminate. intros [= <-].
      apply oks_with_span; [|exact I]. pose proof (value_in i l y R) as K. revert K. apply okw_mono.
      intros s Hs. unfold in_span in *. eapply span_inside_trans; eassumption. }
    induction e as [i l | i g IH | i p | i es | i k | i l]; intros x [I W]; cbn [default_from_expr einfo] in *;
      try (cbn [map_err]; intros [= <-]; unfold unexpected_expr_type; cbn [einfo]; apply oks_with_span;
           [apply oks_okw, oks_with_span; [apply unsp_okw, unsp_new|exact I]|exact I]).
    - now apply V.
    - destruct (default_from_expr F g) as [v|y|m] eqn:R; cbn [map_err]; try discriminate. intros [= <-].
      apply oks_with_span; [|exact I]. apply oks_okw. now apply IH.
    - destruct (is_numeric l); [now apply V|].
      cbn [map_err]; intros [= <-]; unfold unexpected_expr_type; cbn [einfo]; apply oks_with_span;
        [apply oks_okw, oks_with_span; [apply unsp_okw, unsp_new|exact I]|exact I].
  Qed.

  Lemma in_items_in_list i p ti items s : wfp (NList i p ti items) -> in_items items s -> in_span (i_span i) s.
  Proof.
    intros W [it [Hin Hs]]. apply wfp_list in W. rewrite Forall_forall in W. destruct (W it Hin) as [Hi _].
    unfold in_span. eapply span_inside_trans; eassumption.
  Qed.

  Lemma default_from_meta_inside m x :
    is_meta m = true -> wfp m -> from_meta F m = Err x -> oks (in_span (i_span (ninfo m))) None x.
  Proof.
    intros M W. unfold from_meta. rewrite no_meta.
    destruct m as [i l | i p | i p ti items | i p ti es msg | i p e]; [discriminate|..]; cbn [default_from_meta ninfo].
    - destruct (from_word F) as [v|y|mm] eqn:R; cbn [map_err]; try discriminate. intros [= <-].
      apply oks_with_span; [apply unsp_okw; now apply word_unsp|apply span_inside_refl].
    - destruct (from_list F items) as [v|y|mm] eqn:R; cbn [map_err]; try discriminate. intros [= <-].
      apply oks_with_span; [|apply span_inside_refl].
      assert (Wl : Forall wfp items) by (apply wfp_list in W; revert W; apply Forall_impl; tauto).
      pose proof (list_in items y Wl R) as K. revert K. apply okw_mono. intros s. now apply (in_items_in_list i p ti items).
    - intros [= <-]. cbn in W. repeat constructor. apply W.
    - unfold from_expr. rewrite no_expr.
      destruct (default_from_expr F e) as [v|y|mm] eqn:R; cbn [map_err]; try discriminate. intros [= <-].
      apply oks_with_span; [|apply span_inside_refl]. apply oks_okw. apply (default_from_expr_inside _ e y (proj2 W) R).
  Qed.
End Defaults.

(** the default [from_value]: the typed hooks' errors get the literal's span *)
Lemma default_value_in F :
  o_value F = None ->
  (forall s e, from_string F s = Err e -> unsp e) -> (forall b e, from_bool F b = Err e -> unsp e) ->
  (forall c e, from_char F c = Err e -> unsp e) ->
  forall i l e, from_value F i l = Err e -> okw (in_span (i_span i)) None e.
Proof.
  intros NV Hs Hb Hc i l e. unfold from_value. rewrite NV. unfold default_from_value.
  assert (G : forall r : res value, (forall y, r = Err y -> unsp y) -> map_err (with_span (i_span i)) r = Err e -> okw (in_span (i_span i)) None e).
  { intros r Hr. destruct r as [v|y|m]; cbn [map_err]; try discriminate. intros [= <-].
    apply oks_okw, oks_with_span; [apply unsp_okw; now apply Hr|apply span_inside_refl]. }
  destruct l as [b|s|c| | | | | |];
    [ apply G; intros y; apply Hb | apply G; intros y; apply Hs | apply G; intros y; apply Hc | .. ];
    (cbn [map_err]; intros [= <-]; unfold unexpected_lit_type; apply oks_okw, oks_with_span;
     [apply oks_okw, oks_with_span; [apply unsp_okw, unsp_new|apply span_inside_refl]|apply span_inside_refl]).
Qed.

Lemma hooks_inside F :
  o_expr F = None -> o_meta F = None -> o_value F = None ->
  (forall e, from_word F = Err e -> unsp e) ->
  (forall s e, from_string F s = Err e -> unsp e) -> (forall b e, from_bool F b = Err e -> unsp e) ->
  (forall c e, from_char F c = Err e -> unsp e) ->
  (forall l e, Forall wfp l -> from_list F l = Err e -> okw (in_items l) None e) ->
  forall m x, is_meta m = true -> wfp m -> from_meta F m = Err x -> oks (in_span (i_span (ninfo m))) None x.
Proof.
  intros NE NM NV Hw Hs Hb Hc Hl m x. apply default_from_meta_inside; auto. now apply default_value_in.
Qed.

Section Inside.
  Variable pf : bool -> string -> option N.
  Variable reparse : grammar -> string -> option string.
  Variable reparse_arr : string -> option expr.
  Variable reparse_preds : string -> option (list string).
  Variable sugg : bool.
  Variable sim : string -> string -> N.
  Variable interp_with : fnid -> nested -> res value.
  Variable interp_fn : fnid -> value -> res value.

  Notation impl := (impl_of pf reparse reparse_arr reparse_preds sugg sim interp_with interp_fn).
  Notation leaf := (leaf_fm pf reparse reparse_arr reparse_preds).

  (** what an enclosing parser may rely on: an error for a meta item has every leaf spanned inside
      the item; an error for an item list has every spanned leaf inside one of the items *)
  Definition inside_fm (F : fm) : Prop :=
    (forall m e, is_meta m = true -> wfp m -> from_meta F m = Err e -> oks (in_span (i_span (ninfo m))) None e)
    /\ (forall l e, Forall wfp l -> from_list F l = Err e -> okw (in_items l) None e).

  (** assumptions about what lies outside the derived code *)
  Variable ok_leaf : Targets.target -> Prop.
  Hypothesis leaf_inside : forall tg, ok_leaf tg -> inside_fm (leaf tg).
  Hypothesis with_inside : forall w it e, is_meta it = true -> wfp it ->
      interp_with w it = Err e -> okw (in_span (i_span (ninfo it))) None e.
  Hypothesis fn_unsp : forall g v e, interp_fn g v = Err e -> unsp e.

  Lemma inside_default : inside_fm fm_default.
  Proof.
    split.
    - intros m e M W. apply hooks_inside; auto; cbn;
        try (intros; match goal with H : Err _ = Err _ |- _ => injection H as <- end; apply unsp_new).
      intros l x _ [= <-]. apply unsp_okw, unsp_new.
    - intros l e _ [= <-]. apply unsp_okw, unsp_new.
  Qed.

  Lemma apply_post_err P p r e :
    (forall x, r = Err x -> okw P None x) -> apply_post interp_fn p r = Err e -> okw P None e.
  Proof.
    unfold apply_post. destruct p as [[b f]|]; [|auto]. destruct r as [v|x|m]; cbn [bind]; try discriminate.
    - intros _ H. apply unsp_okw. now apply (fn_unsp f v).
    - intros H [= <-]. now apply H.
  Qed.

  Lemma conv_inside_gen (l : list (finfo * ty)) :
    Forall (fun ft : finfo * ty => inside_fm (impl (snd ft))) l ->
    forall i, inside_fm (nth i (map (fun ft : finfo * ty => impl (snd ft)) l) fm_default).
  Proof. induction 1 as [|x r Hx _ IH]; intros [|i]; cbn [map nth]; try apply inside_default; [exact Hx|apply IH]. Qed.

  Section OneLevel.
    Variable fields : list (finfo * ty).
    Variable auk : bool.
    Hypothesis convs_inside : Forall (fun ft : finfo * ty => inside_fm (impl (snd ft))) fields.

    Notation convs := (map (fun ft : finfo * ty => impl (snd ft)) fields).

    Lemma conv_inside i : inside_fm (conv_of convs i).
    Proof. unfold conv_of. now apply conv_inside_gen. Qed.

    Lemma extract_inside i f item loc e :
      is_meta item = true -> wfp item ->
      extract interp_with interp_fn convs i f item loc = Err e -> oks (in_span (i_span (ninfo item))) None e.
    Proof.
      intros M W. unfold extract.
      match goal with |- map_err _ ?r = _ -> _ => destruct r as [v|x|m] eqn:R end; cbn [map_err]; try discriminate.
      intros [= <-]. apply oks_at. apply oks_with_span; [|apply span_inside_refl].
      revert R. apply apply_post_err. intros y. destruct (fi_with f) as [w|].
      - now apply with_inside.
      - intros Hy. apply oks_okw. now apply (proj1 (conv_inside i)).
    Qed.

    Lemma item_error_inside item e :
      wfp item -> item_error sugg sim interp_with interp_fn fields convs auk item e -> oks (in_span (i_span (ninfo item))) None e.
    Proof.
      intros W [i l -> -> | i f M FA -> | i f loc M FA EX | M FA HF AU ->].
      - apply oks_with_span; [apply unsp_okw, unsp_new|apply span_inside_refl].
      - apply oks_with_span; [apply unsp_okw, unsp_new|apply span_inside_refl].
      - now apply (extract_inside i f item loc).
      - rewrite unknown_error_eq. apply oks_with_span; [apply unsp_okw, unsp_new|apply span_inside_refl].
    Qed.

    Lemma errs_from_inside items es :
      Forall wfp items -> errs_from sugg sim interp_with interp_fn fields convs auk items es ->
      Forall (okw (in_items items) None) es.
    Proof.
      intros W E. induction E as [|item items es _ IH|item items e es IE _ IH].
      - constructor.
      - inversion W; subst. specialize (IH H2). revert IH. apply Forall_impl. intros x. apply okw_mono.
        intros s [it [Hin Hs]]. exists it. split; [now right|exact Hs].
      - inversion W; subst. constructor.
        + apply oks_okw. apply (item_error_inside item e H1) in IE. revert IE. apply oks_mono.
          intros s Hs. exists item. split; [now left|exact Hs].
        + specialize (IH H2). revert IH. apply Forall_impl. intros x. apply okw_mono.
          intros s [it [Hin Hs]]. exists it. split; [now right|exact Hs].
    Qed.

    Lemma core_loop_never_err items : forall st e, core_loop sugg sim interp_with interp_fn fields convs auk st items <> Err e.
    Proof.
      unfold core_loop. induction items as [|it r IH]; intros st e; cbn [fold_left]; [discriminate|].
      destruct (core_step sugg sim interp_with interp_fn fields convs auk (Ok st) it) as [st'|e'|m'] eqn:S.
      - apply IH.
      - apply core_step_not_err in S. discriminate.
      - clear. induction r as [|x r IHr]; cbn; [discriminate|exact IHr].
    Qed.

    Lemma check_all_unsp slots : forall i fl, Forall unsp (snd (check_all convs i slots fl)).
    Proof.
      induction slots as [|s sr IH]; intros i [|f fr]; cbn [check_all snd]; try constructor.
      destruct (check_one convs i f s) as [s' e] eqn:CO. specialize (IH (S i) fr).
      destruct (check_all convs (S i) sr fr) as [sr' er]. cbn [snd] in *. apply Forall_app. split; [|exact IH].
      unfold check_one in CO. destruct (needs_check f); [|injection CO as <- <-; constructor].
      destruct s as [[|] v|vals]; try (injection CO as <- <-; constructor).
      destruct (from_none (conv_of convs i)); injection CO as <- <-; constructor; [apply unsp_new|constructor].
    Qed.

    Lemma init_all_unsp cdef slots : forall (fl : list (finfo * ty)) e, init_all interp_fn cdef slots fl = Err e -> unsp e.
    Proof.
      induction slots as [|s sr IH]; intros [|[f t] fr] e; cbn [init_all]; try discriminate.
      destruct (init_field interp_fn cdef s (f, t)) as [v|x|m] eqn:I0.
      - destruct (init_all interp_fn cdef sr fr) as [k|x|m] eqn:IA; try discriminate. intros [= <-]. now apply (IH fr).
      - intros [= <-].
        assert (FD : forall y, field_default interp_fn cdef f t = Err y -> unsp y).
        { unfold field_default. intros y. destruct (fi_default f) as [[|g|]|]; try discriminate.
          - unfold run_fn. apply fn_unsp.
          - destruct cdef as [[]|]; try discriminate. destruct (find _ _); discriminate. }
        cbn [init_field] in I0. destruct s as [sn [v|]|vals]; try discriminate; [now apply FD|].
        destruct vals; [|discriminate]. destruct (fi_default f); [now apply FD|discriminate].
      - discriminate.
    Qed.

    (** one struct level: either the located bundle of the recorded errors, each spanned leaf of
        which lies inside one of the items, or a span-less error of a user default *)
    Lemma parse_fields_inside items cdef_of locate e :
      Forall wfp items ->
      (forall x, cdef_of tt = Err x -> unsp x) ->
      parse_fields sugg sim interp_with interp_fn fields convs auk (state0 fields) items cdef_of locate = Err e ->
      (exists e0, e = locate e0 /\ okw (in_items items) None e0) \/ unsp e.
    Proof.
      intros W Hcd. unfold parse_fields.
      destruct (core_loop sugg sim interp_with interp_fn fields convs auk (state0 fields) items) as [st1|e1|m1] eqn:L; try discriminate.
      2:{ exfalso. now apply core_loop_never_err in L. }
      destruct (core_loop_errs sugg sim interp_with interp_fn fields convs auk items _ _ L) as [es [E1 EF]]. cbn [state0 ps_errs app] in E1.
      pose proof (errs_from_inside items es W EF) as G1.
      destruct (loop_is_spec sugg sim interp_with interp_fn fields convs auk items st1 L) as [_ [_ Fl]].
      assert (Sub : forall x, In x (ps_flat st1) -> In x items).
      { rewrite Fl. unfold spec_flat. destruct (has_flatten fields); [|intros x []]. intros x Hx. now apply filter_In in Hx. }
      unfold require_fields.
      destruct (flatten_init sugg sim fields convs st1) as [stf|ef|mf] eqn:FI.
      2:{ exfalso. unfold flatten_init in FI. destruct (find_flatten (finfos fields) 0); [|discriminate].
          match type of FI with context [match ?r with Ok _ => _ | Err _ => _ | Panic _ => _ end] => destruct r end; discriminate. }
      2:{ discriminate. }
      assert (G2 : Forall (okw (in_items items) None) (ps_errs stf)).
      { unfold flatten_init in FI. destruct (find_flatten (finfos fields) 0) as [i|]; [|injection FI as <-; now rewrite E1].
        assert (R0 : forall y, from_list (conv_of convs i) (ps_flat st1) = Err y -> okw (in_items items) None y).
        { intros y Hy. assert (Wf : Forall wfp (ps_flat st1)).
          { apply Forall_forall. intros x Hx. rewrite Forall_forall in W. apply W. now apply Sub. }
          pose proof (proj2 (conv_inside i) _ _ Wf Hy) as K. revert K. apply okw_mono.
          intros s [it [Hin Hs]]. exists it. split; [now apply Sub|exact Hs]. }
        match type of FI with context [match ?r with Ok _ => _ | Err _ => _ | Panic _ => _ end] => destruct r as [v|y|m] eqn:R end;
          try discriminate; injection FI as <-; cbn [ps_errs push_err]; [now rewrite E1|].
        rewrite E1. apply Forall_app. split; [exact G1|]. constructor; [|constructor].
        destruct (names fields).
        - now apply R0.
        - destruct (from_list (conv_of convs i) (ps_flat st1)) as [v0|y0|m0] eqn:R1; cbn [map_err] in R; try discriminate.
          injection R as <-. unfold okw. rewrite lspans_add_sibling_alts. now apply R0. }
      pose proof (check_all_unsp (ps_slots stf) 0 (finfos fields)) as G3.
      destruct (check_all convs 0 (ps_slots stf) (finfos fields)) as [slots errs]. cbn [snd ps_errs ps_slots] in *.
      destruct (ps_errs stf ++ errs) as [|x xs] eqn:EE.
      - destruct (cdef_of tt) as [cd|ec|mc] eqn:CD; try discriminate.
        + intros H. right. now apply (init_all_unsp cd slots fields).
        + intros [= <-]. right. now apply Hcd.
      - destruct (multiple (x :: xs)) as [y|m] eqn:MU; try discriminate. intros [= <-]. left. exists y. split; [reflexivity|].
        apply (okw_multiple _ (x :: xs)); [|exact MU]. rewrite <- EE. apply Forall_app. split; [exact G2|].
        revert G3. apply Forall_impl. intros z. apply unsp_okw.
    Qed.
  End OneLevel.

  (** ** enums *)
  Definition variant_inside (v : vinfo * list (finfo * ty)) : Prop :=
    Forall (fun ft : finfo * ty => inside_fm (impl (snd ft))) (snd v).

  Notation vconvs vs := (map (fun vf : vinfo * list (finfo * ty) => map (fun ft => impl (snd ft)) (snd vf)) vs).

  Lemma enum_arm_inside vs name item :
    is_meta item = true -> wfp item -> Forall variant_inside vs ->
    forall r e, enum_arm sugg sim interp_with interp_fn vs (vconvs vs) name item = Some r -> r = Err e ->
                okw (in_span (i_span (ninfo item))) None e.
  Proof.
    intros M W V. induction V as [|[vi fl] rest Tf _ IHv]; intros r e; cbn [enum_arm map snd]; [discriminate|].
    destruct (negb (vi_skip vi) && str_eqb (vi_name vi) name)%bool; [|apply IHv].
    intros [= <-]. unfold variant_inside in Tf. cbn [fst snd] in *. destruct (vi_style vi).
    - destruct item; try discriminate; intros [= <-]; apply oks_okw, oks_with_span; try apply span_inside_refl; apply unsp_okw, unsp_new.
    - destruct fl as [|[f0 t0] fr]; [discriminate|]. cbn [map snd].
      inversion Tf as [|? ? T0 _]; subst. cbn [snd] in T0.
      destruct (from_meta (impl t0) item) as [v|y|m] eqn:R; cbn [map_err map_ok]; try discriminate. intros [= <-].
      apply okw_at, oks_okw. now apply (proj1 T0).
    - destruct item as [i l | i p | i p ti items | i p ti es msg | i p ex]; try discriminate.
      + intros [= <-]. apply oks_okw, oks_with_span; [apply unsp_okw, unsp_new|apply span_inside_refl].
      + match goal with |- map_ok _ ?r = _ -> _ => destruct r as [v|y|m] eqn:R end; cbn [map_ok]; try discriminate. intros [= <-].
        assert (Wl : Forall wfp items) by (apply wfp_list in W; revert W; apply Forall_impl; tauto).
        apply (parse_fields_inside fl (vi_auk vi) Tf items) in R; [|exact Wl|discriminate].
        destruct R as [[e0 [-> K]]|U]; [|now apply unsp_okw].
        apply okw_at, oks_okw, oks_with_span; [|apply span_inside_refl]. revert K. apply okw_mono.
        intros s. now apply (in_items_in_list i p ti items).
      + intros [= <-]. cbn in W. repeat constructor. apply W.
      + intros [= <-]. apply oks_okw, oks_with_span; [apply unsp_okw, unsp_new|apply span_inside_refl].
  Qed.

  Lemma enum_from_list_inside vs l e :
    Forall wfp l -> Forall variant_inside vs ->
    enum_from_list sugg sim interp_with interp_fn vs (vconvs vs) l = Err e -> okw (in_items l) None e.
  Proof.
    intros W V. unfold enum_from_list. destruct l as [|n [|n2 r]]; [intros [= <-]; apply unsp_okw, unsp_new| |].
    2:{ assert (G2 : forall x, okw (in_span (i_span (ninfo n2))) None x -> okw (in_items (n :: n2 :: r)) None x).
        { intros x. apply okw_mono. intros s Hs. exists n2. split; [right; now left|exact Hs]. }
        destruct n; intros [= <-]; apply G2, oks_okw, oks_with_span; try apply span_inside_refl; apply unsp_okw, unsp_new. }
    assert (G : forall x, okw (in_span (i_span (ninfo n))) None x -> okw (in_items [n]) None x).
    { intros x. apply okw_mono. intros s Hs. exists n. split; [now left|exact Hs]. }
    destruct (is_meta n) eqn:M;
      [|destruct n; try discriminate; intros [= <-]; apply G, oks_okw, oks_with_span; try apply span_inside_refl; apply unsp_okw, unsp_new].
    assert (Wn : wfp n) by now inversion W.
    destruct n as [i li| i p | i p ti items | i p ti es msg | i p ex]; [discriminate|..];
      (match goal with |- context [enum_arm ?a ?b ?c ?d ?vs0 ?cv ?nm ?it] =>
         destruct (enum_arm a b c d vs0 cv nm it) as [r|] eqn:EA;
         [ intros ->; apply G; exact (enum_arm_inside vs nm it M Wn V _ e EA eq_refl)
         | intros [= <-]; apply G, oks_okw, oks_with_span; [destruct vs; apply unsp_okw, unsp_new|apply span_inside_refl] ] end).
  Qed.

  Lemma enum_from_string_unsp (vs : list (vinfo * list (finfo * ty))) s e :
    enum_from_string vs (vconvs vs) s = Err e -> unsp e.
  Proof.
    unfold enum_from_string.
    assert (A : forall r, enum_str_arm vs (vconvs vs) s = Some r -> r = Err e -> unsp e).
    { induction vs as [|[vi fl] rest IHv]; intros r; cbn [enum_str_arm map snd]; [discriminate|].
      destruct (negb (vi_skip vi) && str_eqb (vi_name vi) s)%bool; [|apply IHv].
      intros [= <-]. destruct (vi_style vi); try discriminate; try (intros [= <-]; apply unsp_new).
      destruct fl as [|[f0 t0] fr]; [discriminate|]. cbn [map snd]. destruct (from_none _); [discriminate|]. intros [= <-]. apply unsp_new. }
    destruct (enum_str_arm vs (vconvs vs) s) as [r|] eqn:E; [intros ->; now apply (A _ eq_refl)|intros [= <-]; apply unsp_new].
  Qed.

  (** the leaf targets a receiver type mentions *)
  Fixpoint leaves_ok (t : ty) : Prop :=
    let fields_ok :=
      fix go (l : list (finfo * ty)) : Prop :=
        match l with [] => True | x :: r => leaves_ok (snd x) /\ go r end in
    match t with
    | TLeaf tg => ok_leaf tg
    | TUnitR _ => True
    | TOpt t' | TBox t' | TRes t' | TNewtypeR _ t' => leaves_ok t'
    | TStructR _ fields => fields_ok fields
    | TEnumR _ _ vs =>
        (fix gov (l : list (vinfo * list (finfo * ty))) : Prop :=
           match l with [] => True | x :: r => fields_ok (snd x) /\ gov r end) vs
    end.

  Definition fields_ok (l : list (finfo * ty)) : Prop :=
    (fix go (l : list (finfo * ty)) : Prop := match l with [] => True | x :: r => leaves_ok (snd x) /\ go r end) l.

  Lemma fields_ok_inside l :
    Forall (fun ft : finfo * ty => leaves_ok (snd ft) -> inside_fm (impl (snd ft))) l -> fields_ok l ->
    Forall (fun ft : finfo * ty => inside_fm (impl (snd ft))) l.
  Proof. induction 1 as [|x r Hx _ IH]; [constructor|]. intros [O1 O2]. constructor; [now apply Hx|now apply IH]. Qed.

  (** ** the theorem *)
  Theorem impl_inside : forall t, leaves_ok t -> inside_fm (impl t).
  Proof.
    induction t as [tg | t IH | t IH | t IH | c fields IH | c t IH | c | c w vs IH] using ty_ind'; intros LO; cbn [leaves_ok] in LO.
    - now apply leaf_inside.
    - destruct (IH LO) as [Tm Tl]. split.
      + intros m e M W. unfold from_meta. cbn. destruct (from_meta (impl t) m) as [v|y|mm] eqn:R; cbn [map_ok]; try discriminate.
        intros [= <-]. now apply Tm.
      + intros l e _ [= <-]. apply unsp_okw, unsp_new.
    - destruct (IH LO) as [Tm Tl]. split.
      + intros m e M W. unfold from_meta at 1. cbn. destruct (from_meta (impl t) m) as [v|y|mm] eqn:R; cbn [map_ok]; try discriminate.
        intros [= <-]. now apply Tm.
      + intros l e W. unfold from_list at 1. cbn. destruct (from_list (impl t) l) as [v|y|mm] eqn:R; cbn [map_ok]; try discriminate.
        intros [= <-]. now apply Tl.
    - split.
      + intros m e M W. unfold from_meta at 1. cbn. destruct (from_meta (impl t) m); discriminate.
      + intros l e W. unfold from_list at 1. cbn. destruct (from_list (impl t) l); discriminate.
    - (* a derived struct *)
      fold (fields_ok fields) in LO. apply (fields_ok_inside fields IH) in LO. clear IH. rename LO into IH.
      assert (Tl : forall l e, Forall wfp l -> from_list (impl (TStructR c fields)) l = Err e -> okw (in_items l) None e).
      { intros l e W. unfold from_list. cbn [impl_of o_list]. apply apply_post_err. intros x.
        match goal with |- map_ok _ ?r = _ -> _ => destruct r as [v|y|m] eqn:R end; cbn [map_ok]; try discriminate. intros [= <-].
        apply (parse_fields_inside fields (ci_auk c) IH l) in R; [|exact W|].
        - destruct R as [[e0 [-> K]]|U]; [exact K|now apply unsp_okw].
        - intros z. unfold cdefault_value. destruct (ci_default c) as [[|g|]|]; try discriminate; unfold run_fn;
            match goal with |- context [interp_fn ?g ?v] => pose proof (fn_unsp g v) as U; destruct (interp_fn g v) end; cbn [map_ok]; try discriminate;
            intros [= <-]; now apply U. }
      split; [|exact Tl]. intros m e M W. apply hooks_inside; auto;
        try (unfold from_string, from_bool, from_char; cbn [impl_of o_string o_bool o_char]; intros ? ? [= <-]; apply unsp_new).
      unfold from_word. cbn [impl_of o_word]. intros x. destruct (ci_from_word c); [apply fn_unsp|intros [= <-]; apply unsp_new].
    - (* a newtype struct *)
      destruct (IH LO) as [Tm Tl]. split.
      + intros m e M W. unfold from_meta. cbn [impl_of o_meta].
        destruct (from_meta (impl t) m) as [v|y|mm] eqn:R; cbn [map_err map_ok]; try discriminate. intros [= <-].
        apply oks_with_span; [|apply span_inside_refl]. apply oks_okw. now apply Tm.
      + intros l e W. unfold from_list at 1. cbn [impl_of o_list].
        destruct (from_list (impl t) l) as [v|y|mm] eqn:R; cbn [map_ok]; try discriminate. intros [= <-]. now apply Tl.
    - (* a unit struct *)
      split; [|intros l e _ [= <-]; apply unsp_okw, unsp_new]. intros m e M W.
      apply hooks_inside; auto;
        try (unfold from_string, from_bool, from_char; cbn [impl_of o_string o_bool o_char]; intros ? ? [= <-]; apply unsp_new).
      + unfold from_word. cbn. discriminate.
      + intros l x _ [= <-]. apply unsp_okw, unsp_new.
    - (* an enum *)
      assert (V : Forall variant_inside vs).
      { clear -IH LO. induction IH as [|x r Hx _ IHr]; [constructor|]. destruct LO as [O1 O2]. constructor; [|now apply IHr].
        unfold variant_inside. now apply fields_ok_inside. }
      assert (Tl : forall l e, Forall wfp l -> from_list (impl (TEnumR c w vs)) l = Err e -> okw (in_items l) None e).
      { intros l e W. unfold from_list. cbn [impl_of o_list]. now apply enum_from_list_inside. }
      split; [|exact Tl]. intros m e M W. apply hooks_inside; auto;
        try (unfold from_string, from_bool, from_char; cbn [impl_of o_string o_bool o_char]; intros ? ? [= <-]; apply unsp_new).
      + unfold from_word. cbn [impl_of o_word]. intros x. destruct (ci_from_word c); [apply fn_unsp|]. destruct w; [discriminate|intros [= <-]; apply unsp_new].
      + unfold from_string. cbn [impl_of o_string]. intros s x. apply enum_from_string_unsp.
  Qed.
End Inside.
