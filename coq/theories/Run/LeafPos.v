(** Run/LeafPos.v — "errors are proper" (at least one leaf), the assumption of Run/SpecCount.v about
    what lies outside the derived code, discharged for the library's plain targets (for any float
    oracle) and for the fixed library of user callables the correspondence check runs. *)
From DarlingModel Require Import Run.Recv Run.TotalProofs Run.LeafTotal Run.SpecCount Conv.ScalarProofs Err.ErrProofs Exec.ErrObs Exec.ConvCase Exec.RecvCase.
Local Open Scope string_scope.
Local Open Scope list_scope.

Definition pos_fm (F : fm) : Prop :=
  (forall m e, from_meta F m = Err e -> (0 < len e)%N)
  /\ (forall l e, from_list F l = Err e -> (0 < len e)%N).

Lemma len_ws s e : len (with_span s e) = len e.
Proof. unfold with_span. destruct (span_of e); [reflexivity|]. destruct e; reflexivity. Qed.

Lemma map_err_ws_pos {A} s (r : res A) e : (forall y, r = Err y -> (0 < len y)%N) -> map_err (with_span s) r = Err e -> (0 < len e)%N.
Proof. intros H. destruct r as [v|y|m]; cbn [map_err]; try discriminate. intros [= <-]. rewrite len_ws. now apply H. Qed.

Section Defaults.
  Variable F : fm.
  Hypothesis no_expr : o_expr F = None.
  Hypothesis no_meta : o_meta F = None.
  Hypothesis word_pos : forall e, from_word F = Err e -> (0 < len e)%N.
  Hypothesis value_pos : forall i l e, from_value F i l = Err e -> (0 < len e)%N.
  Hypothesis list_pos : forall l e, from_list F l = Err e -> (0 < len e)%N.

  Lemma default_from_expr_pos e : forall x, default_from_expr F e = Err x -> (0 < len x)%N.
  Proof.
    induction e as [i l | i g IH | i p | i es | i k | i l]; intros x; cbn [default_from_expr];
      try (cbn [map_err]; intros [= <-]; rewrite !len_ws; cbn; lia).
    - apply map_err_ws_pos. apply value_pos.
    - apply map_err_ws_pos. exact IH.
    - destruct (is_numeric l); [apply map_err_ws_pos; apply value_pos|]. cbn [map_err]. intros [= <-]. rewrite !len_ws. cbn. lia.
  Qed.

  Lemma default_pos : pos_fm F.
  Proof.
    split; [|exact list_pos]. intros m e. unfold from_meta. rewrite no_meta.
    destruct m as [i l | i p | i p ti items | i p ti es msg | i p ex]; cbn [default_from_meta]; try discriminate.
    - apply map_err_ws_pos. exact word_pos.
    - apply map_err_ws_pos. apply list_pos.
    - intros [= <-]. cbn. lia.
    - apply map_err_ws_pos. unfold from_expr. rewrite no_expr. apply default_from_expr_pos.
  Qed.
End Defaults.

Lemma default_value_pos F :
  o_value F = None ->
  (forall s e, from_string F s = Err e -> (0 < len e)%N) -> (forall b e, from_bool F b = Err e -> (0 < len e)%N) ->
  (forall c e, from_char F c = Err e -> (0 < len e)%N) ->
  forall i l e, from_value F i l = Err e -> (0 < len e)%N.
Proof.
  intros NV Hs Hb Hc i l e. unfold from_value. rewrite NV. unfold default_from_value.
  destruct l as [b|s|c| | | | | |];
    [apply map_err_ws_pos; apply Hb | apply map_err_ws_pos; apply Hs | apply map_err_ws_pos; apply Hc | ..];
    (cbn [map_err]; intros [= <-]; unfold unexpected_lit_type; rewrite !len_ws; cbn; lia).
Qed.

Ltac one := cbn; lia.
Ltac hook_pos :=
  try reflexivity;
  try (unfold from_word, from_string, from_bool, from_char, from_list; cbn; intros; discriminate);
  try (unfold from_word, from_string, from_bool, from_char, from_list; cbn; intros;
       match goal with H : Err _ = Err _ |- _ => injection H as <- end; cbn; lia).

Lemma unit_pos : pos_fm unit_fm.
Proof. apply default_pos; hook_pos. apply default_value_pos; hook_pos. Qed.

Lemma bool_pos : pos_fm bool_fm.
Proof.
  apply default_pos; hook_pos. apply default_value_pos; hook_pos.
  unfold from_string; cbn. intros s e. unfold bool_from_string.
  destruct (str_eqb s "true"); [discriminate|]. destruct (str_eqb s "false"); [discriminate|]. intros [= <-]. cbn. lia.
Qed.

Lemma atomic_bool_pos : pos_fm atomic_bool_fm.
Proof.
  split; [|hook_pos]. intros m e. unfold from_meta at 1. cbn [atomic_bool_fm o_meta]. apply map_err_ws_pos. apply (proj1 bool_pos).
Qed.

Lemma char_pos : pos_fm char_fm.
Proof.
  apply default_pos; hook_pos. apply default_value_pos; hook_pos.
  unfold from_string; cbn. intros s e. unfold char_from_string. destruct (utf8_chars s) as [|c [|c2 r]]; try discriminate; intros [= <-]; cbn; lia.
Qed.

Lemma string_pos : pos_fm string_fm.
Proof. apply default_pos; hook_pos. apply default_value_pos; hook_pos. Qed.

Lemma int_pos t : pos_fm (int_fm t).
Proof.
  apply default_pos; hook_pos.
  intros i l e. unfold from_value; cbn [int_fm o_value]. unfold int_from_value. apply map_err_ws_pos. intros y.
  destruct l; try (intros [= <-]; unfold unexpected_lit_type; rewrite len_ws; cbn; lia).
  - unfold int_from_string. destruct (std_parse_int t s); [intros [= <-]; cbn; lia|discriminate].
  - destruct (std_parse_int t digits); [|discriminate]. intros [= <-]. cbn. lia.
Qed.

Lemma float_pos pf b : pos_fm (float_fm pf b).
Proof.
  apply default_pos; hook_pos.
  intros i l e. unfold from_value; cbn [float_fm o_value]. unfold float_from_value. apply map_err_ws_pos. intros y.
  destruct l; try (intros [= <-]; unfold unexpected_lit_type; rewrite len_ws; cbn; lia).
  - unfold float_from_string. destruct (pf b s); [discriminate|intros [= <-]; cbn; lia].
  - destruct (pf b digits); [discriminate|]. intros [= <-]. cbn. lia.
  - destruct (pf b digits); [discriminate|]. intros [= <-]. cbn. lia.
Qed.

Lemma flag_pos : pos_fm flag_fm.
Proof.
  split; [|hook_pos]. intros m e. unfold from_meta at 1. cbn [flag_fm o_meta].
  destruct m as [i l|i p|i p ti items|i p ti es msg|i p ex]; try discriminate;
    match goal with |- context [from_meta unit_fm ?x] =>
      pose proof (proj1 unit_pos x) as U; destruct (from_meta unit_fm x) as [v|y|mm]; try discriminate; intros [= <-]; now apply U end.
Qed.

Lemma sum_pos (es : list err) x : In x es -> (0 < len x)%N -> (0 < sumN (map len es))%N.
Proof.
  induction es as [|y r IH]; [intros []|]. cbn [map]. unfold sumN. cbn [fold_right]. fold (sumN (map len r)). intros [->|Hin] P; [lia|]. specialize (IH Hin P). lia.
Qed.

Lemma map_pos k V : pos_fm V -> pos_fm (map_fm k V).
Proof.
  intros [Vm _].
  assert (Hl : forall l e, from_list (map_fm k V) l = Err e -> (0 < len e)%N).
  { intros l e. unfold from_list; cbn [map_fm o_list]. unfold map_from_list.
    assert (G : forall items st st', Forall (fun x => (0 < len x)%N) (ms_errs st) ->
                  fold_left (map_step k V) items (Ok st) = Ok st' -> Forall (fun x => (0 < len x)%N) (ms_errs st')).
    { induction items as [|it r IH]; intros st st' P; cbn [fold_left]; [now intros [= <-]|].
      destruct (map_step k V (Ok st) it) as [st1|e1|m1] eqn:S.
      - intros H. apply (IH st1 st'); [|exact H]. clear H IH. unfold map_step in S.
        assert (PU : forall x s, (0 < len x)%N -> Forall (fun x => (0 < len x)%N) (ms_errs s) -> Forall (fun x => (0 < len x)%N) (ms_errs (push x s))).
        { intros x s Px Ps. unfold push. cbn [ms_errs]. apply Forall_app. split; [exact Ps|]. constructor; [exact Px|constructor]. }
        destruct (meta_path it) as [p|]; [|injection S as <-; apply PU; [cbn; lia|exact P]].
        assert (Hv : forall ve, map_err (at_ (path_to_string p)) (from_meta V it) = Err ve -> (0 < len ve)%N).
        { intros ve. destruct (from_meta V it) as [v|y|m] eqn:R; cbn [map_err]; try discriminate. intros [= <-]. rewrite len_at. now apply (Vm it). }
        assert (Hk : forall ke, key_of k p = Err ke -> (0 < len ke)%N).
        { intros ke. unfold key_of. destruct k; try discriminate. destruct (get_ident p); [discriminate|]. intros [= <-]. rewrite len_ws. cbn. lia. }
        destruct (map_err (at_ (path_to_string p)) (from_meta V it)) as [v|ve|m] eqn:R; [| |discriminate].
        + destruct (key_of k p) as [[key disp]|ke|km] eqn:KO; [| |discriminate]; injection S as <-.
          * destruct (mem key (ms_seen st)); cbn [ms_errs]; [apply PU; [rewrite len_ws; cbn; lia|exact P]|exact P].
          * apply PU; [now apply Hk|exact P].
        + specialize (Hv ve eq_refl).
          destruct (key_of k p) as [[key disp]|ke|km] eqn:KO; [| |discriminate]; injection S as <-.
          * destruct (mem key (ms_seen st)); cbn [ms_errs]; apply PU; auto. apply PU; [rewrite len_ws; cbn; lia|exact P].
          * apply PU; [exact Hv|]. apply PU; [now apply Hk|exact P].
      - intros H. exfalso. clear -H. induction r as [|x r IHr]; cbn in H; [discriminate|]. now apply IHr.
      - intros H. exfalso. clear -H. induction r as [|x r IHr]; cbn in H; [discriminate|]. now apply IHr. }
    destruct (fold_left (map_step k V) l (Ok (mkMs [] [] []))) as [st|e0|m0] eqn:FL; [| |discriminate].
    - assert (P0 : Forall (fun x => (0 < len x)%N) (ms_errs (mkMs [] [] []))) by constructor.
      pose proof (G l _ st P0 FL) as P. destruct (ms_errs st) as [|x xs] eqn:E; [discriminate|].
      destruct (multiple (x :: xs)) as [y|m] eqn:MU; try discriminate. intros [= <-].
      rewrite (len_multiple _ _ MU). inversion P; subst. apply (sum_pos (x :: xs) x); [now left|assumption].
    - exfalso. clear -FL. revert FL. generalize (mkMs [] [] []) as st. induction l as [|it r IH]; intros st; cbn [fold_left]; [discriminate|].
      destruct (map_step k V (Ok st) it) as [st1|e1|m1] eqn:S; [apply IH| |].
      + exfalso. unfold map_step in S. destruct (meta_path it) as [q|]; [|discriminate].
        destruct (map_err _ _); try discriminate; destruct (key_of k q) as [[ka kb]| |]; discriminate.
      + clear. induction r as [|x r IHr]; cbn; [discriminate|exact IHr]. }
  apply default_pos; hook_pos; [|exact Hl]. apply default_value_pos; hook_pos.
Qed.

Theorem plain_pos pf reparse reparse_arr reparse_preds :
  forall t, plain t = true -> pos_fm (fm_of pf reparse reparse_arr reparse_preds t).
Proof.
  induction t; cbn [plain fm_of]; intros P; try discriminate.
  - apply unit_pos.
  - apply bool_pos.
  - apply atomic_bool_pos.
  - apply char_pos.
  - apply string_pos.
  - apply string_pos.
  - apply int_pos.
  - apply float_pos.
  - destruct (IHt P) as [Tm Tl]. split.
    + intros m e. unfold from_meta at 1. cbn. destruct (from_meta _ m) as [v|y|mm] eqn:R; cbn [map_ok]; try discriminate. intros [= <-]. now apply (Tm m).
    + hook_pos.
  - destruct (IHt P) as [Tm Tl]. split.
    + intros m e. unfold from_meta at 1. cbn. destruct (from_meta _ m) as [v|y|mm] eqn:R; cbn [map_ok]; try discriminate. intros [= <-]. now apply (Tm m).
    + intros l e. unfold from_list at 1. cbn. destruct (from_list _ l) as [v|y|mm] eqn:R; cbn [map_ok]; try discriminate. intros [= <-]. now apply (Tl l).
  - split.
    + intros m e. unfold from_meta at 1. cbn. destruct (from_meta _ m); discriminate.
    + intros l e. unfold from_list at 1. cbn. destruct (from_list _ l); discriminate.
  - apply flag_pos.
  - apply map_pos. now apply IHt.
Qed.

(** the corpus's callables *)
Lemma lib_with_pos w it e : interp_with_lib w it = Err e -> (0 < len e)%N.
Proof.
  unfold interp_with_lib. destruct (str_eqb w "w_len").
  - destruct (from_meta string_fm it) as [v|y|m] eqn:R; cbn [map_ok]; try discriminate. intros [= <-]. now apply (proj1 string_pos it).
  - destruct (str_eqb w "w_opt_len").
    + destruct (from_meta string_fm it) as [v|y|m] eqn:R; cbn [map_ok]; try discriminate. intros [= <-]. now apply (proj1 string_pos it).
    + destruct (str_eqb w "w_fail"); [|discriminate]. intros [= <-]. cbn. lia.
Qed.

Lemma lib_fn_pos consts g v e : interp_fn_lib consts g v = Err e -> (0 < len e)%N.
Proof.
  unfold interp_fn_lib.
  repeat match goal with
         | |- (if ?b then _ else _) = _ -> _ => destruct b
         | |- match ?x with _ => _ end = _ -> _ => destruct x
         end; try discriminate; intros [= <-]; cbn; lia.
Qed.

(** ** the instance the correspondence check evaluates: no assumption left but [kwfb], which the
    check evaluates on every receiver *)
Theorem checked_instance_count (c : caseRecv) :
  kwfb (interp_fn_lib (rc_consts c)) (rc_ty c) = true ->
  count_ty (pf_of (rc_pf c)) (reparse_of (rc_or c)) (reparse_arr_of (rc_or c)) (reparse_preds_of (rc_or c))
           (rc_sugg c) (sim_of (rc_sim c)) interp_with_lib (interp_fn_lib (rc_consts c)) (rc_ty c).
Proof.
  intros K. apply kwfb_sound in K.
  apply (mistakes_count _ _ _ _ _ _ _ _ lib_with_pos (lib_fn_pos (rc_consts c)) (fun tg => plain tg = true)); [|exact K].
  intros tg P m e. apply (proj1 (plain_pos _ _ _ _ tg P)).
Qed.
