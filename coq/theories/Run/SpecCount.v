(** Run/SpecCount.v — C02 for the model, for ALL receivers and ALL inputs: the error the generated
    parser returns has exactly as many leaves as the input has mistakes, where the mistakes are
    counted by the per-field specification of Spec/C01.v ([mistakes]: comprehensions over the
    input - literals, unaddressed names, repeats, missing required items, and recursively the
    mistakes inside each item's value); and it returns a value exactly when there is none. *)
From DarlingModel Require Import Run.Recv Run.RecvProofs Run.LoopProofs Run.LevelProofs Run.TotalProofs Spec.C01 Conv.RoutingProofs
  Run.SpecSound Run.SpecComplete Run.InsideProofs Run.LeafTotal Err.ErrProofs.
Local Open Scope string_scope.
Local Open Scope list_scope.

Section Count.
  Variable pf : bool -> string -> option N.
  Variable reparse : grammar -> string -> option string.
  Variable reparse_arr : string -> option expr.
  Variable reparse_preds : string -> option (list string).
  Variable sugg : bool.
  Variable sim : string -> string -> N.
  Variable interp_with : fnid -> nested -> res value.
  Variable interp_fn : fnid -> value -> res value.

  Notation impl := (impl_of pf reparse reparse_arr reparse_preds sugg sim interp_with interp_fn).
  Notation leaf := (leaf_fm pf reparse reparse_arr reparse_preds).
  Notation expected := (expected pf reparse reparse_arr reparse_preds interp_with interp_fn).
  Notation mistakes := (mistakes pf reparse reparse_arr reparse_preds interp_with interp_fn).
  Notation absent_of := (absent_of pf reparse reparse_arr reparse_preds interp_fn).

  (** ** the specification's local comprehensions as stand-alone functions *)
  Definition conv_mistakes (f : finfo) (ft : ty) (it : nested) : N :=
    match fi_with f with
    | Some w => match interp_with w it with
                | Err e => len e
                | Ok v => post_leaves interp_fn (fi_post f) v
                | Panic _ => 0%N
                end
    | None =>
        let k := mistakes ft it in
        if N.eqb k 0 then
          match expected ft it with Some v => post_leaves interp_fn (fi_post f) v | None => 0%N end
        else k
    end.

  Definition here_mistakes (all_fs : list finfo) (items unclaimed : list nested) (f : finfo) (ft : ty) : N :=
    if fi_skip f then 0%N
    else if fi_flatten f then mistakes ft (dummy_list unclaimed)
    else
      let occ := if is_first_named all_fs f then filter (fun it => str_eqb (item_name it) (fi_name f)) items else [] in
      if fi_multiple f then sumN (map (conv_mistakes f ft) occ)
      else
        match occ with
        | [] => match fi_default f, absent_of ft with
                | None, None => 1%N
                | _, _ => 0%N
                end
        | it :: rest => (conv_mistakes f ft it + N.of_nat (List.length rest))%N
        end.

  Fixpoint fields_mistakes (all_fs : list finfo) (fs : list (finfo * ty)) (items unclaimed : list nested) : N :=
    match fs with
    | [] => 0%N
    | (f, ft) :: r => (here_mistakes all_fs items unclaimed f ft + fields_mistakes all_fs r items unclaimed)%N
    end.

  Definition struct_mistakes (fs : list (finfo * ty)) (auk : bool) (items : list nested) : N :=
    let all_fs := map fst fs in
    let metas := filter (fun it => negb (is_literal it)) items in
    let unclaimed := filter (fun it => negb (known all_fs it)) metas in
    let has_flat := existsb fi_flatten all_fs in
    (N.of_nat (List.length (filter is_literal items))
     + (if (has_flat || auk)%bool then 0 else N.of_nat (List.length unclaimed))
     + fields_mistakes all_fs fs metas unclaimed)%N.

  Lemma mistakes_struct c fs i p ti items :
    mistakes (TStructR c fs) (NList i p ti items) =
      let k := struct_mistakes fs (ci_auk c) items in
      if N.eqb k 0 then
        match expected (TStructR (mkCI (ci_name c) (ci_default c) None (ci_auk c) (ci_from_word c) (ci_from_none c)) fs) (NList i p ti items) with
        | Some v => post_leaves interp_fn (ci_post c) v
        | None => 0%N
        end
      else k.
  Proof. reflexivity. Qed.

  Fixpoint str_mistakes (l : list (vinfo * list (finfo * ty))) (s : string) : N :=
    match l with
    | [] => 1%N
    | (vi, fs) :: r =>
        if (negb (vi_skip vi) && str_eqb (vi_name vi) s)%bool then
          match vi_style vi, fs with
          | VsUnit, _ => 0%N
          | VsNewtype, (_, ft) :: _ => match absent_of ft with Some _ => 0%N | None => 1%N end
          | _, _ => 1%N
          end
        else str_mistakes r s
    end.

  Fixpoint list_mistakes (l : list (vinfo * list (finfo * ty))) (inner : nested) : N :=
    match l with
    | [] => 1%N
    | (vi, fs) :: r =>
        if (negb (vi_skip vi) && str_eqb (vi_name vi) (item_name inner))%bool then
          match vi_style vi, fs with
          | VsUnit, _ => match inner with NPath _ _ => 0%N | _ => 1%N end
          | VsNewtype, (_, ft) :: _ => mistakes ft inner
          | VsStruct, _ =>
              match inner with
              | NList _ _ _ items => struct_mistakes fs (vi_auk vi) items
              | _ => 1%N
              end
          | _, _ => 1%N
          end
        else list_mistakes r inner
    end.

  Lemma mistakes_enum c w vs m :
    mistakes (TEnumR c w vs) m =
      match m with
      | NPath _ _ =>
          match ci_from_word c, w with
          | Some f, _ => match interp_fn f VUnit with Err e => len e | _ => 0%N end
          | None, Some _ => 0%N
          | None, None => 1%N
          end
      | NNameValue _ _ e =>
          match strip_groups e with
          | ELit _ (LStr s) => str_mistakes vs s
          | _ => 1%N
          end
      | NList _ _ _ [inner] => if is_literal inner then 1%N else list_mistakes vs inner
      | _ => 1%N
      end.
  Proof. reflexivity. Qed.

  (** ** sums *)
  Lemma sumN_map_add {A} (g h : A -> N) l : sumN (map (fun x => (g x + h x)%N) l) = (sumN (map g l) + sumN (map h l))%N.
  Proof. unfold sumN. induction l as [|x r IH]; cbn; [reflexivity|]. rewrite IH. lia. Qed.

  Lemma sumN_map_ext {A} (g h : A -> N) l : (forall x, In x l -> g x = h x) -> sumN (map g l) = sumN (map h l).
  Proof. unfold sumN. induction l as [|x r IH]; intros H; cbn; [reflexivity|]. rewrite (H x (or_introl eq_refl)), IH; [reflexivity|]. intros y Hy. apply H. now right. Qed.

  (** adding [d] at index [i] only *)
  Lemma sumN_indicator {A} (l : list A) (i : nat) (d : N) : forall s,
    sumN (map (fun jx : nat * A => if Nat.eqb (fst jx) i then d else 0%N) (combine (seq s (List.length l)) l))
    = if (Nat.leb s i && Nat.ltb i (s + List.length l))%bool then d else 0%N.
  Proof.
    unfold sumN. induction l as [|x r IH]; intros s; cbn [List.length seq combine map fold_right fst].
    - destruct (Nat.leb_spec s i), (Nat.ltb_spec i (s + 0)); cbn; try reflexivity; lia.
    - rewrite (IH (S s)).
      destruct (Nat.eqb_spec s i), (Nat.leb_spec s i), (Nat.leb_spec (S s) i),
               (Nat.ltb_spec i (S s + List.length r)), (Nat.ltb_spec i (s + S (List.length r))); cbn [andb]; lia.
  Qed.

  Lemma sumN_indexed_indicator {A} (l : list A) i d x : nth_error l i = Some x ->
    sumN (map (fun jx : nat * A => if Nat.eqb (fst jx) i then d else 0%N) (indexed l)) = d.
  Proof.
    intros H. unfold indexed. rewrite sumN_indicator.
    assert ((i < List.length l)%nat) by (apply nth_error_Some; congruence).
    destruct (Nat.leb_spec 0 i), (Nat.ltb_spec i (0 + List.length l)); cbn [andb]; try reflexivity; lia.
  Qed.

  Lemma in_indexed {A} (l : list A) j x : In (j, x) (indexed l) -> nth_error l j = Some x.
  Proof.
    unfold indexed. assert (G : forall (l : list A) s, In (j, x) (combine (seq s (List.length l)) l) -> (s <= j)%nat /\ nth_error l (j - s) = Some x).
    { clear. induction l as [|y l IH]; intros s; cbn; [intros []|]. intros [E|Hin].
      - injection E as <- <-. rewrite Nat.sub_diag. auto.
      - destruct (IH (S s) Hin) as [L N]. split; [lia|]. replace (j - s)%nat with (S (j - S s)) by lia. exact N. }
    intros H. destruct (G l 0%nat H) as [_ N]. now rewrite Nat.sub_0_r in N.
  Qed.

  Lemma len_at l e : len (at_ l e) = len e.
  Proof. destruct e; reflexivity. Qed.
  Lemma len_with_span s e : len (with_span s e) = len e.
  Proof. unfold with_span. destruct (span_of e); [reflexivity|]. destruct e; reflexivity. Qed.
  Lemma len_multiple es e : multiple es = POk e -> len e = sumN (map len es).
  Proof.
    destruct es as [|x [|y r]]; cbn [multiple]; [discriminate| |]; intros [= <-]; cbn; [lia|reflexivity].
  Qed.
  Lemma len_add_sibling_alts alts e : len (add_sibling_alts sugg sim alts e) = len e.
  Proof.
    induction e as [k l s | es l s IH] using err_ind'; cbn [add_sibling_alts].
    - destruct l; [|reflexivity]. destruct k; reflexivity.
    - destruct l; [|reflexivity]. cbn [len]. f_equal. rewrite map_map.
      induction IH as [|x r Hx _ IHr]; cbn; [reflexivity|]. now rewrite Hx, IHr.
  Qed.

  Lemma sumN_cons x l : sumN (x :: l) = (x + sumN l)%N.
  Proof. reflexivity. Qed.

  Lemma sumN_combine_snd {A} (g : A -> N) (l : list A) : forall s,
    sumN (map (fun jx : nat * A => g (snd jx)) (combine (seq s (List.length l)) l)) = sumN (map g l).
  Proof. unfold sumN. induction l as [|x r IH]; intros s; cbn [List.length seq combine map fold_right snd]; [reflexivity|]. now rewrite IH. Qed.

  Lemma sumN_combine_map {A B} (h : A -> B) (G : nat -> B -> N) (l : list A) : forall s,
    sumN (map (fun jx : nat * B => G (fst jx) (snd jx)) (combine (seq s (List.length (map h l))) (map h l)))
    = sumN (map (fun jx : nat * A => G (fst jx) (h (snd jx))) (combine (seq s (List.length l)) l)).
  Proof. unfold sumN. induction l as [|x r IH]; intros s; cbn [List.length seq combine map fold_right fst snd]; [reflexivity|]. now rewrite IH. Qed.

  Lemma in_combine_seq {A} (l : list A) : forall s j x, In (j, x) (combine (seq s (List.length l)) l) -> (s <= j)%nat.
  Proof.
    induction l as [|y l IH]; intros s j x; cbn; [intros []|]. intros [E|H]; [injection E as <- _; lia|]. apply IH in H. lia.
  Qed.

  (** ** what the theorem says about a type *)
  Definition count_ty (t : ty) : Prop :=
    forall m, is_meta m = true ->
      match from_meta (impl t) m with
      | Err e => len e = mistakes t m /\ (0 < len e)%N
      | Ok _ => mistakes t m = 0%N
      | Panic _ => True
      end.

  (** errors of user callables are proper errors (at least one leaf) *)
  Hypothesis with_pos : forall w it e, interp_with w it = Err e -> (0 < len e)%N.
  Hypothesis fn_pos : forall g v e, interp_fn g v = Err e -> (0 < len e)%N.

  Section LevelCount.
    Variable fields : list (finfo * ty).
    Variable auk : bool.
    Notation fs := (finfos fields).
    Notation convs := (map (fun ft : finfo * ty => impl (snd ft)) fields).

    Hypothesis ND : NoDup (map fi_ident fs).
    Hypothesis IHc : Forall (fun ft : finfo * ty =>
                               forall m v, is_meta m = true -> from_meta (impl (snd ft)) m = Ok v -> expected (snd ft) m = Some v) fields.
    Hypothesis IHk : Forall (fun ft : finfo * ty => count_ty (snd ft)) fields.

    Notation target := (target fields).
    Notation routes_to := (routes_to fields).
    Notation occ := (occ fields).
    Notation extract := (extract interp_with interp_fn convs).
    Notation item_errs := (item_errs sugg sim interp_with interp_fn fields convs auk).
    Notation spec_errs := (spec_errs sugg sim interp_with interp_fn fields convs auk).

    (** the number of leaves the conversion of [it] for field [j] contributes *)
    Definition elen (j : nat) (f : finfo) (it : nested) : N :=
      match extract j f it "" with Err e => len e | _ => 0%N end.

    Lemma elen_loc j f it loc : match extract j f it loc with Err e => len e | _ => 0%N end = elen j f it.
    Proof.
      unfold elen, Recv.extract. destruct (apply_post _ _ _); cbn [map_err]; try reflexivity. now rewrite !len_at.
    Qed.

    Lemma IHk_nth j f t : nth_error fields j = Some (f, t) -> count_ty t.
    Proof. intros H. apply nth_error_In in H. rewrite Forall_forall in IHk. exact (IHk _ H). Qed.
    Lemma IHc_nth' j f t : nth_error fields j = Some (f, t) ->
      forall m v, is_meta m = true -> from_meta (impl t) m = Ok v -> expected t m = Some v.
    Proof. intros H. apply nth_error_In in H. rewrite Forall_forall in IHc. exact (IHc _ H). Qed.

    Lemma post_cost p v :
      match apply_post interp_fn p (Ok v) with Err e => len e | _ => 0%N end = post_leaves interp_fn p v.
    Proof. unfold apply_post, post_leaves. destruct p as [[b g]|]; [|reflexivity]. cbn [bind]. unfold run_fn. destruct (interp_fn g v); reflexivity. Qed.

    Lemma elen_conv j f t it :
      nth_error fields j = Some (f, t) -> is_meta it = true -> is_panic (extract j f it "") = false ->
      elen j f it = conv_mistakes f t it.
    Proof.
      intros Hj M NP. unfold elen, conv_mistakes. unfold Recv.extract in *.
      destruct (fi_with f) as [w|].
      - destruct (interp_with w it) as [v|e|m] eqn:W.
        + rewrite <- post_cost. destruct (apply_post interp_fn (fi_post f) (Ok v)); cbn [map_err]; try reflexivity. now rewrite len_at, len_with_span.
        + assert (A : apply_post interp_fn (fi_post f) (Err e) = Err e) by (unfold apply_post; destruct (fi_post f) as [[]|]; reflexivity).
          rewrite A. cbn [map_err]. now rewrite len_at, len_with_span.
        + assert (A : apply_post interp_fn (fi_post f) (Panic m) = Panic m) by (unfold apply_post; destruct (fi_post f) as [[]|]; reflexivity).
          rewrite A. reflexivity.
      - rewrite (conv_of_nth pf reparse reparse_arr reparse_preds sugg sim interp_with interp_fn fields j f t Hj) in *.
        pose proof (IHk_nth j f t Hj it M) as K. destruct (from_meta (impl t) it) as [v|e|m] eqn:FM.
        + rewrite K. cbn [N.eqb]. rewrite (IHc_nth' j f t Hj it v M FM). rewrite <- post_cost.
          destruct (apply_post interp_fn (fi_post f) (Ok v)); cbn [map_err]; try reflexivity. now rewrite len_at, len_with_span.
        + destruct K as [K1 K2].
          assert (A : apply_post interp_fn (fi_post f) (Err e) = Err e) by (unfold apply_post; destruct (fi_post f) as [[]|]; reflexivity).
          rewrite A. cbn [map_err]. rewrite len_at, len_with_span, <- K1.
          destruct (N.eqb_spec (len e) 0); [lia|reflexivity].
        + exfalso. assert (A : apply_post interp_fn (fi_post f) (Panic m) = Panic m) by (unfold apply_post; destruct (fi_post f) as [[]|]; reflexivity).
          rewrite A in NP. discriminate.
    Qed.

    Definition occcost (j : nat) (f : finfo) (items : list nested) : N :=
      if fi_multiple f then sumN (map (elen j f) (occ j items))
      else match occ j items with [] => 0%N | it :: rest => (elen j f it + N.of_nat (List.length rest))%N end.

    Definition unaddressed (items : list nested) : list nested :=
      filter (fun it => is_meta it && match target it with None => true | _ => false end)%bool items.

    Definition ucost (items : list nested) : N :=
      if (has_flatten fields || auk)%bool then 0%N else N.of_nat (List.length (unaddressed items)).

    Definition total_occ (items : list nested) : N :=
      sumN (map (fun jft : nat * (finfo * ty) => occcost (fst jft) (fst (snd jft)) items) (indexed fields)).

    Lemma routes_to_target it i f : target it = Some (i, f) -> forall j, routes_to j it = Nat.eqb i j.
    Proof. intros T j. unfold LoopProofs.routes_to. now rewrite T. Qed.

    Lemma routes_to_none it : target it = None -> forall j, routes_to j it = false.
    Proof. intros T j. unfold LoopProofs.routes_to. now rewrite T. Qed.

    Lemma occ_snoc_other j l it : routes_to j it = false -> occ j (l ++ [it]) = occ j l.
    Proof. intros R. rewrite occ_snoc, R. apply app_nil_r. Qed.

    Lemma occcost_same j f l it : routes_to j it = false -> occcost j f (l ++ [it]) = occcost j f l.
    Proof. intros R. unfold occcost. now rewrite (occ_snoc_other j l it R). Qed.

    (** the leaves of the errors the item loop records: literals, unaddressed names, and per
        field the leaves of its conversions and one per repeat *)
    Lemma errs_sum items :
      sumN (map len (spec_errs items))
      = (N.of_nat (List.length (filter is_literal items)) + ucost items + total_occ items)%N.
    Proof.
      induction items as [|it l IH] using rev_ind.
      - cbn. unfold ucost, unaddressed, total_occ. cbn.
        assert (Z : forall (ll : list (nat * (finfo * ty))), sumN (map (fun jft => occcost (fst jft) (fst (snd jft)) []) ll) = 0%N).
        { induction ll as [|x r IHr]; [reflexivity|]. unfold sumN in *. cbn [map fold_right]. rewrite IHr. unfold occcost. cbn. destruct (fi_multiple _); reflexivity. }
        rewrite Z. destruct (has_flatten fields || auk)%bool; reflexivity.
      - rewrite spec_errs_snoc, map_app, sumN_app, IH. rewrite filter_app, app_length, Nat2N.inj_add.
        unfold ucost, unaddressed. rewrite filter_app, app_length, Nat2N.inj_add. cbn [filter].
        destruct (is_meta it) eqn:M.
        2:{ (* a literal *)
            destruct it as [i0 l0| | | |]; try discriminate. cbn [is_literal List.length andb].
            assert (T : target (NLit i0 l0) = None) by reflexivity.
            assert (E : total_occ (l ++ [NLit i0 l0]) = total_occ l).
            { unfold total_occ. apply sumN_map_ext. intros [j [f t]] _. cbn [fst snd]. apply occcost_same. now apply routes_to_none. }
            rewrite E. cbn [LoopProofs.item_errs map sumN fold_right]. rewrite len_with_span.
            change (len (unsupported_format "literal")) with 1%N.
            destruct (has_flatten fields || auk)%bool; lia. }
        assert (NL : is_literal it = false) by (destruct it; try discriminate; reflexivity). rewrite NL. cbn [List.length andb].
        assert (IE : LoopProofs.item_errs sugg sim interp_with interp_fn fields convs auk l it =
                     match target it with
                     | Some (i, f) =>
                         if fi_multiple f then
                           match extract i f it (multi_loc f (List.length (multi_vals interp_with interp_fn convs i f (occ i l) []))) with
                           | Err e => [e] | _ => [] end
                         else match occ i l with
                              | [] => match extract i f it (fi_name f) with Err e => [e] | _ => [] end
                              | _ :: _ => [with_span (ispan it) (new_err (KDuplicateField (fi_name f)))]
                              end
                     | None => if has_flatten fields then [] else if auk then [] else [unknown_error sugg sim fields (RecvProofs.item_name it) it]
                     end) by (destruct it; try discriminate; reflexivity).
        rewrite IE. clear IE. destruct (target it) as [[i f]|] eqn:T.
        + (* addressed to field i *)
          destruct (target_some fields it i f T) as [_ [Nt _]]. destruct (nth_fs_fields fields i f Nt) as [t Hi].
          cbn [List.length]. rewrite !N.add_0_r.
          set (delta := sumN (map len (if fi_multiple f then
                           match extract i f it (multi_loc f (List.length (multi_vals interp_with interp_fn convs i f (occ i l) []))) with
                           | Err e => [e] | _ => [] end
                         else match occ i l with
                              | [] => match extract i f it (fi_name f) with Err e => [e] | _ => [] end
                              | _ :: _ => [with_span (ispan it) (new_err (KDuplicateField (fi_name f)))]
                              end))).
          assert (E : total_occ (l ++ [it]) = (total_occ l + delta)%N).
          { unfold total_occ.
            rewrite <- (sumN_indexed_indicator fields i delta (f, t) Hi), <- sumN_map_add. apply sumN_map_ext.
            intros [j [g tg]] Hin. cbn [fst snd]. apply in_indexed in Hin.
            rewrite Nat.eqb_sym. destruct (Nat.eqb_spec i j) as [<-|Ne].
            - assert (g = f /\ tg = t) by (split; congruence). destruct H as [-> ->].
              unfold occcost, delta. rewrite occ_snoc, (routes_to_target it i f T), Nat.eqb_refl.
              destruct (fi_multiple f).
              + rewrite map_app, sumN_app. cbn [map]. f_equal.
                rewrite <- (elen_loc i f it (multi_loc f (List.length (multi_vals interp_with interp_fn convs i f (occ i l) [])))).
                destruct (extract i f it _); cbn; lia.
              + destruct (occ i l) as [|x rest]; cbn [app].
                * rewrite <- (elen_loc i f it (fi_name f)). destruct (extract i f it (fi_name f)); cbn; lia.
                * rewrite app_length. unfold sumN. cbn [map fold_right List.length]. rewrite len_with_span.
                  change (len (new_err (KDuplicateField (fi_name f)))) with 1%N. lia.
            - rewrite N.add_0_r. apply occcost_same. rewrite (routes_to_target it i f T). now apply Nat.eqb_neq. }
          rewrite E. fold delta. destruct (has_flatten fields || auk)%bool; lia.
        + (* addressed to no field *)
          assert (E : total_occ (l ++ [it]) = total_occ l).
          { unfold total_occ. apply sumN_map_ext. intros [j [f t]] _. cbn [fst snd]. apply occcost_same. now apply routes_to_none. }
          rewrite E. cbn [List.length]. unfold unknown_error.
          destruct (has_flatten fields) eqn:HF; cbn [orb]; [cbn; lia|]. destruct (Bool.bool_dec auk true) as [AU|AU]; [|apply Bool.not_true_is_false in AU]; rewrite AU; [cbn; lia|].
          cbn [map sumN fold_right]. rewrite len_with_span. destruct (names fields); cbn [len]; unfold unknown_field_with_alts, new_err; cbn [len]; lia.
    Qed.

    (** ** the remaining hypotheses about the declaration *)
    Hypothesis FL1 : forall f, In f fs -> fi_flatten f = true -> fi_skip f = false /\ fi_multiple f = false.
    Hypothesis FL2 : forall i j f g, nth_error fs i = Some f -> nth_error fs j = Some g ->
                                     fi_flatten f = true -> fi_flatten g = true -> i = j.
    Hypothesis SK : forall f, In f fs -> fi_skip f = true -> fi_default f <> None.
    Hypothesis FS : forall f t, In (f, t) fields -> fi_flatten f = true -> flat_target t = true.

    Lemma extract_panic_loc i f it loc loc' : is_panic (extract i f it loc) = is_panic (extract i f it loc').
    Proof. unfold Recv.extract. destruct (apply_post _ _ _); reflexivity. Qed.

    Lemma filter_first_split {A} (p : A -> bool) l x rest : filter p l = x :: rest ->
      exists pre suf, l = pre ++ x :: suf /\ filter p pre = [] /\ p x = true.
    Proof.
      induction l as [|y l IH]; cbn [filter]; [discriminate|]. destruct (p y) eqn:Py.
      - intros [= -> <-]. exists [], l. auto.
      - intros H. destruct (IH H) as [pre [suf [-> [F Px]]]]. exists (y :: pre), suf. cbn [filter app]. rewrite Py. auto.
    Qed.

    Lemma is_meta_not_literal it : is_meta it = negb (is_literal it).
    Proof. destruct it; reflexivity. Qed.

    Lemma routes_target j it : routes_to j it = true -> exists g, target it = Some (j, g) /\ nth_error fs j = Some g /\ is_meta it = true.
    Proof.
      unfold LoopProofs.routes_to. destruct (target it) as [[i g]|] eqn:T; [|discriminate]. intros R. apply Nat.eqb_eq in R. subst i.
      destruct (target_some fields it j g T) as [M [Ng _]]. eauto.
    Qed.

    Lemma occ_socc_metas j f l : nth_error fs j = Some f -> addressable f = true ->
      occ j l = (if is_first_named fs f then filter (fun it => str_eqb (item_name it) (fi_name f)) (filter (fun it => negb (is_literal it)) l) else []).
    Proof.
      intros Hf Ad. unfold LoopProofs.occ.
      transitivity (filter (fun it => is_first_named fs f && str_eqb (item_name it) (fi_name f))%bool (filter (fun it => negb (is_literal it)) l)).
      - induction l as [|x r IH]; [reflexivity|]. cbn [filter]. rewrite (routes_to_spec fields ND j f x Hf Ad), is_meta_not_literal.
        destruct (negb (is_literal x)); cbn [andb filter]; [|exact IH].
        destruct (is_first_named fs f && str_eqb (item_name x) (fi_name f))%bool; now rewrite IH.
      - destruct (is_first_named fs f); cbn [andb]; [reflexivity|]. generalize (filter (fun it => negb (is_literal it)) l) as ll.
        induction ll as [|x r IH]; [reflexivity|exact IH].
    Qed.

    Lemma occ_unaddr j f l : nth_error fs j = Some f -> addressable f = false -> occ j l = [].
    Proof.
      intros Hj Ad. unfold LoopProofs.occ. induction l as [|it r IH]; [reflexivity|]. cbn [filter].
      destruct (routes_to j it) eqn:R; [|exact IH]. exfalso. destruct (routes_target j it R) as [g [T [Ng _]]].
      unfold LoopProofs.target in T. destruct (is_meta it); [|discriminate].
      pose proof (find_arm_addressed fs 0 (RecvProofs.item_name it)) as F. rewrite T in F. destruct F as [_ [_ [_ [_ Ad']]]]. congruence.
    Qed.


    Lemma spec_flat_unclaimed_gen l : has_flatten fields = true ->
      spec_flat fields l = filter (fun it => negb (known fs it)) (filter (fun it => negb (is_literal it)) l).
    Proof.
      intros HF. unfold spec_flat. rewrite HF.
      induction l as [|x r IH]; [reflexivity|]. cbn [filter]. rewrite is_meta_not_literal.
      destruct (negb (is_literal x)) eqn:M; cbn [andb filter]; [|exact IH].
      assert (Mx : is_meta x = true) by (now rewrite is_meta_not_literal).
      assert (T : match target x with None => true | Some _ => false end = negb (known fs x)).
      { unfold LoopProofs.target, known. rewrite Mx.
        pose proof (find_arm_addressed fs 0 (RecvProofs.item_name x)) as FA. change (RecvProofs.item_name x) with (item_name x) in *.
        destruct (find_arm fs 0 (item_name x)) as [[i g]|]; [destruct FA as [-> _]|rewrite FA]; reflexivity. }
      rewrite T. destruct (negb (known fs x)); now rewrite IH.
    Qed.

    Lemma unaddressed_unclaimed l :
      filter (fun it => is_meta it && match target it with None => true | Some _ => false end)%bool l
      = filter (fun it => negb (known fs it)) (filter (fun it => negb (is_literal it)) l).
    Proof.
      induction l as [|x r IH]; [reflexivity|]. cbn [filter]. rewrite is_meta_not_literal.
      destruct (negb (is_literal x)) eqn:M; cbn [andb filter]; [|exact IH].
      assert (Mx : is_meta x = true) by (now rewrite is_meta_not_literal).
      assert (T : match target x with None => true | Some _ => false end = negb (known fs x)).
      { unfold LoopProofs.target, known. rewrite Mx.
        pose proof (find_arm_addressed fs 0 (RecvProofs.item_name x)) as FA. change (RecvProofs.item_name x) with (item_name x) in *.
        destruct (find_arm fs 0 (item_name x)) as [[i g]|]; [destruct FA as [-> _]|rewrite FA]; reflexivity. }
      rewrite T. destruct (negb (known fs x)); now rewrite IH.
    Qed.

    Lemma fields_mistakes_sum all_fs (fl : list (finfo * ty)) its un : forall s,
      fields_mistakes all_fs fl its un
      = sumN (map (fun jft : nat * (finfo * ty) => here_mistakes all_fs its un (fst (snd jft)) (snd (snd jft))) (combine (seq s (List.length fl)) fl)).
    Proof.
      induction fl as [|[f t] r IH]; intros s; cbn [fields_mistakes List.length seq combine map]; [reflexivity|].
      rewrite sumN_cons. cbn [fst snd]. now rewrite (IH (S s)).
    Qed.

    (** every recorded error is a proper error *)
    Lemma extract_pos i f t it loc e : nth_error fields i = Some (f, t) -> is_meta it = true ->
      extract i f it loc = Err e -> (0 < len e)%N.
    Proof.
      intros Hi M. unfold Recv.extract.
      match goal with |- map_err _ ?r = _ -> _ => destruct r as [v|x|m] eqn:R end; cbn [map_err]; try discriminate. intros [= <-].
      rewrite len_at, len_with_span. unfold apply_post in R.
      assert (G : forall r : res value, (forall y, r = Err y -> (0 < len y)%N) ->
                    match fi_post f with None => r | Some (_, g) => bind r (run_fn interp_fn g) end = Err x -> (0 < len x)%N).
      { intros r Hr. destruct (fi_post f) as [[b g]|]; [|apply Hr]. destruct r as [v|y|m]; cbn [bind]; try discriminate.
        - unfold run_fn. apply fn_pos.
        - intros [= <-]. now apply Hr. }
      revert R. apply G. intros y. destruct (fi_with f) as [w|]; [apply with_pos|].
      rewrite (conv_of_nth pf reparse reparse_arr reparse_preds sugg sim interp_with interp_fn fields i f t Hi).
      intros Hy. pose proof (IHk_nth i f t Hi it M) as K. rewrite Hy in K. apply K.
    Qed.

    Lemma errs_from_pos its es :
      errs_from sugg sim interp_with interp_fn fields convs auk its es -> Forall (fun e => (0 < len e)%N) es.
    Proof.
      induction 1 as [|item its' es' _ IH|item its' e es' IE _ IH]; [constructor|exact IH|]. constructor; [|exact IH].
      destruct IE as [i l -> -> | i f M FA -> | i f loc M FA EX | M FA HF AU ->].
      - rewrite len_with_span. cbn. lia.
      - rewrite len_with_span. cbn. lia.
      - pose proof (find_arm_addressed fs 0 (RecvProofs.item_name item)) as F. rewrite FA in F. destruct F as [_ [Nt _]]. rewrite Nat.sub_0_r in Nt.
        destruct (nth_fs_fields fields i f Nt) as [t Hi]. exact (extract_pos i f t item loc e Hi M EX).
      - rewrite unknown_error_eq, len_with_span. cbn. lia.
    Qed.

    Lemma check_all_pos slots : forall i0 fl, Forall (fun e => (0 < len e)%N) (snd (check_all convs i0 slots fl)).
    Proof.
      induction slots as [|s sr IH]; intros i0 [|f fr]; cbn [check_all snd]; try constructor.
      destruct (check_one convs i0 f s) as [s' e] eqn:CO. specialize (IH (S i0) fr).
      destruct (check_all convs (S i0) sr fr) as [sr' er]. cbn [snd] in *. apply Forall_app. split; [|exact IH].
      unfold check_one in CO. destruct (needs_check f); [|injection CO as <- <-; constructor].
      destruct s as [[|] v|vals]; try (injection CO as <- <-; constructor).
      destruct (from_none (conv_of convs i0)); injection CO as <- <-; constructor; [cbn; lia|constructor].
    Qed.

    Section Run.
      Variable items : list nested.
      Variable st1 : pstate.
      Hypothesis L : core_loop sugg sim interp_with interp_fn fields convs auk (state0 fields) items = Ok st1.

      Let metas := filter (fun it => negb (is_literal it)) items.
      Let unclaimed := filter (fun it => negb (known fs it)) metas.

      Lemma call_ok_L pre it suf i f : items = pre ++ it :: suf -> target it = Some (i, f) ->
        (fi_multiple f = true -> is_panic (extract i f it "") = false)
        /\ (fi_multiple f = false -> occ i pre = [] -> is_panic (extract i f it "") = false).
      Proof.
        intros E T. pose proof L as L'. unfold core_loop in L'. rewrite E in L'.
        destruct (fold_ok_prefix pf reparse reparse_arr reparse_preds sugg sim interp_with interp_fn fields auk pre (it :: suf) _ _ L') as [stp [Lp Ls]].
        destruct (loop_is_spec sugg sim interp_with interp_fn fields convs auk pre stp Lp) as [Sl _].
        cbn [fold_left] in Ls.
        assert (S : exists stx, core_step sugg sim interp_with interp_fn fields convs auk (Ok stp) it = Ok stx).
        { destruct (core_step sugg sim interp_with interp_fn fields convs auk (Ok stp) it) as [stx|e|m]; [eauto| |]; exfalso; clear -Ls;
            induction suf as [|x l IHl]; cbn in Ls; try discriminate; now apply IHl. }
        destruct S as [stx S]. destruct (target_some fields it i f T) as [M [Nt FA]].
        rewrite (core_step_meta _ _ _ _ _ _ _ stp it M) in S. unfold meta_step in S. rewrite FA in S.
        rewrite Sl, (nth_spec_slots interp_with interp_fn fields convs pre i f _ Nt) in S. unfold slot_spec in S.
        split.
        - intros Mu. rewrite Mu in S. revert S.
          match goal with |- context [Recv.extract ?a ?b ?c i f it ?loc] => rewrite (extract_panic_loc i f it "" loc); destruct (Recv.extract a b c i f it loc) end;
            intros S; try discriminate; reflexivity.
        - intros Mu O. rewrite Mu, O in S. revert S. rewrite (extract_panic_loc i f it "" (fi_name f)).
          destruct (extract i f it (fi_name f)); intros S; try discriminate; reflexivity.
      Qed.

      (** every executed conversion's leaves are the specification's count *)
      Lemma occ_elen_multi j f t : nth_error fields j = Some (f, t) -> fi_multiple f = true ->
        forall it, In it (occ j items) -> elen j f it = conv_mistakes f t it.
      Proof.
        intros Hj Mu it Hin. apply filter_In in Hin as [Hin R]. destruct (routes_target j it R) as [g [T [Ng M]]].
        assert (g = f) by (pose proof (nth_fields_fs fields j f t Hj); congruence). subst g.
        apply in_split in Hin as [pre [suf E]]. apply (elen_conv j f t it Hj M). now apply (proj1 (call_ok_L pre it suf j f E T)).
      Qed.

      Lemma occ_elen_first j f t x rest : nth_error fields j = Some (f, t) -> fi_multiple f = false ->
        occ j items = x :: rest -> elen j f x = conv_mistakes f t x.
      Proof.
        intros Hj Mu O. destruct (filter_first_split _ _ _ _ O) as [pre [suf [E [Fp R]]]].
        destruct (routes_target j x R) as [g [T [Ng M]]].
        assert (g = f) by (pose proof (nth_fields_fs fields j f t Hj); congruence). subst g.
        apply (elen_conv j f t x Hj M). now apply (proj2 (call_ok_L pre x suf j f E T)).
      Qed.

      (** ordinary and skipped fields: occurrences + presence check = the specification's count *)
      Lemma field_cost_plain j f t :
        nth_error fields j = Some (f, t) -> fi_flatten f = false ->
        (occcost j f items
         + sumN (map len (snd (check_one convs j f (slot_spec interp_with interp_fn fields convs j f items)))))%N
        = here_mistakes fs metas unclaimed f t.
      Proof.
        intros Hj Fl. pose proof (nth_fields_fs fields j f t Hj) as Hf. unfold here_mistakes. rewrite Fl.
        unfold occcost, slot_spec, check_one, needs_check. destruct (fi_skip f) eqn:Sk.
        - assert (Ad : addressable f = false) by (unfold addressable; now rewrite Sk).
          rewrite (occ_unaddr j f items Hf Ad).
          destruct (fi_default f) as [d|] eqn:D; [|exfalso; exact (SK f (nth_error_In _ _ Hf) Sk D)].
          destruct (fi_multiple f); cbn; reflexivity.
        - assert (Ad : addressable f = true) by (unfold addressable; now rewrite Sk, Fl).
          unfold metas. rewrite <- (occ_socc_metas j f items Hf Ad).
          destruct (fi_multiple f) eqn:Mu; cbn [orb negb snd map sumN fold_right].
          + rewrite N.add_0_r. apply sumN_map_ext. intros it Hin. now apply (occ_elen_multi j f t Hj Mu).
          + destruct (occ j items) as [|x rest] eqn:O.
            * destruct (fi_default f) as [d|] eqn:D; cbn [negb snd map sumN fold_right]; [destruct (absent_of t); reflexivity|].
              rewrite (conv_of_nth pf reparse reparse_arr reparse_preds sugg sim interp_with interp_fn fields j f t Hj).
              rewrite <- (absent_is_from_none pf reparse reparse_arr reparse_preds sugg sim interp_with interp_fn t).
              destruct (absent_of t); cbn; reflexivity.
            * rewrite (occ_elen_first j f t x rest Hj Mu O).
              destruct (negb (match fi_default f with Some _ => true | None => false end)); cbn [snd map sumN fold_right]; lia.
      Qed.

      (** *** the flatten hand-off and the presence checks *)
      Variable stf : pstate.
      Hypothesis FI : flatten_init sugg sim fields convs st1 = Ok stf.

      Lemma spec_flat_unclaimed : has_flatten fields = true -> spec_flat fields items = unclaimed.
      Proof. intros HF. unfold unclaimed, metas. now apply spec_flat_unclaimed_gen. Qed.

      Definition flat_index : option nat := find_flatten fs 0.

      (** the leaves the flatten member added *)
      Definition flatlen : N := (sumN (map len (ps_errs stf)) - sumN (map len (ps_errs st1)))%N.

      Lemma stf_shape :
        match flat_index with
        | None => stf = st1
        | Some i =>
            exists g gt, nth_error fields i = Some (g, gt) /\ fi_flatten g = true
              /\ match from_list (impl gt) (ps_flat st1) with
                 | Ok v => stf = mkPS (set_slot i (SSingle true (Some v)) (ps_slots st1)) (ps_errs st1) (ps_flat st1)
                 | Err e => exists e', len e' = len e /\
                            stf = mkPS (set_slot i (SSingle true None) (ps_slots st1)) (ps_errs st1 ++ [e']) (ps_flat st1)
                 | Panic _ => False
                 end
        end.
      Proof.
        unfold flat_index. pose proof FI as H. unfold flatten_init in H. destruct (find_flatten fs 0) as [i|] eqn:FF; [|now injection H as <-].
        destruct (find_flatten_some _ _ _ FF) as [g [Ng [Fg _]]]. rewrite Nat.sub_0_r in Ng. destruct (nth_fs_fields fields i g Ng) as [gt Hg].
        exists g, gt. split; [exact Hg|]. split; [exact Fg|].
        rewrite (conv_of_nth pf reparse reparse_arr reparse_preds sugg sim interp_with interp_fn fields i g gt Hg) in H.
        destruct (from_list (impl gt) (ps_flat st1)) as [v|e|m].
        - destruct (names fields); cbn [map_err] in H; now injection H as <-.
        - destruct (names fields); cbn [map_err] in H; injection H as <-; eexists; (split; [|reflexivity]); [reflexivity|apply len_add_sibling_alts].
        - destruct (names fields); discriminate.
      Qed.

      Lemma check_all_sum slots : forall i0 (fl : list finfo), List.length slots = List.length fl ->
        sumN (map len (snd (check_all convs i0 slots fl))) =
        sumN (map (fun jf : nat * finfo =>
                     sumN (map len (snd (check_one convs (fst jf) (snd jf) (nth (fst jf - i0) slots (SSingle true None))))))
                  (combine (seq i0 (List.length fl)) fl)).
      Proof.
        induction slots as [|x sr IH]; intros i0 [|g fr] Len; cbn in Len; try discriminate; [reflexivity|].
        cbn [check_all List.length seq combine map]. destruct (check_one convs i0 g x) as [x' e] eqn:CO.
        specialize (IH (S i0) fr ltac:(lia)). destruct (check_all convs (S i0) sr fr) as [sr' er]. cbn [snd] in *.
        rewrite map_app, sumN_app, IH, sumN_cons. cbn [fst snd].
        rewrite Nat.sub_diag. cbn [nth]. rewrite CO. cbn [snd]. f_equal.
        apply sumN_map_ext. intros [j f] Hin. cbn [fst snd]. apply in_combine_seq in Hin.
        replace (j - i0)%nat with (S (j - S i0)) by lia. reflexivity.
      Qed.

      Lemma len_slots_st1 : List.length (ps_slots st1) = List.length fs.
      Proof. destruct (loop_is_spec sugg sim interp_with interp_fn fields convs auk items st1 L) as [Sl _]. rewrite Sl. apply spec_slots_length. Qed.

      Lemma slot_st1 j f : nth_error fs j = Some f -> nth j (ps_slots st1) (SSingle true None) = slot_spec interp_with interp_fn fields convs j f items.
      Proof. intros Hf. destruct (loop_is_spec sugg sim interp_with interp_fn fields convs auk items st1 L) as [Sl _]. rewrite Sl. now apply nth_spec_slots. Qed.

      Lemma nth_set_slot_same i s l d : (i < List.length l)%nat -> nth i (set_slot i s l) d = s.
      Proof. intros H. apply nth_error_nth. now apply nth_error_set_slot_same. Qed.
      Lemma nth_set_slot_other i s l j d : j <> i -> (i < List.length l)%nat -> nth j (set_slot i s l) d = nth j l d.
      Proof.
        intros Ne H. destruct (Nat.lt_ge_cases j (List.length l)) as [Lt|Ge].
        - pose proof (nth_error_set_slot_other i s l j Ne H) as E. destruct (nth_error l j) as [x|] eqn:N; [|apply nth_error_None in N; lia].
          rewrite (nth_error_nth _ _ d E). symmetry. now apply nth_error_nth.
        - rewrite !nth_overflow; auto. unfold set_slot. rewrite app_length, firstn_length. cbn [List.length]. rewrite skipn_length. lia.
      Qed.

      (** per field: occurrences + flatten hand-off + presence check = the specification's count *)
      Definition field_cost (jft : nat * (finfo * ty)) : N :=
        (occcost (fst jft) (fst (snd jft)) items
         + (match flat_index with Some i => if Nat.eqb (fst jft) i then flatlen else 0 | None => 0 end)
         + sumN (map len (snd (check_one convs (fst jft) (fst (snd jft)) (nth (fst jft) (ps_slots stf) (SSingle true None))))))%N.

      Lemma field_cost_here j f t : nth_error fields j = Some (f, t) ->
        field_cost (j, (f, t)) = here_mistakes fs metas unclaimed f t.
      Proof.
        intros Hj. pose proof (nth_fields_fs fields j f t Hj) as Hf. unfold field_cost. cbn [fst snd].
        pose proof stf_shape as SH. unfold flatlen. destruct flat_index as [i|] eqn:FX.
        - destruct SH as [g [gt [Hg [Fg SH]]]]. pose proof (nth_fields_fs fields i g gt Hg) as Ng.
          assert (Li : (i < List.length (ps_slots st1))%nat) by (rewrite len_slots_st1; apply nth_error_Some; congruence).
          destruct (Nat.eqb_spec j i) as [->|Ne].
          + (* the flatten member *)
            assert (f = g /\ t = gt) by (split; congruence). destruct H as [-> ->].
            destruct (FL1 g (nth_error_In _ _ Ng) Fg) as [Skg Mug].
            pose proof (FS g gt (nth_error_In _ _ Hg) Fg) as FT.
            assert (Ad : addressable g = false) by (unfold addressable; now rewrite Fg, Skg).
            unfold occcost. rewrite (occ_unaddr i g items Ng Ad). unfold here_mistakes. rewrite Skg, Fg.
            assert (HF : has_flatten fields = true) by (unfold has_flatten; apply existsb_exists; exists g; split; [eapply nth_error_In; exact Ng|exact Fg]).
            destruct (loop_is_spec sugg sim interp_with interp_fn fields convs auk items st1 L) as [_ [_ Fl]].
            rewrite Fl, (spec_flat_unclaimed HF) in SH.
            pose proof (IHk_nth i g _ Hg (dummy_list unclaimed) eq_refl) as K.
            rewrite flat_meta_list in K by exact FT.
            destruct (from_list (impl gt) unclaimed) as [v|e|m]; cbn [map_err] in K; [| |destruct SH].
            * subst stf. cbn [ps_errs ps_slots]. rewrite nth_set_slot_same by exact Li. rewrite K, N.sub_diag.
              unfold check_one. destruct (needs_check g), (fi_multiple g); cbn; reflexivity.
            * destruct SH as [e' [Le ->]]. cbn [ps_errs ps_slots]. rewrite nth_set_slot_same by exact Li.
              rewrite map_app, sumN_app. cbn [map]. rewrite sumN_cons, Le.
              destruct K as [K _]. rewrite len_with_span in K. rewrite <- K.
              unfold check_one. destruct (needs_check g), (fi_multiple g); cbn [snd map]; unfold sumN; cbn [fold_right]; lia.
          + (* any other field *)
            assert (Ff : fi_flatten f = false).
            { destruct (fi_flatten f) eqn:Ff; [|reflexivity]. exfalso. apply Ne. exact (FL2 j i f g Hf Ng Ff Fg). }
            assert (SL : nth j (ps_slots stf) (SSingle true None) = slot_spec interp_with interp_fn fields convs j f items).
            { destruct (from_list (impl gt) (ps_flat st1)) as [v|e|m]; [subst stf|destruct SH as [e' [_ ->]]|destruct SH]; cbn [ps_slots];
                rewrite nth_set_slot_other by (auto; lia); now apply slot_st1. }
            rewrite SL, N.add_0_r. now apply field_cost_plain.
        - subst stf. rewrite N.add_0_r. rewrite (slot_st1 j f Hf). apply field_cost_plain; [exact Hj|].
          unfold flat_index in FX. apply (find_flatten_none fs 0 FX). eapply nth_error_In. exact Hf.
      Qed.

      Lemma errs_stf : sumN (map len (ps_errs stf)) = (sumN (map len (ps_errs st1)) + flatlen)%N.
      Proof.
        unfold flatlen. pose proof stf_shape as SH. destruct flat_index as [i|].
        - destruct SH as [g [gt [_ [_ SH]]]]. destruct (from_list (impl gt) (ps_flat st1)) as [v|e|m]; [subst stf|destruct SH as [e' [_ ->]]|destruct SH]; cbn [ps_errs].
          + lia.
          + rewrite map_app, sumN_app. lia.
        - subst stf. lia.
      Qed.

      Lemma len_slots_stf : List.length (ps_slots stf) = List.length fs.
      Proof.
        pose proof stf_shape as SH. pose proof len_slots_st1 as L1. destruct flat_index as [i|]; [|now subst stf].
        destruct SH as [g [gt [Hg [_ SH]]]].
        assert (Li : (i < List.length (ps_slots st1))%nat) by (rewrite L1; apply nth_error_Some; rewrite (nth_fields_fs fields i g gt Hg); discriminate).
        destruct (from_list (impl gt) (ps_flat st1)) as [v|e|m]; [subst stf|destruct SH as [e' [_ ->]]|destruct SH]; cbn [ps_slots];
          unfold set_slot; rewrite app_length, firstn_length; cbn [List.length]; rewrite skipn_length; lia.
      Qed.

      Lemma flatlen_sum : sumN (map (fun jft : nat * (finfo * ty) =>
                                       match flat_index with Some i => if Nat.eqb (fst jft) i then flatlen else 0%N | None => 0%N end) (indexed fields))
                          = flatlen.
      Proof.
        pose proof stf_shape as SH. destruct flat_index as [i|] eqn:FX.
        - destruct SH as [g [gt [Hg _]]]. exact (sumN_indexed_indicator fields i flatlen (g, gt) Hg).
        - unfold flatlen. subst stf. rewrite N.sub_diag. generalize (indexed fields) as ll.
          induction ll as [|x r IH]; [reflexivity|]. cbn [map]. now rewrite sumN_cons, IH.
      Qed.

      Lemma run_sum :
        sumN (map len (ps_errs stf ++ snd (check_all convs 0 (ps_slots stf) fs))) = struct_mistakes fields auk items.
      Proof.
        rewrite map_app, sumN_app, errs_stf.
        destruct (loop_is_spec sugg sim interp_with interp_fn fields convs auk items st1 L) as [_ [El _]]. rewrite El, errs_sum.
        rewrite (check_all_sum (ps_slots stf) 0 fs len_slots_stf).
        unfold finfos. rewrite (sumN_combine_map fst (fun j f => sumN (map len (snd (check_one convs j f (nth (j - 0) (ps_slots stf) (SSingle true None)))))) fields 0).
        fold (indexed fields). rewrite <- flatlen_sum. unfold total_occ.
        transitivity (N.of_nat (List.length (filter is_literal items)) + ucost items + sumN (map field_cost (indexed fields)))%N.
        { unfold field_cost. rewrite !sumN_map_add.
          assert (E : forall ll : list (nat * (finfo * ty)),
                     sumN (map (fun jx => sumN (map len (snd (check_one convs (fst jx) (fst (snd jx)) (nth (fst jx - 0) (ps_slots stf) (SSingle true None)))))) ll)
                     = sumN (map (fun jft => sumN (map len (snd (check_one convs (fst jft) (fst (snd jft)) (nth (fst jft) (ps_slots stf) (SSingle true None)))))) ll)).
          { intros ll. apply sumN_map_ext. intros x _. now rewrite Nat.sub_0_r. }
          rewrite E. lia. }
        unfold struct_mistakes. fold (finfos fields). fold metas. fold unclaimed.
        assert (U : ucost items = (if (existsb fi_flatten fs || auk)%bool then 0 else N.of_nat (List.length unclaimed))%N).
        { unfold ucost, has_flatten. destruct (existsb fi_flatten fs || auk)%bool; [reflexivity|]. f_equal. f_equal.
          unfold unaddressed, unclaimed, metas. apply unaddressed_unclaimed. }
        rewrite U. f_equal.
        rewrite (fields_mistakes_sum fs fields metas unclaimed 0). apply sumN_map_ext.
        intros [j [f t]] Hin. apply in_indexed in Hin. now apply field_cost_here.
      Qed.

      Lemma all_errors_pos : Forall (fun e => (0 < len e)%N) (ps_errs stf ++ snd (check_all convs 0 (ps_slots stf) fs)).
      Proof.
        apply Forall_app. split.
        - assert (P1 : Forall (fun e => (0 < len e)%N) (ps_errs st1)).
          { destruct (core_loop_errs sugg sim interp_with interp_fn fields convs auk items _ _ L) as [es [E EF]]. cbn [state0 ps_errs app] in E. rewrite E.
            exact (errs_from_pos items es EF). }
          pose proof stf_shape as SH. destruct flat_index as [i|]; [|now subst stf].
          destruct SH as [g [gt [Hg [Fg SH]]]].
          destruct (from_list (impl gt) (ps_flat st1)) as [v|e|m] eqn:R; [now subst stf| |destruct SH].
          destruct SH as [e' [Le ->]]. cbn [ps_errs]. apply Forall_app. split; [exact P1|]. constructor; [|constructor]. rewrite Le.
          pose proof (FS g gt (nth_error_In _ _ Hg) Fg) as FT.
          pose proof (IHk_nth i g _ Hg (dummy_list (ps_flat st1)) eq_refl) as K.
          rewrite flat_meta_list in K by exact FT. rewrite R in K. cbn [map_err] in K. rewrite len_with_span in K. apply K.
        - apply check_all_pos.
      Qed.
    End Run.

    Lemma init_all_err cd slots : forall (fl : list (finfo * ty)) e,
      init_all interp_fn cd slots fl = Err e ->
      exists f t g, In (f, t) fl /\ fi_default f = Some (DxExplicit g) /\ interp_fn g VUnit = Err e.
    Proof.
      induction slots as [|s sr IH]; intros [|[f t] fr] e; cbn [init_all]; try discriminate.
      destruct (init_field interp_fn cd s (f, t)) as [v|x|m] eqn:I0.
      - destruct (init_all interp_fn cd sr fr) as [k|x|m] eqn:IA; try discriminate. intros [= <-].
        destruct (IH fr x IA) as [f' [t' [g [Hin H]]]]. exists f', t', g. split; [now right|exact H].
      - intros [= <-].
        assert (FD : field_default interp_fn cd f t = Err x -> exists g, fi_default f = Some (DxExplicit g) /\ interp_fn g VUnit = Err x).
        { unfold field_default. destruct (fi_default f) as [[|g|]|]; try discriminate.
          - unfold run_fn. eauto.
          - destruct cd as [[]|]; try discriminate. destruct (find _ _); discriminate. }
        cbn [init_field] in I0. destruct s as [sn [v|]|vals]; try discriminate.
        + destruct (FD I0) as [g H]. exists f, t, g. split; [now left|exact H].
        + destruct vals; [|discriminate]. destruct (fi_default f) eqn:D; [|discriminate]. rewrite <- D in *.
          destruct (FD I0) as [g H]. exists f, t, g. split; [now left|exact H].
      - discriminate.
    Qed.

    (** ** one level: the returned error has exactly [struct_mistakes] leaves; a value is returned
        only when there is no mistake *)
    Theorem level_count items cdef_of locate :
      (forall f t g, In (f, t) fields -> fi_default f = Some (DxExplicit g) -> exists v, interp_fn g VUnit = Ok v) ->
      (forall e, cdef_of tt <> Err e) ->
      match parse_fields sugg sim interp_with interp_fn fields convs auk (state0 fields) items cdef_of locate with
      | Ok _ => struct_mistakes fields auk items = 0%N
      | Err e => exists e0, e = locate e0 /\ len e0 = struct_mistakes fields auk items /\ (0 < len e0)%N
      | Panic _ => True
      end.
    Proof.
      intros DF CDok. unfold parse_fields.
      destruct (core_loop sugg sim interp_with interp_fn fields convs auk (state0 fields) items) as [st1|e1|m1] eqn:L; [| |exact I].
      2:{ exfalso. revert L. generalize (state0 fields) as st0. unfold core_loop. induction items as [|it r IH]; intros st0; cbn [fold_left]; [discriminate|].
          destruct (core_step sugg sim interp_with interp_fn fields convs auk (Ok st0) it) as [st'|e'|m'] eqn:S.
          - apply IH.
          - apply core_step_not_err in S. discriminate.
          - clear. induction r as [|x r IHr]; cbn; [discriminate|exact IHr]. }
      unfold require_fields.
      destruct (flatten_init sugg sim fields convs st1) as [stf|ef|mf] eqn:FI; [| |exact I].
      2:{ exfalso. unfold flatten_init in FI. destruct (find_flatten fs 0); [|discriminate].
          match type of FI with context [match ?r with Ok _ => _ | Err _ => _ | Panic _ => _ end] => destruct r end; discriminate. }
      pose proof (run_sum items st1 L stf FI) as RS. pose proof (all_errors_pos items st1 L stf FI) as AP.
      destruct (check_all convs 0 (ps_slots stf) fs) as [slots2 errs2]. cbn [snd ps_errs ps_slots] in *.
      destruct (ps_errs stf ++ errs2) as [|x xs] eqn:EE.
      - cbn in RS. destruct (cdef_of tt) as [cd|ec|mc] eqn:CD; [| |exact I].
        + destruct (init_all interp_fn cd slots2 fields) as [kvs|e|m] eqn:IA; [now rewrite <- RS| |exact I].
          exfalso. destruct (init_all_err cd slots2 fields e IA) as [f [t [g [Hin [D E]]]]].
          destruct (DF f t g Hin D) as [v Hv]. congruence.
        + exfalso. exact (CDok ec eq_refl).
      - destruct (multiple (x :: xs)) as [e0|m] eqn:MU; [|destruct xs; discriminate].
        exists e0. split; [reflexivity|]. rewrite (len_multiple _ _ MU). split; [exact RS|].
        inversion AP as [|? ? Px _]; subst. cbn [map]. rewrite sumN_cons. lia.
    Qed.
  End LevelCount.

  (** ** declarations whose default functions return (a failing default function is not a mistake
      of the INPUT; the specification does not count it) *)
  Definition level_dwf (fields : list (finfo * ty)) : Prop :=
    forall f t g, In (f, t) fields -> fi_default f = Some (DxExplicit g) -> exists v, interp_fn g VUnit = Ok v.

  Fixpoint dwf (t : ty) : Prop :=
    let dwf_fields :=
      fix go (l : list (finfo * ty)) : Prop :=
        match l with [] => True | x :: r => dwf (snd x) /\ go r end in
    match t with
    | TLeaf _ | TUnitR _ => True
    | TOpt t' | TBox t' | TRes t' | TNewtypeR _ t' => dwf t'
    | TStructR c fields =>
        dwf_fields fields /\ level_dwf fields
        /\ match ci_default c with Some (CdExplicit g) => exists v, interp_fn g VUnit = Ok v | _ => True end
    | TEnumR c w vs =>
        (fix gov (l : list (vinfo * list (finfo * ty))) : Prop :=
           match l with
           | [] => True
           | x :: r => (dwf_fields (snd x) /\ level_dwf (snd x)) /\ gov r
           end) vs
    end.

  Definition dwf_fields (l : list (finfo * ty)) : Prop :=
    (fix go (l : list (finfo * ty)) : Prop := match l with [] => True | x :: r => dwf (snd x) /\ go r end) l.

  (** the library leaf targets the declaration mentions return proper errors *)
  Variable ok_leaf : Targets.target -> Prop.
  Hypothesis leaf_pos : forall tg, ok_leaf tg -> forall m e, from_meta (leaf tg) m = Err e -> (0 < len e)%N.

  Definition kwf (t : ty) : Prop := wf_spec t /\ cwf t /\ dwf t /\ leaves_ok ok_leaf t.

  Lemma hookless_expr_len F :
    o_value F = None -> o_string F = None -> o_bool F = None -> o_char F = None ->
    forall e x, default_from_expr F e = Err x -> len x = 1%N.
  Proof.
    intros Hv Hs Hb Hc. induction e as [i l | i g IH | i p | i es | i k | i l]; intros x; cbn [default_from_expr].
    - unfold from_value. rewrite Hv. unfold default_from_value, from_bool, from_string, from_char. rewrite Hs, Hb, Hc.
      destruct l; cbn [map_err]; intros [= <-]; rewrite ?len_with_span; reflexivity.
    - destruct (default_from_expr F g) as [v|y|m] eqn:R; cbn [map_err]; try discriminate. intros [= <-]. rewrite len_with_span. now apply IH.
    - cbn [map_err]. intros [= <-]. now rewrite !len_with_span.
    - cbn [map_err]. intros [= <-]. now rewrite !len_with_span.
    - cbn [map_err]. intros [= <-]. now rewrite !len_with_span.
    - destruct (is_numeric l).
      + unfold from_value. rewrite Hv. unfold default_from_value, from_bool, from_string, from_char. rewrite Hs, Hb, Hc.
        destruct l; cbn [map_err]; intros [= <-]; rewrite ?len_with_span; reflexivity.
      + cbn [map_err]. intros [= <-]. now rewrite !len_with_span.
  Qed.

  Lemma count_fields l :
    Forall (fun ft : finfo * ty => kwf (snd ft) -> count_ty (snd ft)) l ->
    wf_spec_fields l -> cwf_fields l -> dwf_fields l -> fields_ok ok_leaf l ->
    Forall (fun ft : finfo * ty => count_ty (snd ft)) l
    /\ Forall (fun ft : finfo * ty => forall m v, is_meta m = true -> from_meta (impl (snd ft)) m = Ok v -> expected (snd ft) m = Some v) l.
  Proof.
    induction 1 as [|x r Hx _ IH]; [split; constructor|]. intros [W1 W2] [C1 C2] [D1 D2] [L1 L2]. destruct (IH W2 C2 D2 L2) as [A B].
    split; constructor; auto.
    - apply Hx. repeat split; assumption.
    - exact (expected_complete pf reparse reparse_arr reparse_preds sugg sim interp_with interp_fn (snd x) C1).
  Qed.

  (** one struct level in terms of the specification's [struct_mistakes] *)
  Lemma struct_level_count fields auk items cdef_of locate :
    level_wf fields -> level_cwf fields -> level_dwf fields ->
    Forall (fun ft : finfo * ty => count_ty (snd ft)) fields ->
    Forall (fun ft : finfo * ty => forall m v, is_meta m = true -> from_meta (impl (snd ft)) m = Ok v -> expected (snd ft) m = Some v) fields ->
    (forall e, cdef_of tt <> Err e) ->
    match parse_fields sugg sim interp_with interp_fn fields (map (fun ft : finfo * ty => impl (snd ft)) fields) auk (state0 fields) items cdef_of locate with
    | Ok _ => struct_mistakes fields auk items = 0%N
    | Err e => exists e0, e = locate e0 /\ len e0 = struct_mistakes fields auk items /\ (0 < len e0)%N
    | Panic _ => True
    end.
  Proof.
    intros [ND [F1 F2]] [_ [SKh FSh]] DF IHk IHc CD.
    exact (level_count fields auk ND IHc IHk F1 F2 SKh FSh items cdef_of locate DF CD).
  Qed.

  Lemma str_count vs s :
    match enum_from_string vs (map (fun vf : vinfo * list (finfo * ty) => map (fun ft => impl (snd ft)) (snd vf)) vs) s with
    | Ok _ => str_mistakes vs s = 0%N
    | Err e => len e = str_mistakes vs s /\ (0 < len e)%N
    | Panic _ => True
    end.
  Proof.
    unfold enum_from_string. induction vs as [|[vi fl] r IH]; cbn [enum_str_arm str_mistakes map snd]; [cbn; split; [reflexivity|lia]|].
    destruct (negb (vi_skip vi) && str_eqb (vi_name vi) s)%bool; [|exact IH].
    destruct (vi_style vi).
    - reflexivity.
    - destruct fl as [|[f0 t0] fr]; [exact I|]. cbn [map snd].
      rewrite <- (absent_is_from_none pf reparse reparse_arr reparse_preds sugg sim interp_with interp_fn t0).
      destruct (absent_of t0); [reflexivity|]. cbn. split; [reflexivity|lia].
    - destruct fl; cbn; (split; [reflexivity|lia]).
  Qed.

  Ltac one_leaf := cbn [map_err]; rewrite ?len_with_span, ?len_at; cbn; (split; [reflexivity|lia]).

  (** ** the theorem *)
  Theorem mistakes_count : forall t, kwf t -> count_ty t.
  Proof.
    induction t as [tg | t IH | t IH | t IH | c fields IH | c t IH | c | c w vs IH] using ty_ind'; intros [W [C [D LO]]] m M;
      cbn [wf_spec cwf dwf leaves_ok] in W, C, D, LO.
    - cbn [C01.mistakes impl_of]. destruct (from_meta (leaf tg) m) as [v|e|mm] eqn:R; auto. split; [reflexivity|]. now apply (leaf_pos tg LO m).
    - pose proof (IH (conj W (conj C (conj D LO))) m M) as K. unfold from_meta. cbn [impl_of option_fm o_meta C01.mistakes].
      destruct (from_meta (impl t) m); cbn [map_ok]; exact K.
    - pose proof (IH (conj W (conj C (conj D LO))) m M) as K. unfold from_meta at 1. cbn [impl_of ptr_fm o_meta C01.mistakes].
      destruct (from_meta (impl t) m); cbn [map_ok]; exact K.
    - destruct C.
    - (* a derived struct *)
      destruct W as [Wf [Lw NFI]]. destruct C as [Cf [Lc _]]. destruct D as [Df [Ld Dc]].
      fold (wf_spec_fields fields) in Wf. fold (cwf_fields fields) in Cf. fold (dwf_fields fields) in Df. fold (fields_ok ok_leaf fields) in LO.
      destruct (count_fields fields IH Wf Cf Df LO) as [IHk IHc].
      unfold from_meta. cbn [impl_of o_meta].
      destruct m as [i l | i p | i p ti items | i p ti es msg | i p e]; try discriminate; cbn [default_from_meta].
      + unfold from_word. cbn [o_word C01.mistakes]. destruct (ci_from_word c) as [f|]; [|one_leaf]. unfold run_fn.
        destruct (interp_fn f VUnit) as [v|e|mm] eqn:R; cbn [map_err]; auto. rewrite len_with_span. split; [reflexivity|now apply (fn_pos f VUnit)].
      + rewrite mistakes_struct. unfold from_list. cbn [o_list].
        pose proof (struct_level_count fields (ci_auk c) items (fun _ => cdefault_value interp_fn c (TStructR c fields) None) (fun e => e)
                      Lw Lc Ld IHk IHc) as K.
        assert (CDok : forall e, cdefault_value interp_fn c (TStructR c fields) None <> Err e).
        { intros e. unfold cdefault_value. destruct (ci_default c) as [[|g|]|]; try discriminate; [|exfalso; now apply NFI].
          unfold run_fn. destruct Dc as [v ->]. discriminate. }
        specialize (K CDok).
        destruct (parse_fields sugg sim interp_with interp_fn fields _ (ci_auk c) (state0 fields) items _ _) as [kvs|e|mm] eqn:PFe.
        * (* no mistake at this level: only the post-transform can fail *)
          rewrite K. cbn [N.eqb map_ok].
          assert (EX : expected (TStructR (mkCI (ci_name c) (ci_default c) None (ci_auk c) (ci_from_word c) (ci_from_none c)) fields) (NList i p ti items)
                       = Some (VStruct kvs)).
          { apply (expected_complete pf reparse reparse_arr reparse_preds sugg sim interp_with interp_fn).
            - cbn [cwf ci_default]. fold (cwf_fields fields). split; [exact Cf|split; [exact Lc|exact NFI]].
            - reflexivity.
            - unfold from_meta. cbn [impl_of o_meta default_from_meta]. unfold from_list. cbn [o_list ci_post ci_auk].
              change (cdefault_value interp_fn (mkCI (ci_name c) (ci_default c) None (ci_auk c) (ci_from_word c) (ci_from_none c))
                        (TStructR (mkCI (ci_name c) (ci_default c) None (ci_auk c) (ci_from_word c) (ci_from_none c)) fields) None)
                with (cdefault_value interp_fn c (TStructR c fields) None).
              rewrite PFe. reflexivity. }
          rewrite EX. rewrite <- post_cost. destruct (apply_post interp_fn (ci_post c) (Ok (VStruct kvs))) as [v|e|mm] eqn:AP; cbn [map_err]; auto.
          rewrite len_with_span. split; [reflexivity|].
          unfold apply_post in AP. destruct (ci_post c) as [[b g]|]; [|discriminate]. cbn [bind] in AP. now apply (fn_pos g (VStruct kvs)).
        * destruct K as [e0 [-> [Le Pe]]]. cbn [map_ok].
          assert (A : apply_post interp_fn (ci_post c) (Err e0) = Err e0) by (unfold apply_post; destruct (ci_post c) as [[]|]; reflexivity).
          rewrite A. cbn [map_err]. rewrite len_with_span, <- Le. destruct (N.eqb_spec (len e0) 0); [lia|]. auto.
        * cbn [map_ok]. assert (A : apply_post interp_fn (ci_post c) (Panic mm) = Panic mm) by (unfold apply_post; destruct (ci_post c) as [[]|]; reflexivity).
          rewrite A. exact I.
      + cbn [C01.mistakes]. cbn. split; [reflexivity|lia].
      + cbn [C01.mistakes]. unfold from_expr. cbn [o_expr].
        destruct (default_from_expr _ e) as [v|x|mm] eqn:R; cbn [map_err].
        * exfalso. revert R. apply hookless_expr_not_ok; reflexivity.
        * rewrite len_with_span.
          match type of R with default_from_expr ?F _ = _ => rewrite (hookless_expr_len F eq_refl eq_refl eq_refl eq_refl e x R) end.
          split; [reflexivity|lia].
        * exact I.
    - (* a newtype struct *)
      pose proof (IH (conj W (conj C (conj D LO))) m M) as K. unfold from_meta. cbn [impl_of o_meta C01.mistakes].
      destruct (from_meta (impl t) m); cbn [map_err map_ok]; rewrite ?len_with_span; exact K.
    - (* a unit struct *)
      unfold from_meta. cbn [impl_of o_meta C01.mistakes].
      destruct m as [i l | i p | i p ti items | i p ti es msg | i p e]; try discriminate; cbn [default_from_meta].
      + reflexivity.
      + cbn. split; [reflexivity|lia].
      + cbn. split; [reflexivity|lia].
      + unfold from_expr. cbn [o_expr].
        destruct (default_from_expr _ e) as [v|x|mm] eqn:R; cbn [map_err].
        * exfalso. revert R. apply hookless_expr_not_ok; reflexivity.
        * rewrite len_with_span.
          match type of R with default_from_expr ?F _ = _ => rewrite (hookless_expr_len F eq_refl eq_refl eq_refl eq_refl e x R) end.
          split; [reflexivity|lia].
        * exact I.
    - (* an enum *)
      rewrite mistakes_enum. unfold from_meta. cbn [impl_of o_meta].
      destruct m as [i l | i p | i p ti items | i p ti es msg | i p e]; try discriminate; cbn [default_from_meta].
      + unfold from_word. cbn [o_word]. destruct (ci_from_word c) as [f|].
        * unfold run_fn. destruct (interp_fn f VUnit) as [v|e|mm] eqn:R; cbn [map_err]; auto. rewrite len_with_span. split; [reflexivity|now apply (fn_pos f VUnit)].
        * destruct w; [reflexivity|one_leaf].
      + unfold from_list. cbn [o_list]. unfold enum_from_list.
        destruct items as [|inner [|x r]]; [one_leaf| |destruct inner; one_leaf].
        destruct (is_literal inner) eqn:IL; [destruct inner; try discriminate; one_leaf|].
        assert (Mi : is_meta inner = true) by (destruct inner; try discriminate; reflexivity).
        assert (EA : match enum_arm sugg sim interp_with interp_fn vs
                           (map (fun vf : vinfo * list (finfo * ty) => map (fun ft => impl (snd ft)) (snd vf)) vs) (item_name inner) inner with
                     | Some (Ok _) => list_mistakes vs inner = 0%N
                     | Some (Err e) => len e = list_mistakes vs inner /\ (0 < len e)%N
                     | Some (Panic _) => True
                     | None => list_mistakes vs inner = 1%N
                     end).
        { clear -IH W C D LO Mi with_pos fn_pos leaf_pos. revert W C D LO.
          induction IH as [|[vi fl] rest Hx _ IHr]; cbn [list_mistakes enum_arm map snd]; [reflexivity|].
          intros [[Wf Lw] Wr] [[Cf Lc] Cr] [[Df Ld] Dr] [Lf Lr].
          destruct (negb (vi_skip vi) && str_eqb (vi_name vi) (item_name inner))%bool; [|now apply IHr].
          fold (wf_spec_fields fl) in Wf. fold (cwf_fields fl) in Cf. fold (dwf_fields fl) in Df. fold (fields_ok ok_leaf fl) in Lf. cbn [snd] in Hx, Lf.
          destruct (count_fields fl Hx Wf Cf Df Lf) as [IHk IHc].
          destruct (vi_style vi).
          - destruct inner; try reflexivity; one_leaf.
          - destruct fl as [|[f0 t0] fr]; [exact I|]. cbn [map snd].
            inversion IHk as [|? ? K0 _]; subst. cbn [snd] in K0. specialize (K0 inner Mi).
            destruct (from_meta (impl t0) inner); cbn [map_err map_ok]; rewrite ?len_at; exact K0.
          - destruct inner as [i l | i p | i p ti items | i p ti es msg | i p e]; try (destruct fl; one_leaf).
            pose proof (struct_level_count fl (vi_auk vi) items (fun _ => Ok None)
                          (fun e => at_ (vi_name vi) (with_span (i_span (ninfo (NList i p ti items))) e)) Lw Lc Ld IHk IHc ltac:(discriminate)) as K.
            destruct (parse_fields _ _ _ _ fl _ (vi_auk vi) (state0 fl) items _ _) as [kvs|e|mm]; cbn [map_ok].
            + destruct fl; exact K.
            + destruct K as [e0 [-> [Le Pe]]]. rewrite len_at, len_with_span. destruct fl; auto.
            + exact I. }
        destruct inner as [i0 l0 | i0 p0 | i0 p0 ti0 items0 | i0 p0 ti0 es0 msg0 | i0 p0 e0]; try discriminate;
          change (match meta_path ?n with Some p => path_to_string p | None => "" end) with (item_name n);
          (destruct (enum_arm sugg sim interp_with interp_fn vs _ (item_name _) _) as [[v|e|mm]|];
           [ cbn [map_err]; exact EA
           | cbn [map_err]; rewrite len_with_span; exact EA
           | exact I
           | cbn [map_err]; rewrite !len_with_span, EA; destruct vs; cbn; (split; [reflexivity|lia]) ]).
      + one_leaf.
      + unfold from_expr. cbn [o_expr]. rewrite default_from_expr_strip.
        destruct (strip_groups e) as [j l|j g|j q|j es|j k|j l] eqn:SG; cbn [default_from_expr]; try one_leaf.
        * unfold from_value. cbn [o_value]. unfold default_from_value, from_bool, from_char, from_string. cbn [o_bool o_char o_string].
          destruct l as [|s| | | | | | |]; try one_leaf.
          pose proof (str_count vs s) as K.
          destruct (enum_from_string vs _ s) as [v|x|mm]; cbn [map_err]; rewrite ?len_with_span; exact K.
        * exfalso. exact (strip_groups_not_group e j g SG).
        * destruct (is_numeric l) eqn:Nm; [|one_leaf].
          unfold from_value. cbn [o_value]. unfold default_from_value. destruct l; try discriminate; one_leaf.
  Qed.
End Count.

(** ** executable tests of the declaration hypotheses, evaluated on every receiver the check runs *)
Definition level_cwfb (fields : list (finfo * ty)) : bool :=
  level_wfb fields
  && forallb (fun f => negb (fi_skip f) || match fi_default f with Some _ => true | None => false end) (finfos fields)
  && forallb (fun ft : finfo * ty => negb (fi_flatten (fst ft)) || flat_target (snd ft)) fields.

Lemma level_cwfb_sound fields : level_cwfb fields = true -> level_cwf fields.
Proof.
  unfold level_cwfb, level_cwf. intros H. apply andb_true_iff in H as [H H3]. apply andb_true_iff in H as [H1 H2].
  split; [now apply level_wfb_sound|]. split.
  - intros f Hin Sk. rewrite forallb_forall in H2. specialize (H2 f Hin). rewrite Sk in H2. cbn in H2. destruct (fi_default f); [discriminate|discriminate].
  - intros f t Hin Fl. rewrite forallb_forall in H3. specialize (H3 (f, t) Hin). cbn [fst snd] in H3. rewrite Fl in H3. cbn in H3.
    exact H3.
Qed.

Fixpoint cwfb (t : ty) : bool :=
  let go_fields :=
    fix go (l : list (finfo * ty)) : bool :=
      match l with [] => true | x :: r => cwfb (snd x) && go r end in
  match t with
  | TLeaf _ | TUnitR _ => true
  | TRes _ => false
  | TOpt t' | TBox t' | TNewtypeR _ t' => cwfb t'
  | TStructR c fields => go_fields fields && level_cwfb fields && negb (match ci_default c with Some CdFromIdent => true | _ => false end)
  | TEnumR c w vs =>
      (fix gov (l : list (vinfo * list (finfo * ty))) : bool :=
         match l with
         | [] => true
         | x :: r => go_fields (snd x) && level_cwfb (snd x) && gov r
         end) vs
  end.

Lemma cwfb_sound : forall t, cwfb t = true -> cwf t.
Proof.
  induction t as [tg | t IH | t IH | t IH | c fields IH | c t IH | c | c w vs IH] using ty_ind'; cbn [cwfb cwf]; auto; try discriminate.
  - intros H. apply andb_true_iff in H as [H H3]. apply andb_true_iff in H as [H1 H2]. split; [|split].
    + clear -IH H1. induction IH as [|x r Hx _ IHr]; [exact I|]. apply andb_true_iff in H1 as [A B]. split; [now apply Hx|now apply IHr].
    + now apply level_cwfb_sound.
    + destruct (ci_default c) as [[| |]|]; try discriminate.
  - intros H. induction IH as [|x r Hx _ IHr]; [exact I|]. apply andb_true_iff in H as [H H3]. apply andb_true_iff in H as [H1 H2].
    split; [split|now apply IHr]; [|now apply level_cwfb_sound].
    clear -Hx H1. induction Hx as [|y s Hy _ IHs]; [exact I|]. apply andb_true_iff in H1 as [A B]. split; [now apply Hy|now apply IHs].
Qed.

Section Dwfb.
  Variable interp_fn : fnid -> value -> res value.

  Definition level_dwfb (fields : list (finfo * ty)) : bool :=
    forallb (fun ft : finfo * ty => match fi_default (fst ft) with Some (DxExplicit g) => is_ok (interp_fn g VUnit) | _ => true end) fields.

  Lemma level_dwfb_sound fields : level_dwfb fields = true -> level_dwf interp_fn fields.
  Proof.
    unfold level_dwfb, level_dwf. intros H f t g Hin D. rewrite forallb_forall in H. specialize (H (f, t) Hin). cbn [fst] in H. rewrite D in H.
    destruct (interp_fn g VUnit); try discriminate. eauto.
  Qed.

  Fixpoint dwfb (t : ty) : bool :=
    let go_fields :=
      fix go (l : list (finfo * ty)) : bool :=
        match l with [] => true | x :: r => dwfb (snd x) && go r end in
    match t with
    | TLeaf _ | TUnitR _ => true
    | TOpt t' | TBox t' | TRes t' | TNewtypeR _ t' => dwfb t'
    | TStructR c fields =>
        go_fields fields && level_dwfb fields
        && match ci_default c with Some (CdExplicit g) => is_ok (interp_fn g VUnit) | _ => true end
    | TEnumR c w vs =>
        (fix gov (l : list (vinfo * list (finfo * ty))) : bool :=
           match l with
           | [] => true
           | x :: r => go_fields (snd x) && level_dwfb (snd x) && gov r
           end) vs
    end.

  Lemma dwfb_sound : forall t, dwfb t = true -> dwf interp_fn t.
  Proof.
    induction t as [tg | t IH | t IH | t IH | c fields IH | c t IH | c | c w vs IH] using ty_ind'; cbn [dwfb dwf]; auto.
    - intros H. apply andb_true_iff in H as [H H3]. apply andb_true_iff in H as [H1 H2]. split; [|split].
      + clear -IH H1. induction IH as [|x r Hx _ IHr]; [exact I|]. apply andb_true_iff in H1 as [A B]. split; [now apply Hx|now apply IHr].
      + now apply level_dwfb_sound.
      + destruct (ci_default c) as [[|g|]|]; auto. destruct (interp_fn g VUnit); try discriminate. eauto.
    - intros H. induction IH as [|x r Hx _ IHr]; [exact I|]. apply andb_true_iff in H as [H H3]. apply andb_true_iff in H as [H1 H2].
      split; [split|now apply IHr]; [|now apply level_dwfb_sound].
      clear -Hx H1. induction Hx as [|y s Hy _ IHs]; [exact I|]. apply andb_true_iff in H1 as [A B]. split; [now apply Hy|now apply IHs].
  Qed.

  (** all leaf targets of a declaration are plain library targets *)
  Fixpoint plain_leavesb (t : ty) : bool :=
    let go_fields :=
      fix go (l : list (finfo * ty)) : bool :=
        match l with [] => true | x :: r => plain_leavesb (snd x) && go r end in
    match t with
    | TLeaf tg => plain tg
    | TUnitR _ => true
    | TOpt t' | TBox t' | TRes t' | TNewtypeR _ t' => plain_leavesb t'
    | TStructR _ fields => go_fields fields
    | TEnumR _ _ vs =>
        (fix gov (l : list (vinfo * list (finfo * ty))) : bool :=
           match l with [] => true | x :: r => go_fields (snd x) && gov r end) vs
    end.

  Lemma plain_leavesb_sound : forall t, plain_leavesb t = true -> leaves_ok (fun tg => plain tg = true) t.
  Proof.
    induction t as [tg | t IH | t IH | t IH | c fields IH | c t IH | c | c w vs IH] using ty_ind'; cbn [plain_leavesb leaves_ok]; auto.
    - intros H. induction IH as [|x r Hx _ IHr]; [exact I|]. apply andb_true_iff in H as [A B]. split; [now apply Hx|now apply IHr].
    - intros H. induction IH as [|x r Hx _ IHr]; [exact I|]. apply andb_true_iff in H as [H1 H2]. split; [|now apply IHr].
      clear -Hx H1. induction Hx as [|y s Hy _ IHs]; [exact I|]. apply andb_true_iff in H1 as [A B]. split; [now apply Hy|now apply IHs].
  Qed.

  Definition kwfb (t : ty) : bool := wf_specb t && cwfb t && dwfb t && plain_leavesb t.

  Lemma kwfb_sound t : kwfb t = true -> kwf interp_fn (fun tg => plain tg = true) t.
  Proof.
    unfold kwfb, kwf. intros H. apply andb_true_iff in H as [H H4]. apply andb_true_iff in H as [H H3]. apply andb_true_iff in H as [H1 H2].
    split; [now apply wf_specb_sound|]. split; [now apply cwfb_sound|]. split; [now apply dwfb_sound|now apply plain_leavesb_sound].
  Qed.
End Dwfb.

