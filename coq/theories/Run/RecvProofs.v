(** Run/RecvProofs.v — facts about ONE level of the generated struct parser (Run/Recv.v, Section
    Level), for any field list, any table of field converters and any user callables:
    what each item of the input can contribute to the error list, which spans those errors
    carry (C03), and what an unknown-field error may suggest (C17). *)
From DarlingModel Require Import Run.Recv Conv.RoutingProofs Err.ErrProofs Err.SuggestProofs Spec.C17.
Local Open Scope string_scope.
Local Open Scope list_scope.

(** ** spans under the error combinators *)
Lemma span_of_at l e : span_of (at_ l e) = span_of e.
Proof. destruct e; reflexivity. Qed.

Lemma span_of_with_span s e :
  span_of (with_span s e) = match span_of e with Some x => Some x | None => Some s end.
Proof. unfold with_span. destruct (span_of e) eqn:E; [exact E|]. destruct e; reflexivity. Qed.

Lemma locs_of_with_span s e : locs_of (with_span s e) = locs_of e.
Proof. unfold with_span. destruct (span_of e); [reflexivity|]. destruct e; reflexivity. Qed.

Lemma locs_of_at l e : locs_of (at_ l e) = l :: locs_of e.
Proof. destruct e; reflexivity. Qed.

(** ** arms *)
Lemma find_arm_some fs : forall i0 n i f,
  find_arm fs i0 n = Some (i, f) ->
  addressable f = true /\ fi_name f = n /\ (i0 <= i)%nat /\ nth_error fs (i - i0) = Some f.
Proof.
  induction fs as [|g r IH]; intros i0 n i f; cbn [find_arm]; [discriminate|].
  destruct (addressable g && str_eqb (fi_name g) n)%bool eqn:E.
  - intros [= <- <-]. apply andb_true_iff in E as [A N]. apply String.eqb_eq in N.
    rewrite Nat.sub_diag. repeat split; auto.
  - intros H. apply IH in H as [A [N [L Hn]]]. repeat split; auto; [lia|].
    replace (i - i0)%nat with (S (i - S i0)) by lia. exact Hn.
Qed.

Lemma find_arm_none fs : forall i0 n,
  find_arm fs i0 n = None <-> ~ In n (map fi_name (filter addressable fs)).
Proof.
  induction fs as [|g r IH]; intros i0 n; cbn [find_arm filter map]; [tauto|].
  destruct (addressable g) eqn:A; cbn [andb map].
  - destruct (str_eqb (fi_name g) n) eqn:N.
    + apply String.eqb_eq in N. split; [discriminate|]. intros H. exfalso. apply H. now left.
    + apply String.eqb_neq in N. rewrite IH. cbn [In]. tauto.
  - apply IH.
Qed.

Lemma find_arm_in_names fs i0 n : In n (map fi_name (filter addressable fs)) -> find_arm fs i0 n <> None.
Proof. intros H E. now apply find_arm_none in E. Qed.

Section LevelFacts.
  Variable sugg : bool.
  Variable sim : string -> string -> N.
  Variable interp_with : fnid -> nested -> res value.
  Variable interp_fn : fnid -> value -> res value.
  Variable fields : list (finfo * ty).
  Variable convs : list fm.
  Variable auk : bool.

  Notation step := (core_step sugg sim interp_with interp_fn fields convs auk).
  Notation loop := (core_loop sugg sim interp_with interp_fn fields convs auk).
  Notation extract := (extract interp_with interp_fn convs).
  Notation unknown_error := (unknown_error sugg sim fields).

  Definition item_name (item : nested) : string :=
    match meta_path item with Some p => path_to_string p | None => "" end.

  Definition ispan (item : nested) : span := i_span (ninfo item).

  (** *** C17: the unknown-field error and its suggestion *)
  Lemma unknown_error_eq n item :
    unknown_error n item =
      with_span (ispan item) (new_err (KUnknownField n (did_you_mean sugg sim n (names fields)))).
  Proof.
    unfold Recv.unknown_error, unknown_field_with_alts. destruct (names fields) eqn:E; [|reflexivity].
    unfold did_you_mean. destruct sugg; reflexivity.
  Qed.

  (** A suggestion made for a name the level rejected is an addressable name of this level
      (so neither a skipped nor a flatten member), differs from the rejected name, and - if
      written instead - selects a field.  It is the best match of the specification. *)
  Lemma suggestion_sound n c s :
    find_arm (finfos fields) 0 n = None ->
    did_you_mean sugg sim n (names fields) = Some (c, s) ->
    In s (names fields) /\ s <> n /\ find_arm (finfos fields) 0 s <> None
    /\ sugg = true /\ best_match sim n (names fields) = Some s /\ c = sim n s.
  Proof.
    intros Hn Hd. destruct sugg eqn:S; [|discriminate].
    rewrite did_you_mean_is_best in Hd. unfold best_scored in Hd.
    destruct (best_match sim n (names fields)) as [s'|] eqn:B; [|discriminate].
    cbn in Hd. injection Hd as <- <-.
    pose proof (best_match_some sim n (names fields) s' B) as [Hin _].
    repeat split; auto.
    - intros ->. apply find_arm_none in Hn. now apply Hn.
    - now apply find_arm_in_names.
  Qed.

  (** *** what one item can add to the error list *)
  Inductive item_error (item : nested) (e : err) : Prop :=
  | IE_literal i l :
      item = NLit i l -> e = with_span (i_span i) (unsupported_format "literal") -> item_error item e
  | IE_duplicate i f :
      is_meta item = true -> find_arm (finfos fields) 0 (item_name item) = Some (i, f) ->
      e = with_span (ispan item) (new_err (KDuplicateField (fi_name f))) -> item_error item e
  | IE_value i f loc :
      is_meta item = true -> find_arm (finfos fields) 0 (item_name item) = Some (i, f) ->
      extract i f item loc = Err e -> item_error item e
  | IE_unknown :
      is_meta item = true -> find_arm (finfos fields) 0 (item_name item) = None ->
      has_flatten fields = false -> auk = false ->
      e = unknown_error (item_name item) item -> item_error item e.

  (** the non-literal branch of [core_step], for any meta item *)
  Definition meta_step (st : pstate) (item : nested) : res pstate :=
    match find_arm (finfos fields) 0 (item_name item) with
    | Some (i, f) =>
        match nth i (ps_slots st) (SSingle false None) with
        | SMulti vals =>
            let loc := (fi_name f ++ "[" ++ N_to_string (N.of_nat (List.length vals)) ++ "]")%string in
            match extract i f item loc with
            | Ok v => Ok (mkPS (set_slot i (SMulti (vals ++ [v])) (ps_slots st)) (ps_errs st) (ps_flat st))
            | Err e => Ok (push_err e st)
            | Panic m => Panic m
            end
        | SSingle false _ =>
            match extract i f item (fi_name f) with
            | Ok v => Ok (mkPS (set_slot i (SSingle true (Some v)) (ps_slots st)) (ps_errs st) (ps_flat st))
            | Err e => Ok (push_err e (mkPS (set_slot i (SSingle true None) (ps_slots st)) (ps_errs st) (ps_flat st)))
            | Panic m => Panic m
            end
        | SSingle true _ =>
            Ok (push_err (with_span (ispan item) (new_err (KDuplicateField (fi_name f)))) st)
        end
    | None =>
        if has_flatten fields then Ok (mkPS (ps_slots st) (ps_errs st) (ps_flat st ++ [item]))
        else if auk then Ok st
        else Ok (push_err (unknown_error (item_name item) item) st)
    end.

  Lemma core_step_meta st item : is_meta item = true -> step (Ok st) item = meta_step st item.
  Proof. destruct item; cbn [is_meta]; try discriminate; reflexivity. Qed.

  Lemma core_step_lit st i l :
    step (Ok st) (NLit i l) = Ok (push_err (with_span (i_span i) (unsupported_format "literal")) st).
  Proof. reflexivity. Qed.

  Lemma core_step_errs st item st' :
    step (Ok st) item = Ok st' ->
    ps_errs st' = ps_errs st \/ exists e, ps_errs st' = ps_errs st ++ [e] /\ item_error item e.
  Proof.
    destruct (is_meta item) eqn:M.
    2:{ destruct item as [i l| | | |]; try discriminate. rewrite core_step_lit. intros [= <-].
        right. eexists. split; [reflexivity|]. eapply IE_literal; reflexivity. }
    rewrite core_step_meta by assumption. unfold meta_step.
    destruct (find_arm (finfos fields) 0 (item_name item)) as [[k f]|] eqn:FA.
    - destruct (nth k (ps_slots st) (SSingle false None)) as [[|] v | vals].
      + intros [= <-]. right. eexists. split; [reflexivity|]. eapply IE_duplicate; [exact M|exact FA|reflexivity].
      + destruct (extract k f item (fi_name f)) eqn:EX.
        * intros [= <-]. now left.
        * intros [= <-]. right. eexists. split; [reflexivity|]. eapply IE_value; [exact M|exact FA|exact EX].
        * discriminate.
      + match goal with |- context [Recv.extract ?a ?b ?c k f item ?loc] => destruct (Recv.extract a b c k f item loc) eqn:EX end.
        * intros [= <-]. now left.
        * intros [= <-]. right. eexists. split; [reflexivity|]. eapply IE_value; [exact M|exact FA|exact EX].
        * discriminate.
    - destruct (has_flatten fields) eqn:HF; [intros [= <-]; now left|].
      destruct auk eqn:AU; [intros [= <-]; now left|].
      intros [= <-]. right. eexists. split; [reflexivity|]. eapply IE_unknown; try reflexivity; assumption.
  Qed.

  (** The loop only ever appends to the error list, at most one error per item, each of the
      shapes above; it never returns [Err] from inside (the single early return comes later). *)
  Lemma core_step_not_err acc item e : step acc item = Err e -> acc = Err e.
  Proof.
    destruct acc as [st|e'|m]; [|cbn; intros [= <-]; reflexivity|cbn; discriminate].
    destruct (is_meta item) eqn:M.
    - rewrite core_step_meta by assumption. unfold meta_step.
      destruct (find_arm _ _ _) as [[k f]|].
      + destruct (nth k _ _) as [[|] v|vals]; [discriminate| |].
        * destruct (extract k f item _); discriminate.
        * match goal with |- context [Recv.extract ?a ?b ?c k f item ?loc] => destruct (Recv.extract a b c k f item loc) end; discriminate.
      + destruct (has_flatten fields); [discriminate|]. destruct auk; discriminate.
    - destruct item; try discriminate.
  Qed.

  Inductive errs_from : list nested -> list err -> Prop :=
  | EF_nil : errs_from [] []
  | EF_skip item items es : errs_from items es -> errs_from (item :: items) es
  | EF_cons item items e es : item_error item e -> errs_from items es -> errs_from (item :: items) (e :: es).

  Lemma core_loop_errs items : forall st st',
    loop st items = Ok st' -> exists es, ps_errs st' = ps_errs st ++ es /\ errs_from items es.
  Proof.
    unfold Recv.core_loop.
    induction items as [|item r IH]; intros st st'; cbn [fold_left].
    - intros [= <-]. exists []. split; [now rewrite app_nil_r|constructor].
    - destruct (step (Ok st) item) as [st1|e1|m1] eqn:S1.
      + intros H. destruct (IH st1 st' H) as [es [E F]].
        destruct (core_step_errs st item st1 S1) as [Same|[e [E1 IE]]].
        * exists es. split; [now rewrite E, Same|now apply EF_skip].
        * exists (e :: es). split; [rewrite E, E1, <- app_assoc; reflexivity|now apply EF_cons].
      + intros H. exfalso. clear -H. induction r as [|x r IHr]; cbn in H; [discriminate|]. now apply IHr.
      + intros H. exfalso. clear -H. induction r as [|x r IHr]; cbn in H; [discriminate|]. now apply IHr.
  Qed.

  (** *** C03: every error the loop records is spanned - with the span of the item it is about,
      unless the field's converter (or the user's function) had already attached a span *)
  Lemma extract_err_span i f item loc e :
    extract i f item loc = Err e ->
    span_of e = Some (ispan item)
    \/ exists x, span_of e = span_of x /\ span_of x <> None
                 /\ (apply_post interp_fn (fi_post f)
                       (match fi_with f with
                        | Some w => interp_with w item
                        | None => from_meta (conv_of convs i) item
                        end)) = Err x.
  Proof.
    unfold Recv.extract. destruct (apply_post _ _ _) as [v|x|m]; cbn [map_err]; try discriminate.
    intros [= <-]. rewrite span_of_at, span_of_with_span. destruct (span_of x) eqn:E.
    - right. exists x. rewrite E. repeat split; congruence.
    - now left.
  Qed.

  Lemma item_error_spanned item e : item_error item e -> span_of e <> None.
  Proof.
    intros [i l -> -> | i f M FA -> | i f loc M FA EX | M FA HF AU ->].
    - cbn. discriminate.
    - rewrite span_of_with_span. cbn. discriminate.
    - apply extract_err_span in EX as [E|[x [E [N _]]]]; congruence.
    - rewrite unknown_error_eq, span_of_with_span. cbn. discriminate.
  Qed.

  Lemma errs_from_spanned items es : errs_from items es -> Forall (fun e => span_of e <> None) es.
  Proof.
    induction 1 as [|item items es _ IH|item items e es IE _ IH]; [constructor|assumption|].
    constructor; [now apply (item_error_spanned item)|assumption].
  Qed.

  (** *** C17 at a struct level: unknown-field errors arise only for names the level does not
      address, and what they suggest is sound *)
  Lemma item_error_unknown item e n d l s :
    item_error item e -> e = Leaf (KUnknownField n d) l s -> l = [] ->
    (forall i f loc x, extract i f item loc = Err x -> locs_of x <> []) ->
    n = item_name item /\ find_arm (finfos fields) 0 n = None
    /\ d = did_you_mean sugg sim n (names fields).
  Proof.
    intros IE E L Hloc. subst e l.
    destruct IE as [i l0 Hi E0 | i f M FA E0 | i f loc M FA EX | M FA HF AU E0].
    - cbn in E0. discriminate.
    - cbn in E0. discriminate.
    - exfalso. apply Hloc in EX. now apply EX.
    - rewrite unknown_error_eq in E0. cbn in E0. injection E0 as -> -> _. auto.
  Qed.
End LevelFacts.

(** ** C03: flattening an error whose root is spanned gives every leaf a span *)
Lemma leaves_inherited_spanned e : forall pre s,
  Forall (fun v : kind * list string * option span => snd v <> None) (leaves pre (Some s) e).
Proof.
  induction e as [k l s0 | es l s0 IH] using err_ind'; intros pre s.
  - cbn. constructor; [|constructor]. cbn. destruct s0; discriminate.
  - cbn [leaves]. apply Forall_flat_map.
    assert (G : exists s', match s0 with Some _ => s0 | None => Some s end = Some s')
      by (destruct s0; eauto).
    destruct G as [s' ->]. revert IH. apply Forall_impl. intros x Hx. apply Hx.
Qed.

Lemma leaves_root_spanned e s :
  span_of e = Some s ->
  Forall (fun v : kind * list string * option span => snd v <> None) (leaves [] None e).
Proof.
  destruct e as [k l s0 | es l s0]; cbn [span_of]; intros ->.
  - cbn. constructor; [|constructor]. cbn. discriminate.
  - cbn [leaves]. apply Forall_flat_map. apply Forall_forall. intros x _. apply leaves_inherited_spanned.
Qed.

(** a leaf that has its own span keeps it through flattening, whatever encloses it *)
Lemma leaves_keep_own_span k l s0 pre inh :
  leaves pre inh (Leaf k l (Some s0)) = [(k, pre ++ l, Some s0)].
Proof. reflexivity. Qed.
