(** Run/LevelProofs.v — one level of the generated struct parser after the item loop: flatten
    hand-off, presence checks, the single early return and the initialisers.

    C07: the initialiser's [expect] ("Uninitialized fields without defaults were already
    checked") is unreachable - after the error check a slot is empty only if its field has a
    default - for ANY field list, converters and callables; the whole level returns a value or
    an error whenever the converters and callables it calls do.
    C02: the level fails exactly when some error was recorded, and then returns all of them. *)
From DarlingModel Require Import Run.Recv Run.RecvProofs Run.LoopProofs.
Local Open Scope string_scope.
Local Open Scope list_scope.

Section Level.
  Variable sugg : bool.
  Variable sim : string -> string -> N.
  Variable interp_with : fnid -> nested -> res value.
  Variable interp_fn : fnid -> value -> res value.
  Variable fields : list (finfo * ty).
  Variable convs : list fm.
  Variable auk : bool.

  Notation step := (core_step sugg sim interp_with interp_fn fields convs auk).
  Notation loop := (core_loop sugg sim interp_with interp_fn fields convs auk).
  Notation extract := (extract interp_with interp_fn convs).
  Notation fs := (finfos fields).
  Notation flatten_init := (flatten_init sugg sim fields convs).
  Notation require_fields := (require_fields sugg sim fields convs).
  Notation check_all := (check_all convs).
  Notation check_one := (check_one convs).

  (** *** an invariant of the whole level: a slot that was seen but holds no value has left an
      error behind *)
  Definition failed_slot (s : slot) : bool := match s with SSingle true None => true | _ => false end.

  Definition Seen (st : pstate) : Prop := existsb failed_slot (ps_slots st) = true -> ps_errs st <> [].

  Lemma existsb_set_slot i s l :
    existsb failed_slot (set_slot i s l) = true -> failed_slot s = true \/ existsb failed_slot l = true.
  Proof.
    unfold set_slot. rewrite existsb_app. cbn [existsb]. intros H.
    apply orb_true_iff in H as [H|H].
    - right. rewrite <- (firstn_skipn i l), existsb_app, H. reflexivity.
    - apply orb_true_iff in H as [H|H]; [now left|]. right.
      rewrite <- (firstn_skipn (S i) l), existsb_app, H. apply orb_true_r.
  Qed.

  Lemma seen_init : Seen (state0 fields).
  Proof.
    unfold Seen, state0. cbn [ps_slots ps_errs]. intros H. exfalso.
    induction fs as [|f r IH]; cbn in H; [discriminate|].
    unfold slot0 in H at 1. destruct (fi_multiple f); cbn in H; now apply IH.
  Qed.

  Lemma app_cons_not_nil {A} (l : list A) x : l ++ [x] <> [].
  Proof. destruct l; discriminate. Qed.

  Lemma seen_step st it st' : Seen st -> step (Ok st) it = Ok st' -> Seen st'.
  Proof.
    intros P S. destruct (is_meta it) eqn:M.
    2:{ destruct it as [i l| | | |]; try discriminate. rewrite core_step_lit in S. injection S as <-.
        intros _. cbn. apply app_cons_not_nil. }
    rewrite core_step_meta in S by assumption. unfold RecvProofs.meta_step in S.
    destruct (find_arm fs 0 _) as [[i f]|].
    - destruct (nth i (ps_slots st) (SSingle false None)) as [[|] v|vals].
      + injection S as <-. intros _. cbn. apply app_cons_not_nil.
      + destruct (extract i f it (fi_name f)) as [x|e|m]; try discriminate; injection S as <-.
        * intros H. cbn [ps_slots ps_errs] in *. apply existsb_set_slot in H as [H|H]; [discriminate|]. now apply P.
        * intros _. cbn. apply app_cons_not_nil.
      + match type of S with context [Recv.extract ?a ?b ?c i f it ?loc] => destruct (Recv.extract a b c i f it loc) as [x|e|m] end;
          try discriminate; injection S as <-.
        * intros H. cbn [ps_slots ps_errs] in *. apply existsb_set_slot in H as [H|H]; [discriminate|]. now apply P.
        * intros _. cbn. apply app_cons_not_nil.
    - destruct (has_flatten fields); [injection S as <-; exact P|].
      destruct auk; injection S as <-; [exact P|]. intros _. cbn. apply app_cons_not_nil.
  Qed.

  Lemma seen_loop items : forall st st', Seen st -> fold_left step items (Ok st) = Ok st' -> Seen st'.
  Proof.
    induction items as [|it r IH]; intros st st' P H; [cbn in H; injection H as <-; exact P|].
    cbn [fold_left] in H. destruct (step (Ok st) it) as [st1|e|m] eqn:S.
    - eapply IH; [|exact H]. eapply seen_step; eassumption.
    - exfalso. clear -H. induction r as [|x r IHr]; cbn in H; [discriminate|]. now apply IHr.
    - exfalso. clear -H. induction r as [|x r IHr]; cbn in H; [discriminate|]. now apply IHr.
  Qed.

  Lemma seen_flatten st st' : Seen st -> flatten_init st = Ok st' -> Seen st'.
  Proof.
    unfold Recv.flatten_init. intros P. destruct (find_flatten fs 0) as [i|]; [|intros [= <-]; exact P].
    match goal with |- context [match ?r with Ok _ => _ | Err _ => _ | Panic _ => _ end] => destruct r as [v|e|m] end;
      try discriminate; intros [= <-].
    - intros H. cbn [ps_slots ps_errs] in *. apply existsb_set_slot in H as [H|H]; [discriminate|]. now apply P.
    - intros _. cbn. apply app_cons_not_nil.
  Qed.

  (** *** the presence checks *)
  Lemma check_one_not_failed i f s : failed_slot (fst (check_one i f s)) = failed_slot s.
  Proof.
    unfold Recv.check_one. destruct (needs_check f); [|reflexivity].
    destruct s as [[|] v|vals]; try reflexivity. destruct (from_none (conv_of convs i)); reflexivity.
  Qed.

  Lemma check_all_failed slots : forall i fl,
    existsb failed_slot (fst (check_all i slots fl)) = existsb failed_slot slots.
  Proof.
    induction slots as [|s sr IH]; intros i [|f fr]; try reflexivity.
    cbn [Recv.check_all]. pose proof (check_one_not_failed i f s) as C.
    destruct (check_one i f s) as [s' e]. specialize (IH (S i) fr).
    destruct (check_all (S i) sr fr) as [sr' er]. cbn [fst existsb] in *. now rewrite C, IH.
  Qed.

  Lemma check_all_length slots : forall i fl, List.length (fst (check_all i slots fl)) = List.length slots.
  Proof.
    induction slots as [|s sr IH]; intros i [|f fr]; try reflexivity.
    cbn [Recv.check_all]. destruct (check_one i f s) as [s' e]. specialize (IH (S i) fr).
    destruct (check_all (S i) sr fr) as [sr' er]. cbn [fst List.length] in *. now rewrite IH.
  Qed.

  (** a slot is ready for its initialiser when it holds a value or its field has a default *)
  Definition has_default (f : finfo) : bool := match fi_default f with Some _ => true | None => false end.

  Definition ready (f : finfo) (s : slot) : bool :=
    match s with
    | SMulti _ => true
    | SSingle _ (Some _) => true
    | SSingle true None => false
    | SSingle false None => has_default f
    end.

  (** what kind of slot a field has: a list for [multiple], a single slot otherwise *)
  Definition kind_ok (f : finfo) (s : slot) : bool :=
    match s with SMulti _ => fi_multiple f | SSingle _ _ => negb (fi_multiple f) end.

  Lemma check_one_kind i f s : kind_ok f (fst (check_one i f s)) = kind_ok f s.
  Proof.
    unfold Recv.check_one. destruct (needs_check f); [|reflexivity].
    destruct s as [[|] v|vals]; try reflexivity. destruct (from_none (conv_of convs i)); reflexivity.
  Qed.

  Fixpoint all2 {A B} (p : A -> B -> bool) (x : list A) (y : list B) : bool :=
    match x, y with
    | [], [] => true
    | a :: x', b :: y' => p a b && all2 p x' y'
    | _, _ => false
    end.

  (** after the checks, with no error recorded by them and no failed slot, every slot is ready *)
  Lemma check_all_ready slots : forall i fl,
    all2 kind_ok fl slots = true ->
    existsb failed_slot slots = false ->
    snd (check_all i slots fl) = [] ->
    all2 ready fl (fst (check_all i slots fl)) = true.
  Proof.
    induction slots as [|s sr IH]; intros i [|f fr] K F E; try discriminate; [reflexivity|].
    cbn [all2] in K. apply andb_true_iff in K as [Kf Kr].
    cbn [existsb] in F. apply orb_false_iff in F as [Ff Fr].
    cbn [Recv.check_all] in *.
    destruct (check_one i f s) as [s' e] eqn:CO.
    specialize (IH (S i) fr Kr Fr).
    destruct (check_all (S i) sr fr) as [sr' er] eqn:CA. cbn [fst snd] in *.
    apply app_eq_nil in E as [E1 E2]. subst e er.
    cbn [all2]. rewrite (IH eq_refl), andb_true_r.
    unfold Recv.check_one in CO. destruct (needs_check f) eqn:NC.
    - unfold needs_check in NC. apply negb_true_iff, orb_false_iff in NC as [Mu Df].
      destruct s as [[|] [v|]|vals]; cbn [kind_ok failed_slot] in *; try discriminate.
      + injection CO as <-. reflexivity.
      + destruct (from_none (conv_of convs i)); [injection CO as <-; reflexivity|discriminate].
      + destruct (from_none (conv_of convs i)); [injection CO as <-; reflexivity|discriminate].
      + congruence.
    - injection CO as <-. unfold needs_check in NC. apply negb_false_iff, orb_true_iff in NC.
      destruct s as [[|] [v|]|vals]; cbn [kind_ok failed_slot ready] in *; try reflexivity; try discriminate.
      destruct NC as [Mu|Df]; [rewrite Mu in Kf; discriminate|]. unfold has_default. destruct (fi_default f); [reflexivity|discriminate].
  Qed.

  (** *** the initialisers *)
  Definition panic_free {A} (r : res A) : Prop := is_panic r = false.

  (** the container-level default covers every field that inherits from it *)
  Definition inherit_ok (cdef : option value) : Prop :=
    forall f, In f fs -> fi_default f = Some DxInherit ->
      exists kvs kv, cdef = Some (VStruct kvs) /\ find (fun kv => str_eqb (fst kv) (fi_ident f)) kvs = Some kv.

  Lemma field_default_total cdef f t :
    (forall g, panic_free (interp_fn g VUnit)) -> inherit_ok cdef -> In f fs -> has_default f = true ->
    panic_free (field_default interp_fn cdef f t).
  Proof.
    intros Hfn Hin I D. unfold field_default, has_default in *.
    destruct (fi_default f) as [[|g|]|] eqn:E; try discriminate.
    - reflexivity.
    - apply Hfn.
    - destruct (Hin f I E) as [kvs [kv [-> F]]]. now rewrite F.
  Qed.

  Lemma init_all_total cdef :
    (forall g, panic_free (interp_fn g VUnit)) -> inherit_ok cdef ->
    forall slots (fl : list (finfo * ty)),
      (forall ft, In ft fl -> In (fst ft) fs) ->
      all2 ready (map fst fl) slots = true ->
      panic_free (init_all interp_fn cdef slots fl).
  Proof.
    intros Hfn Hin. induction slots as [|s sr IH]; intros [|[f t] fr] Sub R; try discriminate; try reflexivity.
    cbn [map all2 fst] in R. apply andb_true_iff in R as [Rf Rr].
    cbn [init_all].
    assert (If : In f fs) by (apply (Sub (f, t)); now left).
    assert (T : panic_free (init_field interp_fn cdef s (f, t))).
    { unfold init_field. destruct s as [b [v|]|vals].
      - reflexivity.
      - apply field_default_total; try assumption. destruct b; [discriminate|exact Rf].
      - destruct vals; [|reflexivity]. destruct (fi_default f) eqn:D; [|reflexivity].
        apply field_default_total; try assumption. unfold has_default. now rewrite D. }
    unfold panic_free in *. destruct (init_field interp_fn cdef s (f, t)); try discriminate; try reflexivity.
    specialize (IH fr (fun ft H => Sub ft (or_intror H)) Rr).
    destruct (init_all interp_fn cdef sr fr); try discriminate; reflexivity.
  Qed.

  (** *** the whole level *)
  Lemma kind_ok_spec items : all2 kind_ok fs (spec_slots interp_with interp_fn fields convs items) = true.
  Proof.
    unfold spec_slots, indexed. generalize 0%nat. induction fs as [|f r IH]; intros s; [reflexivity|].
    cbn [List.length seq combine map all2 fst snd]. rewrite IH, andb_true_r.
    unfold slot_spec. destruct (fi_multiple f) eqn:M; cbn [kind_ok]; [exact M|].
    destruct (occ fields s items); cbn; now rewrite M.
  Qed.

  Lemma all2_set_slot (p : finfo -> slot -> bool) : forall fl slots i f s,
    all2 p fl slots = true -> nth_error fl i = Some f -> p f s = true -> all2 p fl (set_slot i s slots) = true.
  Proof.
    induction fl as [|g fr IH]; intros [|x sr] i f s A N P; try discriminate; [destruct i; discriminate|].
    cbn [all2] in A. apply andb_true_iff in A as [A1 A2]. destruct i as [|i].
    - cbn in N. injection N as ->. cbn. now rewrite P, A2.
    - cbn in N. unfold set_slot. cbn [firstn skipn app all2]. rewrite A1. cbn.
      apply (IH sr i f s A2 N P).
  Qed.

  Lemma find_flatten_some fl : forall i0 i, find_flatten fl i0 = Some i ->
    exists f, nth_error fl (i - i0) = Some f /\ fi_flatten f = true /\ (i0 <= i)%nat.
  Proof.
    induction fl as [|g r IH]; intros i0 i; cbn [find_flatten]; [discriminate|].
    destruct (fi_flatten g) eqn:F.
    - intros [= <-]. exists g. rewrite Nat.sub_diag. auto.
    - intros H. destruct (IH _ _ H) as [f [N [Ff L]]]. exists f. repeat split; auto; [|lia].
      replace (i - i0)%nat with (S (i - S i0)) by lia. exact N.
  Qed.

  (** C07 at one level: if the converters, the flatten member, the container default and the
      user's default functions return a value or an error, so does the level - in particular
      the initialiser's "Uninitialized fields without defaults were already checked" is
      unreachable, for every input. *)
  Theorem parse_fields_total items cdef_of locate :
    (forall i f it loc, is_meta it = true -> panic_free (extract i f it loc)) ->
    (forall i l, panic_free (from_list (conv_of convs i) l)) ->
    (forall g, panic_free (interp_fn g VUnit)) ->
    (forall f, In f fs -> fi_flatten f = true -> fi_multiple f = false) ->
    (match cdef_of tt with Ok cd => inherit_ok cd | Err _ => True | Panic _ => False end) ->
    panic_free (parse_fields sugg sim interp_with interp_fn fields convs auk (state0 fields) items cdef_of locate).
  Proof.
    intros Hx Hfl Hfn Hflat Hcd. unfold parse_fields.
    destruct (loop (state0 fields) items) as [st1|e|m] eqn:L; [|reflexivity|].
    2:{ (* the loop panics only if an extractor does *)
        exfalso. unfold Recv.core_loop in L. revert L. generalize (state0 fields) as st0.
        induction items as [|it r IH]; intros st0 L; [discriminate|]. cbn [fold_left] in L.
        destruct (step (Ok st0) it) as [st'|e|m'] eqn:S.
        - eapply IH; exact L.
        - clear -L. induction r as [|x r IHr]; cbn in L; [discriminate|]. now apply IHr.
        - clear IH L. destruct (is_meta it) eqn:M.
          + rewrite core_step_meta in S by assumption. unfold RecvProofs.meta_step in S.
            destruct (find_arm fs 0 _) as [[i f]|].
            * destruct (nth i (ps_slots st0) (SSingle false None)) as [[|] v|vals]; [discriminate| |].
              -- pose proof (Hx i f it (fi_name f) M) as T. unfold panic_free in T.
                 destruct (extract i f it (fi_name f)); discriminate.
              -- match type of S with context [Recv.extract ?a ?b ?c i f it ?loc] =>
                   pose proof (Hx i f it loc M) as T; unfold panic_free in T; destruct (Recv.extract a b c i f it loc) end; discriminate.
            * destruct (has_flatten fields); [discriminate|]. destruct auk; discriminate.
          + destruct it; discriminate. }
    destruct (loop_is_spec sugg sim interp_with interp_fn fields convs auk items st1 L) as [Sl _].
    pose proof (seen_loop items (state0 fields) st1 seen_init L) as P1.
    assert (K1 : all2 kind_ok fs (ps_slots st1) = true) by (rewrite Sl; apply kind_ok_spec).
    unfold Recv.require_fields.
    destruct (flatten_init st1) as [stf|e|m] eqn:FI; [|reflexivity|].
    2:{ exfalso. unfold Recv.flatten_init in FI. destruct (find_flatten fs 0) as [i|]; [|discriminate].
        pose proof (Hfl i (ps_flat st1)) as T. unfold panic_free in T.
        destruct (from_list (conv_of convs i) (ps_flat st1)) as [v|e|m']; try discriminate;
          destruct (names fields); cbn in FI; discriminate. }
    pose proof (seen_flatten st1 stf P1 FI) as Pf.
    assert (Kf : all2 kind_ok fs (ps_slots stf) = true).
    { unfold Recv.flatten_init in FI. destruct (find_flatten fs 0) as [i|] eqn:FF; [|injection FI as <-; exact K1].
      destruct (find_flatten_some _ _ _ FF) as [f [N [Ff _]]]. rewrite Nat.sub_0_r in N.
      assert (Mu : fi_multiple f = false) by (apply Hflat; [eapply nth_error_In; exact N|exact Ff]).
      match type of FI with context [match ?r with Ok _ => _ | Err _ => _ | Panic _ => _ end] => destruct r end;
        try discriminate; injection FI as <-; cbn [ps_slots];
        (eapply all2_set_slot; [exact K1|exact N|cbn; now rewrite Mu]). }
    destruct (check_all 0 (ps_slots stf) fs) as [slots errs] eqn:CA. cbn [ps_errs ps_slots].
    destruct (ps_errs stf ++ errs) as [|e0 es] eqn:EE.
    - apply app_eq_nil in EE as [E1 E2].
      assert (NF : existsb failed_slot (ps_slots stf) = false).
      { destruct (existsb failed_slot (ps_slots stf)) eqn:X; [|reflexivity]. exfalso. now apply (Pf X). }
      pose proof (check_all_ready (ps_slots stf) 0 fs Kf NF) as R. rewrite CA in R. cbn [fst snd] in R.
      specialize (R E2).
      destruct (cdef_of tt) as [cd|e|m]; [|reflexivity|contradiction].
      apply init_all_total; try assumption.
      intros ft Hft. unfold finfos. now apply in_map.
    - destruct es; reflexivity.
  Qed.

  (** *** C01 at one level: the value of every field *)
  Definition flat_result (items : list nested) (i : nat) : res value :=
    let r := from_list (conv_of convs i) (spec_flat fields items) in
    match names fields with
    | [] => r
    | _ => map_err (add_sibling_alts sugg sim (names fields)) r
    end.

  (** the slot of field [j] when the initialisers run: the loop's comprehension, replaced by the
      flatten hand-off for the flatten member, then completed by the type's value-for-absent *)
  Definition final_slot (items : list nested) (j : nat) (f : finfo) : slot :=
    let s := match find_flatten fs 0 with
             | Some i => if Nat.eqb i j then SSingle true (ok_opt (flat_result items i))
                         else slot_spec interp_with interp_fn fields convs j f items
             | None => slot_spec interp_with interp_fn fields convs j f items
             end in
    fst (check_one j f s).

  Lemma check_all_nth slots : forall i0 fl j s f,
    nth_error slots j = Some s -> nth_error fl j = Some f ->
    nth_error (fst (check_all i0 slots fl)) j = Some (fst (check_one (i0 + j) f s)).
  Proof.
    induction slots as [|x sr IH]; intros i0 [|g fr] j s f Hs Hf; try (destruct j; discriminate).
    cbn [Recv.check_all]. destruct (check_one i0 g x) as [x' e] eqn:CO.
    destruct (check_all (S i0) sr fr) as [sr' er] eqn:CA. cbn [fst].
    destruct j as [|j]; cbn in *.
    - injection Hs as <-. injection Hf as <-. rewrite Nat.add_0_r, CO. reflexivity.
    - specialize (IH (S i0) fr j s f Hs Hf). rewrite CA in IH. cbn [fst] in IH.
      rewrite IH. f_equal. f_equal. f_equal. lia.
  Qed.

  Lemma init_all_nth cdef slots : forall (fl : list (finfo * ty)) kvs,
    init_all interp_fn cdef slots fl = Ok kvs ->
    forall j s f t, nth_error slots j = Some s -> nth_error fl j = Some (f, t) ->
      exists v, init_field interp_fn cdef s (f, t) = Ok v /\ nth_error kvs j = Some (fi_ident f, v).
  Proof.
    induction slots as [|x sr IH]; intros [|[g tg] fr] kvs H j s f t Hs Hf; try (destruct j; discriminate).
    cbn [init_all] in H. destruct (init_field interp_fn cdef x (g, tg)) as [v0|e|m] eqn:I0; try discriminate.
    destruct (init_all interp_fn cdef sr fr) as [k|e|m] eqn:IA; try discriminate. injection H as <-.
    destruct j as [|j]; cbn in *.
    - injection Hs as <-. injection Hf as <- <-. exists v0. auto.
    - exact (IH fr k IA j s f t Hs Hf).
  Qed.

  Lemma nth_error_firstn_lt {A} (l : list A) : forall j i, (j < i)%nat -> nth_error (firstn i l) j = nth_error l j.
  Proof.
    induction l as [|x l IH]; intros j i H; [destruct i; destruct j; reflexivity|].
    destruct i as [|i]; [lia|]. destruct j as [|j]; [reflexivity|]. cbn. apply IH. lia.
  Qed.

  Lemma nth_error_skipn_add {A} (l : list A) : forall k j, nth_error (skipn k l) j = nth_error l (k + j).
  Proof.
    induction l as [|x l IH]; intros k j; [destruct k; destruct j; reflexivity|].
    destruct k as [|k]; [reflexivity|]. cbn. apply IH.
  Qed.

  Lemma nth_error_set_slot_other i s l j : j <> i -> (i < List.length l)%nat -> nth_error (set_slot i s l) j = nth_error l j.
  Proof.
    intros N L. unfold set_slot. destruct (Nat.lt_ge_cases j i) as [Lt|Ge].
    - rewrite nth_error_app1 by (rewrite firstn_length; lia). rewrite nth_error_firstn_lt; [reflexivity|lia].
    - rewrite nth_error_app2 by (rewrite firstn_length; lia). rewrite firstn_length.
      replace (j - Nat.min i (List.length l))%nat with (S (j - S i)) by lia. cbn [nth_error].
      rewrite nth_error_skipn_add. f_equal. lia.
  Qed.

  Lemma nth_error_set_slot_same i s l : (i < List.length l)%nat -> nth_error (set_slot i s l) i = Some s.
  Proof.
    intros L. unfold set_slot. rewrite nth_error_app2 by (rewrite firstn_length; lia).
    rewrite firstn_length. replace (i - Nat.min i (List.length l))%nat with 0%nat by lia. reflexivity.
  Qed.

  (** C01: when the level succeeds, field [j] holds exactly the initialiser applied to its
      final slot - a function of the items addressed to it (or, for the flatten member, of the
      unclaimed items), its type's value-for-absent and its declared default; nothing else. *)
  Theorem parse_fields_ok_values items cdef_of locate kvs :
    parse_fields sugg sim interp_with interp_fn fields convs auk (state0 fields) items cdef_of locate = Ok kvs ->
    exists cd, cdef_of tt = Ok cd /\
      forall j f t, nth_error fields j = Some (f, t) ->
        exists v, nth_error kvs j = Some (fi_ident f, v)
                  /\ init_field interp_fn cd (final_slot items j f) (f, t) = Ok v.
  Proof.
    unfold parse_fields. destruct (loop (state0 fields) items) as [st1|e1|m1] eqn:L; try discriminate.
    destruct (loop_is_spec sugg sim interp_with interp_fn fields convs auk items st1 L) as [Sl [_ Fl]].
    unfold Recv.require_fields. destruct (flatten_init st1) as [stf|ef|mf] eqn:FI; try discriminate.
    destruct (check_all 0 (ps_slots stf) fs) as [slots errs] eqn:CA. cbn [ps_errs ps_slots].
    destruct (ps_errs stf ++ errs) as [|x xs]; [|destruct (multiple (x :: xs)); discriminate].
    destruct (cdef_of tt) as [cd|ec|mc]; try discriminate. intros IA. exists cd. split; [reflexivity|].
    intros j f t Hj.
    assert (Hf : nth_error fs j = Some f).
    { unfold finfos. rewrite nth_error_map, Hj. reflexivity. }
    (* the slot of j after the flatten hand-off *)
    assert (Sf : nth_error (ps_slots stf) j =
                 Some (match find_flatten fs 0 with
                       | Some i => if Nat.eqb i j then SSingle true (ok_opt (flat_result items i))
                                   else slot_spec interp_with interp_fn fields convs j f items
                       | None => slot_spec interp_with interp_fn fields convs j f items
                       end)).
    { assert (S1 : nth_error (ps_slots st1) j = Some (slot_spec interp_with interp_fn fields convs j f items)).
      { rewrite Sl. unfold spec_slots. rewrite nth_error_map.
        rewrite (nth_error_indexed fs j f Hf). reflexivity. }
      assert (Len : List.length (ps_slots st1) = List.length fs) by (rewrite Sl; apply spec_slots_length).
      unfold Recv.flatten_init in FI. destruct (find_flatten fs 0) as [i|] eqn:FF; [|injection FI as <-; exact S1].
      destruct (find_flatten_some _ _ _ FF) as [g [Ng _]]. rewrite Nat.sub_0_r in Ng.
      assert (Li : (i < List.length (ps_slots st1))%nat) by (rewrite Len; apply nth_error_Some; congruence).
      unfold flat_result. rewrite <- Fl.
      match type of FI with context [match ?r with Ok _ => _ | Err _ => _ | Panic _ => _ end] => destruct r as [v|e|m] eqn:R end;
        try discriminate; injection FI as <-; cbn [ps_slots push_err];
        (destruct (Nat.eqb_spec i j) as [->|N];
         [ rewrite nth_error_set_slot_same by assumption; reflexivity
         | rewrite nth_error_set_slot_other by (auto; lia); exact S1 ]). }
    pose proof (check_all_nth (ps_slots stf) 0 fs j _ f Sf Hf) as Cn. rewrite CA in Cn. cbn [fst] in Cn.
    rewrite Nat.add_0_l in Cn.
    destruct (init_all_nth cd slots fields kvs IA j _ f t Cn Hj) as [v [Iv Kv]].
    exists v. split; [exact Kv|]. exact Iv.
  Qed.

  (** C02 at one level: the level fails exactly when an error was recorded (by the loop, the
      flatten member or the presence checks), and then returns the bundle of ALL of them, in
      order; the loop's own errors are the first ones. *)
  Theorem parse_fields_err items cdef_of e :
    parse_fields sugg sim interp_with interp_fn fields convs auk (state0 fields) items cdef_of (fun x => x) = Err e ->
    (exists st1 st2 x xs,
        loop (state0 fields) items = Ok st1 /\ require_fields st1 = Ok st2
        /\ ps_errs st2 = x :: xs /\ multiple (x :: xs) = POk e
        /\ exists more, ps_errs st2 = spec_errs sugg sim interp_with interp_fn fields convs auk items ++ more)
    \/ (exists st1 st2, loop (state0 fields) items = Ok st1 /\ require_fields st1 = Ok st2 /\ ps_errs st2 = []
                        /\ (cdef_of tt = Err e \/ exists cd, cdef_of tt = Ok cd /\ init_all interp_fn cd (ps_slots st2) fields = Err e)).
  Proof.
    unfold parse_fields. destruct (loop (state0 fields) items) as [st1|e1|m1] eqn:L; try discriminate.
    2:{ intros [= <-]. exfalso. unfold Recv.core_loop in L. revert L. generalize (state0 fields) as st0.
        induction items as [|it r IH]; intros st0 L; [discriminate|]. cbn [fold_left] in L.
        destruct (step (Ok st0) it) as [st'|e'|m'] eqn:S.
        - eapply IH; exact L.
        - apply core_step_not_err in S. discriminate.
        - clear -L. induction r as [|x r IHr]; cbn in L; [discriminate|]. now apply IHr. }
    destruct (require_fields st1) as [st2|e2|m2] eqn:RF; try discriminate.
    2:{ intros [= <-]. exfalso. unfold Recv.require_fields in RF. destruct (flatten_init st1) as [stf|ef|mf] eqn:FI; try discriminate.
        - destruct (check_all 0 (ps_slots stf) fs). discriminate.
        - unfold Recv.flatten_init in FI. destruct (find_flatten fs 0); [|discriminate].
          match type of FI with context [match ?r with Ok _ => _ | Err _ => _ | Panic _ => _ end] => destruct r end; discriminate. }
    destruct (ps_errs st2) as [|x xs] eqn:E.
    - intros H. right. exists st1, st2. repeat split; auto.
      destruct (cdef_of tt) as [cd|ec|mc]; try discriminate; [|left; congruence].
      right. exists cd. split; [reflexivity|]. destruct (init_all interp_fn cd (ps_slots st2) fields); congruence.
    - destruct (multiple (x :: xs)) as [y|m] eqn:M; try discriminate. intros [= <-]. left.
      exists st1, st2, x, xs. repeat split; auto.
      destruct (loop_is_spec sugg sim interp_with interp_fn fields convs auk items st1 L) as [_ [E1 _]].
      unfold Recv.require_fields in RF. destruct (flatten_init st1) as [stf|ef|mf] eqn:FI; try discriminate.
      destruct (check_all 0 (ps_slots stf) fs) as [sl es] eqn:CA. injection RF as <-. cbn [ps_errs] in *.
      unfold Recv.flatten_init in FI. destruct (find_flatten fs 0).
      + match type of FI with context [match ?r with Ok _ => _ | Err _ => _ | Panic _ => _ end] => destruct r end;
          try discriminate; injection FI as <-; cbn [ps_errs push_err] in *; rewrite E1.
        * exists es. reflexivity.
        * eexists. rewrite <- app_assoc. reflexivity.
      + injection FI as <-. rewrite E1. exists es. reflexivity.
  Qed.
End Level.
