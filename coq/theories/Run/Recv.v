(** Run/Recv.v — run time: the semantics of the parsers the derives generate
    (codegen/{field,variant_data,trait_impl,from_meta_impl,variant,default_expr,postfix_transform}.rs).

    [ty] is the universe of field types: library targets, wrappers, and derived struct / enum
    receivers (any nesting).  [impl_of : ty -> fm] gives each type its [FromMeta] implementer; for
    a derived struct it is the generated [from_list]: declarations, core loop, flatten hand-off,
    presence checks, the single early return, defaults, initialisers, post-transform. *)
From DarlingModel Require Export Conv.Targets.
Local Open Scope string_scope.

(** User-supplied callables, by name. *)
Definition fnid := string.

Inductive dexpr : Type :=
| DxTrait                       (* Default::default() of the field's type *)
| DxExplicit (f : fnid)         (* a user function *)
| DxInherit.                    (* the same-named field of the container-level default *)

(** What code generation knows about one field (codegen::Field), minus its type. *)
Record finfo : Type := mkFI {
  fi_ident : string;            (* Rust field name *)
  fi_name : string;             (* effective name in attribute syntax *)
  fi_default : option dexpr;
  fi_with : option fnid;
  fi_post : option (bool * fnid);      (* (is and_then, function) *)
  fi_skip : bool;
  fi_multiple : bool;
  fi_flatten : bool;
}.

Inductive cdefault : Type := CdTrait | CdExplicit (f : fnid) | CdFromIdent.

Record cinfo : Type := mkCI {
  ci_name : string;             (* type name *)
  ci_default : option cdefault;
  ci_post : option (bool * fnid);
  ci_auk : bool;                (* allow_unknown_fields *)
  ci_from_word : option fnid;
  ci_from_none : option fnid;
}.

Inductive vstyle : Type := VsUnit | VsNewtype | VsStruct.

Record vinfo : Type := mkVI {
  vi_ident : string;
  vi_name : string;
  vi_skip : bool;
  vi_style : vstyle;
  vi_auk : bool;
}.

Inductive ty : Type :=
| TLeaf (t : target)
| TOpt (t : ty)
| TBox (t : ty)
| TRes (t : ty)                                       (* darling::Result<T> *)
| TStructR (c : cinfo) (fields : list (finfo * ty))
| TNewtypeR (c : cinfo) (inner : ty)                  (* struct R(T): delegates to T *)
| TUnitR (c : cinfo)                                  (* struct R; *)
| TEnumR (c : cinfo) (word_variant : option string) (variants : list (vinfo * list (finfo * ty))).

(** One slot of the generated parser's local state. *)
Inductive slot : Type :=
| SSingle (seen : bool) (val : option value)
| SMulti (vals : list value).

Record pstate : Type := mkPS {
  ps_slots : list slot;
  ps_errs : list err;
  ps_flat : list nested;        (* __flatten *)
}.

Section Run.
  (** oracles of the library layer *)
  Variable pf : bool -> string -> option N.
  Variable reparse : grammar -> string -> option string.
  Variable reparse_arr : string -> option expr.
  Variable reparse_preds : string -> option (list string).
  (** the suggestions feature and string similarity *)
  Variable sugg : bool.
  Variable sim : string -> string -> N.
  (** user callables *)
  Variable interp_with : fnid -> nested -> res value.        (* with = f : fn(&Meta) -> Result<T> *)
  Variable interp_fn : fnid -> value -> res value.           (* map / and_then / default / from_word / from_none *)

  Definition leaf_fm (t : target) : fm := fm_of pf reparse reparse_arr reparse_preds t.

  (** [Default::default()] of a type (receivers derive Default). *)
  Fixpoint default_of (t : ty) : value :=
    match t with
    | TLeaf tg =>
        match tg with
        | TBool | TAtomicBool => VBool false
        | TInt _ => VInt 0
        | TFloat _ => VFloat 0
        | TChar => VChar 0
        | TString | TPathBuf => VStr ""
        | TUnit => VUnit
        | TOption _ => VNone
        | TMap _ _ => VMap []
        | TPathList | TVecLit _ | TNumArr _ | TWherePreds => VList []
        | TFlag => VFlag None
        | _ => VUnit
        end
    | TOpt _ => VNone
    | TBox t' => VPtr (default_of t')
    | TRes t' => VResOk (default_of t')
    | TStructR _ fields => VStruct (map (fun ft => (fi_ident (fst ft), if fi_multiple (fst ft) then VList [] else default_of (snd ft))) fields)
    | TNewtypeR _ inner => VStruct [("0", default_of inner)]
    | TUnitR _ => VStruct []
    | TEnumR _ _ vs =>
        (* #[default] is put on the first unit variant *)
        match find (fun v => match vi_style (fst v) with VsUnit => true | _ => false end) vs with
        | Some v => VVariant (vi_ident (fst v)) []
        | None => VUnit
        end
    end.

  Definition run_fn (f : fnid) (v : value) : res value := interp_fn f v.

  Definition apply_post (p : option (bool * fnid)) (r : res value) : res value :=
    match p with
    | None => r
    | Some (_, f) => bind r (run_fn f)        (* map f = Ok(f v); and_then f = f v : both are [interp_fn] results *)
    end.

  (** ** One level of the generated struct parser, over a table of field converters *)
  Section Level.
    Variable fields : list (finfo * ty).
    Variable convs : list fm.                    (* the field types' implementers, in field order *)
    Variable auk : bool.

    Definition finfos : list finfo := map fst fields.
    Definition conv_of (i : nat) : fm := nth i convs fm_default.

    Definition addressable (f : finfo) : bool := negb (fi_skip f || fi_flatten f).
    Definition names : list string := map fi_name (filter addressable finfos).
    Definition has_flatten : bool := existsb fi_flatten finfos.

    Definition slot0 (f : finfo) : slot := if fi_multiple f then SMulti [] else SSingle false None.
    Definition state0 : pstate := mkPS (map slot0 finfos) [] [].

    (** the first field, in declaration order, whose arm matches [n] *)
    Fixpoint find_arm (fs : list finfo) (i : nat) (n : string) : option (nat * finfo) :=
      match fs with
      | [] => None
      | f :: r => if (addressable f && str_eqb (fi_name f) n)%bool then Some (i, f) else find_arm r (S i) n
      end.

    (** the extractor of a match arm: converter, post-transform, then span and location *)
    Definition extract (i : nat) (f : finfo) (item : nested) (loc : string) : res value :=
      map_err (fun e => at_ loc (with_span (i_span (ninfo item)) e))
        (apply_post (fi_post f)
           (match fi_with f with
            | Some w => interp_with w item
            | None => from_meta (conv_of i) item
            end)).

    Definition set_slot (i : nat) (s : slot) (l : list slot) : list slot :=
      (firstn i l ++ s :: skipn (S i) l)%list.

    Definition push_err (e : err) (st : pstate) : pstate :=
      mkPS (ps_slots st) (ps_errs st ++ [e])%list (ps_flat st).

    (** [accumulator.handle(r)]: the value if any, pushing the error; a panic propagates *)
    Definition unknown_error (n : string) (item : nested) : err :=
      with_span (i_span (ninfo item))
        (match names with
         | [] => new_err (KUnknownField n None)
         | _ => unknown_field_with_alts sugg sim n names
         end).

    Definition core_step (acc : res pstate) (item : nested) : res pstate :=
      match acc with
      | Ok st =>
          match item with
          | NLit i _ => Ok (push_err (with_span (i_span i) (unsupported_format "literal")) st)
          | _ =>
              let n := match meta_path item with Some p => path_to_string p | None => "" end in
              match find_arm finfos 0 n with
              | Some (i, f) =>
                  match nth i (ps_slots st) (SSingle false None) with
                  | SMulti vals =>
                      let loc := fi_name f ++ "[" ++ N_to_string (N.of_nat (List.length vals)) ++ "]" in
                      match extract i f item loc with
                      | Ok v => Ok (mkPS (set_slot i (SMulti (vals ++ [v])) (ps_slots st)) (ps_errs st) (ps_flat st))
                      | Err e => Ok (push_err e st)
                      | Panic m => Panic m
                      end
                  | SSingle false _ =>
                      match extract i f item (fi_name f) with
                      | Ok v => Ok (mkPS (set_slot i (SSingle true (Some v)) (ps_slots st)) (ps_errs st) (ps_flat st))
                      | Err e => Ok (push_err e (mkPS (set_slot i (SSingle true None) (ps_slots st)) (ps_errs st) (ps_flat st)))
                      | Panic m => Panic m
                      end
                  | SSingle true _ =>
                      Ok (push_err (with_span (i_span (ninfo item)) (new_err (KDuplicateField (fi_name f)))) st)
                  end
              | None =>
                  if has_flatten then Ok (mkPS (ps_slots st) (ps_errs st) (ps_flat st ++ [item])%list)
                  else if auk then Ok st
                  else Ok (push_err (unknown_error n item) st)
              end
          end
      | other => other
      end.

    Definition core_loop (st : pstate) (items : list nested) : res pstate :=
      fold_left core_step items (Ok st).

    (** flatten hand-off: the first flatten field gets the buffered items, once *)
    Fixpoint find_flatten (fs : list finfo) (i : nat) : option nat :=
      match fs with
      | [] => None
      | f :: r => if fi_flatten f then Some i else find_flatten r (S i)
      end.

    Definition flatten_init (st : pstate) : res pstate :=
      match find_flatten finfos 0 with
      | None => Ok st
      | Some i =>
          let r := from_list (conv_of i) (ps_flat st) in
          let r' := match names with
                    | [] => r
                    | _ => map_err (add_sibling_alts sugg sim names) r
                    end in
          match r' with
          | Ok v => Ok (mkPS (set_slot i (SSingle true (Some v)) (ps_slots st)) (ps_errs st) (ps_flat st))
          | Err e => Ok (push_err e (mkPS (set_slot i (SSingle true None) (ps_slots st)) (ps_errs st) (ps_flat st)))
          | Panic m => Panic m
          end
      end.

    (** presence checks, in field order: a single-valued field without any default that was not
        seen gets its type's value-for-absent, or is reported missing *)
    Definition needs_check (f : finfo) : bool :=
      negb (fi_multiple f || match fi_default f with Some _ => true | None => false end).

    Definition check_one (i : nat) (f : finfo) (s : slot) : slot * list err :=
      if needs_check f then
        match s with
        | SSingle false _ =>
            match from_none (conv_of i) with
            | Some v => (SSingle false (Some v), [])
            | None => (s, [new_err (KMissingField (fi_name f))])
            end
        | _ => (s, [])
        end
      else (s, []).

    Fixpoint check_all (i : nat) (slots : list slot) (fs : list finfo) : list slot * list err :=
      match slots, fs with
      | s :: sr, f :: fr =>
          let '(s', e) := check_one i f s in
          let '(sr', er) := check_all (S i) sr fr in
          (s' :: sr', e ++ er)%list
      | _, _ => (slots, [])
      end.

    Definition indexed {A} (l : list A) : list (nat * A) := combine (seq 0 (List.length l)) l.

    Definition require_fields (st : pstate) : res pstate :=
      match flatten_init st with
      | Ok st' =>
          let '(slots, errs) := check_all 0 (ps_slots st') finfos in
          Ok (mkPS slots (ps_errs st' ++ errs)%list (ps_flat st'))
      | other => other
      end.

    (** the initialiser of one field, given the container-level default value (if declared) *)
    Definition field_default (cdef : option value) (f : finfo) (t : ty) : res value :=
      match fi_default f with
      | Some DxTrait => Ok (if fi_multiple f then VList [] else default_of t)
      | Some (DxExplicit g) => run_fn g VUnit
      | Some DxInherit =>
          match cdef with
          | Some (VStruct kvs) =>
              match find (fun kv => str_eqb (fst kv) (fi_ident f)) kvs with
              | Some kv => Ok (snd kv)
              | None => Panic "model: inherited default without that field"
              end
          | _ => Panic "model: inherited default without a container default"
          end
      | None => Panic "Uninitialized fields without defaults were already checked"
      end.

    Definition init_field (cdef : option value) (s : slot) (ft : finfo * ty) : res value :=
      let '(f, t) := ft in
      match s with
      | SMulti vals =>
          match vals, fi_default f with
          | [], Some _ => field_default cdef f t
          | _, _ => Ok (VList vals)
          end
      | SSingle _ (Some v) => Ok v
      | SSingle _ None => field_default cdef f t
      end.

    Fixpoint init_all (cdef : option value) (slots : list slot) (fs : list (finfo * ty))
      : res (list (string * value)) :=
      match slots, fs with
      | s :: sr, ft :: fr =>
          match init_field cdef s ft with
          | Ok v => match init_all cdef sr fr with
                    | Ok kvs => Ok ((fi_ident (fst ft), v) :: kvs)
                    | Err e => Err e | Panic m => Panic m
                    end
          | Err e => Err e
          | Panic m => Panic m
          end
      | _, _ => Ok []
      end.

    (** declarations .. initialisers for one list of items, given how the container default is
        obtained ([cdef_of], evaluated after the error check) and where errors are located *)
    Definition parse_fields (st0 : pstate) (items : list nested) (cdef_of : unit -> res (option value))
               (locate : err -> err) : res (list (string * value)) :=
      match core_loop st0 items with
      | Ok st1 =>
          match require_fields st1 with
          | Ok st2 =>
              match ps_errs st2 with
              | _ :: _ =>
                  match multiple (ps_errs st2) with
                  | POk e => Err (locate e)
                  | PPanic m => Panic m
                  end
              | [] =>
                  match cdef_of tt with
                  | Ok cdef => init_all cdef (ps_slots st2) fields
                  | Err e => Err e
                  | Panic m => Panic m
                  end
              end
          | Err e => Err e
          | Panic m => Panic m
          end
      | Err e => Err e
      | Panic m => Panic m
      end.
  End Level.

  Definition cdefault_value (c : cinfo) (self : ty) (ident : option string) : res (option value) :=
    match ci_default c with
    | None => Ok None
    | Some CdTrait => Ok (Some (default_of self))
    | Some (CdExplicit f) => map_ok Some (run_fn f VUnit)
    | Some CdFromIdent => map_ok Some (run_fn "from_ident" (VStr (match ident with Some s => s | None => "" end)))
    end.

  (** ** enum receivers: [from_list], [from_string], [from_word], [from_none] *)
  Definition variant_names (vs : list (vinfo * list (finfo * ty))) : list string :=
    map (fun v => vi_name (fst v)) (filter (fun v => negb (vi_skip (fst v))) vs).

  (** the arm of the generated [from_list] selected by name [n]: the first non-skipped variant
      with that effective name ([vconvs]: the implementers of each variant's field types) *)
  Fixpoint enum_arm (vs : list (vinfo * list (finfo * ty))) (vconvs : list (list fm))
           (n : string) (nested_ : nested) {struct vs} : option (res value) :=
    match vs, vconvs with
    | (vi, fs) :: r, cs :: cr =>
        if (negb (vi_skip vi) && str_eqb (vi_name vi) n)%bool then
          Some
            (match vi_style vi with
             | VsUnit =>
                 match nested_ with
                 | NPath _ _ => Ok (VVariant (vi_ident vi) [])
                 | _ => Err (with_span (i_span (ninfo nested_)) (unsupported_format "non-path"))
                 end
             | VsNewtype =>
                 match cs with
                 | c :: _ =>
                     map_ok (fun v => VVariant (vi_ident vi) [("0", v)])
                            (map_err (at_ (vi_name vi)) (from_meta c nested_))
                 | [] => Panic "Newtype should have exactly one field"
                 end
             | VsStruct =>
                 match nested_ with
                 | NList _ _ _ items =>
                     map_ok (VVariant (vi_ident vi))
                            (parse_fields fs cs (vi_auk vi) (state0 fs) items (fun _ => Ok None)
                                          (fun e => at_ (vi_name vi) (with_span (i_span (ninfo nested_)) e)))
                 | NBadList _ _ _ es msg => Err (at_ (vi_name vi) (from_syn es msg))     (* located under the variant, like the rest *)
                 | _ => Err (with_span (i_span (ninfo nested_)) (unsupported_format "non-list"))
                 end
             end)
        else enum_arm r cr n nested_
    | _, _ => None
    end.

  (** the arm of the generated [from_string] *)
  Fixpoint enum_str_arm (vs : list (vinfo * list (finfo * ty))) (vconvs : list (list fm)) (s : string)
           {struct vs} : option (res value) :=
    match vs, vconvs with
    | (vi, fs) :: r, cs :: cr =>
        if (negb (vi_skip vi) && str_eqb (vi_name vi) s)%bool then
          Some
            (match vi_style vi with
             | VsUnit => Ok (VVariant (vi_ident vi) [])
             | VsNewtype =>
                 match cs with
                 | c :: _ =>
                     match from_none c with
                     | Some v => Ok (VVariant (vi_ident vi) [("0", v)])
                     | None => Err (unsupported_format "literal")
                     end
                 | [] => Panic "Newtype should have exactly one field"
                 end
             | VsStruct => Err (unsupported_format "literal")
             end)
        else enum_str_arm r cr s
    | _, _ => None
    end.

  (** the generated [from_list] of an enum: arity match, then name dispatch *)
  Definition enum_from_list (variants : list (vinfo * list (finfo * ty))) (vconvs : list (list fm))
             (outer : list nested) : res value :=
    match outer with
    | [] => Err (new_err (KTooFewItems 1))
    | [NLit i _] => Err (with_span (i_span i) (unsupported_format "literal"))
    | [n] =>
        let name := match meta_path n with Some p => path_to_string p | None => "" end in
        match enum_arm variants vconvs name n with
        | Some r => r
        | None =>
            Err (with_span (i_span (ninfo n))
                   (match variants with
                    | [] => new_err (KUnknownField name None)
                    | _ => unknown_field_with_alts sugg sim name (variant_names variants)
                    end))
        end
    | _ :: n2 :: _ => Err (with_span (i_span (ninfo n2)) (new_err (KTooManyItems 1)))   (* at the first surplus item *)
    end.

  Definition enum_from_string (variants : list (vinfo * list (finfo * ty))) (vconvs : list (list fm))
             (s : string) : res value :=
    match enum_str_arm variants vconvs s with
    | Some r => r
    | None => Err (unknown_value s)
    end.

  (** ** the implementer of every type *)
  Fixpoint impl_of (t : ty) : fm :=
    match t with
    | TLeaf tg => leaf_fm tg
    | TOpt t' => option_fm (impl_of t')
    | TBox t' => ptr_fm (impl_of t')
    | TRes t' => result_fm (impl_of t')
    | TUnitR c =>
        (* a unit struct gets from_word, and its declared from_none *)
        mkFm None None
             (match ci_from_none c with
              | Some f => Some (match run_fn f VUnit with Ok (VSome v) => Some v | _ => None end)
              | None => None
              end)
             (Some (Ok (VStruct []))) None None None None None None
    | TNewtypeR c inner =>
        (* fn from_meta(item) = FromMeta::from_meta(item).map_err(with_span(item)).map(R); a container-level
           map / and_then is accepted by the derive but not emitted for a newtype *)
        mkFm None
             (Some (fun m => map_ok (fun v => VStruct [("0", v)])
                               (map_err (with_span (i_span (ninfo m))) (from_meta (impl_of inner) m))))
             (match ci_from_none c with
              | Some f => Some (match run_fn f VUnit with Ok (VSome v) => Some v | _ => None end)
              | None => None
              end)
             None
             (* fn from_list(items) = FromMeta::from_list(items).map(R): what a `flatten` field calls *)
             (Some (fun items => map_ok (fun v => VStruct [("0", v)]) (from_list (impl_of inner) items)))
             None None None None None
    | TStructR c fields =>
        let convs := map (fun ft => impl_of (snd ft)) fields in
        mkFm None None
             (match ci_from_none c with
              | Some f => Some (match run_fn f VUnit with Ok (VSome v) => Some v | _ => None end)
              | None => None
              end)
             (match ci_from_word c with Some f => Some (run_fn f VUnit) | None => None end)
             (Some (fun items =>
                      apply_post (ci_post c)
                        (map_ok VStruct
                           (parse_fields fields convs (ci_auk c) (state0 fields) items
                              (fun _ => cdefault_value c t None) (fun e => e)))))
             None None None None None
    | TEnumR c wordv variants =>
        let vconvs := map (fun vf : vinfo * list (finfo * ty) => map (fun ft => impl_of (snd ft)) (snd vf)) variants in
        mkFm None None
             (match ci_from_none c with
              | Some f => Some (match run_fn f VUnit with Ok (VSome v) => Some v | _ => None end)
              | None => None
              end)
             (match ci_from_word c, wordv with
              | Some f, _ => Some (run_fn f VUnit)
              | None, Some vid => Some (Ok (VVariant vid []))
              | None, None => None
              end)
             (Some (enum_from_list variants vconvs))
             None None None
             (Some (enum_from_string variants vconvs))
             None
    end.
End Run.
