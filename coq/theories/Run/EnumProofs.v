(** Run/EnumProofs.v — the parser generated for an enum (Run/Recv.v: [enum_arm], [enum_str_arm],
    [enum_from_list], [enum_from_string]) for ANY variant list, any field-type implementers and any
    user callables: which inputs reach a variant, and that a skipped variant is never produced. *)
From DarlingModel Require Import Run.Recv Conv.RoutingProofs.
Local Open Scope string_scope.
Local Open Scope list_scope.

Section EnumFacts.
  Variable sugg : bool.
  Variable sim : string -> string -> N.
  Variable interp_with : fnid -> nested -> res value.
  Variable interp_fn : fnid -> value -> res value.

  Notation enum_arm := (enum_arm sugg sim interp_with interp_fn).
  Notation enum_from_list := (enum_from_list sugg sim interp_with interp_fn).
  Notation variant := (vinfo * list (finfo * ty))%type.

  Definition selectable (n : string) (v : variant) : bool :=
    (negb (vi_skip (fst v)) && str_eqb (vi_name (fst v)) n)%bool.

  (** the specification's choice: the first non-skipped variant with effective name [n] *)
  Definition select (vs : list variant) (n : string) : option variant := find (selectable n) vs.

  Lemma select_some vs n v :
    select vs n = Some v -> In v vs /\ vi_skip (fst v) = false /\ vi_name (fst v) = n.
  Proof.
    intros H. apply find_some in H as [I S]. unfold selectable in S.
    apply andb_true_iff in S as [K N]. apply negb_true_iff in K. apply String.eqb_eq in N. auto.
  Qed.

  Lemma select_none vs n : select vs n = None <-> ~ In n (variant_names vs).
  Proof using.
    unfold select, variant_names. induction vs as [|v r IH]; cbn [find filter map]; [split; [intros _ []|reflexivity]|].
    unfold selectable at 1. destruct (vi_skip (fst v)); cbn [negb andb map].
    - exact IH.
    - destruct (str_eqb (vi_name (fst v)) n) eqn:E.
      + apply String.eqb_eq in E. split; [discriminate|]. intros H. exfalso. apply H. now left.
      + apply String.eqb_neq in E. rewrite IH. cbn [In].
        split; [intros H [X|X]; [now apply E|now apply H] | intros H X; apply H; now right].
  Qed.

  (** what the arm of variant [v] does with the single nested item *)
  Definition arm_body (v : variant) (cs : list fm) (it : nested) : res value :=
    let '(vi, fs) := v in
    match vi_style vi with
    | VsUnit =>
        match it with
        | NPath _ _ => Ok (VVariant (vi_ident vi) [])
        | _ => Err (with_span (i_span (ninfo it)) (unsupported_format "non-path"))
        end
    | VsNewtype =>
        match cs with
        | c :: _ =>
            map_ok (fun x => VVariant (vi_ident vi) [("0", x)]) (map_err (at_ (vi_name vi)) (from_meta c it))
        | [] => Panic "Newtype should have exactly one field"
        end
    | VsStruct =>
        match it with
        | NList _ _ _ items =>
            map_ok (VVariant (vi_ident vi))
                   (parse_fields sugg sim interp_with interp_fn fs cs (vi_auk vi) (state0 fs) items
                                 (fun _ => Ok None) (fun e => at_ (vi_name vi) (with_span (i_span (ninfo it)) e)))
        | NBadList _ _ _ es msg => Err (at_ (vi_name vi) (from_syn es msg))
        | _ => Err (with_span (i_span (ninfo it)) (unsupported_format "non-list"))
        end
    end.

  (** [enum_arm] is: select by name, then run that variant's arm.  (The implementers are looked
      up positionally, so the two lists must have equal length - they are built by [map].) *)
  Fixpoint convs_for (vs : list variant) (vconvs : list (list fm)) (n : string) : list fm :=
    match vs, vconvs with
    | v :: r, cs :: cr => if selectable n v then cs else convs_for r cr n
    | _, _ => []
    end.

  Lemma enum_arm_spec vs : forall vconvs n it,
    List.length vconvs = List.length vs ->
    enum_arm vs vconvs n it = option_map (fun v => arm_body v (convs_for vs vconvs n) it) (select vs n).
  Proof.
    induction vs as [|[vi fs] r IH]; intros [|cs cr] n it L; try discriminate; [reflexivity|].
    cbn [Recv.enum_arm select find convs_for]. unfold selectable at 1 2. cbn [fst].
    destruct (negb (vi_skip vi) && str_eqb (vi_name vi) n)%bool eqn:S.
    - cbn [option_map arm_body]. reflexivity.
    - apply IH. cbn in L. lia.
  Qed.

  (** A variant value that comes out of an arm is the selected variant's. *)
  Lemma arm_body_ok v cs it x :
    arm_body v cs it = Ok x -> exists payload, x = VVariant (vi_ident (fst v)) payload.
  Proof.
    destruct v as [vi fs]. cbn [arm_body fst]. destruct (vi_style vi).
    - destruct it; try discriminate. intros [= <-]. eauto.
    - destruct cs as [|c cr]; [discriminate|].
      destruct (map_err _ _) as [y|e|m]; cbn; try discriminate. intros [= <-]. eauto.
    - destruct it; try discriminate.
      destruct (parse_fields _ _ _ _ _ _ _ _ _ _ _) as [y|e|m]; cbn; try discriminate. intros [= <-]. eauto.
  Qed.

  (** *** the list form *)
  Lemma enum_from_list_none vs vconvs : enum_from_list vs vconvs [] = Err (new_err (KTooFewItems 1)).
  Proof. reflexivity. Qed.

  Lemma enum_from_list_many vs vconvs a b r :
    enum_from_list vs vconvs (a :: b :: r) = Err (with_span (i_span (ninfo b)) (new_err (KTooManyItems 1))).
  Proof. destruct a; reflexivity. Qed.

  Lemma enum_from_list_literal vs vconvs i l :
    enum_from_list vs vconvs [NLit i l] = Err (with_span (i_span i) (unsupported_format "literal")).
  Proof. reflexivity. Qed.

  Definition item_name (it : nested) : string :=
    match meta_path it with Some p => path_to_string p | None => "" end.

  Lemma enum_from_list_one vs vconvs it :
    is_meta it = true -> List.length vconvs = List.length vs ->
    enum_from_list vs vconvs [it] =
      match select vs (item_name it) with
      | Some v => arm_body v (convs_for vs vconvs (item_name it)) it
      | None =>
          Err (with_span (i_span (ninfo it))
                 (new_err (KUnknownField (item_name it) (did_you_mean sugg sim (item_name it) (variant_names vs)))))
      end.
  Proof.
    intros M L. unfold Recv.enum_from_list.
    destruct it as [i l| i p | i p ti items | i p ti es msg | i p e]; [discriminate|..];
      cbn [meta_path]; unfold item_name; cbn [meta_path];
      rewrite enum_arm_spec by assumption;
      (destruct (select vs _) as [v|] eqn:S; cbn [option_map]; [reflexivity|]);
      (destruct vs as [|v0 r]; [unfold did_you_mean; destruct sugg; reflexivity|reflexivity]).
  Qed.

  (** Nothing but the selected, non-skipped variant can be produced by the list form. *)
  Lemma enum_from_list_ok vs vconvs outer x :
    List.length vconvs = List.length vs ->
    enum_from_list vs vconvs outer = Ok x ->
    exists it v payload,
      outer = [it] /\ is_meta it = true /\ select vs (item_name it) = Some v
      /\ In v vs /\ vi_skip (fst v) = false /\ vi_name (fst v) = item_name it
      /\ x = VVariant (vi_ident (fst v)) payload.
  Proof.
    intros L. destruct outer as [|it [|b r]].
    - discriminate.
    - destruct (is_meta it) eqn:M.
      + rewrite enum_from_list_one by assumption.
        destruct (select vs (item_name it)) as [v|] eqn:S; [|discriminate].
        intros H. apply arm_body_ok in H as [payload ->].
        pose proof (select_some _ _ _ S) as [I [K N]].
        exists it, v, payload. repeat split; auto.
      + destruct it; try discriminate.
    - rewrite enum_from_list_many. discriminate.
  Qed.

  (** *** the string form *)
  Notation enum_str_arm := (@enum_str_arm).

  Definition str_body (v : variant) (cs : list fm) : res value :=
    let '(vi, fs) := v in
    match vi_style vi with
    | VsUnit => Ok (VVariant (vi_ident vi) [])
    | VsNewtype =>
        match cs with
        | c :: _ =>
            match from_none c with
            | Some x => Ok (VVariant (vi_ident vi) [("0", x)])
            | None => Err (unsupported_format "literal")
            end
        | [] => Panic "Newtype should have exactly one field"
        end
    | VsStruct => Err (unsupported_format "literal")
    end.

  Lemma enum_str_arm_spec vs : forall vconvs s,
    List.length vconvs = List.length vs ->
    enum_str_arm vs vconvs s = option_map (fun v => str_body v (convs_for vs vconvs s)) (select vs s).
  Proof.
    induction vs as [|[vi fs] r IH]; intros [|cs cr] s L; try discriminate; [reflexivity|].
    cbn [Recv.enum_str_arm select find convs_for]. unfold selectable at 1 2. cbn [fst].
    destruct (negb (vi_skip vi) && str_eqb (vi_name vi) s)%bool eqn:S.
    - reflexivity.
    - apply IH. cbn in L. lia.
  Qed.

  Lemma enum_from_string_spec vs vconvs s :
    List.length vconvs = List.length vs ->
    enum_from_string vs vconvs s =
      match select vs s with
      | Some v => str_body v (convs_for vs vconvs s)
      | None => Err (unknown_value s)
      end.
  Proof.
    intros L. unfold enum_from_string. rewrite enum_str_arm_spec by assumption.
    destruct (select vs s); reflexivity.
  Qed.

  Lemma enum_from_string_ok vs vconvs s x :
    List.length vconvs = List.length vs ->
    enum_from_string vs vconvs s = Ok x ->
    exists v payload,
      select vs s = Some v /\ In v vs /\ vi_skip (fst v) = false /\ vi_name (fst v) = s
      /\ x = VVariant (vi_ident (fst v)) payload
      /\ (vi_style (fst v) = VsUnit \/ vi_style (fst v) = VsNewtype).
  Proof.
    intros L. rewrite enum_from_string_spec by assumption.
    destruct (select vs s) as [v|] eqn:S; [|discriminate].
    pose proof (select_some _ _ _ S) as [I [K N]].
    destruct v as [vi fs]. cbn [str_body fst] in *. destruct (vi_style vi) eqn:St.
    - intros [= <-]. exists (vi, fs), []. cbn [fst]. repeat split; auto.
    - destruct (convs_for _ _ _) as [|c cr]; [discriminate|]. destruct (from_none c); [|discriminate].
      intros [= <-]. eexists (vi, fs), _. cbn [fst]. repeat split; eauto.
    - discriminate.
  Qed.
End EnumFacts.

(** ** the implementer of an enum type *)
Section EnumImpl.
  Variable pf : bool -> string -> option N.
  Variable reparse : grammar -> string -> option string.
  Variable reparse_arr : string -> option expr.
  Variable reparse_preds : string -> option (list string).
  Variable sugg : bool.
  Variable sim : string -> string -> N.
  Variable interp_with : fnid -> nested -> res value.
  Variable interp_fn : fnid -> value -> res value.

  Notation impl := (impl_of pf reparse reparse_arr reparse_preds sugg sim interp_with interp_fn).
  Notation variant := (vinfo * list (finfo * ty))%type.

  Definition vconvs_of (vs : list variant) : list (list fm) :=
    map (fun vf : variant => map (fun ft => impl (snd ft)) (snd vf)) vs.

  Lemma vconvs_length vs : List.length (vconvs_of vs) = List.length vs.
  Proof. apply map_length. Qed.

  Variable c : cinfo.
  Variable wordv : option string.
  Variable vs : list variant.
  Notation E := (impl (TEnumR c wordv vs)).

  Lemma enum_list_form items :
    from_list E items = enum_from_list sugg sim interp_with interp_fn vs (vconvs_of vs) items.
  Proof. reflexivity. Qed.

  Lemma enum_string_form s : from_string E s = enum_from_string vs (vconvs_of vs) s.
  Proof. reflexivity. Qed.

  Lemma enum_word_form :
    from_word E = match ci_from_word c, wordv with
                  | Some f, _ => interp_fn f VUnit
                  | None, Some vid => Ok (VVariant vid [])
                  | None, None => Err (unsupported_format "word")
                  end.
  Proof. unfold from_word. cbn. destruct (ci_from_word c), wordv; reflexivity. Qed.

  Lemma enum_absent_form :
    from_none E = match ci_from_none c with
                  | Some f => match interp_fn f VUnit with Ok (VSome v) => Some v | _ => None end
                  | None => None
                  end.
  Proof. unfold from_none. cbn. destruct (ci_from_none c); reflexivity. Qed.

  (** every other form is an error: booleans, chars, numbers, other literals, non-literal
      expressions - whatever the variants are *)
  Lemma enum_other_forms :
    (forall b, from_bool E b = Err (unexpected_type "bool"))
    /\ (forall ch, from_char E ch = Err (unexpected_type "char"))
    /\ (forall i l, (forall s, l <> LStr s) -> is_err (from_value E i l) = true)
    /\ (forall e, (forall j s, strip_groups e <> ELit j (LStr s)) -> is_err (from_expr E e) = true).
  Proof.
    repeat split.
    - intros i l Hs. unfold from_value. cbn [o_value impl_of]. destruct l; try reflexivity. exfalso. eapply Hs. reflexivity.
    - intros e He. unfold from_expr. cbn [o_expr impl_of]. rewrite default_from_expr_strip.
      pose proof (strip_groups_not_group e) as G.
      destruct (strip_groups e) as [j l|j g|j p|j es|j k|j nl] eqn:S; try reflexivity.
      + cbn [default_from_expr]. unfold from_value. cbn [o_value impl_of].
        destruct l; try reflexivity. exfalso. eapply He. reflexivity.
      + exfalso. eapply G. reflexivity.
      + cbn [default_from_expr]. unfold from_value. cbn [o_value impl_of]. destruct nl; reflexivity.
  Qed.
End EnumImpl.
