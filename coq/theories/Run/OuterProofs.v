(** Run/OuterProofs.v — the attribute extractor and the body conversions of Run/Outer.v, for ANY
    receiver declaration, any field types and any user callables:
    - C08: what the extractor computes depends only on the concatenation of the items of the
      selected attributes (any partition, with bare / empty ones interspersed) and on the
      sub-list of forwarded attributes; every other attribute is inert;
    - C16: [Fields::try_from] / [Data::try_from] convert every element, in order, and fail exactly
      when some element fails, reporting all failures. *)
From DarlingModel Require Import Run.Recv Run.Outer Run.RecvProofs.
Local Open Scope string_scope.
Local Open Scope list_scope.

Section Extractor.
  Variable pf : bool -> string -> option N.
  Variable reparse : grammar -> string -> option string.
  Variable reparse_arr : string -> option expr.
  Variable reparse_preds : string -> option (list string).
  Variable sugg : bool.
  Variable sim : string -> string -> N.
  Variable interp_with : fnid -> nested -> res value.
  Variable interp_fn : fnid -> value -> res value.
  Variable interp_attrs : fnid -> list attribute -> res value.

  Notation attr_step := (attr_step pf reparse reparse_arr reparse_preds sugg sim interp_with interp_fn).
  Notation convs_of := (convs_of pf reparse reparse_arr reparse_preds sugg sim interp_with interp_fn).
  Notation extract := (extract pf reparse reparse_arr reparse_preds sugg sim interp_with interp_fn interp_attrs).

  Variable b : obase.
  Notation loop := (core_loop sugg sim interp_with interp_fn (ob_fields b) (convs_of (ob_fields b)) (ci_auk (ob_c b))).
  Notation step := (core_step sugg sim interp_with interp_fn (ob_fields b) (convs_of (ob_fields b)) (ci_auk (ob_c b))).

  (** the items an attribute contributes: those of a selected list attribute *)
  Definition sel_items (a : attribute) : list nested :=
    if selected b a then match at_form a with AList _ items => items | _ => [] end else [].

  (** an attribute that is handed to the `attrs` member *)
  Definition forwarded (a : attribute) : bool :=
    negb (selected b a) && will_fwd b && fwd_selects b a.

  (** a selected attribute of a form that is merged (list or bare word) *)
  Definition mergeable (a : attribute) : Prop :=
    selected b a = true -> match at_form a with AWord | AList _ _ => True | _ => False end.

  (** the item loop over a concatenation is the loop over the first part, then over the second,
      with the state carried over *)
  Definition loop_res (acc : res pstate) (items : list nested) : res pstate := fold_left step items acc.

  Lemma loop_res_stuck items : forall acc, is_ok acc = false -> loop_res acc items = acc.
  Proof.
    induction items as [|it r IH]; intros acc H; [reflexivity|]. cbn [loop_res fold_left].
    destruct acc as [st|e|m]; [discriminate| |]; apply IH; reflexivity.
  Qed.

  Lemma loop_res_app acc x y : loop_res acc (x ++ y) = loop_res (loop_res acc x) y.
  Proof. unfold loop_res. apply fold_left_app. Qed.

  Lemma loop_is_loop_res st items : loop st items = loop_res (Ok st) items.
  Proof. reflexivity. Qed.

  (** one attribute = the loop over its contribution, plus possibly one forwarded attribute *)
  Lemma attr_step_spec st fwd a :
    mergeable a ->
    attr_step b (Ok (st, fwd)) a =
      match loop_res (Ok st) (sel_items a) with
      | Ok st' => Ok (st', if forwarded a then fwd ++ [a] else fwd)
      | Err e => Err e
      | Panic m => Panic m
      end.
  Proof.
    intros M. unfold Outer.attr_step, sel_items, forwarded, mergeable in *.
    destruct (selected b a) eqn:S.
    - specialize (M eq_refl). cbn [negb andb]. destruct (at_form a) as [|ti items|es msg|nv]; try contradiction.
      + reflexivity.
      + destruct items as [|it r]; [reflexivity|]. rewrite loop_is_loop_res.
        destruct (loop_res (Ok st) (it :: r)); reflexivity.
    - cbn [negb andb loop_res fold_left]. destruct (will_fwd b && fwd_selects b a)%bool; reflexivity.
  Qed.

  (** *** C08: the extractor is the item loop over the concatenated contributions *)
  Lemma extract_fold attrs : Forall mergeable attrs -> forall st fwd,
    fold_left (attr_step b) attrs (Ok (st, fwd)) =
      match loop_res (Ok st) (flat_map sel_items attrs) with
      | Ok st' => Ok (st', fwd ++ filter forwarded attrs)
      | Err e => Err e
      | Panic m => Panic m
      end.
  Proof.
    induction 1 as [|a r Ha _ IH]; intros st fwd.
    - cbn. now rewrite app_nil_r.
    - cbn [fold_left flat_map filter]. rewrite attr_step_spec by assumption. rewrite loop_res_app.
      destruct (loop_res (Ok st) (sel_items a)) as [st'|e|m] eqn:L.
      + rewrite IH. destruct (loop_res (Ok st') (flat_map sel_items r)); try reflexivity.
        destruct (forwarded a); [now rewrite <- app_assoc|reflexivity].
      + rewrite loop_res_stuck by reflexivity.
        clear. induction r as [|x r IHr]; [reflexivity|]. exact IHr.
      + rewrite loop_res_stuck by reflexivity.
        clear. induction r as [|x r IHr]; [reflexivity|]. exact IHr.
  Qed.

  (** Any two attribute lists with the same concatenated selected items and the same forwarded
      attributes give the same extractor result: every partition of the items, any interleaving
      with bare / empty selected attributes and with unrelated attributes. *)
  Theorem extract_partition_invariant attrs attrs' :
    Forall mergeable attrs -> Forall mergeable attrs' ->
    flat_map sel_items attrs = flat_map sel_items attrs' ->
    filter forwarded attrs = filter forwarded attrs' ->
    extract b attrs = extract b attrs'.
  Proof.
    intros M M' E F. unfold Outer.extract. rewrite !extract_fold by assumption. now rewrite E, F.
  Qed.

  (** An attribute that is neither selected nor forwarded has no effect, whatever it contains. *)
  Theorem unrelated_attribute_inert acc a :
    selected b a = false -> forwarded a = false -> attr_step b acc a = acc.
  Proof.
    intros S F. unfold Outer.attr_step, forwarded in *. rewrite S in *. cbn [negb andb] in F.
    destruct acc as [[st fwd]|e|m]; try reflexivity. now rewrite F.
  Qed.

  (** The `attrs` member receives exactly the forwarded attributes, unmodified, in source order
      (when nothing panics and a plain member is declared). *)
  Theorem forwarded_exact attrs st v :
    Forall mergeable attrs -> ob_attrs b = Some None ->
    extract b attrs = Ok (st, v) -> v = Some (VList (map attr_toks (filter forwarded attrs))).
  Proof.
    intros M A. unfold Outer.extract. rewrite extract_fold by assumption. rewrite A.
    destruct (loop_res _ _); try discriminate. intros [= _ <-]. reflexivity.
  Qed.
End Extractor.

(** ** C16: element-wise conversion of a body *)
Section Accumulate.
  Definition val_of (r : res value) : option value := match r with Ok v => Some v | _ => None end.

  Lemma oks_all_ok rs : Forall (fun r => is_ok r = true) rs -> map Some (oks rs) = map val_of rs.
  Proof.
    induction 1 as [|r rs Hr _ IH]; [reflexivity|]. destruct r as [v|e|m]; try discriminate.
    cbn. now rewrite <- IH.
  Qed.

  Lemma oks_length_all_ok rs : Forall (fun r => is_ok r = true) rs -> List.length (oks rs) = List.length rs.
  Proof. intros H. rewrite <- (map_length Some), oks_all_ok by assumption. apply map_length. Qed.

  Lemma errs_of_nil rs : errs_of rs = [] -> first_panic rs = None -> Forall (fun r => is_ok r = true) rs.
  Proof.
    induction rs as [|r rs IH]; intros E P; [constructor|]. destruct r as [v|e|m].
    - constructor; [reflexivity|]. apply IH; assumption.
    - discriminate.
    - discriminate.
  Qed.

  Lemma all_ok_no_errs rs : Forall (fun r => is_ok r = true) rs -> errs_of rs = [] /\ first_panic rs = None.
  Proof.
    induction 1 as [|r rs Hr _ [IH1 IH2]]; [split; reflexivity|]. destruct r as [v|e|m]; try discriminate.
    cbn. now split.
  Qed.

  (** the conversion of a list of elements succeeds exactly when every element does, and then
      holds one entry per element, in order ... *)
  Theorem accumulate_ok rs k v :
    accumulate rs k = Ok v <-> Forall (fun r => is_ok r = true) rs /\ v = k (oks rs).
  Proof.
    unfold accumulate. split.
    - destruct (first_panic rs) eqn:P; [discriminate|]. destruct (errs_of rs) as [|e es] eqn:E.
      + intros [= <-]. split; [now apply errs_of_nil|reflexivity].
      + destruct (multiple (e :: es)); discriminate.
    - intros [A ->]. destruct (all_ok_no_errs rs A) as [E P]. now rewrite P, E.
  Qed.

  (** ... and otherwise (nothing panicking) reports ALL failures, in order, in one bundle. *)
  Theorem accumulate_err rs k e :
    accumulate rs k = Err e ->
    errs_of rs <> [] /\ multiple (errs_of rs) = POk e
    /\ len e = sumN (map len (errs_of rs)).
  Proof.
    unfold accumulate. destruct (first_panic rs); [discriminate|].
    destruct (errs_of rs) as [|x xs] eqn:E; [discriminate|].
    destruct (multiple (x :: xs)) as [y|m] eqn:M; [|discriminate]. intros [= <-].
    repeat split; [discriminate|].
    destruct xs as [|x2 xs'].
    - cbn in M. injection M as <-. cbn. now rewrite N.add_0_r.
    - cbn in M. injection M as <-. reflexivity.
  Qed.

  Theorem accumulate_fails_iff rs k :
    first_panic rs = None ->
    (is_err (accumulate rs k) = true <-> exists r, In r rs /\ is_err r = true).
  Proof.
    intros P. unfold accumulate. rewrite P. split.
    - destruct (errs_of rs) as [|x xs] eqn:E; [discriminate|]. intros _.
      assert (I : In x (errs_of rs)) by (rewrite E; now left).
      unfold errs_of in I. apply in_flat_map in I as [r [Hr Hx]].
      exists r. split; [assumption|]. destruct r; [destruct Hx| reflexivity | destruct Hx].
    - intros [r [Hr Er]]. destruct r as [v|e|m]; try discriminate.
      assert (I : In e (errs_of rs)).
      { unfold errs_of. apply in_flat_map. exists (Err e). split; [assumption|now left]. }
      destruct (errs_of rs) as [|x xs]; [destruct I|].
      destruct xs; reflexivity.
  Qed.
End Accumulate.

Section Body.
  Variable pf : bool -> string -> option N.
  Variable reparse : grammar -> string -> option string.
  Variable reparse_arr : string -> option expr.
  Variable reparse_preds : string -> option (list string).
  Variable sugg : bool.
  Variable sim : string -> string -> N.
  Variable interp_with : fnid -> nested -> res value.
  Variable interp_fn : fnid -> value -> res value.
  Variable interp_attrs : fnid -> list attribute -> res value.

  Notation fields_try_from := (fields_try_from pf reparse reparse_arr reparse_preds sugg sim interp_with interp_fn interp_attrs).
  Notation fields_results := (fields_results pf reparse reparse_arr reparse_preds sugg sim interp_with interp_fn interp_attrs).
  Notation data_try_from := (data_try_from pf reparse reparse_arr reparse_preds sugg sim interp_with interp_fn interp_attrs).
  Notation from_variant := (from_variant pf reparse reparse_arr reparse_preds sugg sim interp_with interp_fn interp_attrs).

  (** [Fields::try_from]: same style, one entry per input field, in source order *)
  Theorem fields_try_from_ok fc style fs v :
    fields_try_from fc style fs = Ok v ->
    exists vals, v = fields_value style vals
                 /\ List.length vals = List.length fs
                 /\ map Some vals = map val_of (fields_results fc style fs).
  Proof.
    unfold Outer.fields_try_from. intros H. apply accumulate_ok in H as [A ->].
    exists (oks (fields_results fc style fs)). split; [reflexivity|]. split.
    - rewrite oks_length_all_ok by assumption. unfold Outer.fields_results. apply map_length.
    - now apply oks_all_ok.
  Qed.

  (** [Data::try_from]: a union is an error; an enum keeps one entry per variant; a struct keeps
      its style and one entry per field *)
  Theorem data_try_from_union vc fc : data_try_from vc fc DUnion = Err (custom "Unions are not supported").
  Proof. reflexivity. Qed.

  Theorem data_try_from_enum_ok vc fc vs v :
    data_try_from vc fc (DEnum vs) = Ok v ->
    exists vals, v = VVariant "Enum" [("0", VList vals)]
                 /\ List.length vals = List.length vs
                 /\ map Some vals = map val_of (map (from_variant vc) vs).
  Proof.
    cbn [Outer.data_try_from]. intros H. apply accumulate_ok in H as [A ->].
    eexists. split; [reflexivity|]. split.
    - rewrite oks_length_all_ok by assumption. apply map_length.
    - rewrite (oks_all_ok _ A), !map_map. apply map_ext. intros ve. destruct (from_variant vc ve); reflexivity.
  Qed.

  (** ... and when it fails, the error bundles, in source order, the error of every failing variant,
      each located under its variant's name *)
  Definition variant_errs (vc : vconv) (vs : list velem) : list err :=
    flat_map (fun ve => match from_variant vc ve with Err x => [at_ (ve_ident ve) x] | _ => [] end) vs.

  Theorem data_try_from_enum_err vc fc vs e :
    data_try_from vc fc (DEnum vs) = Err e ->
    variant_errs vc vs <> [] /\ multiple (variant_errs vc vs) = POk e.
  Proof.
    cbn [Outer.data_try_from]. intros H. apply accumulate_err in H as [NE [M _]].
    assert (E : errs_of (map (fun ve : velem => map_err (at_ (ve_ident ve)) (from_variant vc ve)) vs) = variant_errs vc vs).
    { unfold errs_of, variant_errs. rewrite flat_map_concat_map, map_map, <- flat_map_concat_map.
      apply flat_map_ext. intros ve. destruct (from_variant vc ve); reflexivity. }
    rewrite E in *. split; assumption.
  Qed.

  Theorem data_try_from_struct_ok vc fc style fs v :
    data_try_from vc fc (DStruct style fs) = Ok v ->
    exists vals, v = VVariant "Struct" [("0", fields_value style vals)]
                 /\ List.length vals = List.length fs.
  Proof.
    cbn [Outer.data_try_from]. destruct (fields_try_from fc style fs) as [x|e|m] eqn:F; try discriminate.
    intros [= <-]. apply fields_try_from_ok in F as [vals [-> [L _]]]. eauto.
  Qed.

  (** [ast::Generics]: one entry per parameter, in order; every failing parameter is reported *)
  Notation from_generics := (from_generics pf reparse reparse_arr reparse_preds sugg sim interp_with interp_fn interp_attrs).
  Notation param_result := (param_result pf reparse reparse_arr reparse_preds sugg sim interp_with interp_fn interp_attrs).

  Theorem generics_mirror_ok tc g v :
    from_generics (GcMirror tc) g = Ok v ->
    exists vals, v = VStruct [("params", VList vals); ("where_clause", opt_toks (g_where g))]
                 /\ List.length vals = List.length (g_params g)
                 /\ map Some vals = map val_of (map (param_result tc) (g_params g)).
  Proof.
    cbn [Outer.from_generics]. intros H. apply accumulate_ok in H as [A ->].
    eexists. split; [reflexivity|]. split.
    - rewrite oks_length_all_ok by assumption. apply map_length.
    - now apply oks_all_ok.
  Qed.

  Theorem generics_mirror_err tc g e :
    from_generics (GcMirror tc) g = Err e ->
    let es := errs_of (map (param_result tc) (g_params g)) in
    es <> [] /\ multiple es = POk e /\ len e = sumN (map len es).
  Proof. cbn [Outer.from_generics]. apply accumulate_err. Qed.
End Body.

(** ** C16: magic members are projections of the input element *)
Section Magic.
  Variable pf : bool -> string -> option N.
  Variable reparse : grammar -> string -> option string.
  Variable reparse_arr : string -> option expr.
  Variable reparse_preds : string -> option (list string).
  Variable sugg : bool.
  Variable sim : string -> string -> N.
  Variable interp_with : fnid -> nested -> res value.
  Variable interp_fn : fnid -> value -> res value.
  Variable interp_attrs : fnid -> list attribute -> res value.

  Notation finish_outer := (finish_outer pf reparse reparse_arr reparse_preds sugg sim interp_with interp_fn).
  Notation from_field := (from_field pf reparse reparse_arr reparse_preds sugg sim interp_with interp_fn interp_attrs).
  Notation from_variant := (from_variant pf reparse reparse_arr reparse_preds sugg sim interp_with interp_fn interp_attrs).

  Lemma eval_magic_ok ms : forall kvs,
    eval_magic ms = Ok kvs -> map (fun kv => (fst kv, Ok (snd kv))) kvs = ms.
  Proof.
    induction ms as [|[n r] ms IH]; intros kvs; cbn [eval_magic].
    - intros [= <-]. reflexivity.
    - destruct r as [v|e|m]; try discriminate. destruct (eval_magic ms) as [k|e|m] eqn:E; try discriminate.
      intros [= <-]. cbn. now rewrite (IH k eq_refl).
  Qed.

  Lemma eval_magic_app_ok x y kvs :
    eval_magic (x ++ y) = Ok kvs ->
    exists kx ky, kvs = kx ++ ky /\ eval_magic x = Ok kx /\ eval_magic y = Ok ky.
  Proof.
    revert kvs. induction x as [|[n r] x IH]; intros kvs; cbn [app eval_magic].
    - intros H. exists [], kvs. auto.
    - destruct r as [v|e|m]; try discriminate.
      destruct (eval_magic (x ++ y)) as [k|e|m] eqn:E; try discriminate. intros [= <-].
      destruct (IH k eq_refl) as [kx [ky [-> [Hx Hy]]]]. exists ((n, v) :: kx), ky. rewrite Hx. auto.
  Qed.

  (** the value of an element-level receiver without a post-transform is the struct of its magic
      members, in evaluation order, followed by its ordinary fields *)
  Lemma finish_outer_shape b sty ident ex shape_err before after v :
    finish_outer b sty ident ex shape_err before after = Ok v -> ci_post (ob_c b) = None ->
    exists kb katt ka kvs,
      v = VStruct (kb ++ katt ++ ka ++ kvs)
      /\ map (fun kv => (fst kv, Ok (snd kv))) kb = before
      /\ map (fun kv => (fst kv, Ok (snd kv))) ka = after.
  Proof.
    unfold Outer.finish_outer. intros H P. rewrite P in H. cbn [apply_post] in H.
    destruct (outer_state _ _ _ _ _ _ _ _ _ _ _) as [[st2 av]|e|m]; try discriminate.
    destruct (ps_errs st2); [|destruct (multiple _); discriminate].
    match type of H with context [if ob_from_ident b then ?x else ?y] => destruct (if ob_from_ident b then x else y) as [cd|e|m] end;
      try discriminate.
    match type of H with context [eval_magic ?l] => destruct (eval_magic l) as [mv|e|m] eqn:EM end; try discriminate.
    destruct (init_all _ _ _ _) as [kvs|e|m]; try discriminate. injection H as <-.
    apply eval_magic_app_ok in EM as [kb [krest [-> [Hb Hr]]]].
    apply eval_magic_app_ok in Hr as [katt [ka [-> [Hatt Ha]]]].
    exists kb, katt, ka, kvs. rewrite <- !app_assoc. repeat split.
    - now apply eval_magic_ok.
    - now apply eval_magic_ok.
  Qed.

  (** FromField: ident / vis / ty members are the field's own identifier, visibility and type *)
  Theorem field_magic_members b pass fe v :
    from_field (FcRecv b pass) fe = Ok v -> ci_post (ob_c b) = None ->
    exists rest, v = VStruct (rest) /\
      forall kb, map (fun kv => (fst kv, Ok (snd kv))) kb = map (field_pass fe) pass ->
                 exists tail, rest = kb ++ tail.
  Proof.
    cbn [Outer.from_field]. intros H P. apply finish_outer_shape in H as [kb [katt [ka [kvs [-> [Hb Ha]]]]]]; [|assumption].
    eexists. split; [reflexivity|]. intros kb' Hk.
    assert (kb' = kb).
    { rewrite <- Hb in Hk. clear -Hk. revert kb Hk. induction kb' as [|[n x] r IH]; intros [|[n' x'] r']; cbn; try discriminate; [reflexivity|].
      intros [= -> -> E]. f_equal. now apply IH. }
    subst kb'. eauto.
  Qed.
End Magic.

Lemma ok_pairs_inj (kb ms : list (string * value)) :
  map (fun kv => (fst kv, @Ok value (snd kv))) kb = map (fun kv => (fst kv, Ok (snd kv))) ms -> kb = ms.
Proof.
  revert ms. induction kb as [|[n x] r IH]; intros [|[n' x'] r']; cbn; try discriminate; [reflexivity|].
  intros [= -> -> E]. f_equal. now apply IH.
Qed.

(** the parts of a field a pass-through member may name *)
Definition field_part (fe : felem) (m : string) : value :=
  if str_eqb m "ident" then opt_toks (fe_ident fe)
  else if str_eqb m "vis" then VToks (fe_vis fe)
  else VToks (fe_ty fe).

Definition field_member (m : string) : bool := str_eqb m "ident" || str_eqb m "vis" || str_eqb m "ty".

Lemma field_pass_part fe m : field_member m = true -> field_pass fe m = (m, Ok (field_part fe m)).
Proof.
  unfold field_member, field_pass, field_part. intros H.
  destruct (str_eqb m "ident"); [reflexivity|]. destruct (str_eqb m "vis"); [reflexivity|].
  destruct (str_eqb m "ty"); [reflexivity|discriminate].
Qed.

Section FieldMembers.
  Variable pf : bool -> string -> option N.
  Variable reparse : grammar -> string -> option string.
  Variable reparse_arr : string -> option expr.
  Variable reparse_preds : string -> option (list string).
  Variable sugg : bool.
  Variable sim : string -> string -> N.
  Variable interp_with : fnid -> nested -> res value.
  Variable interp_fn : fnid -> value -> res value.
  Variable interp_attrs : fnid -> list attribute -> res value.
  Notation from_field := (from_field pf reparse reparse_arr reparse_preds sugg sim interp_with interp_fn interp_attrs).

  Theorem field_members_are_projections b pass fe v :
    from_field (FcRecv b pass) fe = Ok v -> ci_post (ob_c b) = None -> forallb field_member pass = true ->
    exists tail, v = VStruct (map (fun m => (m, field_part fe m)) pass ++ tail).
  Proof.
    cbn [Outer.from_field]. intros H P V.
    apply finish_outer_shape in H as [kb [katt [ka [kvs [-> [Hb Ha]]]]]]; [|assumption].
    assert (E : kb = map (fun m => (m, field_part fe m)) pass).
    { apply ok_pairs_inj. rewrite Hb, map_map. apply map_ext_in. intros m Hm. cbn [fst snd].
      apply field_pass_part. rewrite forallb_forall in V. now apply V. }
    subst kb. eauto.
  Qed.
End FieldMembers.

(** ** C08 for whole receivers: the result of an element-level receiver is invariant under any
    re-partition of the element's selected attributes (the element being otherwise the same) *)
Section ReceiverPartition.
  Variable pf : bool -> string -> option N.
  Variable reparse : grammar -> string -> option string.
  Variable reparse_arr : string -> option expr.
  Variable reparse_preds : string -> option (list string).
  Variable sugg : bool.
  Variable sim : string -> string -> N.
  Variable interp_with : fnid -> nested -> res value.
  Variable interp_fn : fnid -> value -> res value.
  Variable interp_attrs : fnid -> list attribute -> res value.
  Variable interp_data : fnid -> dbody -> res value.

  Notation from_field := (from_field pf reparse reparse_arr reparse_preds sugg sim interp_with interp_fn interp_attrs).
  Notation from_variant := (from_variant pf reparse reparse_arr reparse_preds sugg sim interp_with interp_fn interp_attrs).
  Notation from_attributes := (from_attributes pf reparse reparse_arr reparse_preds sugg sim interp_with interp_fn interp_attrs).
  Notation from_derive_input := (from_derive_input pf reparse reparse_arr reparse_preds sugg sim interp_with interp_fn interp_attrs interp_data).

  Definition same_selection (b : obase) (attrs attrs' : list attribute) : Prop :=
    Forall (mergeable b) attrs /\ Forall (mergeable b) attrs'
    /\ flat_map (sel_items b) attrs = flat_map (sel_items b) attrs'
    /\ filter (forwarded b) attrs = filter (forwarded b) attrs'.

  Lemma extract_same b attrs attrs' : same_selection b attrs attrs' ->
    extract pf reparse reparse_arr reparse_preds sugg sim interp_with interp_fn interp_attrs b attrs
    = extract pf reparse reparse_arr reparse_preds sugg sim interp_with interp_fn interp_attrs b attrs'.
  Proof. intros [M [M' [E F]]]. now apply extract_partition_invariant. Qed.

  Theorem from_attributes_partition_invariant b attrs attrs' :
    same_selection b attrs attrs' -> from_attributes b attrs = from_attributes b attrs'.
  Proof. intros S. unfold Outer.from_attributes. now rewrite (extract_same b attrs attrs' S). Qed.

  Theorem from_field_partition_invariant b pass i attrs attrs' ident vis ty :
    same_selection b attrs attrs' ->
    from_field (FcRecv b pass) (mkFE i attrs ident vis ty) = from_field (FcRecv b pass) (mkFE i attrs' ident vis ty).
  Proof. intros S. cbn [Outer.from_field fe_attrs fe_ident]. now rewrite (extract_same b attrs attrs' S). Qed.

  Theorem from_variant_partition_invariant b pass fm sup i attrs attrs' ident discr style fields :
    same_selection b attrs attrs' ->
    from_variant (VcRecv b pass fm sup) (mkVE i attrs ident discr style fields)
    = from_variant (VcRecv b pass fm sup) (mkVE i attrs' ident discr style fields).
  Proof. intros S. cbn [Outer.from_variant ve_attrs ve_ident ve_style ve_fields]. now rewrite (extract_same b attrs attrs' S). Qed.

  Theorem from_derive_input_partition_invariant r i attrs attrs' ident vis g body :
    same_selection (dr_b r) attrs attrs' ->
    from_derive_input r (mkDIn i attrs ident vis g body) = from_derive_input r (mkDIn i attrs' ident vis g body).
  Proof.
    intros S. unfold Outer.from_derive_input. cbn [din_attrs din_ident din_vis din_generics din_body].
    now rewrite (extract_same (dr_b r) attrs attrs' S).
  Qed.
End ReceiverPartition.
