(** Run/Outer.v — the element-level receivers (FromDeriveInput, FromField, FromVariant,
    FromTypeParam, FromAttributes): codegen/{attr_extractor,attrs_field,from_derive_impl,
    from_field,from_variant_impl,from_type_param,from_attributes_impl}.rs, util/parse_attribute.rs,
    ast/data.rs ([Data::try_from], [Fields::try_from]), ast/generics.rs, from_generics.rs and the
    base impls of the element traits.

    Attribute selection and merging ([extract]), forwarding, magic fields, body conversion.  The
    item loop, presence checks, defaults and initialisers are those of Run/Recv.v - the same
    functions, with the parser state shared across all selected attributes of one element. *)
From DarlingModel Require Export Run.Recv Shape.Shape.
Local Open Scope string_scope.

(** ** input elements, as syn hands them over *)
Inductive aform : Type :=
| AWord                                              (* #[name] *)
| AList (ti : info) (items : list nested)            (* #[name(...)], tokens parse as nested items *)
| ABadList (es : span) (emsg : string)               (* #[name(...)], NestedMeta::parse_meta_list fails *)
| ANameValue (nv : info).                            (* #[name = ...] *)

Record attribute : Type := mkAttr { at_info : info; at_path : path; at_form : aform }.

Inductive fstyle : Type := StNamed | StTuple | StUnit.

Record felem : Type := mkFE {
  fe_info : info; fe_attrs : list attribute; fe_ident : option string; fe_vis : string; fe_ty : string }.

Record velem : Type := mkVE {
  ve_info : info; ve_attrs : list attribute; ve_ident : string; ve_discr : option string;
  ve_style : fstyle; ve_fields : list felem }.

Inductive gparam : Type :=
| GpType (i : info) (attrs : list attribute) (ident : string) (bounds : list string) (default : option string)
| GpLifetime (toks : string)
| GpConst (toks : string).

Record generics : Type := mkGen { g_params : list gparam; g_params_toks : string; g_where : option string }.

Inductive dbody : Type :=
| DStruct (style : fstyle) (fields : list felem)
| DEnum (variants : list velem)
| DUnion.

Record dinput : Type := mkDIn {
  din_info : info; din_attrs : list attribute; din_ident : string; din_vis : string;
  din_generics : generics; din_body : dbody }.

Definition attr_toks (a : attribute) : value := VToks (i_toks (at_info a)).

(** [DisplayPath] of util/parse_attribute.rs *)
Definition display_path (p : path) : string :=
  (if p_leading p then "::" else "") ++ join "::" (map fst (p_segs p)).

(** the name an attribute is selected by: its path as darling prints paths (a leading `::` is part
    of the name: [#[::a]] is selected by a declared [::a] and by nothing else) *)
Definition attr_name (a : attribute) : string := path_to_string (at_path a).

Definition style_name (s : fstyle) : string :=
  match s with StNamed => "Struct" | StTuple => "Tuple" | StUnit => "Unit" end.

Definition shape_of (s : fstyle) (n : nat) : shape :=
  match s with
  | StNamed => Named
  | StUnit => Unit
  | StTuple => match n with 1%nat => Newtype | _ => Tuple end
  end.

Definition body_shape (b : dbody) : body :=
  match b with
  | DStruct s fs => BStruct (shape_of s (List.length fs))
  | DEnum vs => BEnum (map (fun v => shape_of (ve_style v) (List.length (ve_fields v))) vs)
  | DUnion => BUnion
  end.

(** what every element-level receiver declares besides its ordinary fields *)
Record obase : Type := mkOB {
  ob_c : cinfo;
  ob_fields : list (finfo * ty);
  ob_names : list string;                            (* attributes(...) as path strings *)
  ob_fwd : option (option (list string));            (* forward_attrs: absent | bare | list *)
  ob_attrs : option (option fnid);                   (* an `attrs` field, with = f *)
  ob_from_ident : bool;
}.

Section Outer.
  Variable pf : bool -> string -> option N.
  Variable reparse : grammar -> string -> option string.
  Variable reparse_arr : string -> option expr.
  Variable reparse_preds : string -> option (list string).
  Variable sugg : bool.
  Variable sim : string -> string -> N.
  Variable interp_with : fnid -> nested -> res value.
  Variable interp_fn : fnid -> value -> res value.
  (** user functions given to `attrs(with = ..)` and `data(with = ..)` *)
  Variable interp_attrs : fnid -> list attribute -> res value.
  Variable interp_data : fnid -> dbody -> res value.

  Notation impl := (impl_of pf reparse reparse_arr reparse_preds sugg sim interp_with interp_fn).
  Notation loop := (core_loop sugg sim interp_with interp_fn).

  Definition convs_of (fields : list (finfo * ty)) : list fm := map (fun ft => impl (snd ft)) fields.

  (** [ForwardAttrs::will_forward_any] *)
  Definition will_fwd (b : obase) : bool :=
    match ob_fwd b, ob_attrs b with
    | Some None, Some _ => true
    | Some (Some l), Some _ => negb (match l with [] => true | _ => false end)
    | _, _ => false
    end.

  Definition fwd_selects (b : obase) (a : attribute) : bool :=
    match ob_fwd b with
    | Some None => true
    | Some (Some l) => existsb (str_eqb (attr_name a)) l
    | None => false
    end.

  Definition selected (b : obase) (a : attribute) : bool := existsb (str_eqb (attr_name a)) (ob_names b).

  (** one iteration of the extractor's [for __attr in ..] *)
  Definition attr_step (b : obase) (acc : res (pstate * list attribute)) (a : attribute)
    : res (pstate * list attribute) :=
    match acc with
    | Ok (st, fwd) =>
        if selected b a then
          match at_form a with
          | ANameValue nv =>
              Ok (push_err (with_span (i_span nv)
                              (custom ("Name-value arguments are not supported. Use #[" ++ display_path (at_path a) ++ "(...)]")))
                           st, fwd)
          | AWord => Ok (st, fwd)
          | AList _ [] => Ok (st, fwd)
          | AList _ items =>
              match loop (ob_fields b) (convs_of (ob_fields b)) (ci_auk (ob_c b)) st items with
              | Ok st' => Ok (st', fwd)
              | Err e => Err e
              | Panic m => Panic m
              end
          | ABadList es msg => Ok (push_err (from_syn es msg) st, fwd)
          end
        else if (will_fwd b && fwd_selects b a)%bool then Ok (st, fwd ++ [a])%list
        else Ok (st, fwd)
    | other => other
    end.

  (** the extractor: parser state after all attributes, and the value of the `attrs` field
      ([None]: never assigned) *)
  Definition extract (b : obase) (attrs : list attribute) : res (pstate * option value) :=
    match fold_left (attr_step b) attrs (Ok (state0 (ob_fields b), [])) with
    | Ok (st, fwd) =>
        match ob_attrs b with
        | None => Ok (st, None)
        | Some None => Ok (st, Some (VList (map attr_toks fwd)))
        | Some (Some f) =>
            match interp_attrs f fwd with
            | Ok v => Ok (st, Some v)
            | Err e => Ok (push_err e st, None)
            | Panic m => Panic m
            end
        end
    | Err e => Err e
    | Panic m => Panic m
    end.

  (** magic fields evaluated in the struct literal, left to right, each possibly returning
      early with [?] *)
  Fixpoint eval_magic (ms : list (string * res value)) : res (list (string * value)) :=
    match ms with
    | [] => Ok []
    | (n, r) :: rest =>
        match r with
        | Ok v => match eval_magic rest with
                  | Ok kvs => Ok ((n, v) :: kvs)
                  | Err e => Err e
                  | Panic m => Panic m
                  end
        | Err e => Err e
        | Panic m => Panic m
        end
    end.

  (** everything after the extractor: shape check, presence checks, the single early return,
      container default, struct literal, post-transform *)
  (** the parser state after the attribute layer: extraction, shape check, presence checks *)
  Definition outer_state (b : obase) (ex : res (pstate * option value)) (shape_err : option err)
    : res (pstate * option value) :=
    match ex with
    | Ok (st, attrs_val) =>
        let st1 := match shape_err with Some e => push_err e st | None => st end in
        match require_fields sugg sim (ob_fields b) (convs_of (ob_fields b)) st1 with
        | Ok st2 => Ok (st2, attrs_val)
        | Err e => Err e
        | Panic m => Panic m
        end
    | Err e => Err e
    | Panic m => Panic m
    end.

  Definition finish_outer (b : obase) (self_ty : ty) (ident : option string)
             (ex : res (pstate * option value)) (shape_err : option err)
             (magic_before magic_after : list (string * res value)) : res value :=
    match outer_state b ex shape_err with
    | Ok (st2, attrs_val) =>
        match ps_errs st2 with
        | _ :: _ =>
            match multiple (ps_errs st2) with
            | POk e => Err e
            | PPanic m => Panic m
            end
        | [] =>
            let cdef :=
              if ob_from_ident b
              then map_ok Some (interp_fn ("from_ident:" ++ ci_name (ob_c b)) (VStr (match ident with Some s => s | None => "" end)))
              else cdefault_value interp_fn (ob_c b) self_ty ident in
            match cdef with
            | Ok cd =>
                let attrs_init :=
                  match ob_attrs b with
                  | None => []
                  | Some _ => [("attrs", match attrs_val with
                                         | Some v => Ok v
                                         | None => Panic "Errors were already checked"
                                         end)]
                  end in
                match eval_magic (magic_before ++ attrs_init ++ magic_after)%list with
                | Ok mvals =>
                    match init_all interp_fn cd (ps_slots st2) (ob_fields b) with
                    | Ok kvs => apply_post interp_fn (ci_post (ob_c b)) (Ok (VStruct (mvals ++ kvs)%list))
                    | Err e => Err e
                    | Panic m => Panic m
                    end
                | Err e => Err e
                | Panic m => Panic m
                end
            | Err e => Err e
            | Panic m => Panic m
            end
        end
    | Err e => Err e
    | Panic m => Panic m
    end.

  (** the type the ordinary fields describe (for Default::default() of the receiver) *)
  Definition self_ty (b : obase) : ty := TStructR (ob_c b) (ob_fields b).

  Definition opt_toks (o : option string) : value :=
    match o with Some s => VSome (VToks s) | None => VNone end.

  (** ** fields *)
  Inductive fconv : Type :=
  | FcRecv (b : obase) (pass : list string)          (* a derived FromField receiver and its pass-through magic fields *)
  | FcUnit                                           (* () and util::Ignored *)
  | FcField | FcType | FcVis | FcAttrs               (* syn::Field, syn::Type, syn::Visibility, Vec<Attribute> *)
  | FcSpanned (f : fconv)
  | FcWithOrig (f : fconv).

  Definition field_pass (fe : felem) (m : string) : string * res value :=
    (m, if str_eqb m "ident" then Ok (opt_toks (fe_ident fe))
        else if str_eqb m "vis" then Ok (VToks (fe_vis fe))
        else if str_eqb m "ty" then Ok (VToks (fe_ty fe))
        else Panic ("model: no such magic field " ++ m)).

  Fixpoint from_field (fc : fconv) (fe : felem) : res value :=
    match fc with
    | FcRecv b pass =>
        finish_outer b (self_ty b) (fe_ident fe) (extract b (fe_attrs fe)) None
                     (map (field_pass fe) pass) []
    | FcUnit => Ok VUnit
    | FcField => Ok (VToks (i_toks (fe_info fe)))
    | FcType => Ok (VToks (fe_ty fe))
    | FcVis => Ok (VToks (fe_vis fe))
    | FcAttrs => Ok (VList (map attr_toks (fe_attrs fe)))
    | FcSpanned f =>
        map_ok (fun v => VSpanned v (i_span (fe_info fe)))
               (map_err (with_span (i_span (fe_info fe))) (from_field f fe))
    | FcWithOrig f => map_ok (fun v => VWithOrig v (i_toks (fe_info fe))) (from_field f fe)
    end.

  (** [Fields::try_from]: every field is converted, failures accumulate (named fields located by
      their name), then the single [finish()?] *)
  Definition fields_results (fc : fconv) (style : fstyle) (fs : list felem) : list (res value) :=
    map (fun fe =>
           match style, fe_ident fe with
           | StNamed, Some id => map_err (at_ id) (from_field fc fe)
           | _, _ => from_field fc fe
           end) fs.

  Fixpoint first_panic (rs : list (res value)) : option string :=
    match rs with
    | [] => None
    | Panic m :: _ => Some m
    | _ :: r => first_panic r
    end.
  Definition oks (rs : list (res value)) : list value :=
    flat_map (fun r => match r with Ok v => [v] | _ => [] end) rs.
  Definition errs_of (rs : list (res value)) : list err :=
    flat_map (fun r => match r with Err e => [e] | _ => [] end) rs.

  Definition accumulate (rs : list (res value)) (k : list value -> value) : res value :=
    match first_panic rs with
    | Some m => Panic m
    | None =>
        match errs_of rs with
        | [] => Ok (k (oks rs))
        | es => match multiple es with POk e => Err e | PPanic m => Panic m end
        end
    end.

  Definition fields_value (style : fstyle) (vals : list value) : value :=
    VStruct [("style", VStr (style_name style)); ("fields", VList vals)].

  Definition fields_try_from (fc : fconv) (style : fstyle) (fs : list felem) : res value :=
    accumulate (fields_results fc style fs) (fields_value style).

  (** ** variants *)
  Inductive vconv : Type :=
  | VcRecv (b : obase) (pass : list string) (fields_magic : option fconv) (supports : option data_shape)
  | VcUnit | VcVariant | VcIdent | VcAttrs
  | VcSpanned (v : vconv)
  | VcWithOrig (v : vconv).

  Definition variant_pass (ve : velem) (m : string) : string * res value :=
    (m, if str_eqb m "ident" then Ok (VToks (ve_ident ve))
        else if str_eqb m "discriminant" then Ok (opt_toks (ve_discr ve))
        else Panic ("model: no such magic field " ++ m)).

  Fixpoint from_variant (vc : vconv) (ve : velem) : res value :=
    match vc with
    | VcRecv b pass fm sup =>
        let shape_err :=
          match sup with
          | Some ds =>
              match ss_check (ds_to_set ds) (shape_of (ve_style ve) (List.length (ve_fields ve))) with
              | Err e => Some e
              | _ => None
              end
          | None => None
          end in
        finish_outer b (self_ty b) (Some (ve_ident ve)) (extract b (ve_attrs ve)) shape_err
                     (map (variant_pass ve) pass)
                     (match fm with
                      | Some fc => [("fields", fields_try_from fc (ve_style ve) (ve_fields ve))]
                      | None => []
                      end)
    | VcUnit => Ok VUnit
    | VcVariant => Ok (VToks (i_toks (ve_info ve)))
    | VcIdent => Ok (VToks (ve_ident ve))
    | VcAttrs => Ok (VList (map attr_toks (ve_attrs ve)))
    | VcSpanned v =>
        map_ok (fun x => VSpanned x (i_span (ve_info ve)))
               (map_err (with_span (i_span (ve_info ve))) (from_variant v ve))
    | VcWithOrig v => map_ok (fun x => VWithOrig x (i_toks (ve_info ve))) (from_variant v ve)
    end.

  (** [Data::try_from] *)
  Definition data_try_from (vc : vconv) (fc : fconv) (body : dbody) : res value :=
    match body with
    | DEnum vs =>
        (* each variant's errors are located under the variant's name, as a named field's are under its own *)
        accumulate (map (fun ve => map_err (at_ (ve_ident ve)) (from_variant vc ve)) vs)
                   (fun vals => VVariant "Enum" [("0", VList vals)])
    | DStruct style fs =>
        map_ok (fun v => VVariant "Struct" [("0", v)]) (fields_try_from fc style fs)
    | DUnion => Err (custom "Unions are not supported")
    end.

  (** ** type parameters and generics *)
  Inductive tpconv : Type :=
  | TpRecv (b : obase) (pass : list string)
  | TpUnit | TpSyn | TpIdent | TpAttrs.

  Definition from_type_param (tc : tpconv) (i : info) (attrs : list attribute) (ident : string)
             (bounds : list string) (default : option string) : res value :=
    match tc with
    | TpRecv b pass =>
        finish_outer b (self_ty b) (Some ident) (extract b attrs) None
          (map (fun m => (m, if str_eqb m "ident" then Ok (VToks ident)
                             else if str_eqb m "bounds" then Ok (VList (map VToks bounds))
                             else if str_eqb m "default" then Ok (opt_toks default)
                             else Panic ("model: no such magic field " ++ m))) pass) []
    | TpUnit => Ok VUnit
    | TpSyn => Ok (VToks (i_toks i))
    | TpIdent => Ok (VToks ident)
    | TpAttrs => Ok (VList (map attr_toks attrs))
    end.

  Inductive gconv : Type :=
  | GcSyn                                            (* syn::Generics *)
  | GcUnit
  | GcMirror (tc : tpconv)                           (* ast::Generics<ast::GenericParam<T>> *)
  | GcResult (g : gconv)                             (* darling::Result<G> *)
  | GcWithOrig (g : gconv).

  Definition generics_toks (g : generics) : value :=
    VStruct [("params", VToks (g_params_toks g)); ("where_clause", opt_toks (g_where g))].

  (** every parameter is converted and every failure reported (an accumulator, as for fields and variants) *)
  Definition param_result (tc : tpconv) (p : gparam) : res value :=
    match p with
    | GpType i attrs ident bounds default =>
        map_ok (fun v => VVariant "Type" [("0", v)]) (from_type_param tc i attrs ident bounds default)
    | GpLifetime t => Ok (VVariant "Lifetime" [("0", VToks t)])
    | GpConst t => Ok (VVariant "Const" [("0", VToks t)])
    end.

  Fixpoint from_generics (gc : gconv) (g : generics) : res value :=
    match gc with
    | GcSyn => Ok (generics_toks g)
    | GcUnit => Ok VUnit
    | GcMirror tc =>
        accumulate (map (param_result tc) (g_params g))
                   (fun vs => VStruct [("params", VList vs); ("where_clause", opt_toks (g_where g))])
    | GcResult gc' =>
        match from_generics gc' g with
        | Ok v => Ok (VResOk v)
        | Err e => Ok (VResErr e)
        | Panic m => Panic m
        end
    | GcWithOrig gc' => map_ok (fun v => VWithOrig v (g_params_toks g)) (from_generics gc' g)
    end.

  (** ** derive input *)
  Inductive dconv : Type :=
  | DcData (vc : vconv) (fc : fconv)
  | DcWith (f : fnid).

  Record direcv : Type := mkDR {
    dr_b : obase;
    dr_pass : list string;                           (* of "ident", "vis" *)
    dr_generics : option gconv;
    dr_data : option dconv;
    dr_supports : option di_shape_set;
  }.

  Definition from_derive_input (r : direcv) (d : dinput) : res value :=
    let b := dr_b r in
    let shape_err :=
      match dr_supports r with
      | Some s => match validate_body s (body_shape (din_body d)) with Err e => Some e | _ => None end
      | None => None
      end in
    let has m := existsb (str_eqb m) (dr_pass r) in
    finish_outer b (self_ty b) (Some (din_ident d)) (extract b (din_attrs d)) shape_err
      ((if has "ident" then [("ident", Ok (VToks (din_ident d)))] else [])
         ++ (match dr_generics r with
             | Some gc => [("generics", from_generics gc (din_generics d))]
             | None => []
             end)
         ++ (if has "vis" then [("vis", Ok (VToks (din_vis d)))] else []))%list
      (match dr_data r with
       | Some (DcData vc fc) => [("data", data_try_from vc fc (din_body d))]
       | Some (DcWith f) => [("data", interp_data f (din_body d))]
       | None => []
       end).

  (** ** FromAttributes *)
  Definition from_attributes (b : obase) (attrs : list attribute) : res value :=
    finish_outer b (self_ty b) None (extract b attrs) None [] [].
End Outer.
