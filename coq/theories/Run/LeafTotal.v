(** Run/LeafTotal.v — the library's plain targets (unit, bool, AtomicBool, char, String, PathBuf,
    the 24 integer types, the floats, Flag, and Option / smart pointers / darling::Result / keyed
    maps over them) never panic, on any meta item and any item list, for any float oracle:
    the leaf assumption of Run/TotalProofs.v discharged for these targets. *)
From DarlingModel Require Import Run.Recv Run.TotalProofs Conv.ScalarProofs.
Local Open Scope string_scope.
Local Open Scope list_scope.

Fixpoint plain (t : target) : bool :=
  match t with
  | TUnit | TBool | TAtomicBool | TChar | TString | TPathBuf | TInt _ | TFloat _ | TFlag => true
  | TOption t' | TPtr t' | TResult t' => plain t'
  | TMap _ v => plain v
  | _ => false
  end.

Lemma hooks_total_fm F : o_meta F = None -> hooks_total F ->
  (forall f, o_list F = Some f -> forall l, is_panic (f l) = false) -> total_fm F.
Proof.
  intros M H L. split.
  - intros m Mm. unfold from_meta. rewrite M. now apply default_from_meta_total.
  - intros l. unfold from_list. destruct (o_list F) as [f|] eqn:E; [now apply (L f)|reflexivity].
Qed.

Lemma unit_hooks : hooks_total unit_fm.
Proof. unfold hooks_total, unit_fm; cbn. repeat split; try discriminate. intros r [= <-]. reflexivity. Qed.

Lemma bool_hooks : hooks_total bool_fm.
Proof.
  unfold hooks_total, bool_fm; cbn. repeat split; try discriminate.
  - intros r [= <-]. reflexivity.
  - intros f [= <-] s. unfold bool_from_string. destruct (str_eqb s "true"); [reflexivity|]. destruct (str_eqb s "false"); reflexivity.
  - intros f [= <-] b. reflexivity.
Qed.

Lemma char_hooks : hooks_total char_fm.
Proof.
  unfold hooks_total, char_fm; cbn. repeat split; try discriminate.
  - intros f [= <-] c. reflexivity.
  - intros f [= <-] s. unfold char_from_string. destruct (utf8_chars s) as [|c [|c2 r]]; reflexivity.
Qed.

Lemma string_hooks : hooks_total string_fm.
Proof. unfold hooks_total, string_fm; cbn. repeat split; try discriminate. intros f [= <-] s. reflexivity. Qed.

Lemma float_hooks pf b : hooks_total (float_fm pf b).
Proof.
  unfold hooks_total, float_fm; cbn. repeat split; try discriminate.
  - intros f [= <-] i l. unfold float_from_value. rewrite map_err_panic.
    destruct l; try reflexivity; try (unfold float_from_string; destruct (pf b _); reflexivity).
  - intros f [= <-] s. unfold float_from_string. destruct (pf b s); reflexivity.
Qed.

(** the unit type rejects every meta item that is not a bare word - which is what keeps
    [Flag::from_meta]'s [unwrap_err] from ever meeting an [Ok] *)
Lemma unit_expr_is_err e : is_err (default_from_expr unit_fm e) = true.
Proof.
  induction e as [i l | i g IH | i p | i es | i k | i nl]; cbn [default_from_expr]; try reflexivity.
  - destruct l; reflexivity.
  - destruct (default_from_expr unit_fm g); try discriminate; reflexivity.
  - destruct nl; reflexivity.
Qed.

Lemma unit_rejects_non_path m : is_meta m = true -> (forall i p, m <> NPath i p) -> is_err (from_meta unit_fm m) = true.
Proof.
  intros M NP. destruct m as [i l|i p|i p ti items|i p ti es msg|i p e]; try discriminate; try reflexivity.
  - exfalso. now apply (NP i p).
  - unfold from_meta. cbn [unit_fm o_meta default_from_meta from_expr o_expr].
    pose proof (unit_expr_is_err e) as H. destruct (default_from_expr unit_fm e); try discriminate; reflexivity.
Qed.

Lemma flag_total : total_fm flag_fm.
Proof.
  split; [|reflexivity]. intros m M. unfold from_meta. cbn [flag_fm o_meta].
  destruct m as [i l|i p|i p ti items|i p ti es msg|i p e]; try discriminate; try reflexivity;
    match goal with |- context [from_meta unit_fm ?x] =>
      pose proof (unit_rejects_non_path x eq_refl ltac:(intros; discriminate)) as H; destruct (from_meta unit_fm x); try discriminate; reflexivity end.
Qed.

Lemma key_of_total k p : is_panic (key_of k p) = false.
Proof. unfold key_of. destruct k; try reflexivity; repeat (match goal with |- context [match ?x with _ => _ end] => destruct x end; try reflexivity). Qed.

Lemma map_total k V : total_fm V -> total_fm (map_fm k V).
Proof.
  intros [Tm _]. apply hooks_total_fm; [reflexivity| |].
  2:{ intros f [= <-] l. unfold map_from_list.
      assert (G : forall items acc, is_panic acc = false -> is_panic (fold_left (map_step k V) items acc) = false).
      { induction items as [|it r IH]; intros acc A; [exact A|]. cbn [fold_left]. apply IH.
        destruct acc as [st|e|m]; try discriminate; [|reflexivity]. unfold map_step.
        destruct (meta_path it) as [p|] eqn:MP; [|reflexivity].
        assert (Mi : is_meta it = true) by (destruct it; try discriminate; reflexivity).
        pose proof (Tm it Mi) as T. rewrite <- (map_err_panic (at_ (path_to_string p))) in T.
        destruct (map_err (at_ (path_to_string p)) (from_meta V it)) as [v|e|m]; try discriminate;
          pose proof (key_of_total k p) as Kt; destruct (key_of k p) as [[key disp]|ke|km]; try discriminate; reflexivity. }
      specialize (G l (Ok (mkMs [] [] [])) eq_refl).
      destruct (fold_left (map_step k V) l (Ok (mkMs [] [] []))) as [st|e|m]; try discriminate; [|reflexivity].
      destruct (ms_errs st) as [|x [|y r]]; reflexivity. }
  unfold hooks_total, map_fm; cbn. repeat split; try discriminate.
  intros f [= <-] l. unfold map_from_list.
  assert (G : forall items acc, is_panic acc = false -> is_panic (fold_left (map_step k V) items acc) = false).
  { induction items as [|it r IH]; intros acc A; [exact A|]. cbn [fold_left]. apply IH.
    destruct acc as [st|e|m]; try discriminate; [|reflexivity]. unfold map_step.
    destruct (meta_path it) as [p|] eqn:MP; [|reflexivity].
    assert (Mi : is_meta it = true) by (destruct it; try discriminate; reflexivity).
    pose proof (Tm it Mi) as T. rewrite <- (map_err_panic (at_ (path_to_string p))) in T.
    destruct (map_err (at_ (path_to_string p)) (from_meta V it)) as [v|e|m]; try discriminate;
      pose proof (key_of_total k p) as Kt; destruct (key_of k p) as [[key disp]|ke|km]; try discriminate; reflexivity. }
  specialize (G l (Ok (mkMs [] [] [])) eq_refl).
  destruct (fold_left (map_step k V) l (Ok (mkMs [] [] []))) as [st|e|m]; try discriminate; [|reflexivity].
  destruct (ms_errs st) as [|x [|y r]]; reflexivity.
Qed.

Theorem plain_total pf reparse reparse_arr reparse_preds :
  forall t, plain t = true -> total_fm (fm_of pf reparse reparse_arr reparse_preds t).
Proof.
  induction t; cbn [plain fm_of]; intros P; try discriminate.
  - apply hooks_total_fm; [reflexivity|apply unit_hooks|discriminate].
  - apply hooks_total_fm; [reflexivity|apply bool_hooks|discriminate].
  - split; [|reflexivity]. intros m M. unfold from_meta at 1. cbn [atomic_bool_fm o_meta]. rewrite map_err_panic.
    apply (proj1 (hooks_total_fm bool_fm eq_refl bool_hooks ltac:(discriminate))). exact M.
  - apply hooks_total_fm; [reflexivity|apply char_hooks|discriminate].
  - apply hooks_total_fm; [reflexivity|apply string_hooks|discriminate].
  - apply hooks_total_fm; [reflexivity|apply string_hooks|discriminate].
  - apply hooks_total_fm; [reflexivity|apply int_hooks_total|discriminate].
  - apply hooks_total_fm; [reflexivity|apply float_hooks|discriminate].
  - destruct (IHt P) as [Tm Tl]. split; [|reflexivity]. intros m M. unfold from_meta at 1. cbn. rewrite is_panic_map_ok. now apply Tm.
  - destruct (IHt P) as [Tm Tl]. split.
    + intros m M. unfold from_meta at 1. cbn. rewrite is_panic_map_ok. now apply Tm.
    + intros l. unfold from_list at 1. cbn. rewrite is_panic_map_ok. apply Tl.
  - destruct (IHt P) as [Tm Tl]. split.
    + intros m M. unfold from_meta at 1. cbn. rewrite is_panic_as_result. now apply Tm.
    + intros l. unfold from_list at 1. cbn. rewrite is_panic_as_result. apply Tl.
  - apply flag_total.
  - apply map_total. now apply IHt.
Qed.
