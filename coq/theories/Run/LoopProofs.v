(** Run/LoopProofs.v — the item loop of the generated struct parser (Run/Recv.v, [core_loop]) IS a
    per-field comprehension over the input: for ANY field list, any table of field converters, any
    user callables and any item list (any length, order, repetitions, literals),

      - the slot of field [i] is a function of the items addressed to [i] alone, in their own order
        (first occurrence for a single-valued field, all of them for a [multiple] one),
      - the buffer handed to the flatten member is the unaddressed items, in order,
      - the recorded errors are, item by item, what that item contributes given only what
        precedes it (a literal, a repeat, an unaddressed name, a rejected value).

    This is the invariant behind C01 ("nothing else in the input influences any field") and C02
    ("every mistake is reported exactly once").  No induction over types is involved: the level
    is parametric in the converters. *)
From DarlingModel Require Import Run.Recv Run.RecvProofs.
Local Open Scope string_scope.
Local Open Scope list_scope.

Section Loop.
  Variable sugg : bool.
  Variable sim : string -> string -> N.
  Variable interp_with : fnid -> nested -> res value.
  Variable interp_fn : fnid -> value -> res value.
  Variable fields : list (finfo * ty).
  Variable convs : list fm.
  Variable auk : bool.

  Notation step := (core_step sugg sim interp_with interp_fn fields convs auk).
  Notation loop := (core_loop sugg sim interp_with interp_fn fields convs auk).
  Notation extract := (extract interp_with interp_fn convs).
  Notation unknown_error := (unknown_error sugg sim fields).
  Notation meta_step := (meta_step sugg sim interp_with interp_fn fields convs auk).
  Notation fs := (finfos fields).

  (** *** the specification: comprehensions over the input *)

  (** the field an item is addressed to: the first field, in declaration order, with an arm for
      the item's name *)
  Definition target (it : nested) : option (nat * finfo) :=
    if is_meta it then find_arm fs 0 (item_name it) else None.

  Definition routes_to (i : nat) (it : nested) : bool :=
    match target it with Some (j, _) => Nat.eqb j i | None => false end.

  (** the items addressed to field [i], in input order *)
  Definition occ (i : nat) (items : list nested) : list nested := filter (routes_to i) items.

  Definition multi_loc (f : finfo) (n : nat) : string :=
    (fi_name f ++ "[" ++ N_to_string (N.of_nat n) ++ "]")%string.

  (** the values of a [multiple] field: its own occurrences, in order, each converted at the
      index given by the number of values accepted before it *)
  Fixpoint multi_vals (i : nat) (f : finfo) (occs : list nested) (acc : list value) : list value :=
    match occs with
    | [] => acc
    | it :: r =>
        match extract i f it (multi_loc f (List.length acc)) with
        | Ok v => multi_vals i f r (acc ++ [v])
        | _ => multi_vals i f r acc
        end
    end.

  Definition ok_opt (r : res value) : option value := match r with Ok v => Some v | _ => None end.

  Definition slot_spec (i : nat) (f : finfo) (items : list nested) : slot :=
    if fi_multiple f then SMulti (multi_vals i f (occ i items) [])
    else match occ i items with
         | [] => SSingle false None
         | it :: _ => SSingle true (ok_opt (extract i f it (fi_name f)))
         end.

  Definition spec_slots (items : list nested) : list slot :=
    map (fun jf : nat * finfo => slot_spec (fst jf) (snd jf) items) (indexed fs).

  Definition spec_flat (items : list nested) : list nested :=
    if has_flatten fields then filter (fun it => is_meta it && match target it with None => true | _ => false end) items
    else [].

  (** what item [it] contributes to the error list, given only the items [pre] before it *)
  Definition item_errs (pre : list nested) (it : nested) : list err :=
    match it with
    | NLit i _ => [with_span (i_span i) (unsupported_format "literal")]
    | _ =>
        match target it with
        | Some (i, f) =>
            if fi_multiple f then
              match extract i f it (multi_loc f (List.length (multi_vals i f (occ i pre) []))) with
              | Err e => [e]
              | _ => []
              end
            else
              match occ i pre with
              | [] => match extract i f it (fi_name f) with Err e => [e] | _ => [] end
              | _ :: _ => [with_span (ispan it) (new_err (KDuplicateField (fi_name f)))]
              end
        | None =>
            if has_flatten fields then [] else if auk then [] else [unknown_error (item_name it) it]
        end
    end.

  Fixpoint spec_errs_from (pre items : list nested) : list err :=
    match items with
    | [] => []
    | it :: r => item_errs pre it ++ spec_errs_from (pre ++ [it]) r
    end.
  Definition spec_errs (items : list nested) : list err := spec_errs_from [] items.

  Definition Inv (pre : list nested) (st : pstate) : Prop :=
    ps_slots st = spec_slots pre /\ ps_errs st = spec_errs pre /\ ps_flat st = spec_flat pre.

  (** *** snoc lemmas *)
  Lemma occ_snoc i pre it : occ i (pre ++ [it]) = occ i pre ++ (if routes_to i it then [it] else []).
  Proof. unfold occ. rewrite filter_app. cbn. destruct (routes_to i it); reflexivity. Qed.

  Lemma multi_vals_app i f a b : forall acc, multi_vals i f (a ++ b) acc = multi_vals i f b (multi_vals i f a acc).
  Proof.
    induction a as [|x a IH]; intros acc; [reflexivity|]. cbn [app multi_vals].
    destruct (extract i f x _); apply IH.
  Qed.

  Lemma spec_errs_from_app a : forall pre b,
    spec_errs_from pre (a ++ b) = spec_errs_from pre a ++ spec_errs_from (pre ++ a) b.
  Proof.
    induction a as [|x a IH]; intros pre b; cbn [app spec_errs_from].
    - now rewrite app_nil_r.
    - rewrite IH, <- !app_assoc. reflexivity.
  Qed.

  Lemma spec_errs_snoc pre it : spec_errs (pre ++ [it]) = spec_errs pre ++ item_errs pre it.
  Proof. unfold spec_errs. rewrite spec_errs_from_app. cbn. now rewrite app_nil_r. Qed.

  Lemma spec_flat_snoc pre it :
    spec_flat (pre ++ [it]) =
      spec_flat pre ++ (if has_flatten fields
                        then (if is_meta it && match target it with None => true | _ => false end then [it] else [])
                        else []).
  Proof.
    unfold spec_flat. destruct (has_flatten fields); [|reflexivity]. rewrite filter_app. cbn.
    destruct (is_meta it && _)%bool; reflexivity.
  Qed.

  (** *** the slot list *)
  Lemma nth_firstn_lt {A} (l : list A) : forall n i d, (n < i)%nat -> nth n (firstn i l) d = nth n l d.
  Proof.
    induction l as [|x l IH]; intros n i d H; [destruct i; destruct n; reflexivity|].
    destruct i as [|i]; [lia|]. destruct n as [|n]; [reflexivity|]. cbn. apply IH. lia.
  Qed.

  Lemma nth_skipn {A} (l : list A) : forall k n d, nth n (skipn k l) d = nth (k + n) l d.
  Proof.
    induction l as [|x l IH]; intros k n d; [destruct k; destruct n; reflexivity|].
    destruct k as [|k]; [reflexivity|]. cbn. apply IH.
  Qed.

  Lemma filter_map_swap {A B} (f : A -> B) (p : B -> bool) l : filter p (map f l) = map f (filter (fun x => p (f x)) l).
  Proof. induction l as [|x l IH]; [reflexivity|]. cbn. destruct (p (f x)); cbn; now rewrite IH. Qed.

  Lemma indexed_length {A} (l : list A) : List.length (indexed l) = List.length l.
  Proof. unfold indexed. rewrite combine_length, seq_length. apply Nat.min_id. Qed.

  Lemma nth_error_indexed {A} (l : list A) i x : nth_error l i = Some x -> nth_error (indexed l) i = Some (i, x).
  Proof.
    unfold indexed. intros H.
    assert (G : forall (l : list A) s i x, nth_error l i = Some x -> nth_error (combine (seq s (List.length l)) l) i = Some (s + i, x)%nat).
    { clear. induction l as [|y l IH]; intros s [|i] x; cbn; try discriminate.
      - intros [= ->]. now rewrite Nat.add_0_r.
      - intros H. rewrite (IH (S s) i x H). f_equal. f_equal. lia. }
    apply (G l 0%nat i x H).
  Qed.

  Lemma spec_slots_length items : List.length (spec_slots items) = List.length fs.
  Proof. unfold spec_slots. now rewrite map_length, indexed_length. Qed.

  Lemma nth_spec_slots items i f d :
    nth_error fs i = Some f -> nth i (spec_slots items) d = slot_spec i f items.
  Proof.
    intros H. unfold spec_slots. apply nth_error_indexed in H.
    erewrite nth_error_nth; [reflexivity|]. rewrite nth_error_map, H. reflexivity.
  Qed.

  Lemma target_some it i f :
    target it = Some (i, f) -> is_meta it = true /\ nth_error fs i = Some f /\ find_arm fs 0 (item_name it) = Some (i, f).
  Proof.
    unfold target. destruct (is_meta it); [|discriminate]. intros H.
    pose proof (find_arm_some _ _ _ _ _ H) as [_ [_ [_ Hn]]]. rewrite Nat.sub_0_r in Hn. auto.
  Qed.

  (** replacing slot [i] by the specification's slot for the longer prefix gives the
      specification's slot list, when no other field's occurrences changed *)
  Lemma set_slot_spec pre it i f :
    nth_error fs i = Some f ->
    (forall j, j <> i -> routes_to j it = false) ->
    set_slot i (slot_spec i f (pre ++ [it])) (spec_slots pre) = spec_slots (pre ++ [it]).
  Proof.
    intros Hi Hother. apply nth_ext with (d := SSingle false None) (d' := SSingle false None).
    - unfold set_slot. rewrite app_length. cbn [List.length]. rewrite firstn_length, skipn_length, !spec_slots_length.
      assert (i < List.length fs)%nat by (apply nth_error_Some; congruence). lia.
    - intros n Hn.
      assert (Li : (i < List.length fs)%nat) by (apply nth_error_Some; congruence).
      assert (Ln : (n < List.length fs)%nat).
      { unfold set_slot in Hn. rewrite app_length in Hn. cbn [List.length] in Hn.
        rewrite firstn_length, skipn_length, spec_slots_length in Hn. lia. }
      destruct (nth_error fs n) as [g|] eqn:G; [|apply nth_error_None in G; lia].
      rewrite (nth_spec_slots (pre ++ [it]) n g _ G).
      unfold set_slot. destruct (Nat.lt_trichotomy n i) as [L|[E|L]].
      + rewrite app_nth1 by (rewrite firstn_length, spec_slots_length; lia).
        rewrite nth_firstn_lt by lia. rewrite (nth_spec_slots pre n g _ G).
        unfold slot_spec. rewrite occ_snoc, (Hother n) by lia. now rewrite app_nil_r.
      + subst n. rewrite app_nth2 by (rewrite firstn_length, spec_slots_length; lia).
        rewrite firstn_length, spec_slots_length. replace (i - Nat.min i (List.length fs))%nat with 0%nat by lia.
        cbn. congruence.
      + rewrite app_nth2 by (rewrite firstn_length, spec_slots_length; lia).
        rewrite firstn_length, spec_slots_length. replace (n - Nat.min i (List.length fs))%nat with (S (n - S i)) by lia.
        cbn [nth]. rewrite nth_skipn. replace (S i + (n - S i))%nat with n by lia.
        rewrite (nth_spec_slots pre n g _ G).
        unfold slot_spec. rewrite occ_snoc, (Hother n) by lia. now rewrite app_nil_r.
  Qed.

  Lemma spec_slots_unchanged pre it :
    (forall j, routes_to j it = false) -> spec_slots (pre ++ [it]) = spec_slots pre.
  Proof.
    intros H. unfold spec_slots. apply map_ext. intros [j g]. cbn [fst snd].
    unfold slot_spec. rewrite occ_snoc, H. now rewrite app_nil_r.
  Qed.

  Lemma routes_to_target it i f : target it = Some (i, f) -> forall j, routes_to j it = Nat.eqb i j.
  Proof. intros H j. unfold routes_to. now rewrite H. Qed.

  Lemma routes_to_none it : target it = None -> forall j, routes_to j it = false.
  Proof. intros H j. unfold routes_to. now rewrite H. Qed.

  (** *** the invariant *)
  Lemma slot_spec_nil i f : slot_spec i f [] = slot0 f.
  Proof. unfold slot_spec, slot0. cbn. destruct (fi_multiple f); reflexivity. Qed.

  Lemma inv_init : Inv [] (state0 fields).
  Proof.
    unfold Inv, state0. cbn [ps_slots ps_errs ps_flat]. split; [|split].
    - unfold spec_slots, indexed. generalize 0%nat. induction fs as [|f r IH]; intros s; [reflexivity|].
      cbn [map List.length seq combine fst snd]. rewrite slot_spec_nil. f_equal. apply IH.
    - reflexivity.
    - unfold spec_flat. destruct (has_flatten fields); reflexivity.
  Qed.

  Lemma inv_step pre st it st' :
    Inv pre st -> step (Ok st) it = Ok st' -> Inv (pre ++ [it]) st'.
  Proof.
    intros [Hs [He Hf]] S.
    destruct (is_meta it) eqn:M.
    2:{ (* a literal item *)
        destruct it as [i l| | | |]; try discriminate. rewrite core_step_lit in S. injection S as <-.
        assert (T : target (NLit i l) = None) by reflexivity.
        unfold Inv. cbn [ps_slots ps_errs ps_flat push_err]. repeat split.
        - rewrite spec_slots_unchanged by (now apply routes_to_none). exact Hs.
        - rewrite spec_errs_snoc, He. reflexivity.
        - rewrite spec_flat_snoc, Hf. cbn [is_meta andb]. destruct (has_flatten fields); now rewrite app_nil_r. }
    rewrite core_step_meta in S by assumption. unfold RecvProofs.meta_step in S.
    assert (TT : target it = find_arm fs 0 (item_name it)) by (unfold target; now rewrite M).
    fold (RecvProofs.item_name it) in S.
    destruct (find_arm fs 0 (item_name it)) as [[i f]|] eqn:FA.
    - (* addressed to field i *)
      assert (T : target it = Some (i, f)) by (now rewrite TT).
      destruct (target_some it i f T) as [_ [Hi _]].
      assert (Hother : forall j, j <> i -> routes_to j it = false).
      { intros j Hj. rewrite (routes_to_target it i f T). apply Nat.eqb_neq. congruence. }
      assert (Hself : routes_to i it = true) by (rewrite (routes_to_target it i f T); apply Nat.eqb_refl).
      assert (NF : spec_flat (pre ++ [it]) = spec_flat pre).
      { rewrite spec_flat_snoc, T. rewrite andb_false_r. destruct (has_flatten fields); now rewrite app_nil_r. }
      rewrite Hs, (nth_spec_slots pre i f _ Hi) in S. unfold slot_spec in S.
      destruct (fi_multiple f) eqn:Mu.
      + (* multiple *)
        fold (multi_loc f (List.length (multi_vals i f (occ i pre) []))) in S.
        destruct (extract i f it (multi_loc f (List.length (multi_vals i f (occ i pre) [])))) as [v|e|m] eqn:EX; try discriminate.
        * injection S as <-. unfold Inv. cbn [ps_slots ps_errs ps_flat]. repeat split.
          -- rewrite <- (set_slot_spec pre it i f Hi Hother). f_equal.
             unfold slot_spec. rewrite Mu, occ_snoc, Hself, multi_vals_app. cbn [multi_vals]. now rewrite EX.
          -- rewrite spec_errs_snoc, He. destruct it; try (cbn in M; discriminate M); cbn [item_errs]; rewrite T, Mu, EX; cbv beta iota; now rewrite app_nil_r.
          -- now rewrite NF.
        * injection S as <-. unfold Inv. cbn [ps_slots ps_errs ps_flat push_err]. repeat split.
          -- rewrite <- (set_slot_spec pre it i f Hi Hother). rewrite Hs.
             assert (E : slot_spec i f (pre ++ [it]) = slot_spec i f pre).
             { unfold slot_spec. rewrite Mu, occ_snoc, Hself, multi_vals_app. cbn [multi_vals]. now rewrite EX. }
             rewrite E. unfold set_slot.
             rewrite <- (nth_spec_slots pre i f (SSingle false None) Hi).
             assert (Li : (i < List.length (spec_slots pre))%nat) by (rewrite spec_slots_length; apply nth_error_Some; congruence).
             clear -Li. revert i Li. induction (spec_slots pre) as [|x l IH]; intros [|i] L; cbn in *; try lia; [reflexivity|].
             f_equal. apply IH. lia.
          -- rewrite spec_errs_snoc, He. destruct it; try (cbn in M; discriminate M); cbn [item_errs]; rewrite T, Mu, EX; reflexivity.
          -- now rewrite NF.
      + (* single-valued *)
        destruct (occ i pre) as [|first rest] eqn:O.
        * destruct (extract i f it (fi_name f)) as [v|e|m] eqn:EX; try discriminate.
          -- injection S as <-. unfold Inv. cbn [ps_slots ps_errs ps_flat]. repeat split.
             ++ rewrite <- (set_slot_spec pre it i f Hi Hother). f_equal.
                unfold slot_spec. rewrite Mu, occ_snoc, Hself, O. cbn. now rewrite EX.
             ++ rewrite spec_errs_snoc, He. destruct it; try (cbn in M; discriminate M); cbn [item_errs]; rewrite T, Mu, O, EX; cbv beta iota; now rewrite app_nil_r.
             ++ now rewrite NF.
          -- injection S as <-. unfold Inv. cbn [ps_slots ps_errs ps_flat push_err]. repeat split.
             ++ rewrite <- (set_slot_spec pre it i f Hi Hother). f_equal.
                unfold slot_spec. rewrite Mu, occ_snoc, Hself, O. cbn. now rewrite EX.
             ++ rewrite spec_errs_snoc, He. destruct it; try (cbn in M; discriminate M); cbn [item_errs]; rewrite T, Mu, O, EX; reflexivity.
             ++ now rewrite NF.
        * (* a repeat *)
          injection S as <-. unfold Inv. cbn [ps_slots ps_errs ps_flat push_err]. repeat split.
          -- rewrite <- (set_slot_spec pre it i f Hi Hother). rewrite Hs.
             assert (E : slot_spec i f (pre ++ [it]) = slot_spec i f pre).
             { unfold slot_spec. rewrite Mu, occ_snoc, Hself, O. reflexivity. }
             rewrite E. unfold set_slot.
             rewrite <- (nth_spec_slots pre i f (SSingle false None) Hi).
             assert (Li : (i < List.length (spec_slots pre))%nat) by (rewrite spec_slots_length; apply nth_error_Some; congruence).
             clear -Li. revert i Li. induction (spec_slots pre) as [|x l IH]; intros [|i] L; cbn in *; try lia; [reflexivity|].
             f_equal. apply IH. lia.
          -- rewrite spec_errs_snoc, He. destruct it; try (cbn in M; discriminate M); cbn [item_errs]; rewrite T, Mu, O; reflexivity.
          -- now rewrite NF.
    - (* not addressed *)
      assert (T : target it = None) by (now rewrite TT).
      assert (SL : spec_slots (pre ++ [it]) = spec_slots pre) by (apply spec_slots_unchanged; now apply routes_to_none).
      destruct (has_flatten fields) eqn:HF.
      + injection S as <-. unfold Inv. cbn [ps_slots ps_errs ps_flat]. repeat split.
        * now rewrite SL.
        * rewrite spec_errs_snoc, He. destruct it; try (cbn in M; discriminate M); cbn [item_errs]; rewrite T, HF; cbv beta iota; now rewrite app_nil_r.
        * rewrite spec_flat_snoc, HF, T, M, Hf. reflexivity.
      + destruct auk eqn:AU.
        * injection S as <-. unfold Inv. repeat split.
          -- now rewrite SL.
          -- rewrite spec_errs_snoc, He. destruct it; try (cbn in M; discriminate M); cbn [item_errs]; rewrite T, HF, AU; cbv beta iota; now rewrite app_nil_r.
          -- rewrite spec_flat_snoc, HF, Hf. now rewrite app_nil_r.
        * injection S as <-. unfold Inv. cbn [ps_slots ps_errs ps_flat push_err]. repeat split.
          -- now rewrite SL.
          -- rewrite spec_errs_snoc, He. destruct it; try (cbn in M; discriminate M); cbn [item_errs]; rewrite T, HF, AU; reflexivity.
          -- rewrite spec_flat_snoc, HF, Hf. now rewrite app_nil_r.
  Qed.

  (** *** the loop is the specification *)
  Lemma loop_inv items : forall pre st st',
    Inv pre st -> fold_left step items (Ok st) = Ok st' -> Inv (pre ++ items) st'.
  Proof.
    induction items as [|it r IH]; intros pre st st' I H.
    - cbn in H. injection H as <-. now rewrite app_nil_r.
    - cbn [fold_left] in H. destruct (step (Ok st) it) as [st1|e|m] eqn:S.
      + replace (pre ++ it :: r) with ((pre ++ [it]) ++ r) by (now rewrite <- app_assoc).
        eapply IH; [|exact H]. eapply inv_step; eassumption.
      + exfalso. clear -H. induction r as [|x r IHr]; cbn in H; [discriminate|]. now apply IHr.
      + exfalso. clear -H. induction r as [|x r IHr]; cbn in H; [discriminate|]. now apply IHr.
  Qed.

  Theorem loop_is_spec items st :
    loop (state0 fields) items = Ok st ->
    ps_slots st = spec_slots items /\ ps_errs st = spec_errs items /\ ps_flat st = spec_flat items.
  Proof. intros H. exact (loop_inv items [] (state0 fields) st inv_init H). Qed.

  (** *** consequences *)

  (** the value slot of a field depends on the items addressed to it, and on nothing else *)
  Theorem slot_depends_only_on_own_occurrences i f items items' :
    occ i items = occ i items' -> slot_spec i f items = slot_spec i f items'.
  Proof. intros E. unfold slot_spec. now rewrite E. Qed.

  (** two inputs with the same occurrences for every field (for instance any reordering that
      keeps each field's own items in order) and the same unaddressed items give the same slots
      and the same flatten buffer *)
  Theorem same_occurrences_same_state items items' st st' :
    loop (state0 fields) items = Ok st -> loop (state0 fields) items' = Ok st' ->
    (forall i, occ i items = occ i items') -> spec_flat items = spec_flat items' ->
    ps_slots st = ps_slots st' /\ ps_flat st = ps_flat st'.
  Proof.
    intros H H' O F. destruct (loop_is_spec items st H) as [S [_ Fl]].
    destruct (loop_is_spec items' st' H') as [S' [_ Fl']]. split; [|congruence].
    rewrite S, S'. unfold spec_slots. apply map_ext. intros [j g]. cbn. apply slot_depends_only_on_own_occurrences. apply O.
  Qed.

  (** every item contributes at most one error *)
  Lemma item_errs_at_most_one pre it : (List.length (item_errs pre it) <= 1)%nat.
  Proof.
    unfold item_errs. destruct it; cbn [List.length]; try lia;
      (destruct (target _) as [[k f]|];
       [ destruct (fi_multiple f);
         [ destruct (extract _ _ _ _); cbn; lia
         | destruct (occ k pre); [destruct (extract _ _ _ _); cbn; lia | cbn; lia] ]
       | destruct (has_flatten fields); [cbn; lia|]; destruct auk; cbn; lia ]).
  Qed.

  (** an item is a mistake at this level, given what precedes it, when it contributes an error *)
  Definition is_mistake (pre : list nested) (it : nested) : bool :=
    match item_errs pre it with [] => false | _ => true end.

  Fixpoint count_mistakes (pre items : list nested) : nat :=
    match items with
    | [] => 0
    | it :: r => (if is_mistake pre it then 1 else 0) + count_mistakes (pre ++ [it]) r
    end.

  (** the number of recorded errors is the number of items that are mistakes at this level:
      nothing is reported twice, nothing is invented, nothing found earlier stops the pass *)
  Theorem loop_error_count items st :
    loop (state0 fields) items = Ok st -> List.length (ps_errs st) = count_mistakes [] items.
  Proof.
    intros H. destruct (loop_is_spec items st H) as [_ [E _]]. rewrite E. unfold spec_errs. clear H E.
    generalize (@nil nested) as pre. induction items as [|it r IH]; intros pre; [reflexivity|].
    cbn [spec_errs_from count_mistakes]. rewrite app_length, IH.
    unfold is_mistake. pose proof (item_errs_at_most_one pre it) as L1.
    destruct (item_errs pre it) as [|e [|e2 l]]; cbn [List.length] in *; lia.
  Qed.

  (** ... and they come in input order: the error of an earlier item precedes that of a later one *)
  Theorem loop_errors_in_input_order a b st :
    loop (state0 fields) (a ++ b) = Ok st ->
    ps_errs st = spec_errs a ++ spec_errs_from a b.
  Proof.
    intros H. destruct (loop_is_spec (a ++ b) st H) as [_ [E _]]. rewrite E. unfold spec_errs.
    now rewrite spec_errs_from_app.
  Qed.
End Loop.
