(** Run/TotalProofs.v — C07 for derived receivers: the parser generated for ANY receiver type
    (structs, newtypes, unit structs, enums, wrappers, nested to any depth) returns a value or an
    error on EVERY meta item and EVERY item list - never a panic - provided the library leaf
    targets and the user's callables do.  Induction over the universe of types with the
    hand-written principle [ty_ind']. *)
From DarlingModel Require Import Run.Recv Run.RecvProofs Run.LoopProofs Run.LevelProofs Conv.ScalarProofs.
Local Open Scope string_scope.
Local Open Scope list_scope.

(** ** induction over the nested inductive [ty] *)
Section TyInd.
  Variable P : ty -> Prop.
  Hypothesis HLeaf : forall tg, P (TLeaf tg).
  Hypothesis HOpt : forall t, P t -> P (TOpt t).
  Hypothesis HBox : forall t, P t -> P (TBox t).
  Hypothesis HRes : forall t, P t -> P (TRes t).
  Hypothesis HStruct : forall c fields, Forall (fun ft : finfo * ty => P (snd ft)) fields -> P (TStructR c fields).
  Hypothesis HNewtype : forall c t, P t -> P (TNewtypeR c t).
  Hypothesis HUnit : forall c, P (TUnitR c).
  Hypothesis HEnum : forall c w vs,
      Forall (fun v : vinfo * list (finfo * ty) => Forall (fun ft : finfo * ty => P (snd ft)) (snd v)) vs -> P (TEnumR c w vs).

  Fixpoint ty_ind' (t : ty) : P t :=
    let fields_ind :=
      fix go (l : list (finfo * ty)) : Forall (fun ft : finfo * ty => P (snd ft)) l :=
        match l with
        | [] => Forall_nil _
        | x :: r => Forall_cons x (match x as x0 return P (snd x0) with (f, ft) => ty_ind' ft end) (go r)
        end in
    match t with
    | TLeaf tg => HLeaf tg
    | TOpt t' => HOpt t' (ty_ind' t')
    | TBox t' => HBox t' (ty_ind' t')
    | TRes t' => HRes t' (ty_ind' t')
    | TStructR c fields => HStruct c fields (fields_ind fields)
    | TNewtypeR c t' => HNewtype c t' (ty_ind' t')
    | TUnitR c => HUnit c
    | TEnumR c w vs =>
        HEnum c w vs
          ((fix gov (l : list (vinfo * list (finfo * ty)))
              : Forall (fun v : vinfo * list (finfo * ty) => Forall (fun ft : finfo * ty => P (snd ft)) (snd v)) l :=
              match l with
              | [] => Forall_nil _
              | x :: r =>
                  Forall_cons x
                    (match x as x0 return Forall (fun ft : finfo * ty => P (snd ft)) (snd x0) with (vi, fl) => fields_ind fl end)
                    (gov r)
              end) vs)
    end.
End TyInd.

(** ** small facts about panics *)
Lemma is_panic_map_ok {A B} (f : A -> B) (r : res A) : is_panic (map_ok f r) = is_panic r.
Proof. destruct r; reflexivity. Qed.

Lemma is_panic_as_result r : is_panic (as_result r) = is_panic r.
Proof. destruct r; reflexivity. Qed.

Section Total.
  Variable pf : bool -> string -> option N.
  Variable reparse : grammar -> string -> option string.
  Variable reparse_arr : string -> option expr.
  Variable reparse_preds : string -> option (list string).
  Variable sugg : bool.
  Variable sim : string -> string -> N.
  Variable interp_with : fnid -> nested -> res value.
  Variable interp_fn : fnid -> value -> res value.

  Notation impl := (impl_of pf reparse reparse_arr reparse_preds sugg sim interp_with interp_fn).
  Notation leaf := (leaf_fm pf reparse reparse_arr reparse_preds).

  (** an implementer is total when its two entry points used by enclosing parsers never panic *)
  Definition total_fm (F : fm) : Prop :=
    (forall m, is_meta m = true -> is_panic (from_meta F m) = false)
    /\ (forall l, is_panic (from_list F l) = false).

  (** assumptions about what lies outside the derived code *)
  Hypothesis leaf_total : forall tg, total_fm (leaf tg).
  Hypothesis with_total : forall w it, is_panic (interp_with w it) = false.
  Hypothesis fn_total : forall g v, is_panic (interp_fn g v) = false.

  (** ** well-formedness of a receiver type: what derive-time validation and Rust's type checker
      guarantee about a declaration (and the model cannot know otherwise) *)
  Definition covers (v : value) (fields : list (finfo * ty)) : Prop :=
    exists kvs, v = VStruct kvs
                /\ forall f, In f (finfos fields) -> exists kv, find (fun kv : string * value => str_eqb (fst kv) (fi_ident f)) kvs = Some kv.

  Definition no_inherit (fields : list (finfo * ty)) : Prop :=
    forall f, In f (finfos fields) -> fi_default f <> Some DxInherit.

  Definition flatten_single (fields : list (finfo * ty)) : Prop :=
    forall f, In f (finfos fields) -> fi_flatten f = true -> fi_multiple f = false.

  Definition level_ok (c : cinfo) (fields : list (finfo * ty)) : Prop :=
    flatten_single fields
    /\ match ci_default c with
       | None => no_inherit fields
       | Some CdTrait => True
       | Some (CdExplicit g) => forall v, interp_fn g VUnit = Ok v -> covers v fields
       | Some CdFromIdent => forall s v, interp_fn "from_ident" (VStr s) = Ok v -> covers v fields
       end.

  Fixpoint wf_ty (t : ty) : Prop :=
    let wf_fields :=
      fix go (l : list (finfo * ty)) : Prop :=
        match l with [] => True | x :: r => wf_ty (snd x) /\ go r end in
    match t with
    | TLeaf _ | TUnitR _ => True
    | TOpt t' | TBox t' | TRes t' | TNewtypeR _ t' => wf_ty t'
    | TStructR c fields => wf_fields fields /\ level_ok c fields
    | TEnumR c w vs =>
        (fix gov (l : list (vinfo * list (finfo * ty))) : Prop :=
           match l with
           | [] => True
           | x :: r =>
               (wf_fields (snd x)
                /\ flatten_single (snd x) /\ no_inherit (snd x)
                /\ (vi_style (fst x) = VsNewtype -> snd x <> []))
               /\ gov r
           end) vs
    end.

  Definition wf_fields (l : list (finfo * ty)) : Prop :=
    (fix go (l : list (finfo * ty)) : Prop := match l with [] => True | x :: r => wf_ty (snd x) /\ go r end) l.

  Lemma wf_fields_forall l : wf_fields l -> Forall (fun ft : finfo * ty => wf_ty (snd ft)) l.
  Proof. induction l as [|x r IH]; cbn; [constructor|]. intros [H1 H2]. constructor; [exact H1|now apply IH]. Qed.

  (** ** building blocks *)
  Lemma total_default : total_fm fm_default.
  Proof. split; [intros m M; apply default_from_meta_total; [|exact M]|reflexivity].
         unfold hooks_total. cbn. repeat split; discriminate. Qed.

  Lemma apply_post_total p r : is_panic r = false -> is_panic (apply_post interp_fn p r) = false.
  Proof.
    unfold apply_post. destruct p as [[b f]|]; [|auto]. destruct r as [v|e|m]; cbn; try reflexivity; try discriminate.
    intros _. apply fn_total.
  Qed.

  Lemma conv_total (fields : list (finfo * ty)) :
    Forall (fun ft : finfo * ty => total_fm (impl (snd ft))) fields ->
    forall i, total_fm (conv_of (map (fun ft => impl (snd ft)) fields) i).
  Proof.
    intros H i. unfold conv_of. revert i. induction H as [|x r Hx _ IH]; intros [|i]; cbn; try apply total_default; [exact Hx|apply IH].
  Qed.

  Lemma extract_total fields i f it loc :
    Forall (fun ft : finfo * ty => total_fm (impl (snd ft))) fields -> is_meta it = true ->
    is_panic (extract interp_with interp_fn (map (fun ft => impl (snd ft)) fields) i f it loc) = false.
  Proof.
    intros H M. unfold extract. rewrite map_err_panic. apply apply_post_total.
    destruct (fi_with f); [apply with_total|]. now apply (conv_total fields H i).
  Qed.

  Lemma default_covers c fields :
    covers (default_of (TStructR c fields)) fields.
  Proof.
    cbn [default_of]. eexists. split; [reflexivity|]. intros f Hf. unfold finfos in Hf.
    apply in_map_iff in Hf as [[f' t'] [E I]]. cbn in E. subst f'.
    induction fields as [|[g tg] r IH]; [destruct I|]. cbn [map find fst snd].
    destruct (str_eqb (fi_ident g) (fi_ident f)) eqn:Q; [eauto|].
    destruct I as [I|I]; [injection I as -> ->; unfold str_eqb in Q; rewrite String.eqb_refl in Q; discriminate|now apply IH].
  Qed.

  Lemma cdefault_ok c self fields ident :
    self = TStructR c fields -> level_ok c fields ->
    match cdefault_value interp_fn c self ident with
    | Ok cd => inherit_ok fields cd
    | Err _ => True
    | Panic _ => False
    end.
  Proof.
    intros -> [_ D]. unfold cdefault_value. destruct (ci_default c) as [[|g|]|].
    - intros f Hf _. destruct (default_covers c fields) as [kvs [E C]]. destruct (C f Hf) as [kv K].
      exists kvs, kv. split; [now rewrite E|exact K].
    - unfold run_fn. pose proof (fn_total g VUnit) as T. destruct (interp_fn g VUnit) as [v|e|m] eqn:R; cbn; try exact I; [|discriminate].
      intros f Hf _. destruct (D v eq_refl) as [kvs [E C]]. destruct (C f Hf) as [kv K]. exists kvs, kv. split; [now rewrite E|exact K].
    - unfold run_fn. match goal with |- context [interp_fn ?g ?x] => pose proof (fn_total g x) as T; destruct (interp_fn g x) as [v|e|m] eqn:R end;
        cbn; try exact I; [|discriminate].
      intros f Hf _. destruct (D _ v R) as [kvs [E C]]. destruct (C f Hf) as [kv K]. exists kvs, kv. split; [now rewrite E|exact K].
    - intros f Hf Hd. exfalso. now apply (D f Hf).
  Qed.

  (** one struct level is total once its field types are *)
  Lemma level_total (fields : list (finfo * ty)) auk items cdef_of locate :
    Forall (fun ft : finfo * ty => total_fm (impl (snd ft))) fields ->
    flatten_single fields ->
    (match cdef_of tt with Ok cd => inherit_ok fields cd | Err _ => True | Panic _ => False end) ->
    is_panic (parse_fields sugg sim interp_with interp_fn fields (map (fun ft => impl (snd ft)) fields) auk (state0 fields) items cdef_of locate) = false.
  Proof.
    intros H FS Hcd. apply parse_fields_total; try assumption.
    - intros i f it loc M. now apply extract_total.
    - intros i l. apply (conv_total fields H i).
    - intros g. apply fn_total.
  Qed.

  (** ** enums *)
  Definition variant_total (v : vinfo * list (finfo * ty)) : Prop :=
    Forall (fun ft : finfo * ty => total_fm (impl (snd ft))) (snd v)
    /\ flatten_single (snd v) /\ no_inherit (snd v) /\ (vi_style (fst v) = VsNewtype -> snd v <> []).

  Notation vconvs vs := (map (fun vf : vinfo * list (finfo * ty) => map (fun ft => impl (snd ft)) (snd vf)) vs).

  Lemma enum_arm_total vs name item :
    is_meta item = true -> Forall variant_total vs ->
    forall r, enum_arm sugg sim interp_with interp_fn vs (vconvs vs) name item = Some r -> is_panic r = false.
  Proof.
    intros M W. induction W as [|[vi fl] rest [Tf [F1 [F2 F3]]] _ IHv]; intros r; cbn [enum_arm map snd]; [discriminate|].
    destruct (negb (vi_skip vi) && str_eqb (vi_name vi) name)%bool; [|apply IHv].
    intros [= <-]. cbn [fst snd] in *. destruct (vi_style vi) eqn:St.
    - destruct item; reflexivity.
    - destruct fl as [|[f0 t0] fr]; [exfalso; now apply F3|]. cbn [map snd].
      rewrite is_panic_map_ok, map_err_panic. inversion Tf as [|? ? T0 _]; subst. now apply (proj1 T0).
    - destruct item; try reflexivity. rewrite is_panic_map_ok. apply level_total; [exact Tf|exact F1|].
      intros f Hf Hd. exfalso. now apply (F2 f Hf).
  Qed.

  Lemma enum_from_list_total vs l :
    Forall variant_total vs -> is_panic (enum_from_list sugg sim interp_with interp_fn vs (vconvs vs) l) = false.
  Proof.
    intros W. unfold enum_from_list. destruct l as [|n [|n2 r]]; try reflexivity; [|destruct n; reflexivity].
    destruct (is_meta n) eqn:M; [|destruct n; try discriminate; reflexivity].
    assert (E : forall (A : Type) (x y : A), match n with NLit _ _ => x | _ => y end = y)
      by (intros; destruct n; [discriminate|reflexivity..]).
    destruct n as [i li| i p | i p ti items | i p ti es msg | i p e]; [discriminate|..];
      (match goal with |- context [enum_arm ?a ?b ?c ?d ?vs0 ?cv ?nm ?it] =>
         destruct (enum_arm a b c d vs0 cv nm it) as [r|] eqn:EA;
         [ exact (enum_arm_total vs nm it M W r EA) | destruct vs; reflexivity ] end).
  Qed.

  Lemma enum_from_string_total vs s :
    Forall variant_total vs -> is_panic (enum_from_string vs (vconvs vs) s) = false.
  Proof.
    intros W. unfold enum_from_string.
    assert (A : forall r, enum_str_arm vs (vconvs vs) s = Some r -> is_panic r = false).
    { induction W as [|[vi fl] rest [Tf [F1 [F2 F3]]] _ IHv]; intros r; cbn [enum_str_arm map snd]; [discriminate|].
      destruct (negb (vi_skip vi) && str_eqb (vi_name vi) s)%bool; [|apply IHv].
      intros [= <-]. cbn [fst snd] in *. destruct (vi_style vi) eqn:St; try reflexivity.
      destruct fl as [|[f0 t0] fr]; [exfalso; now apply F3|]. cbn [map snd]. destruct (from_none _); reflexivity. }
    destruct (enum_str_arm vs (vconvs vs) s) as [r|] eqn:E; [now apply (A r)|reflexivity].
  Qed.

  (** ** the theorem *)
  Theorem impl_total : forall t, wf_ty t -> total_fm (impl t).
  Proof.
    induction t as [tg | t IH | t IH | t IH | c fields IH | c t IH | c | c w vs IH] using ty_ind'; intros W.
    - apply leaf_total.
    - destruct (IH W) as [Tm Tl]. split.
      + intros m M. unfold from_meta. cbn. rewrite is_panic_map_ok. now apply Tm.
      + intros l. reflexivity.
    - destruct (IH W) as [Tm Tl]. split.
      + intros m M. unfold from_meta at 1. cbn. rewrite is_panic_map_ok. now apply Tm.
      + intros l. unfold from_list at 1. cbn. rewrite is_panic_map_ok. apply Tl.
    - destruct (IH W) as [Tm Tl]. split.
      + intros m M. unfold from_meta at 1. cbn. rewrite is_panic_as_result. now apply Tm.
      + intros l. unfold from_list at 1. cbn. rewrite is_panic_as_result. apply Tl.
    - (* a derived struct *)
      cbn [wf_ty] in W. destruct W as [Wf Lk]. fold (wf_fields fields) in Wf.
      assert (Tf : Forall (fun ft : finfo * ty => total_fm (impl (snd ft))) fields).
      { apply wf_fields_forall in Wf. clear -IH Wf. induction IH as [|x r Hx _ IHr]; [constructor|].
        inversion Wf as [|? ? Wx Wr]; subst. constructor; [now apply Hx|now apply IHr]. }
      assert (Tl : forall l, is_panic (from_list (impl (TStructR c fields)) l) = false).
      { intros l. unfold from_list. cbn [impl_of o_list]. apply apply_post_total. rewrite is_panic_map_ok.
        apply level_total; [exact Tf|exact (proj1 Lk)|]. now apply cdefault_ok. }
      split; [|exact Tl]. intros m M. unfold from_meta. cbn [impl_of o_meta].
      apply default_from_meta_total; [|exact M]. unfold hooks_total. cbn [impl_of o_word o_list o_value o_expr o_char o_string o_bool].
      repeat split; try discriminate.
      + intros r. destruct (ci_from_word c); [|discriminate]. intros [= <-]. apply fn_total.
      + intros f [= <-] l. exact (Tl l).
    - (* a newtype struct *)
      destruct (IH W) as [Tm Tl]. split.
      + intros m M. unfold from_meta. cbn [impl_of o_meta].
        rewrite is_panic_map_ok, map_err_panic. now apply Tm.
      + intros l. unfold from_list at 1. cbn [impl_of o_list]. rewrite is_panic_map_ok. apply Tl.
    - (* a unit struct *)
      split; [|reflexivity]. intros m M. unfold from_meta. cbn [impl_of o_meta].
      apply default_from_meta_total; [|exact M]. unfold hooks_total. cbn. repeat split; try discriminate. intros r [= <-]. reflexivity.
    - (* an enum *)
      cbn [wf_ty] in W.
      assert (Wv : Forall variant_total vs).
      { clear -IH W. induction IH as [|x r Hx _ IHr]; [constructor|]. destruct W as [[Wf [F1 [F2 F3]]] Wr].
        constructor; [|now apply IHr]. unfold variant_total. repeat split; auto. fold (wf_fields (snd x)) in Wf. apply wf_fields_forall in Wf.
        clear -Hx Wf. induction Hx as [|y s Hy _ IHs]; [constructor|]. inversion Wf; subst. constructor; [now apply Hy|now apply IHs]. }
      clear IH W.
      assert (Tl : forall l, is_panic (from_list (impl (TEnumR c w vs)) l) = false).
      { intros l. unfold from_list. cbn [impl_of o_list]. now apply enum_from_list_total. }
      split; [|exact Tl]. intros m M. unfold from_meta. cbn [impl_of o_meta].
      apply default_from_meta_total; [|exact M]. unfold hooks_total. cbn [impl_of o_word o_list o_value o_expr o_char o_string o_bool].
      repeat split; try discriminate.
      + intros r. destruct (ci_from_word c); [intros [= <-]; apply fn_total|]. destruct w; [|discriminate]. intros [= <-]. reflexivity.
      + intros f [= <-] l. exact (Tl l).
      + intros f [= <-] s. now apply enum_from_string_total.
  Qed.
End Total.
