(** Run/NameProofs.v — how the name of an item is read ([path_to_string], util/path_to_string.rs) and
    what that means for addressing: a raw identifier is the name it stands for; a global path
    ([::name]) is a different name and addresses no field and no variant declared without one. *)
From DarlingModel Require Import Run.Recv Run.EnumProofs.
Local Open Scope list_scope.
Local Open Scope string_scope.

(** [r#type] is how the name [type] is written *)
Lemma unraw_raw s : unraw ("r#" ++ s) = s.
Proof. reflexivity. Qed.

Lemma path_to_string_raw i s : path_to_string (mkPath i false [("r#" ++ s, "")]) = s.
Proof. reflexivity. Qed.

Lemma path_to_string_plain i s : String.prefix "r#" s = false -> path_to_string (mkPath i false [(s, "")]) = s.
Proof.
  intros H. unfold path_to_string. cbn [p_leading p_segs map join fst append].
  destruct s as [|a [|b r]]; [reflexivity| |].
  - destruct a as [a0 a1 a2 a3 a4 a5 a6 a7]. destruct a0, a1, a2, a3, a4, a5, a6, a7; reflexivity.
  - destruct a as [a0 a1 a2 a3 a4 a5 a6 a7]; destruct b as [b0 b1 b2 b3 b4 b5 b6 b7].
    destruct a0, a1, a2, a3, a4, a5, a6, a7; try reflexivity;
    destruct b0, b1, b2, b3, b4, b5, b6, b7; try reflexivity. destruct r; vm_compute in H; discriminate.
Qed.

(** a global path reads with its leading colons *)
Lemma path_to_string_global p : p_leading p = true -> String.prefix "::" (path_to_string p) = true.
Proof.
  intros H. unfold path_to_string. rewrite H.
  generalize (join "::" (map (fun seg : string * string => unraw (fst seg)) (p_segs p))). intros x. destruct x; reflexivity.
Qed.

Lemma prefix_eq a s t : s = t -> String.prefix a s = String.prefix a t.
Proof. now intros ->. Qed.

Section Addressing.
  Variable sugg : bool.
  Variable sim : string -> string -> N.
  Variable interp_with : fnid -> nested -> res value.
  Variable interp_fn : fnid -> value -> res value.

  (** no field declared under a name without leading colons is addressed by a global path *)
  Theorem global_path_addresses_no_field (fs : list finfo) p : forall i0,
    p_leading p = true -> Forall (fun f => String.prefix "::" (fi_name f) = false) fs ->
    find_arm fs i0 (path_to_string p) = None.
  Proof.
    intros i0 L F. revert i0. induction F as [|f r Hf _ IH]; intros i0; cbn [find_arm]; [reflexivity|].
    destruct (str_eqb (fi_name f) (path_to_string p)) eqn:E.
    - unfold str_eqb in E. apply String.eqb_eq in E. rewrite (prefix_eq "::" _ _ E), (path_to_string_global p L) in Hf. discriminate.
    - rewrite andb_false_r. apply IH.
  Qed.

  (** ... and it selects no variant *)
  Theorem global_path_selects_no_variant (vs : list (vinfo * list (finfo * ty))) p :
    p_leading p = true -> Forall (fun v => String.prefix "::" (vi_name (fst v)) = false) vs ->
    select vs (path_to_string p) = None.
  Proof.
    intros L F. unfold select. induction F as [|v r Hv _ IH]; cbn [find]; [reflexivity|].
    unfold selectable at 1. destruct (str_eqb (vi_name (fst v)) (path_to_string p)) eqn:E.
    - unfold str_eqb in E. apply String.eqb_eq in E. rewrite (prefix_eq "::" _ _ E), (path_to_string_global p L) in Hv. discriminate.
    - rewrite andb_false_r. exact IH.
  Qed.
End Addressing.
