(** Run/LeafInside.v — the leaf assumption of Run/InsideProofs.v discharged for the library's plain
    targets (unit, bool, AtomicBool, char, String, PathBuf, the 24 integer types, the floats, Flag,
    and Option / smart pointers / darling::Result / keyed maps over them), for any float oracle:
    every rejection of a meta item has all its leaves spanned inside that item; every rejection
    of an item list has its spanned leaves inside one of the items. *)
From DarlingModel Require Import Run.Recv Run.TotalProofs Run.InsideProofs Run.LeafTotal Conv.ScalarProofs Err.ErrProofs.
Local Open Scope string_scope.
Local Open Scope list_scope.

Lemma inside_of_hooks F :
  o_expr F = None -> o_meta F = None ->
  (forall e, from_word F = Err e -> unsp e) ->
  (forall i l e, from_value F i l = Err e -> okw (in_span (i_span i)) None e) ->
  (forall l e, Forall wfp l -> from_list F l = Err e -> okw (in_items l) None e) -> inside_fm F.
Proof. intros NE NM Hw Hv Hl. split; [|exact Hl]. intros m e M W. now apply default_from_meta_inside. Qed.

Lemma no_list_in F : o_list F = None -> forall l e, Forall wfp l -> from_list F l = Err e -> okw (in_items l) None e.
Proof. intros NL l e _. unfold from_list. rewrite NL. intros [= <-]. apply unsp_okw, unsp_new. Qed.

Ltac hook_goals :=
  try reflexivity;
  try (unfold from_word, from_string, from_bool, from_char; cbn; intros; discriminate);
  try (unfold from_word, from_string, from_bool, from_char; cbn; intros;
       match goal with H : Err _ = Err _ |- _ => injection H as <- end; apply unsp_new).

Lemma unit_inside : inside_fm unit_fm.
Proof.
  apply inside_of_hooks; hook_goals; [|now apply no_list_in]. apply default_value_in; hook_goals.
Qed.

Lemma bool_inside : inside_fm bool_fm.
Proof.
  apply inside_of_hooks; hook_goals; [|now apply no_list_in]. apply default_value_in; hook_goals.
  unfold from_string; cbn. intros s e. unfold bool_from_string.
  destruct (str_eqb s "true"); [discriminate|]. destruct (str_eqb s "false"); [discriminate|]. intros [= <-]. apply unsp_new.
Qed.

Lemma atomic_bool_inside : inside_fm atomic_bool_fm.
Proof.
  split; [|now apply no_list_in]. intros m e M W. unfold from_meta at 1. cbn [atomic_bool_fm o_meta].
  destruct (from_meta bool_fm m) as [v|y|mm] eqn:R; cbn [map_err]; try discriminate. intros [= <-].
  apply oks_with_span; [|apply span_inside_refl]. apply oks_okw. now apply (proj1 bool_inside).
Qed.

Lemma char_inside : inside_fm char_fm.
Proof.
  apply inside_of_hooks; hook_goals; [|now apply no_list_in]. apply default_value_in; hook_goals.
  unfold from_string; cbn. intros s e. unfold char_from_string. destruct (utf8_chars s) as [|c [|c2 r]]; try discriminate; intros [= <-]; apply unsp_new.
Qed.

Lemma string_inside : inside_fm string_fm.
Proof. apply inside_of_hooks; hook_goals; [|now apply no_list_in]. apply default_value_in; hook_goals. Qed.

Lemma spanned_leaf_in k i : okw (in_span (i_span i)) None (with_span (i_span i) (new_err k)).
Proof. apply oks_okw, oks_with_span; [apply unsp_okw, unsp_new|apply span_inside_refl]. Qed.

Lemma int_inside t : inside_fm (int_fm t).
Proof.
  apply inside_of_hooks; hook_goals; [|now apply no_list_in].
  intros i l e. unfold from_value; cbn [int_fm o_value]. unfold int_from_value.
  assert (G : forall r : res value, (forall y, r = Err y -> okw (in_span (i_span i)) None y) ->
                map_err (with_span (i_span i)) r = Err e -> okw (in_span (i_span i)) None e).
  { intros r Hr. destruct r as [v|y|m]; cbn [map_err]; try discriminate. intros [= <-].
    apply oks_okw, oks_with_span; [now apply Hr|apply span_inside_refl]. }
  apply G. intros y. destruct l; try (intros [= <-]; apply spanned_leaf_in).
  - unfold int_from_string. destruct (std_parse_int t s); [intros [= <-]; apply unsp_okw, unsp_new|discriminate].
  - destruct (std_parse_int t digits); [|discriminate]. intros [= <-]. repeat constructor. apply span_inside_refl.
Qed.

Lemma float_inside pf b : inside_fm (float_fm pf b).
Proof.
  apply inside_of_hooks; hook_goals; [|now apply no_list_in].
  intros i l e. unfold from_value; cbn [float_fm o_value]. unfold float_from_value.
  assert (G : forall r : res value, (forall y, r = Err y -> okw (in_span (i_span i)) None y) ->
                map_err (with_span (i_span i)) r = Err e -> okw (in_span (i_span i)) None e).
  { intros r Hr. destruct r as [v|y|m]; cbn [map_err]; try discriminate. intros [= <-].
    apply oks_okw, oks_with_span; [now apply Hr|apply span_inside_refl]. }
  apply G. intros y. destruct l; try (intros [= <-]; apply spanned_leaf_in).
  - unfold float_from_string. destruct (pf b s); [discriminate|intros [= <-]; apply unsp_okw, unsp_new].
  - destruct (pf b digits); [discriminate|]. intros [= <-]. repeat constructor. apply span_inside_refl.
  - destruct (pf b digits); [discriminate|]. intros [= <-]. repeat constructor. apply span_inside_refl.
Qed.

Lemma flag_inside : inside_fm flag_fm.
Proof.
  split; [|now apply no_list_in]. intros m e M W. unfold from_meta at 1. cbn [flag_fm o_meta].
  destruct m as [i l|i p|i p ti items|i p ti es msg|i p ex]; try discriminate;
    match goal with |- context [from_meta unit_fm ?x] =>
      pose proof (proj1 unit_inside x) as U; destruct (from_meta unit_fm x) as [v|y|mm]; try discriminate; intros [= <-]; now apply U end.
Qed.

(** keyed maps: one pass over the items; every recorded error is about one of them *)
Section MapInside.
  Variable k : keykind.
  Variable V : fm.
  Hypothesis V_inside : inside_fm V.
  Variable items : list nested.

  Definition good (st : mstate) : Prop := Forall (okw (in_items items) None) (ms_errs st).

  Lemma push_good e st : okw (in_items items) None e -> good st -> good (push e st).
  Proof. intros He G. unfold good, push. cbn [ms_errs]. apply Forall_app. split; [exact G|]. constructor; [exact He|constructor]. Qed.

  Lemma item_span_in it s : In it items -> span_inside s (i_span (ninfo it)) = true -> in_items items s.
  Proof. intros Hin Hs. exists it. now split. Qed.

  Lemma map_step_good st it st' :
    In it items -> wfp it -> good st -> map_step k V (Ok st) it = Ok st' -> good st'.
  Proof.
    intros Hin W G. unfold map_step. destruct (meta_path it) as [p|] eqn:MP.
    2:{ intros [= <-]. apply push_good; [apply unsp_okw, unsp_new|exact G]. }
    assert (Mi : is_meta it = true) by (destruct it; try discriminate; reflexivity).
    pose proof (wfp_path it p W MP) as Pin.
    assert (Hp : forall kd, okw (in_items items) None (with_span (i_span (p_info p)) (new_err kd))).
    { intros kd. apply oks_okw, oks_with_span; [apply unsp_okw, unsp_new|]. now apply (item_span_in it). }
    assert (Hv : forall ve, map_err (at_ (path_to_string p)) (from_meta V it) = Err ve -> okw (in_items items) None ve).
    { intros ve. destruct (from_meta V it) as [v|y|m] eqn:R; cbn [map_err]; try discriminate. intros [= <-].
      apply okw_at, oks_okw. pose proof (proj1 V_inside it y Mi W R) as K. revert K. apply oks_mono.
      intros s Hs. now apply (item_span_in it). }
    destruct (map_err (at_ (path_to_string p)) (from_meta V it)) as [v|ve|m] eqn:R; [| |discriminate].
    - destruct (key_of k p) as [[key disp]|ke|km] eqn:KO; [| |discriminate]; intros [= <-].
      + destruct (mem key (ms_seen st)); unfold good; cbn [ms_errs]; [apply push_good; [apply Hp|exact G]|exact G].
      + apply push_good; [|exact G]. unfold key_of in KO. destruct k; try discriminate.
        destruct (get_ident p); [discriminate|]. injection KO as <-. apply Hp.
    - specialize (Hv ve eq_refl).
      destruct (key_of k p) as [[key disp]|ke|km] eqn:KO; [| |discriminate]; intros [= <-].
      + destruct (mem key (ms_seen st)); unfold good; cbn [ms_errs]; apply push_good; auto. apply push_good; [apply Hp|exact G].
      + apply push_good; [exact Hv|]. apply push_good; [|exact G]. unfold key_of in KO. destruct k; try discriminate.
        destruct (get_ident p); [discriminate|]. injection KO as <-. apply Hp.
  Qed.
End MapInside.

Lemma map_fold_good k V (VI : inside_fm V) items : forall pre st st',
  (forall x, In x pre -> In x items) -> Forall wfp pre -> good items st ->
  fold_left (map_step k V) pre (Ok st) = Ok st' -> good items st'.
Proof.
  induction pre as [|it r IH]; intros st st' Sub W G; cbn [fold_left]; [intros [= <-]; exact G|].
  destruct (map_step k V (Ok st) it) as [st1|e1|m1] eqn:S.
  - inversion W; subst. apply IH; [intros x Hx; apply Sub; now right|assumption|].
    apply (map_step_good k V VI items st it st1); auto. apply Sub. now left.
  - intros H. exfalso. clear -H. induction r as [|x r IHr]; cbn in H; [discriminate|]. now apply IHr.
  - intros H. exfalso. clear -H. induction r as [|x r IHr]; cbn in H; [discriminate|]. now apply IHr.
Qed.

Lemma map_step_never_err k V st it e : map_step k V (Ok st) it <> Err e.
Proof.
  unfold map_step. destruct (meta_path it) as [q|]; [|discriminate].
  destruct (map_err _ _); try discriminate; destruct (key_of k q) as [[ka kb]| |]; discriminate.
Qed.

Lemma map_inside k V : inside_fm V -> inside_fm (map_fm k V).
Proof.
  intros VI.
  assert (Hl : forall l e, Forall wfp l -> from_list (map_fm k V) l = Err e -> okw (in_items l) None e).
  { intros l e W. unfold from_list; cbn [map_fm o_list]. unfold map_from_list.
    destruct (fold_left (map_step k V) l (Ok (mkMs [] [] []))) as [st|e0|m0] eqn:FL; [| |discriminate].
    - assert (G0 : good l (mkMs [] [] [])) by constructor.
      pose proof (map_fold_good k V VI l l _ st (fun x H => H) W G0 FL) as G.
      destruct (ms_errs st) as [|x xs] eqn:E; [discriminate|].
      destruct (multiple (x :: xs)) as [y|m] eqn:MU; try discriminate. intros [= <-].
      apply (okw_multiple _ (x :: xs)); [|exact MU]. unfold good in G. now rewrite E in G.
    - exfalso. clear -FL. revert FL. generalize (mkMs [] [] []) as st. induction l as [|it r IH]; intros st; cbn [fold_left]; [discriminate|].
      destruct (map_step k V (Ok st) it) as [st1|e1|m1] eqn:S; [apply IH|exfalso; now apply map_step_never_err in S|].
      clear. induction r as [|x r IHr]; cbn; [discriminate|exact IHr]. }
  apply inside_of_hooks; hook_goals; [|exact Hl]. apply default_value_in; hook_goals.
Qed.

Theorem plain_inside pf reparse reparse_arr reparse_preds :
  forall t, plain t = true -> inside_fm (fm_of pf reparse reparse_arr reparse_preds t).
Proof.
  induction t; cbn [plain fm_of]; intros P; try discriminate.
  - apply unit_inside.
  - apply bool_inside.
  - apply atomic_bool_inside.
  - apply char_inside.
  - apply string_inside.
  - apply string_inside.
  - apply int_inside.
  - apply float_inside.
  - destruct (IHt P) as [Tm Tl]. split.
    + intros m e M W. unfold from_meta at 1. cbn. destruct (from_meta _ m) as [v|y|mm] eqn:R; cbn [map_ok]; try discriminate.
      intros [= <-]. now apply Tm.
    + now apply no_list_in.
  - destruct (IHt P) as [Tm Tl]. split.
    + intros m e M W. unfold from_meta at 1. cbn. destruct (from_meta _ m) as [v|y|mm] eqn:R; cbn [map_ok]; try discriminate.
      intros [= <-]. now apply Tm.
    + intros l e W. unfold from_list at 1. cbn. destruct (from_list _ l) as [v|y|mm] eqn:R; cbn [map_ok]; try discriminate.
      intros [= <-]. now apply Tl.
  - split.
    + intros m e M W. unfold from_meta at 1. cbn. destruct (from_meta _ m); discriminate.
    + intros l e W. unfold from_list at 1. cbn. destruct (from_list _ l); discriminate.
  - apply flag_inside.
  - apply map_inside. now apply IHt.
Qed.
