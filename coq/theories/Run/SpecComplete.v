(** Run/SpecComplete.v — the converse of Run/SpecSound.v: whenever the generated parser returns a
    value, the per-field specification of Spec/C01.v gives the input that same value - so the
    parser succeeds EXACTLY on the inputs the declaration gives a meaning, with exactly that
    meaning.  (For types without [darling::Result] fields, which turn inner errors into values,
    and with struct-typed flatten members: the specification has no reading for the others.) *)
From DarlingModel Require Import Run.Recv Run.RecvProofs Run.LoopProofs Run.LevelProofs Run.TotalProofs Spec.C01 Conv.RoutingProofs Run.SpecSound.
Local Open Scope string_scope.
Local Open Scope list_scope.

Section Complete.
  Variable pf : bool -> string -> option N.
  Variable reparse : grammar -> string -> option string.
  Variable reparse_arr : string -> option expr.
  Variable reparse_preds : string -> option (list string).
  Variable sugg : bool.
  Variable sim : string -> string -> N.
  Variable interp_with : fnid -> nested -> res value.
  Variable interp_fn : fnid -> value -> res value.

  Notation impl := (impl_of pf reparse reparse_arr reparse_preds sugg sim interp_with interp_fn).
  Notation leaf := (leaf_fm pf reparse reparse_arr reparse_preds).
  Notation expected := (expected pf reparse reparse_arr reparse_preds interp_with interp_fn).
  Notation absent_of := (absent_of pf reparse reparse_arr reparse_preds interp_fn).
  Notation conv_one := (conv_one pf reparse reparse_arr reparse_preds interp_with interp_fn).
  Notation here_value := (here_value pf reparse reparse_arr reparse_preds interp_with interp_fn).
  Notation fields_value := (fields_value pf reparse reparse_arr reparse_preds interp_with interp_fn).
  Notation struct_value := (struct_value pf reparse reparse_arr reparse_preds interp_with interp_fn).

  Lemma post_of_apply p v0 v : apply_post interp_fn p (Ok v0) = Ok v -> post_of interp_fn p v0 = Some v.
  Proof.
    unfold post_of, apply_post. destruct p as [[b g]|]; [|now intros [= <-]]. cbn [bind]. unfold run_fn.
    destruct (interp_fn g v0); try discriminate. now intros [= <-].
  Qed.

  Lemma apply_post_ok_inv p r v : apply_post interp_fn p r = Ok v -> exists v0, r = Ok v0.
  Proof. unfold apply_post. destruct p as [[b g]|]; destruct r; cbn; try discriminate; eauto. Qed.

  Lemma field_default_default_value cd f t v :
    field_default interp_fn cd f t = Ok v -> default_value interp_fn cd f t = Some v.
  Proof.
    unfold default_value, field_default. destruct (fi_default f) as [[|g|]|]; try discriminate.
    - now intros [= <-].
    - unfold run_fn. destruct (interp_fn g VUnit); try discriminate. now intros [= <-].
    - destruct cd as [[]|]; try discriminate. destruct (find _ _) as [kv|]; [|discriminate]. now intros [= <-].
  Qed.

  Lemma fields_value_pointwise all_fs items cd un : forall (fl : list (finfo * ty)) kvs,
    List.length kvs = List.length fl ->
    (forall j f t, nth_error fl j = Some (f, t) ->
       exists v, nth_error kvs j = Some (fi_ident f, v) /\ here_value all_fs items cd un f t = Some v) ->
    fields_value all_fs fl items cd un = Some kvs.
  Proof.
    induction fl as [|[g tg] r IH]; intros [|kv kr] L H; cbn in L; try discriminate; [reflexivity|].
    cbn [SpecSound.fields_value]. destruct (H 0%nat g tg eq_refl) as [v [K Hv]]. cbn in K. injection K as ->.
    rewrite Hv, (IH kr); [reflexivity|lia|]. intros j f t Hj. exact (H (S j) f t Hj).
  Qed.

  Lemma from_meta_list F i p ti l :
    o_meta F = None -> from_meta F (NList i p ti l) = map_err (with_span (i_span i)) (from_list F l).
  Proof. intros H. unfold from_meta. now rewrite H. Qed.

  Section LevelComplete.
    Variable fields : list (finfo * ty).
    Variable auk : bool.
    Notation fs := (finfos fields).
    Notation convs := (map (fun ft : finfo * ty => impl (snd ft)) fields).

    Hypothesis ND : NoDup (map fi_ident fs).
    Hypothesis FL1 : forall f, In f fs -> fi_flatten f = true -> fi_skip f = false /\ fi_multiple f = false.
    Hypothesis FL2 : forall i j f g, nth_error fs i = Some f -> nth_error fs j = Some g ->
                                     fi_flatten f = true -> fi_flatten g = true -> i = j.
    (** a skipped field has a default (derive time gives it [Default::default()] when none is written) *)
    Hypothesis SK : forall f, In f fs -> fi_skip f = true -> fi_default f <> None.
    (** flatten members are struct receivers *)
    Hypothesis FS : forall f t, In (f, t) fields -> fi_flatten f = true -> flat_target t = true.
    Hypothesis IHc : Forall (fun ft : finfo * ty =>
                               forall m v, is_meta m = true -> from_meta (impl (snd ft)) m = Ok v -> expected (snd ft) m = Some v) fields.

    Notation target := (target fields).
    Notation routes_to := (routes_to fields).
    Notation occ := (occ fields).
    Notation extract := (extract interp_with interp_fn convs).
    Notation step := (core_step sugg sim interp_with interp_fn fields convs auk).

    Lemma IHc_nth j f t : nth_error fields j = Some (f, t) ->
      forall m v, is_meta m = true -> from_meta (impl t) m = Ok v -> expected t m = Some v.
    Proof. intros H. apply nth_error_In in H. rewrite Forall_forall in IHc. exact (IHc _ H). Qed.

    Lemma conv_one_extract j f t it v loc :
      nth_error fields j = Some (f, t) -> is_meta it = true -> extract j f it loc = Ok v -> conv_one f t it = Some v.
    Proof.
      intros Hj M. unfold SpecSound.conv_one, Recv.extract.
      match goal with |- map_err _ ?r = _ -> _ => destruct r as [v1|e1|m1] eqn:R end; cbn [map_err]; try discriminate. intros [= <-].
      destruct (apply_post_ok_inv _ _ _ R) as [v0 E]. rewrite E in R. apply post_of_apply in R.
      destruct (fi_with f) as [w|]; [now rewrite E|].
      rewrite (conv_of_nth pf reparse reparse_arr reparse_preds sugg sim interp_with interp_fn fields j f t Hj) in E.
      now rewrite (IHc_nth j f t Hj it v0 M E).
    Qed.

    (** ** the calls the loop made did not panic *)
    Lemma fold_ok_prefix pre : forall suf st0 st',
      fold_left step (pre ++ suf) (Ok st0) = Ok st' ->
      exists st1, fold_left step pre (Ok st0) = Ok st1 /\ fold_left step suf (Ok st1) = Ok st'.
    Proof.
      induction pre as [|it r IH]; intros suf st0 st'; cbn [app fold_left]; [eauto|].
      destruct (step (Ok st0) it) as [st1|e|m] eqn:S.
      - apply IH.
      - intros H. exfalso. clear -H. induction (r ++ suf) as [|x l IHl]; cbn in H; [discriminate|]. now apply IHl.
      - intros H. exfalso. clear -H. induction (r ++ suf) as [|x l IHl]; cbn in H; [discriminate|]. now apply IHl.
    Qed.

    Section Given.
      Variable items : list nested.
      Variable kvs : list (string * value).
      Variable cdef_of : unit -> res (option value).
      Variable locate : err -> err.
      Hypothesis PF : parse_fields sugg sim interp_with interp_fn fields convs auk (state0 fields) items cdef_of locate = Ok kvs.

      Let unclaimed := filter (fun it => negb (known fs it)) items.

      Lemma pf_parts :
        exists st1 stf slots2 cd,
          core_loop sugg sim interp_with interp_fn fields convs auk (state0 fields) items = Ok st1
          /\ flatten_init sugg sim fields convs st1 = Ok stf
          /\ check_all convs 0 (ps_slots stf) fs = (slots2, [])
          /\ ps_errs stf = [] /\ cdef_of tt = Ok cd /\ init_all interp_fn cd slots2 fields = Ok kvs.
      Proof.
        pose proof PF as H. unfold parse_fields in H.
        destruct (core_loop sugg sim interp_with interp_fn fields convs auk (state0 fields) items) as [st1|e1|m1] eqn:L; try discriminate.
        unfold require_fields in H. destruct (flatten_init sugg sim fields convs st1) as [stf|ef|mf] eqn:FI; try discriminate.
        destruct (check_all convs 0 (ps_slots stf) fs) as [slots2 errs2] eqn:CA. cbn [ps_errs ps_slots] in H.
        destruct (ps_errs stf ++ errs2) as [|x xs] eqn:EE; [|destruct (multiple (x :: xs)); discriminate].
        apply app_eq_nil in EE as [E1 E2]. subst errs2.
        destruct (cdef_of tt) as [cd|ec|mc]; try discriminate.
        exists st1, stf, slots2, cd. repeat split; auto.
      Qed.

      Lemma spec_errs_from_nil_inv : forall r pre,
        spec_errs_from sugg sim interp_with interp_fn fields convs auk pre r = [] ->
        forall p it s, r = p ++ it :: s -> item_errs sugg sim interp_with interp_fn fields convs auk (pre ++ p) it = [].
      Proof.
        induction r as [|x r IH]; intros pre H p it s E; [destruct p; discriminate|].
        cbn [spec_errs_from] in H. apply app_eq_nil in H as [H1 H2].
        destruct p as [|y p]; cbn [app] in E; injection E as -> ->.
        - now rewrite app_nil_r.
        - replace (pre ++ y :: p) with ((pre ++ [y]) ++ p) by (now rewrite <- app_assoc). eapply IH; [exact H2|reflexivity].
      Qed.

      (** facts read off the successful run *)
      Lemma run_facts :
        exists st1 stf slots2 cd,
          core_loop sugg sim interp_with interp_fn fields convs auk (state0 fields) items = Ok st1
          /\ flatten_init sugg sim fields convs st1 = Ok stf
          /\ check_all convs 0 (ps_slots stf) fs = (slots2, [])
          /\ ps_errs stf = [] /\ cdef_of tt = Ok cd /\ init_all interp_fn cd slots2 fields = Ok kvs
          /\ ps_slots st1 = spec_slots interp_with interp_fn fields convs items
          /\ ps_flat st1 = spec_flat fields items
          /\ spec_errs sugg sim interp_with interp_fn fields convs auk items = [].
      Proof.
        destruct pf_parts as [st1 [stf [slots2 [cd [L [FI [CA [Ef [CD IA]]]]]]]]].
        destruct (loop_is_spec sugg sim interp_with interp_fn fields convs auk items st1 L) as [Sl [El Fl]].
        exists st1, stf, slots2, cd. repeat split; auto.
        rewrite <- El. unfold flatten_init in FI. destruct (find_flatten fs 0); [|injection FI as <-; exact Ef].
        match type of FI with context [match ?r with Ok _ => _ | Err _ => _ | Panic _ => _ end] => destruct r end; try discriminate;
          injection FI as <-; cbn [ps_errs push_err] in Ef; [exact Ef|]. now apply app_eq_nil in Ef as [_ Ef].
      Qed.

      Lemma item_errs_all pre it suf : items = pre ++ it :: suf ->
        item_errs sugg sim interp_with interp_fn fields convs auk pre it = [].
      Proof.
        intros E. destruct run_facts as [st1 [stf [slots2 [cd [_ [_ [_ [_ [_ [_ [_ [_ SE]]]]]]]]]]]].
        exact (spec_errs_from_nil_inv items [] SE pre it suf E).
      Qed.

      Lemma all_meta it : In it items -> is_meta it = true.
      Proof.
        intros Hin. apply in_split in Hin as [pre [suf E]]. pose proof (item_errs_all pre it suf E) as H.
        destruct it; try reflexivity. discriminate.
      Qed.

      Lemma no_literal : existsb is_literal items = false.
      Proof.
        destruct (existsb is_literal items) eqn:E; [|reflexivity]. apply existsb_exists in E as [it [Hin L]].
        pose proof (all_meta it Hin). destruct it; discriminate.
      Qed.

      Lemma item_errs_meta pre it : is_meta it = true ->
        item_errs sugg sim interp_with interp_fn fields convs auk pre it =
          match target it with
          | Some (i, f) =>
              if fi_multiple f then
                match extract i f it (multi_loc f (List.length (multi_vals interp_with interp_fn convs i f (occ i pre) []))) with
                | Err e => [e]
                | _ => []
                end
              else
                match occ i pre with
                | [] => match extract i f it (fi_name f) with Err e => [e] | _ => [] end
                | _ :: _ => [with_span (ispan it) (new_err (KDuplicateField (fi_name f)))]
                end
          | None =>
              if has_flatten fields then [] else if auk then [] else [unknown_error sugg sim fields (RecvProofs.item_name it) it]
          end.
      Proof. destruct it; try discriminate; reflexivity. Qed.

      (** the call the loop made for an addressed item returned normally *)
      Lemma call_ok pre it suf i f : items = pre ++ it :: suf -> target it = Some (i, f) ->
        (fi_multiple f = true ->
           is_panic (extract i f it (multi_loc f (List.length (multi_vals interp_with interp_fn convs i f (occ i pre) [])))) = false)
        /\ (fi_multiple f = false -> occ i pre = [] -> is_panic (extract i f it (fi_name f)) = false).
      Proof.
        intros E T. destruct run_facts as [st1 [_ [_ [_ [L _]]]]]. unfold core_loop in L. rewrite E in L.
        destruct (fold_ok_prefix pre (it :: suf) _ _ L) as [stp [Lp Ls]].
        destruct (loop_is_spec sugg sim interp_with interp_fn fields convs auk pre stp Lp) as [Sl _].
        cbn [fold_left] in Ls.
        assert (S : exists stx, step (Ok stp) it = Ok stx).
        { destruct (step (Ok stp) it) as [stx|e|m]; [eauto| |]; exfalso; clear -Ls; induction suf as [|x l IHl]; cbn in Ls; try discriminate; now apply IHl. }
        destruct S as [stx S]. destruct (target_some fields it i f T) as [M [Nt FA]].
        rewrite (core_step_meta _ _ _ _ _ _ _ stp it M) in S. unfold meta_step in S. rewrite FA in S.
        rewrite Sl, (nth_spec_slots interp_with interp_fn fields convs pre i f _ Nt) in S. unfold slot_spec in S.
        split.
        - intros Mu. rewrite Mu in S. revert S. unfold multi_loc.
          match goal with |- context [Recv.extract ?a ?b ?c i f it ?loc] => destruct (Recv.extract a b c i f it loc) end; intros S; try discriminate; reflexivity.
        - intros Mu O. rewrite Mu, O in S. revert S. destruct (extract i f it (fi_name f)); intros S; try discriminate; reflexivity.
      Qed.

      Lemma extract_loc_indep i f it loc loc' v : extract i f it loc = Ok v -> extract i f it loc' = Ok v.
      Proof. unfold Recv.extract. destruct (apply_post _ _ _); cbn [map_err]; congruence. Qed.

      Lemma occ_extract_ok j f it : In it (occ j items) -> nth_error fs j = Some f ->
        (fi_multiple f = false -> forall pre suf, items = pre ++ it :: suf -> occ j pre = []) ->
        exists v, forall loc, extract j f it loc = Ok v.
      Proof.
        intros Ho Hf Single. apply filter_In in Ho as [Hin R]. pose proof Hin as Hin'. apply in_split in Hin' as [pre [suf E]].
        assert (T : target it = Some (j, f)).
        { unfold LoopProofs.routes_to in R. destruct (target it) as [[i g]|] eqn:T; [|discriminate]. apply Nat.eqb_eq in R. subst i.
          destruct (target_some fields it j g T) as [_ [Ng _]]. congruence. }
        pose proof (item_errs_all pre it suf E) as IE. rewrite (item_errs_meta pre it (all_meta it Hin)), T in IE.
        destruct (call_ok pre it suf j f E T) as [Cm Cs]. destruct (fi_multiple f) eqn:Mu.
        - specialize (Cm eq_refl).
          match type of IE with context [Recv.extract ?a ?b ?c j f it ?loc] => destruct (Recv.extract a b c j f it loc) as [v|e|m] eqn:X end; try discriminate.
          exists v. intros loc'. eapply extract_loc_indep. exact X.
        - pose proof (Single eq_refl pre suf E) as O. specialize (Cs eq_refl O). rewrite O in IE.
          destruct (extract j f it (fi_name f)) as [v|e|m] eqn:X; try discriminate.
          exists v. intros loc'. eapply extract_loc_indep. exact X.
      Qed.

      Lemma single_no_earlier j f pre it suf :
        nth_error fs j = Some f -> fi_multiple f = false -> items = pre ++ it :: suf -> routes_to j it = true -> occ j pre = [].
      Proof.
        intros Hf Mu E R. assert (Hin : In it items) by (rewrite E; apply in_or_app; right; now left).
        assert (T : target it = Some (j, f)).
        { unfold LoopProofs.routes_to in R. destruct (target it) as [[i g]|] eqn:T; [|discriminate]. apply Nat.eqb_eq in R. subst i.
          destruct (target_some fields it j g T) as [_ [Ng _]]. congruence. }
        pose proof (item_errs_all pre it suf E) as IE. rewrite (item_errs_meta pre it (all_meta it Hin)), T, Mu in IE.
        destruct (occ j pre); [reflexivity|discriminate].
      Qed.

      Lemma single_occ j f : nth_error fs j = Some f -> fi_multiple f = false -> (List.length (occ j items) <= 1)%nat.
      Proof.
        intros Hf Mu.
        assert (G : forall l, (forall pre it suf, l = pre ++ it :: suf -> routes_to j it = true -> filter (routes_to j) pre = []) ->
                      (List.length (filter (routes_to j) l) <= 1)%nat).
        { induction l as [|x l IH] using rev_ind; intros P; [cbn; lia|].
          rewrite filter_app. cbn [filter]. destruct (routes_to j x) eqn:R.
          - rewrite (P l x [] eq_refl R). cbn. lia.
          - rewrite app_nil_r. apply IH. intros pre it suf E. apply (P pre it (suf ++ [x])). rewrite E, <- app_assoc. reflexivity. }
        apply G. intros pre it suf E R. exact (single_no_earlier j f pre it suf Hf Mu E R).
      Qed.

      Lemma filter_none {A} (p : A -> bool) l : (forall x, In x l -> p x = false) -> filter p l = [].
      Proof. induction l as [|x r IH]; intros H; [reflexivity|]. cbn. rewrite (H x (or_introl eq_refl)). apply IH. intros y Hy. apply H. now right. Qed.

      Lemma occ_unaddressable j f : nth_error fs j = Some f -> addressable f = false -> occ j items = [].
      Proof.
        intros Hj Ad. apply filter_none. intros it _. destruct (routes_to j it) eqn:R; [|reflexivity]. exfalso.
        unfold LoopProofs.routes_to in R. destruct (target it) as [[i g]|] eqn:T; [|discriminate].
        apply Nat.eqb_eq in R. subst i. destruct (target_some fields it j g T) as [M [Ng FA]].
        pose proof (find_arm_addressed fs 0 (RecvProofs.item_name it)) as F. rewrite FA in F. destruct F as [_ [_ [_ [_ Ad']]]]. congruence.
      Qed.

      Lemma multi_vals_all j f t : nth_error fields j = Some (f, t) -> forall occs acc,
        (forall it, In it occs -> is_meta it = true /\ exists v, forall loc, extract j f it loc = Ok v) ->
        exists vs, multi_vals interp_with interp_fn convs j f occs acc = acc ++ vs /\ all_some (map (conv_one f t) occs) = Some vs.
      Proof.
        intros Hj. induction occs as [|it r IH]; intros acc H; cbn [multi_vals map all_some].
        - exists []. now rewrite app_nil_r.
        - destruct (H it (or_introl eq_refl)) as [M [v Hv]]. rewrite Hv.
          rewrite (conv_one_extract j f t it v _ Hj M (Hv "")).
          destruct (IH (acc ++ [v]) (fun x Hx => H x (or_intror Hx))) as [vs [E A]]. exists (v :: vs). rewrite E, A, <- app_assoc. auto.
      Qed.

      Lemma socc_facts j f it : nth_error fs j = Some f -> addressable f = true -> In it (socc fields f items) ->
        is_meta it = true /\ exists v, forall loc, extract j f it loc = Ok v.
      Proof.
        intros Hf Ad Hin. rewrite <- (occ_is_socc fields ND j f items all_meta Hf Ad) in Hin. split.
        - apply filter_In in Hin. now apply all_meta.
        - apply (occ_extract_ok j f it Hin Hf). intros Mu pre suf E. apply (single_no_earlier j f pre it suf Hf Mu E).
          now apply filter_In in Hin.
      Qed.

      Lemma slot_spec_here cd j f t v :
        nth_error fields j = Some (f, t) -> fi_flatten f = false ->
        snd (check_one convs j f (slot_spec interp_with interp_fn fields convs j f items)) = [] ->
        init_field interp_fn cd (fst (check_one convs j f (slot_spec interp_with interp_fn fields convs j f items))) (f, t) = Ok v ->
        here_value fs items cd unclaimed f t = Some v.
      Proof.
        intros Hj Fl. pose proof (nth_fields_fs fields j f t Hj) as Hf.
        unfold SpecSound.here_value. rewrite Fl. unfold slot_spec, check_one, needs_check.
        destruct (fi_skip f) eqn:Sk.
        - assert (Ad : addressable f = false) by (unfold addressable; now rewrite Sk).
          rewrite (occ_unaddressable j f Hf Ad).
          destruct (fi_default f) as [d|] eqn:D; [|exfalso; exact (SK f (nth_error_In _ _ Hf) Sk D)].
          destruct (fi_multiple f); cbn [multi_vals orb negb fst snd init_field]; rewrite ?D; intros _ I; now apply field_default_default_value.
        - assert (Ad : addressable f = true) by (unfold addressable; now rewrite Sk, Fl).
          rewrite (occ_is_socc fields ND j f items all_meta Hf Ad). fold (socc fields f items).
          destruct (fi_multiple f) eqn:Mu; cbn [orb negb fst snd].
          + destruct (multi_vals_all j f t Hj (socc fields f items) [] (fun it Hin => socc_facts j f it Hf Ad Hin)) as [vs [E A]].
            rewrite E. cbn [app]. intros _. cbn [init_field].
            destruct (socc fields f items) as [|x r] eqn:O.
            * cbn in A. injection A as <-. destruct (fi_default f) as [d|] eqn:D.
              -- intros I. now apply field_default_default_value.
              -- now intros [= <-].
            * rewrite A. cbn [map all_some] in A. destruct (conv_one f t x); [|discriminate].
              destruct (all_some (map (conv_one f t) r)); [|discriminate]. injection A as <-.
              intros [= <-]. destruct (fi_default f); reflexivity.
          + pose proof (single_occ j f Hf Mu) as L1. rewrite (occ_is_socc fields ND j f items all_meta Hf Ad) in L1.
            destruct (socc fields f items) as [|x [|y r]] eqn:O; [| |cbn in L1; lia].
            * destruct (fi_default f) as [d|] eqn:D; cbn [negb fst snd].
              -- intros _ I. cbn [init_field] in I. now apply field_default_default_value.
              -- rewrite (conv_of_nth pf reparse reparse_arr reparse_preds sugg sim interp_with interp_fn fields j f t Hj).
                 rewrite <- (absent_is_from_none pf reparse reparse_arr reparse_preds sugg sim interp_with interp_fn t).
                 destruct (absent_of t) as [va|]; cbn [fst snd init_field]; [|discriminate]. now intros _ [= <-].
            * destruct (socc_facts j f x Hf Ad ltac:(rewrite O; now left)) as [M [vx Hx]]. rewrite Hx. cbn [ok_opt].
              destruct (negb (match fi_default f with Some _ => true | None => false end)); cbn [fst snd init_field]; intros _ [= <-];
                exact (conv_one_extract j f t x vx _ Hj M (Hx "")).
      Qed.

      Lemma check_all_errs_nil slots : forall i0 fl,
        snd (check_all convs i0 slots fl) = [] ->
        forall j s f, nth_error slots j = Some s -> nth_error fl j = Some f -> snd (check_one convs (i0 + j) f s) = [].
      Proof.
        induction slots as [|x sr IH]; intros i0 [|g fr] H j s f Hs Hf; try (destruct j; discriminate).
        cbn [check_all] in H. destruct (check_one convs i0 g x) as [x' e] eqn:CO. specialize (IH (S i0) fr).
        destruct (check_all convs (S i0) sr fr) as [sr' er]. cbn [snd] in H, IH. apply app_eq_nil in H as [-> ->].
        destruct j as [|j]; cbn in Hs, Hf.
        - injection Hs as <-. injection Hf as <-. now rewrite Nat.add_0_r, CO.
        - replace (i0 + S j)%nat with (S i0 + j)%nat by lia. now apply IH.
      Qed.

      Lemma init_all_len cd slots : forall (fl : list (finfo * ty)) k,
        init_all interp_fn cd slots fl = Ok k -> List.length slots = List.length fl -> List.length k = List.length fl.
      Proof.
        induction slots as [|s sr IH]; intros [|[f t] fr] k; cbn [init_all]; try (intros [= <-]; reflexivity); try discriminate.
        destruct (init_field interp_fn cd s (f, t)); try discriminate. destruct (init_all interp_fn cd sr fr) as [k'| |] eqn:IA; try discriminate.
        intros [= <-] L. cbn in *. f_equal. apply (IH fr k' IA). lia.
      Qed.

      Lemma unclaimed_is_flat : has_flatten fields = true -> spec_flat fields items = unclaimed.
      Proof.
        intros HF. unfold spec_flat. rewrite HF. unfold unclaimed. apply filter_ext_in. intros it Hin.
        rewrite (all_meta it Hin). cbn [andb]. unfold LoopProofs.target, known. rewrite (all_meta it Hin).
        pose proof (find_arm_addressed fs 0 (RecvProofs.item_name it)) as FA. change (RecvProofs.item_name it) with (item_name it) in *.
        destruct (find_arm fs 0 (item_name it)) as [[i g]|]; [destruct FA as [-> _]|rewrite FA]; reflexivity.
      Qed.

      Theorem level_complete :
        exists cd, cdef_of tt = Ok cd
          /\ existsb is_literal items = false
          /\ (negb (existsb fi_flatten fs) && negb auk && negb (match unclaimed with [] => true | _ => false end))%bool = false
          /\ fields_value fs fields items cd unclaimed = Some kvs.
      Proof.
        destruct run_facts as [st1 [stf [slots2 [cd [L [FI [CA [Ef [CD [IA [Sl [Fl SE]]]]]]]]]]]].
        exists cd. split; [exact CD|]. split; [exact no_literal|]. split.
        { destruct (existsb fi_flatten fs) eqn:HF; [reflexivity|]. destruct (Bool.bool_dec auk true) as [AU|AU]; [rewrite AU; reflexivity|].
          apply Bool.not_true_is_false in AU. rewrite AU. cbn [negb andb].
          destruct unclaimed as [|it r] eqn:U; [reflexivity|]. exfalso.
          assert (Hu : In it unclaimed) by (rewrite U; now left). apply filter_In in Hu as [Hin K].
          pose proof Hin as Hin'. apply in_split in Hin' as [pre [suf E]].
          pose proof (item_errs_all pre it suf E) as IE. rewrite (item_errs_meta pre it (all_meta it Hin)) in IE.
          unfold LoopProofs.target in IE. rewrite (all_meta it Hin) in IE.
          pose proof (find_arm_addressed fs 0 (RecvProofs.item_name it)) as FA. change (RecvProofs.item_name it) with (item_name it) in *.
          unfold known in K. destruct (find_arm fs 0 (item_name it)) as [[i g]|].
          - destruct FA as [A _]. rewrite A in K. discriminate.
          - unfold has_flatten in IE. rewrite HF, AU in IE. discriminate. }
        assert (Len1 : List.length (ps_slots st1) = List.length fs) by (rewrite Sl; apply spec_slots_length).
        assert (S1 : forall j f, nth_error fs j = Some f -> nth_error (ps_slots st1) j = Some (slot_spec interp_with interp_fn fields convs j f items)).
        { intros j f Hf. rewrite Sl. unfold spec_slots. rewrite nth_error_map, (nth_error_indexed fs j f Hf). reflexivity. }
        assert (Lenf : List.length (ps_slots stf) = List.length fs).
        { pose proof FI as FI'. unfold flatten_init in FI'. destruct (find_flatten fs 0) as [i|] eqn:FF; [|injection FI' as <-; exact Len1].
          destruct (find_flatten_some _ _ _ FF) as [g [Ng _]]. rewrite Nat.sub_0_r in Ng.
          assert (Li : (i < List.length (ps_slots st1))%nat) by (rewrite Len1; apply nth_error_Some; congruence).
          match type of FI' with context [match ?r with Ok _ => _ | Err _ => _ | Panic _ => _ end] => destruct r end; try discriminate;
            injection FI' as <-; cbn [ps_slots push_err]; unfold set_slot; rewrite app_length, firstn_length; cbn [List.length]; rewrite skipn_length; lia. }
        apply fields_value_pointwise.
        - apply (init_all_len cd slots2 fields kvs IA).
          pose proof (check_all_length convs (ps_slots stf) 0 fs) as CL. rewrite CA in CL. cbn [fst] in CL. rewrite CL, Lenf.
          unfold finfos. now rewrite map_length.
        - intros j f t Hj. pose proof (nth_fields_fs fields j f t Hj) as Hf.
          assert (Hs : exists s, nth_error (ps_slots stf) j = Some s).
          { destruct (nth_error (ps_slots stf) j) eqn:N; [eauto|]. apply nth_error_None in N. rewrite Lenf in N.
            assert ((j < List.length fs)%nat) by (apply nth_error_Some; congruence). lia. }
          destruct Hs as [s Hs].
          pose proof (check_all_nth convs (ps_slots stf) 0 fs j s f Hs Hf) as Cn. rewrite CA in Cn. cbn [fst] in Cn. rewrite Nat.add_0_l in Cn.
          pose proof (check_all_errs_nil (ps_slots stf) 0 fs ltac:(now rewrite CA) j s f Hs Hf) as Ce. rewrite Nat.add_0_l in Ce.
          destruct (init_all_nth interp_fn cd slots2 fields kvs IA j _ f t Cn Hj) as [v [Iv Kv]].
          exists v. split; [exact Kv|].
          (* which slot is it *)
          unfold flatten_init in FI. destruct (find_flatten fs 0) as [i|] eqn:FF.
          + destruct (find_flatten_some _ _ _ FF) as [g [Ng [Fg _]]]. rewrite Nat.sub_0_r in Ng.
            assert (Li : (i < List.length (ps_slots st1))%nat) by (rewrite Len1; apply nth_error_Some; congruence).
            assert (HFl : has_flatten fields = true) by (unfold has_flatten; apply existsb_exists; exists g; split; [eapply nth_error_In; exact Ng|exact Fg]).
            match type of FI with context [match ?r with Ok _ => _ | Err _ => _ | Panic _ => _ end] => destruct r as [vf|ee|mm] eqn:R end; try discriminate.
            2:{ injection FI as <-. cbn [ps_errs push_err] in Ef. now apply app_eq_nil in Ef as [_ Ef]. }
            injection FI as <-. cbn [ps_slots] in Hs.
            destruct (Nat.eq_dec j i) as [->|Ne].
            * rewrite nth_error_set_slot_same in Hs by exact Li. injection Hs as <-.
              assert (f = g) by congruence. subst g.
              destruct (FL1 f (nth_error_In _ _ Hf) Fg) as [Skf Muf].
              pose proof (FS f t (nth_error_In _ _ Hj) Fg) as FT.
              unfold SpecSound.here_value. rewrite Skf, Fg, FT.
              assert (v = vf) by (unfold check_one in Iv; destruct (needs_check f); cbn [fst init_field] in Iv; congruence). subst v.
              rewrite (conv_of_nth pf reparse reparse_arr reparse_preds sugg sim interp_with interp_fn fields i f _ Hj), Fl, (unclaimed_is_flat HFl) in R.
              assert (FLv : from_list (impl t) unclaimed = Ok vf).
              { destruct (names fields); [exact R|]. destruct (from_list (impl t) unclaimed); cbn [map_err] in R; congruence. }
              apply (IHc_nth i f _ Hj (dummy_list unclaimed) vf eq_refl).
              rewrite flat_meta_list by exact FT. now rewrite FLv.
            * rewrite nth_error_set_slot_other in Hs by (auto; lia). rewrite (S1 j f Hf) in Hs. injection Hs as <-.
              assert (Ff : fi_flatten f = false).
              { destruct (fi_flatten f) eqn:Ff; [|reflexivity]. exfalso. apply Ne. exact (FL2 j i f g Hf Ng Ff Fg). }
              now apply (slot_spec_here cd j f t v Hj Ff).
          + injection FI as <-. rewrite (S1 j f Hf) in Hs. injection Hs as <-.
            apply (slot_spec_here cd j f t v Hj); auto.
            apply (find_flatten_none fs 0 FF). eapply nth_error_In. exact Hf.
      Qed.
    End Given.
  End LevelComplete.

  Notation str_case := (str_case pf reparse reparse_arr reparse_preds interp_fn).
  Notation list_case := (list_case pf reparse reparse_arr reparse_preds interp_with interp_fn).

  (** ** what the declaration must satisfy (derive-time validation, Rust, and the reach of the specification) *)
  Definition level_cwf (fields : list (finfo * ty)) : Prop :=
    level_wf fields
    /\ (forall f, In f (finfos fields) -> fi_skip f = true -> fi_default f <> None)
    /\ (forall f t, In (f, t) fields -> fi_flatten f = true -> flat_target t = true).

  Fixpoint cwf (t : ty) : Prop :=
    let cwf_fields :=
      fix go (l : list (finfo * ty)) : Prop :=
        match l with [] => True | x :: r => cwf (snd x) /\ go r end in
    match t with
    | TLeaf _ | TUnitR _ => True
    | TRes _ => False                                  (* a darling::Result field turns errors into values *)
    | TOpt t' | TBox t' | TNewtypeR _ t' => cwf t'
    | TStructR c fields => cwf_fields fields /\ level_cwf fields /\ ci_default c <> Some CdFromIdent
    | TEnumR c w vs =>
        (fix gov (l : list (vinfo * list (finfo * ty))) : Prop :=
           match l with
           | [] => True
           | x :: r => (cwf_fields (snd x) /\ level_cwf (snd x)) /\ gov r
           end) vs
    end.

  Definition cwf_fields (l : list (finfo * ty)) : Prop :=
    (fix go (l : list (finfo * ty)) : Prop := match l with [] => True | x :: r => cwf (snd x) /\ go r end) l.

  Definition complete_ty (t : ty) : Prop :=
    forall m v, is_meta m = true -> from_meta (impl t) m = Ok v -> expected t m = Some v.

  Lemma complete_fields l :
    Forall (fun ft : finfo * ty => cwf (snd ft) -> complete_ty (snd ft)) l -> cwf_fields l ->
    Forall (fun ft : finfo * ty => complete_ty (snd ft)) l.
  Proof. induction 1 as [|x r Hx _ IH]; [constructor|]. intros [W1 W2]. constructor; [now apply Hx|now apply IH]. Qed.

  Lemma struct_value_complete c self fields auk items kvs cdef_of locate :
    level_cwf fields -> Forall (fun ft : finfo * ty => complete_ty (snd ft)) fields ->
    parse_fields sugg sim interp_with interp_fn fields (map (fun ft : finfo * ty => impl (snd ft)) fields) auk
                 (state0 fields) items cdef_of locate = Ok kvs ->
    (forall cd, cdef_of tt = Ok cd ->
        match c with
        | Some ci =>
            match ci_default ci with
            | None => Some None
            | Some CdTrait | Some CdFromIdent => Some (Some (default_of self))
            | Some (CdExplicit g) => match interp_fn g VUnit with Ok v => Some (Some v) | _ => None end
            end
        | None => Some None
        end = Some cd) ->
    struct_value c self fields auk items = Some kvs.
  Proof.
    intros [[ND [F1 F2]] [SKh FSh]] IH PF CD.
    destruct (level_complete fields auk ND F1 F2 SKh FSh IH items kvs cdef_of locate PF) as [cd [C [NL [U FV]]]].
    unfold SpecSound.struct_value. fold (finfos fields). rewrite NL, U, (CD cd C). exact FV.
  Qed.

  Lemma hookless_expr_not_ok F :
    o_value F = None -> o_string F = None -> o_bool F = None -> o_char F = None ->
    forall e v, default_from_expr F e <> Ok v.
  Proof.
    intros Hv Hs Hb Hc. induction e as [i l | i g IH | i p | i es | i k | i l]; intros v; cbn [default_from_expr]; try discriminate.
    - unfold from_value. rewrite Hv. unfold default_from_value, from_bool, from_string, from_char. rewrite Hs, Hb, Hc. destruct l; discriminate.
    - specialize (IH v). destruct (default_from_expr F g); cbn [map_err]; congruence.
    - unfold from_value. rewrite Hv. unfold default_from_value, from_bool, from_string, from_char. rewrite Hs, Hb, Hc. destruct l; discriminate.
  Qed.

  Lemma str_case_complete vs s v :
    enum_str_arm vs (map (fun vf : vinfo * list (finfo * ty) => map (fun ft => impl (snd ft)) (snd vf)) vs) s = Some (Ok v) ->
    str_case vs s = Some v.
  Proof.
    induction vs as [|[vi fl] r IH]; cbn [SpecSound.str_case enum_str_arm map snd]; [discriminate|].
    destruct (negb (vi_skip vi) && str_eqb (vi_name vi) s)%bool; [|exact IH].
    destruct (vi_style vi).
    - now intros [= <-].
    - destruct fl as [|[f0 t0] fr]; [discriminate|]. cbn [map snd].
      rewrite <- (absent_is_from_none pf reparse reparse_arr reparse_preds sugg sim interp_with interp_fn t0).
      destruct (absent_of t0); [|discriminate]. now intros [= <-].
    - discriminate.
  Qed.

  (** ** the theorem *)
  Theorem expected_complete : forall t, cwf t -> complete_ty t.
  Proof.
    induction t as [tg | t IH | t IH | t IH | c fields IH | c t IH | c | c w vs IH] using ty_ind'; intros W m v M; cbn [cwf] in W.
    - cbn [C01.expected impl_of]. now intros ->.
    - unfold from_meta. cbn [impl_of option_fm o_meta]. destruct (from_meta (impl t) m) as [v0| |] eqn:E; cbn [map_ok]; try discriminate.
      intros [= <-]. cbn [C01.expected]. now rewrite (IH W m v0 M E).
    - unfold from_meta at 1. cbn [impl_of ptr_fm o_meta]. destruct (from_meta (impl t) m) as [v0| |] eqn:E; cbn [map_ok]; try discriminate.
      intros [= <-]. cbn [C01.expected]. now rewrite (IH W m v0 M E).
    - destruct W.
    - (* a derived struct *)
      destruct W as [Wf [Lw NFI]]. fold (cwf_fields fields) in Wf. pose proof (complete_fields fields IH Wf) as IHs.
      unfold from_meta. cbn [impl_of o_meta].
      destruct m as [i l | i p | i p ti items | i p ti es msg | i p e]; try discriminate; cbn [default_from_meta].
      + unfold from_word. cbn [o_word C01.expected]. destruct (ci_from_word c) as [f|]; [|discriminate]. unfold run_fn.
        destruct (interp_fn f VUnit); cbn [map_err]; try discriminate. now intros [= <-].
      + unfold from_list. cbn [o_list].
        match goal with |- map_err _ ?r = _ -> _ => destruct r as [v1|e1|m1] eqn:R end; cbn [map_err]; try discriminate. intros [= <-].
        destruct (apply_post_ok_inv _ _ _ R) as [v0 E]. rewrite E in R. apply post_of_apply in R.
        match type of E with map_ok _ ?r = _ => destruct r as [kvs| |] eqn:PFe end; cbn [map_ok] in E; try discriminate. injection E as <-.
        rewrite (expected_struct pf reparse reparse_arr reparse_preds interp_with interp_fn).
        rewrite (struct_value_complete (Some c) (TStructR c fields) fields (ci_auk c) items kvs _ (fun e => e) Lw IHs PFe); [exact R|].
        intros cd. unfold cdefault_value. destruct (ci_default c) as [[|g|]|]; try (now intros [= <-]); [|exfalso; now apply NFI].
        unfold run_fn. destruct (interp_fn g VUnit); cbn [map_ok]; try discriminate. now intros [= <-].
      + unfold from_expr. cbn [o_expr].
        match goal with |- map_err _ ?r = _ -> _ => destruct r as [v1|e1|m1] eqn:R end; cbn [map_err]; try discriminate. intros _.
        exfalso. revert R. apply hookless_expr_not_ok; reflexivity.
    - (* a newtype struct *)
      unfold from_meta. cbn [impl_of o_meta]. destruct (from_meta (impl t) m) as [v0| |] eqn:E; cbn [map_err map_ok]; try discriminate.
      intros [= <-]. cbn [C01.expected]. now rewrite (IH W m v0 M E).
    - (* a unit struct *)
      unfold from_meta. cbn [impl_of o_meta].
      destruct m as [i l | i p | i p ti items | i p ti es msg | i p e]; try discriminate; cbn [default_from_meta].
      + unfold from_word. cbn. now intros [= <-].
      + unfold from_expr. cbn [o_expr].
        match goal with |- map_err _ ?r = _ -> _ => destruct r as [v1|e1|m1] eqn:R end; cbn [map_err]; try discriminate. intros _.
        exfalso. revert R. apply hookless_expr_not_ok; reflexivity.
    - (* an enum *)
      rewrite (expected_enum pf reparse reparse_arr reparse_preds interp_with interp_fn). unfold from_meta. cbn [impl_of o_meta].
      destruct m as [i l | i p | i p ti items | i p ti es msg | i p e]; try discriminate; cbn [default_from_meta].
      + unfold from_word. cbn [o_word]. destruct (ci_from_word c) as [f|].
        * unfold run_fn. destruct (interp_fn f VUnit); cbn [map_err]; try discriminate. now intros [= <-].
        * destruct w; cbn [map_err]; [|discriminate]. now intros [= <-].
      + unfold from_list. cbn [o_list].
        match goal with |- map_err _ ?r = _ -> _ => destruct r as [v1|e1|m1] eqn:R end; cbn [map_err]; try discriminate. intros [= ->].
        unfold enum_from_list in R. destruct items as [|inner [|x r]]; try discriminate.
        2:{ destruct inner; discriminate. }
        destruct (is_literal inner) eqn:IL; [destruct inner; discriminate|].
        assert (Mi : is_meta inner = true) by (destruct inner; try discriminate; reflexivity).
        assert (EA : enum_arm sugg sim interp_with interp_fn vs
                       (map (fun vf : vinfo * list (finfo * ty) => map (fun ft => impl (snd ft)) (snd vf)) vs)
                       (item_name inner) inner = Some (Ok v)).
        { destruct inner as [i0 l0 | i0 p0 | i0 p0 ti0 items0 | i0 p0 ti0 es0 msg0 | i0 p0 e0]; try discriminate;
            change (match meta_path ?n with Some p => path_to_string p | None => "" end) with (item_name n) in R;
            match type of R with match ?x with Some _ => _ | None => _ end = _ => destruct x as [r0|] eqn:EA end; try discriminate; now subst r0. }
        clear R. revert W EA. clear -IH Mi. induction IH as [|[vi fl] rest Hx _ IHr]; cbn [SpecSound.list_case enum_arm map snd]; [discriminate|].
        intros [[Wf Lw] Wr]. destruct (negb (vi_skip vi) && str_eqb (vi_name vi) (item_name inner))%bool.
        2:{ intros EA. assert (G := IHr Wr EA). exact G. }
        fold (cwf_fields fl) in Wf. cbn [snd] in Hx. pose proof (complete_fields fl Hx Wf) as IHs.
        destruct (vi_style vi).
        * destruct inner; try discriminate. now intros [= <-].
        * destruct fl as [|[f0 t0] fr]; [discriminate|]. cbn [map snd].
          destruct (from_meta (impl t0) inner) as [v0| |] eqn:E; cbn [map_err map_ok]; try discriminate. intros [= <-].
          inversion IHs as [|? ? S0 _]; subst. cbn [snd] in S0. now rewrite (S0 inner v0 Mi E).
        * destruct inner as [i l | i p | i p ti items | i p ti es msg | i p e]; try discriminate.
          match goal with |- Some (map_ok _ ?r) = _ -> _ => destruct r as [kvs| |] eqn:PFe end; cbn [map_ok]; try discriminate. intros [= <-].
          rewrite (struct_value_complete None _ fl (vi_auk vi) items kvs (fun _ => Ok None) _ Lw IHs PFe); [destruct fl; reflexivity|].
          now intros cd [= <-].
      + unfold from_expr. cbn [o_expr].
        match goal with |- map_err _ ?r = _ -> _ => destruct r as [v1|e1|m1] eqn:R end; cbn [map_err]; try discriminate. intros [= <-].
        rewrite default_from_expr_strip in R.
        destruct (strip_groups e) as [j l|j g|j q|j es|j k|j l] eqn:SG; cbn [default_from_expr] in R; try discriminate.
        * unfold from_value in R. cbn [o_value] in R. unfold default_from_value, from_bool, from_char, from_string in R. cbn [o_bool o_char o_string] in R.
          destruct l as [|s| | | | | | |]; cbn [map_err] in R; try discriminate.
          destruct (enum_from_string vs _ s) as [v2| |] eqn:ES; cbn [map_err] in R; try discriminate. injection R as <-.
          unfold enum_from_string in ES.
          match type of ES with match ?x with Some _ => _ | None => _ end = _ => destruct x as [r0|] eqn:EA end; try discriminate. subst r0.
          now apply str_case_complete.
        * exfalso. exact (strip_groups_not_group e j g SG).
        * unfold from_value in R. cbn [o_value] in R. unfold default_from_value in R. destruct l; cbn in R; discriminate.
  Qed.

  (** ** both directions: the parser succeeds exactly on the inputs the declaration gives a
      meaning, with exactly that meaning *)
  Theorem parser_is_the_declared_mapping : forall t, wf_spec t -> cwf t ->
    forall m v, is_meta m = true -> (from_meta (impl t) m = Ok v <-> expected t m = Some v).
  Proof.
    intros t W C m v M. split.
    - now apply expected_complete.
    - now apply (expected_sound pf reparse reparse_arr reparse_preds sugg sim interp_with interp_fn t W).
  Qed.
End Complete.
