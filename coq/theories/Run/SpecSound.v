(** Run/SpecSound.v — C01 for the model, for ALL receivers and ALL inputs: whenever the per-field
    specification of Spec/C01.v gives an input a value ([expected t m = Some v]: the input is
    mistake-free for the declaration and [v] is what the declaration denotes), the generated
    parser returns exactly that value. *)
From DarlingModel Require Import Run.Recv Run.RecvProofs Run.LoopProofs Run.LevelProofs Run.TotalProofs Spec.C01 Conv.RoutingProofs.
Local Open Scope string_scope.
Local Open Scope list_scope.

Section Sound.
  Variable pf : bool -> string -> option N.
  Variable reparse : grammar -> string -> option string.
  Variable reparse_arr : string -> option expr.
  Variable reparse_preds : string -> option (list string).
  Variable sugg : bool.
  Variable sim : string -> string -> N.
  Variable interp_with : fnid -> nested -> res value.
  Variable interp_fn : fnid -> value -> res value.

  Notation impl := (impl_of pf reparse reparse_arr reparse_preds sugg sim interp_with interp_fn).
  Notation leaf := (leaf_fm pf reparse reparse_arr reparse_preds).
  Notation expected := (expected pf reparse reparse_arr reparse_preds interp_with interp_fn).
  Notation absent_of := (absent_of pf reparse reparse_arr reparse_preds interp_fn).

  (** ** the specification's local comprehensions as stand-alone functions *)
  Definition dummy_list (items : list nested) : nested :=
    NList (mkInfo (0,0,0,0)%N "") (mkPath (mkInfo (0,0,0,0)%N "") false []) (mkInfo (0,0,0,0)%N "") items.

  Definition conv_one (f : finfo) (ft : ty) (it : nested) : option value :=
    match fi_with f with
    | Some w => match interp_with w it with Ok v => post_of interp_fn (fi_post f) v | _ => None end
    | None => match expected ft it with Some v => post_of interp_fn (fi_post f) v | None => None end
    end.

  Definition here_value (all_fs : list finfo) (items : list nested) (cdef : option value) (unclaimed : list nested)
             (f : finfo) (ft : ty) : option value :=
    if fi_skip f then default_value interp_fn cdef f ft
    else if fi_flatten f then
      if flat_target ft then expected ft (dummy_list unclaimed) else None
    else
      let occ := if is_first_named all_fs f then filter (fun it => str_eqb (item_name it) (fi_name f)) items else [] in
      if fi_multiple f then
        match occ, fi_default f with
        | [], Some _ => default_value interp_fn cdef f ft
        | _, _ => option_map VList (all_some (map (conv_one f ft) occ))
        end
      else
        match occ with
        | [it] => conv_one f ft it
        | [] => match fi_default f with
                | Some _ => default_value interp_fn cdef f ft
                | None => absent_of ft
                end
        | _ => None
        end.

  Fixpoint fields_value (all_fs : list finfo) (fs : list (finfo * ty)) (items : list nested) (cdef : option value)
           (unclaimed : list nested) : option (list (string * value)) :=
    match fs with
    | [] => Some []
    | (f, ft) :: r =>
        match here_value all_fs items cdef unclaimed f ft, fields_value all_fs r items cdef unclaimed with
        | Some v, Some kvs => Some ((fi_ident f, v) :: kvs)
        | _, _ => None
        end
    end.

  Definition known (all_fs : list finfo) (it : nested) : bool :=
    match addressed_by all_fs (item_name it) with Some _ => true | None => false end.

  Definition struct_value (c : option cinfo) (self : ty) (fs : list (finfo * ty)) (auk : bool) (items : list nested)
    : option (list (string * value)) :=
    let all_fs := map fst fs in
    let unclaimed := filter (fun it => negb (known all_fs it)) items in
    let has_flat := existsb fi_flatten all_fs in
    if existsb is_literal items then None
    else if (negb has_flat && negb auk && negb (match unclaimed with [] => true | _ => false end))%bool then None
    else
      let cdef :=
        match c with
        | Some ci =>
            match ci_default ci with
            | None => Some None
            | Some CdTrait | Some CdFromIdent => Some (Some (default_of self))
            | Some (CdExplicit g) => match interp_fn g VUnit with Ok v => Some (Some v) | _ => None end
            end
        | None => Some None
        end in
      match cdef with
      | Some cd => fields_value all_fs fs items cd unclaimed
      | None => None
      end.

  (** a [flatten] member ([flat_target], Spec/C01.v) given the unclaimed items directly behaves like its
      [from_meta] on a list item holding them, the span of that item aside *)
  Lemma with_span_idem sp e : with_span sp (with_span sp e) = with_span sp e.
  Proof. unfold with_span. destruct e as [k l [x|]|es l [x|]]; reflexivity. Qed.

  Lemma flat_meta_list t : flat_target t = true -> forall l,
    from_meta (impl t) (dummy_list l) = map_err (with_span (0,0,0,0)%N) (from_list (impl t) l).
  Proof.
    induction t as [tg | t IH | t IH | t IH | c fields IH | c t IH | c | c w vs IH] using ty_ind'; try discriminate; intros FT l.
    - reflexivity.
    - cbn [flat_target] in FT. unfold from_meta at 1, from_list at 1. cbn [impl_of o_meta o_list dummy_list ninfo i_span].
      change (from_meta (impl t) (dummy_list l)) with (from_meta (impl t) (dummy_list l)).
      fold (dummy_list l). rewrite (IH FT l). destruct (from_list (impl t) l) as [v|e|m]; cbn [map_err map_ok]; try reflexivity.
      now rewrite with_span_idem.
    - reflexivity.
  Qed.

  Lemma expected_struct c fs i p ti items :
    expected (TStructR c fs) (NList i p ti items) =
      match struct_value (Some c) (TStructR c fs) fs (ci_auk c) items with
      | Some kvs => post_of interp_fn (ci_post c) (VStruct kvs)
      | None => None
      end.
  Proof. reflexivity. Qed.

  (** ** names: the arm the generated match selects is the field the specification addresses *)
  Lemma find_arm_addressed l : forall i0 n,
    match find_arm l i0 n with
    | Some (i, f) => addressed_by l n = Some f /\ nth_error l (i - i0) = Some f /\ (i0 <= i)%nat /\ fi_name f = n /\ addressable f = true
    | None => addressed_by l n = None
    end.
  Proof.
    induction l as [|g r IH]; intros i0 n; cbn [find_arm addressed_by find]; [reflexivity|].
    unfold addressable. destruct (negb (fi_skip g || fi_flatten g) && str_eqb (fi_name g) n)%bool eqn:E.
    - rewrite Nat.sub_diag. apply andb_true_iff in E as [A N]. apply String.eqb_eq in N. repeat split; auto.
    - specialize (IH (S i0) n). fold (addressed_by r n). destruct (find_arm r (S i0) n) as [[i f]|]; [|exact IH].
      destruct IH as [A [Nt [L [Nm Ad]]]]. repeat split; auto; [|lia].
      replace (i - i0)%nat with (S (i - S i0)) by lia. exact Nt.
  Qed.

  Lemma nodup_index (l : list finfo) : NoDup (map fi_ident l) ->
    forall i j f g, nth_error l i = Some f -> nth_error l j = Some g -> fi_ident f = fi_ident g -> i = j.
  Proof.
    intros ND i j f g Hi Hj E.
    assert (Li : (i < List.length (map fi_ident l))%nat) by (rewrite map_length; apply nth_error_Some; congruence).
    apply (proj1 (NoDup_nth_error (map fi_ident l)) ND i j Li).
    rewrite !nth_error_map, Hi, Hj. cbn. now rewrite E.
  Qed.

  Lemma str_eqb_refl s : str_eqb s s = true.
  Proof. apply String.eqb_refl. Qed.

  Section LevelSound.
    Variable fields : list (finfo * ty).
    Variable auk : bool.
    Notation fs := (finfos fields).
    Notation convs := (map (fun ft : finfo * ty => impl (snd ft)) fields).

    (** what derive-time validation and Rust itself guarantee about a field list *)
    Hypothesis ND : NoDup (map fi_ident fs).
    Hypothesis FL1 : forall f, In f fs -> fi_flatten f = true -> fi_skip f = false /\ fi_multiple f = false.
    Hypothesis FL2 : forall i j f g, nth_error fs i = Some f -> nth_error fs j = Some g ->
                                     fi_flatten f = true -> fi_flatten g = true -> i = j.
    (** the field types already satisfy the theorem *)
    Hypothesis IHf : Forall (fun ft : finfo * ty =>
                               forall m v, is_meta m = true -> expected (snd ft) m = Some v -> from_meta (impl (snd ft)) m = Ok v) fields.

    Notation target := (target fields).
    Notation routes_to := (routes_to fields).
    Notation occ := (occ fields).
    Notation extract := (extract interp_with interp_fn convs).

    Definition socc (f : finfo) (items : list nested) : list nested :=
      if is_first_named fs f then filter (fun it => str_eqb (item_name it) (fi_name f)) items else [].

    Lemma nth_fields_fs j f t : nth_error fields j = Some (f, t) -> nth_error fs j = Some f.
    Proof. intros H. unfold finfos. now rewrite nth_error_map, H. Qed.

    Lemma nth_fs_fields j f : nth_error fs j = Some f -> exists t, nth_error fields j = Some (f, t).
    Proof.
      unfold finfos. rewrite nth_error_map. destruct (nth_error fields j) as [[g t]|]; cbn; [|discriminate].
      intros [= <-]. eauto.
    Qed.

    Lemma routes_to_spec j f it :
      nth_error fs j = Some f -> addressable f = true ->
      routes_to j it = (is_meta it && (is_first_named fs f && str_eqb (item_name it) (fi_name f)))%bool.
    Proof.
      intros Hj Ad. unfold LoopProofs.routes_to, LoopProofs.target. destruct (is_meta it); [|reflexivity]. cbn [andb].
      fold (item_name it).
      pose proof (find_arm_addressed fs 0 (RecvProofs.item_name it)) as FA.
      change (RecvProofs.item_name it) with (item_name it) in *.
      destruct (find_arm fs 0 (item_name it)) as [[i g]|].
      - destruct FA as [A [Nt [_ [Nm _]]]]. rewrite Nat.sub_0_r in Nt.
        destruct (Nat.eqb_spec i j) as [->|Ne].
        + assert (g = f) by congruence. subst g. unfold is_first_named. rewrite Nm, A, !str_eqb_refl. reflexivity.
        + destruct (str_eqb (item_name it) (fi_name f)) eqn:Q; [|now rewrite andb_false_r].
          apply String.eqb_eq in Q. unfold is_first_named. rewrite <- Q, A.
          destruct (str_eqb (fi_ident g) (fi_ident f)) eqn:I; [|reflexivity].
          apply String.eqb_eq in I. exfalso. apply Ne. exact (nodup_index fs ND i j g f Nt Hj I).
      - destruct (str_eqb (item_name it) (fi_name f)) eqn:Q; [|now rewrite andb_false_r].
        apply String.eqb_eq in Q. unfold is_first_named. now rewrite <- Q, FA.
    Qed.

    Lemma occ_is_socc j f items :
      (forall it, In it items -> is_meta it = true) -> nth_error fs j = Some f -> addressable f = true ->
      occ j items = socc f items.
    Proof.
      intros M Hj Ad. unfold LoopProofs.occ, socc.
      transitivity (filter (fun it => is_first_named fs f && str_eqb (item_name it) (fi_name f))%bool items).
      - apply filter_ext_in. intros it Hin. rewrite (routes_to_spec j f it Hj Ad), (M it Hin). reflexivity.
      - destruct (is_first_named fs f); cbn [andb]; [reflexivity|]. clear M. induction items as [|x r IHr]; [reflexivity|cbn; exact IHr].
    Qed.

    (** ** converting one occurrence *)
    Lemma conv_of_nth j f t : nth_error fields j = Some (f, t) -> conv_of convs j = impl t.
    Proof.
      intros H. unfold conv_of. apply nth_error_nth. rewrite nth_error_map, H. reflexivity.
    Qed.

    Lemma IH_nth j f t : nth_error fields j = Some (f, t) ->
      forall m v, is_meta m = true -> expected t m = Some v -> from_meta (impl t) m = Ok v.
    Proof. intros H. apply nth_error_In in H. rewrite Forall_forall in IHf. exact (IHf _ H). Qed.

    Lemma apply_post_of p v0 v : post_of interp_fn p v0 = Some v -> apply_post interp_fn p (Ok v0) = Ok v.
    Proof.
      unfold post_of, apply_post. destruct p as [[b g]|]; [|now intros [= <-]]. cbn [bind]. unfold run_fn.
      destruct (interp_fn g v0); try discriminate. now intros [= <-].
    Qed.

    Lemma extract_conv_one j f t it v loc :
      nth_error fields j = Some (f, t) -> is_meta it = true -> conv_one f t it = Some v -> extract j f it loc = Ok v.
    Proof.
      intros Hj M. unfold conv_one, Recv.extract. destruct (fi_with f) as [w|].
      - destruct (interp_with w it) as [v0| |]; try discriminate. intros P. now rewrite (apply_post_of _ _ _ P).
      - rewrite (conv_of_nth j f t Hj). destruct (expected t it) as [v0|] eqn:E; [|discriminate]. intros P.
        rewrite (IH_nth j f t Hj it v0 M E). now rewrite (apply_post_of _ _ _ P).
    Qed.

    (** ** the loop never panics when every addressed item converts *)
    Lemma loop_ok items :
      (forall it i f loc, In it items -> target it = Some (i, f) -> is_panic (extract i f it loc) = false) ->
      forall st, exists st', core_loop sugg sim interp_with interp_fn fields convs auk st items = Ok st'.
    Proof.
      unfold core_loop. induction items as [|it r IH]; intros H st; cbn [fold_left]; [eauto|].
      assert (S : exists st1, core_step sugg sim interp_with interp_fn fields convs auk (Ok st) it = Ok st1).
      { destruct (is_meta it) eqn:M; [|destruct it; try discriminate; rewrite core_step_lit; eauto].
        rewrite core_step_meta by exact M. unfold meta_step.
        pose proof (H it) as Hit. unfold LoopProofs.target in Hit. rewrite M in Hit.
        destruct (find_arm fs 0 (RecvProofs.item_name it)) as [[i f]|].
        - destruct (nth i (ps_slots st) (SSingle false None)) as [[|] v|vals]; [eauto| |].
          + specialize (Hit i f (fi_name f) (or_introl eq_refl) eq_refl). destruct (extract i f it (fi_name f)); try discriminate; eauto.
          + match goal with |- context [Recv.extract ?a ?b ?c i f it ?loc] =>
              specialize (Hit i f loc (or_introl eq_refl) eq_refl); destruct (Recv.extract a b c i f it loc); try discriminate; eauto end.
        - destruct (has_flatten fields); [eauto|]. destruct (Bool.bool_dec auk true) as [AU|AU]; [|apply Bool.not_true_is_false in AU]; rewrite AU; eauto. }
      destruct S as [st1 ->]. apply IH. intros it' i f loc Hin. apply H. now right.
    Qed.

    Lemma fields_value_nth all_fs items cd un : forall (fl : list (finfo * ty)) kvs,
      fields_value all_fs fl items cd un = Some kvs ->
      List.length kvs = List.length fl
      /\ forall j f t, nth_error fl j = Some (f, t) ->
            exists v, here_value all_fs items cd un f t = Some v /\ nth_error kvs j = Some (fi_ident f, v).
    Proof.
      induction fl as [|[g tg] r IH]; intros kvs; cbn [fields_value].
      - intros [= <-]. split; [reflexivity|]. intros [|j]; discriminate.
      - destruct (here_value all_fs items cd un g tg) as [v|] eqn:H; [|discriminate].
        destruct (fields_value all_fs r items cd un) as [k|] eqn:F; [|discriminate]. intros [= <-].
        destruct (IH k eq_refl) as [L P]. split; [cbn; now rewrite L|].
        intros [|j] f t; cbn [nth_error].
        + intros [= <- <-]. eauto.
        + apply P.
    Qed.

    Lemma all_some_in {A} (l : list (option A)) vs : all_some l = Some vs -> forall o, In o l -> exists v, o = Some v.
    Proof.
      revert vs. induction l as [|[x|] r IH]; intros vs; cbn [all_some]; try discriminate.
      - intros _ o [].
      - destruct (all_some r) as [k|] eqn:E; [|discriminate]. intros _ o [<-|Hin]; [eauto|]. now apply (IH k).
    Qed.

    Lemma default_value_field_default cd f t v :
      default_value interp_fn cd f t = Some v -> field_default interp_fn cd f t = Ok v.
    Proof.
      unfold default_value, field_default. destruct (fi_default f) as [[|g|]|]; try discriminate.
      - now intros [= <-].
      - unfold run_fn. destruct (interp_fn g VUnit); try discriminate. now intros [= <-].
      - destruct cd as [[]|]; try discriminate. destruct (find _ _) as [kv|]; [|discriminate]. now intros [= <-].
    Qed.

    Lemma absent_is_from_none t : absent_of t = from_none (impl t).
    Proof.
      induction t using ty_ind'; cbn [C01.absent_of impl_of]; try reflexivity;
        try (unfold from_none; cbn [o_none]; destruct (ci_from_none c); reflexivity).
      - rewrite IHt. reflexivity.
      - rewrite IHt. reflexivity.
    Qed.

    Lemma find_flatten_none (l : list finfo) : forall i0, find_flatten l i0 = None -> forall g, In g l -> fi_flatten g = false.
    Proof.
      induction l as [|x r IH]; intros i0; cbn [find_flatten]; [intros _ g []|].
      destruct (fi_flatten x) eqn:F; [discriminate|]. intros H g [<-|Hin]; [exact F|now apply (IH (S i0))].
    Qed.

    Lemma check_all_clean slots : forall i0 fl,
      (forall j s f, nth_error slots j = Some s -> nth_error fl j = Some f -> snd (check_one convs (i0 + j) f s) = []) ->
      snd (check_all convs i0 slots fl) = [].
    Proof.
      induction slots as [|x sr IH]; intros i0 [|g fr] H; cbn [check_all snd]; try reflexivity.
      pose proof (H 0%nat x g eq_refl eq_refl) as H0. rewrite Nat.add_0_r in H0.
      destruct (check_one convs i0 g x) as [x' e]. cbn [snd] in H0. subst e.
      specialize (IH (S i0) fr). destruct (check_all convs (S i0) sr fr) as [sr' er]. cbn [snd] in *. cbn [app].
      apply IH. intros j s f Hs Hf. replace (S i0 + j)%nat with (i0 + S j)%nat by lia. now apply (H (S j)).
    Qed.

    Lemma init_all_pointwise cd : forall slots (fl : list (finfo * ty)) kvs,
      List.length slots = List.length fl -> List.length kvs = List.length fl ->
      (forall j s f t, nth_error slots j = Some s -> nth_error fl j = Some (f, t) ->
         exists v, nth_error kvs j = Some (fi_ident f, v) /\ init_field interp_fn cd s (f, t) = Ok v) ->
      init_all interp_fn cd slots fl = Ok kvs.
    Proof.
      induction slots as [|s sr IH]; intros [|[f t] fr] [|kv kr] L1 L2 H; cbn in L1, L2; try discriminate; [reflexivity|].
      cbn [init_all]. destruct (H 0%nat s f t eq_refl eq_refl) as [v [K I]]. cbn in K. injection K as ->. rewrite I.
      rewrite (IH fr kr); [reflexivity|lia|lia|]. intros j s' f' t' Hs Hf. exact (H (S j) s' f' t' Hs Hf).
    Qed.

    (** ** one level: the specification's value is the parser's result *)
    Section Given.
      Variable items : list nested.
      Variable cd : option value.
      Variable kvs : list (string * value).
      Let unclaimed := filter (fun it => negb (known fs it)) items.
      Hypothesis NoLit : existsb is_literal items = false.
      Hypothesis Unk : (negb (existsb fi_flatten fs) && negb auk && negb (match unclaimed with [] => true | _ => false end))%bool = false.
      Hypothesis FV : fields_value fs fields items cd unclaimed = Some kvs.

      Lemma all_meta it : In it items -> is_meta it = true.
      Proof.
        intros Hin. destruct (is_meta it) eqn:M; [reflexivity|]. exfalso.
        assert (E : existsb is_literal items = true) by (apply existsb_exists; exists it; split; [exact Hin|destruct it; try discriminate; reflexivity]).
        congruence.
      Qed.

      Lemma here_nth j f t : nth_error fields j = Some (f, t) ->
        exists v, here_value fs items cd unclaimed f t = Some v /\ nth_error kvs j = Some (fi_ident f, v).
      Proof. apply (proj2 (fields_value_nth fs items cd unclaimed fields kvs FV)). Qed.

      Lemma target_facts it i f : target it = Some (i, f) ->
        nth_error fs i = Some f /\ addressable f = true /\ routes_to i it = true.
      Proof.
        intros T. unfold LoopProofs.routes_to. rewrite T, Nat.eqb_refl. unfold LoopProofs.target in T.
        destruct (is_meta it); [|discriminate]. pose proof (find_arm_addressed fs 0 (RecvProofs.item_name it)) as FA.
        rewrite T in FA. destruct FA as [_ [Nt [_ [_ Ad]]]]. rewrite Nat.sub_0_r in Nt. auto.
      Qed.

      Lemma occ_converts j f t it :
        nth_error fields j = Some (f, t) -> addressable f = true -> In it (occ j items) ->
        exists v, conv_one f t it = Some v.
      Proof.
        intros Hj Ad Hin. destruct (here_nth j f t Hj) as [v [H _]]. unfold here_value in H.
        unfold addressable in Ad. apply negb_true_iff, orb_false_iff in Ad as [Sk Fl]. rewrite Sk, Fl in H.
        assert (Ad' : addressable f = true) by (unfold addressable; now rewrite Sk, Fl).
        rewrite (occ_is_socc j f items all_meta (nth_fields_fs j f t Hj) Ad') in Hin. fold (socc f items) in H.
        destruct (fi_multiple f).
        - destruct (socc f items) as [|x r] eqn:O; [destruct Hin|].
          destruct (all_some (map (conv_one f t) (x :: r))) as [vs|] eqn:AS; [|discriminate].
          apply (all_some_in _ vs AS). now apply in_map.
        - destruct (socc f items) as [|x [|y r]] eqn:O; [destruct Hin| |discriminate].
          destruct Hin as [<-|[]]. eauto.
      Qed.

      Lemma single_occ j f t :
        nth_error fields j = Some (f, t) -> addressable f = true -> fi_multiple f = false -> (List.length (occ j items) <= 1)%nat.
      Proof.
        intros Hj Ad Mu. destruct (here_nth j f t Hj) as [v [H _]]. unfold here_value in H.
        pose proof Ad as Ad'. unfold addressable in Ad. apply negb_true_iff, orb_false_iff in Ad as [Sk Fl]. rewrite Sk, Fl, Mu in H.
        rewrite (occ_is_socc j f items all_meta (nth_fields_fs j f t Hj) Ad'). fold (socc f items) in H.
        destruct (socc f items) as [|x [|y r]]; cbn; try lia. discriminate.
      Qed.

      Lemma extract_ok it i f loc : In it items -> target it = Some (i, f) -> exists v, extract i f it loc = Ok v.
      Proof.
        intros Hin T. destruct (target_facts it i f T) as [Nt [Ad R]]. destruct (nth_fs_fields i f Nt) as [t Hi].
        assert (Ho : In it (occ i items)) by (apply filter_In; split; assumption).
        destruct (occ_converts i f t it Hi Ad Ho) as [v C]. exists v. now apply (extract_conv_one i f t it v loc Hi (all_meta it Hin)).
      Qed.

      Lemma item_errs_meta pre it : is_meta it = true ->
        item_errs sugg sim interp_with interp_fn fields convs auk pre it =
          match target it with
          | Some (i, f) =>
              if fi_multiple f then
                match extract i f it (multi_loc f (List.length (multi_vals interp_with interp_fn convs i f (occ i pre) []))) with
                | Err e => [e]
                | _ => []
                end
              else
                match occ i pre with
                | [] => match extract i f it (fi_name f) with Err e => [e] | _ => [] end
                | _ :: _ => [with_span (ispan it) (new_err (KDuplicateField (fi_name f)))]
                end
          | None =>
              if has_flatten fields then [] else if auk then [] else [unknown_error sugg sim fields (RecvProofs.item_name it) it]
          end.
      Proof. destruct it; try discriminate; reflexivity. Qed.

      Lemma item_errs_nil pre it suf : items = pre ++ it :: suf ->
        item_errs sugg sim interp_with interp_fn fields convs auk pre it = [].
      Proof.
        intros E. assert (Hin : In it items) by (rewrite E; apply in_or_app; right; now left).
        rewrite (item_errs_meta pre it (all_meta it Hin)).
        destruct (target it) as [[i f]|] eqn:T.
        - destruct (target_facts it i f T) as [Nt [Ad R]]. destruct (nth_fs_fields i f Nt) as [t Hi].
          destruct (fi_multiple f) eqn:Mu.
          + match goal with |- context [Recv.extract ?a ?b ?c i f it ?loc] => destruct (extract_ok it i f loc Hin T) as [v ->] end. reflexivity.
          + assert (Op : occ i pre = []).
            { pose proof (single_occ i f t Hi Ad Mu) as L. rewrite E in L. unfold LoopProofs.occ in L.
              rewrite filter_app in L. cbn [filter] in L. rewrite R in L. rewrite app_length in L. cbn [List.length] in L.
              unfold LoopProofs.occ. destruct (filter (routes_to i) pre); [reflexivity|cbn in L; lia]. }
            rewrite Op. destruct (extract_ok it i f (fi_name f) Hin T) as [v ->]. reflexivity.
        - unfold has_flatten.
          destruct (Bool.bool_dec (existsb fi_flatten fs) true) as [HF|HF]; [|apply Bool.not_true_is_false in HF]; rewrite HF; [reflexivity|].
          destruct (Bool.bool_dec auk true) as [AU|AU]; [|apply Bool.not_true_is_false in AU]; rewrite AU; [reflexivity|]. exfalso.
          pose proof Unk as U. rewrite HF, AU in U. cbn [negb andb] in U.
          assert (Hu : In it unclaimed).
          { apply filter_In. split; [exact Hin|]. unfold known. unfold LoopProofs.target in T. rewrite (all_meta it Hin) in T.
            pose proof (find_arm_addressed fs 0 (RecvProofs.item_name it)) as FA. rewrite T in FA.
            change (RecvProofs.item_name it) with (item_name it) in FA. now rewrite FA. }
          destruct unclaimed; [destruct Hu|discriminate U].
      Qed.

      Lemma spec_errs_nil : spec_errs sugg sim interp_with interp_fn fields convs auk items = [].
      Proof.
        unfold spec_errs.
        assert (G : forall r pre, items = pre ++ r -> spec_errs_from sugg sim interp_with interp_fn fields convs auk pre r = []).
        { induction r as [|it r IH]; intros pre E; cbn [spec_errs_from]; [reflexivity|].
          rewrite (item_errs_nil pre it r E). cbn [app]. apply IH. rewrite E, <- app_assoc. reflexivity. }
        now apply G.
      Qed.

      Lemma filter_none {A} (p : A -> bool) l : (forall x, In x l -> p x = false) -> filter p l = [].
      Proof. induction l as [|x r IH]; intros H; [reflexivity|]. cbn. rewrite (H x (or_introl eq_refl)). apply IH. intros y Hy. apply H. now right. Qed.

      Lemma occ_unaddressable j f : nth_error fs j = Some f -> addressable f = false -> occ j items = [].
      Proof.
        intros Hj Ad. apply filter_none. intros it _. destruct (routes_to j it) eqn:R; [|reflexivity]. exfalso.
        unfold LoopProofs.routes_to in R. destruct (target it) as [[i g]|] eqn:T; [|discriminate].
        apply Nat.eqb_eq in R. subst i. destruct (target_facts it j g T) as [Nt [Ad' _]]. congruence.
      Qed.

      Lemma multi_vals_ok j f t : nth_error fields j = Some (f, t) -> forall occs vs acc,
        (forall it, In it occs -> is_meta it = true) ->
        all_some (map (conv_one f t) occs) = Some vs ->
        multi_vals interp_with interp_fn convs j f occs acc = acc ++ vs.
      Proof.
        intros Hj. induction occs as [|it r IH]; intros vs acc M; cbn [map all_some multi_vals].
        - intros [= <-]. now rewrite app_nil_r.
        - destruct (conv_one f t it) as [v|] eqn:C; [|discriminate].
          destruct (all_some (map (conv_one f t) r)) as [k|] eqn:A; [|discriminate]. intros [= <-].
          rewrite (extract_conv_one j f t it v _ Hj (M it (or_introl eq_refl)) C).
          rewrite (IH k (acc ++ [v])); [now rewrite <- app_assoc|intros x Hx; apply M; now right|reflexivity].
      Qed.

      Lemma socc_meta f it : In it (socc f items) -> is_meta it = true.
      Proof. unfold socc. destruct (is_first_named fs f); [|intros []]. intros H. apply filter_In in H. now apply all_meta. Qed.

      (** the slot the loop leaves for an ordinary or skipped field passes the presence check and
          initialises to the specification's value *)
      Lemma slot_spec_good j f t v :
        nth_error fields j = Some (f, t) -> fi_flatten f = false -> here_value fs items cd unclaimed f t = Some v ->
        snd (check_one convs j f (slot_spec interp_with interp_fn fields convs j f items)) = []
        /\ init_field interp_fn cd (fst (check_one convs j f (slot_spec interp_with interp_fn fields convs j f items))) (f, t) = Ok v.
      Proof.
        intros Hj Fl H. pose proof (nth_fields_fs j f t Hj) as Hf. unfold here_value in H. rewrite Fl in H.
        unfold slot_spec, check_one, needs_check. destruct (fi_skip f) eqn:Sk.
        - assert (Ad : addressable f = false) by (unfold addressable; now rewrite Sk).
          rewrite (occ_unaddressable j f Hf Ad).
          destruct (fi_default f) as [d|] eqn:D; [|unfold default_value in H; rewrite D in H; discriminate].
          apply default_value_field_default in H.
          destruct (fi_multiple f); cbn [multi_vals orb negb fst snd init_field]; rewrite ?D; auto.
        - assert (Ad : addressable f = true) by (unfold addressable; now rewrite Sk, Fl).
          rewrite (occ_is_socc j f items all_meta Hf Ad). fold (socc f items) in H.
          destruct (fi_multiple f) eqn:Mu; cbn [orb negb fst snd].
          + destruct (socc f items) as [|x r] eqn:O.
            * cbn [multi_vals]. destruct (fi_default f) as [d|] eqn:D.
              -- apply default_value_field_default in H. cbn [init_field]. rewrite D. auto.
              -- cbn in H. injection H as <-. cbn [init_field]. rewrite D. auto.
            * assert (Hx : exists vs, all_some (map (conv_one f t) (x :: r)) = Some vs /\ v = VList vs).
              { destruct (all_some (map (conv_one f t) (x :: r))) as [vs|]; [|destruct (fi_default f); discriminate].
                exists vs. destruct (fi_default f); cbn in H; injection H as <-; auto. }
              destruct Hx as [vs [A ->]].
              rewrite (multi_vals_ok j f t Hj (x :: r) vs [] ltac:(rewrite <- O; apply socc_meta) A). cbn [app].
              split; [reflexivity|]. cbn [init_field]. cbn [map all_some] in A.
              destruct (conv_one f t x); [|discriminate]. destruct (all_some (map (conv_one f t) r)); [|discriminate].
              injection A as <-. reflexivity.
          + destruct (socc f items) as [|x [|y r]] eqn:O; [| |discriminate].
            * destruct (fi_default f) as [d|] eqn:D; cbn [negb fst snd].
              -- apply default_value_field_default in H. cbn [init_field]. auto.
              -- rewrite (conv_of_nth j f t Hj), <- absent_is_from_none, H. cbn [fst snd init_field]. auto.
            * rewrite (extract_conv_one j f t x v _ Hj (socc_meta f x ltac:(rewrite O; now left)) H). cbn [ok_opt].
              destruct (negb (match fi_default f with Some _ => true | None => false end)); cbn [fst snd init_field]; auto.
      Qed.

      Lemma flat_is_unclaimed : has_flatten fields = true -> spec_flat fields items = unclaimed.
      Proof.
        intros HF. unfold spec_flat. rewrite HF. unfold unclaimed. apply filter_ext_in. intros it Hin.
        rewrite (all_meta it Hin). cbn [andb]. unfold LoopProofs.target, known. rewrite (all_meta it Hin).
        pose proof (find_arm_addressed fs 0 (RecvProofs.item_name it)) as FA. change (RecvProofs.item_name it) with (item_name it) in *.
        destruct (find_arm fs 0 (item_name it)) as [[i g]|]; [destruct FA as [-> _]|rewrite FA]; reflexivity.
      Qed.

      Lemma struct_from_meta_list c' fs' l v :
        from_meta (impl (TStructR c' fs')) (dummy_list l) = Ok v -> from_list (impl (TStructR c' fs')) l = Ok v.
      Proof.
        unfold from_meta, dummy_list. cbn [impl_of o_meta default_from_meta].
        destruct (from_list _ l); cbn [map_err]; congruence.
      Qed.

      Lemma enum_from_meta_list c' w' vs' l v :
        from_meta (impl (TEnumR c' w' vs')) (dummy_list l) = Ok v -> from_list (impl (TEnumR c' w' vs')) l = Ok v.
      Proof.
        unfold from_meta, dummy_list. cbn [impl_of o_meta default_from_meta].
        destruct (from_list _ l); cbn [map_err]; congruence.
      Qed.

      Theorem level_sound cdef_of locate :
        cdef_of tt = Ok cd ->
        parse_fields sugg sim interp_with interp_fn fields convs auk (state0 fields) items cdef_of locate = Ok kvs.
      Proof.
        intros CD. unfold parse_fields.
        assert (NP : forall it i f loc, In it items -> target it = Some (i, f) -> is_panic (extract i f it loc) = false).
        { intros it i f loc Hin T. destruct (extract_ok it i f loc Hin T) as [v ->]. reflexivity. }
        destruct (loop_ok items NP (state0 fields)) as [st1 L]. rewrite L.
        destruct (loop_is_spec sugg sim interp_with interp_fn fields convs auk items st1 L) as [Sl [El Fl]].
        rewrite spec_errs_nil in El.
        assert (Len1 : List.length (ps_slots st1) = List.length fs) by (rewrite Sl; apply spec_slots_length).
        assert (S1 : forall j f, nth_error fs j = Some f -> nth_error (ps_slots st1) j = Some (slot_spec interp_with interp_fn fields convs j f items)).
        { intros j f Hf. rewrite Sl. unfold spec_slots. rewrite nth_error_map, (nth_error_indexed fs j f Hf). reflexivity. }
        (* the flatten hand-off *)
        assert (FI : exists stf, flatten_init sugg sim fields convs st1 = Ok stf /\ ps_errs stf = []
                       /\ List.length (ps_slots stf) = List.length fs
                       /\ forall j f t v, nth_error fields j = Some (f, t) -> here_value fs items cd unclaimed f t = Some v ->
                            exists s, nth_error (ps_slots stf) j = Some s
                                      /\ snd (check_one convs j f s) = [] /\ init_field interp_fn cd (fst (check_one convs j f s)) (f, t) = Ok v).
        { unfold flatten_init. destruct (find_flatten fs 0) as [i|] eqn:FF.
          - destruct (find_flatten_some _ _ _ FF) as [g [Ng [Fg _]]]. rewrite Nat.sub_0_r in Ng.
            destruct (nth_fs_fields i g Ng) as [gt Hg]. destruct (here_nth i g gt Hg) as [vg [Hv _]].
            assert (HFl : has_flatten fields = true) by (unfold has_flatten; apply existsb_exists; exists g; split; [eapply nth_error_In; exact Ng|exact Fg]).
            destruct (FL1 g (nth_error_In _ _ Ng) Fg) as [Skg Mug].
            pose proof Hv as Hv'. unfold here_value in Hv'. rewrite Skg, Fg in Hv'.
            assert (FM : from_list (impl gt) unclaimed = Ok vg).
            { destruct (flat_target gt) eqn:FT; [|discriminate].
              pose proof (IH_nth i g _ Hg (dummy_list unclaimed) vg eq_refl Hv') as FM.
              rewrite (flat_meta_list gt FT) in FM. destruct (from_list (impl gt) unclaimed); cbn [map_err] in FM; congruence. }
            rewrite Fl, (flat_is_unclaimed HFl), (conv_of_nth i g _ Hg), FM.
            assert (Li : (i < List.length (ps_slots st1))%nat) by (rewrite Len1; apply nth_error_Some; congruence).
            eexists. split; [destruct (names fields); reflexivity|]. cbn [ps_errs ps_slots]. split; [exact El|]. split.
            { unfold set_slot. rewrite app_length, firstn_length. cbn [List.length]. rewrite skipn_length. lia. }
            intros j f t v Hj Hh. destruct (Nat.eq_dec j i) as [->|Ne].
            + assert (f = g /\ t = gt) by (split; congruence). destruct H as [-> ->].
              assert (v = vg) by congruence. subst v.
              exists (SSingle true (Some vg)). split; [now apply nth_error_set_slot_same|].
              unfold check_one. destruct (needs_check g); cbn [fst snd init_field]; auto.
            + assert (Ff : fi_flatten f = false).
              { destruct (fi_flatten f) eqn:Ff; [|reflexivity]. exfalso. apply Ne.
                exact (FL2 j i f g (nth_fields_fs j f t Hj) Ng Ff Fg). }
              exists (slot_spec interp_with interp_fn fields convs j f items). split.
              * rewrite nth_error_set_slot_other by (auto; lia). apply S1. exact (nth_fields_fs j f t Hj).
              * now apply (slot_spec_good j f t v).
          - exists st1. split; [reflexivity|]. split; [exact El|]. split; [exact Len1|].
            intros j f t v Hj Hh. exists (slot_spec interp_with interp_fn fields convs j f items). split; [apply S1; exact (nth_fields_fs j f t Hj)|].
            apply (slot_spec_good j f t v Hj); [|exact Hh].
            apply (find_flatten_none fs 0 FF). eapply nth_error_In. exact (nth_fields_fs j f t Hj). }
        destruct FI as [stf [FIe [Ef [Lenf Good]]]]. unfold require_fields. rewrite FIe.
        assert (Clean : snd (check_all convs 0 (ps_slots stf) fs) = []).
        { apply check_all_clean. intros j s f Hs Hf. destruct (nth_fs_fields j f Hf) as [t Hj].
          destruct (here_nth j f t Hj) as [v [Hh _]]. destruct (Good j f t v Hj Hh) as [s' [Hs' [C _]]].
          assert (s' = s) by congruence. subst s'. exact C. }
        destruct (check_all convs 0 (ps_slots stf) fs) as [slots2 errs2] eqn:CA. cbn [snd] in Clean. subst errs2.
        cbn [ps_errs ps_slots]. rewrite Ef. cbn [app]. rewrite CD.
        destruct (fields_value_nth fs items cd unclaimed fields kvs FV) as [Lk _].
        apply init_all_pointwise.
        - pose proof (check_all_length convs (ps_slots stf) 0 fs) as CL. rewrite CA in CL. cbn [fst] in CL. rewrite CL, Lenf.
          unfold finfos. now rewrite map_length.
        - exact Lk.
        - intros j s f t Hs Hj. destruct (here_nth j f t Hj) as [v [Hh Kv]]. exists v. split; [exact Kv|].
          destruct (Good j f t v Hj Hh) as [s' [Hs' [_ I]]].
          pose proof (check_all_nth convs (ps_slots stf) 0 fs j s' f Hs' (nth_fields_fs j f t Hj)) as Cn.
          rewrite CA in Cn. cbn [fst] in Cn. rewrite Nat.add_0_l in Cn. assert (s = fst (check_one convs j f s')) by congruence. subst s. exact I.
      Qed.
    End Given.
  End LevelSound.

  (** ** enums: the specification's case analyses as stand-alone functions *)
  Fixpoint str_case (l : list (vinfo * list (finfo * ty))) (s : string) : option value :=
    match l with
    | [] => None
    | (vi, fs) :: r =>
        if (negb (vi_skip vi) && str_eqb (vi_name vi) s)%bool then
          match vi_style vi, fs with
          | VsUnit, _ => Some (VVariant (vi_ident vi) [])
          | VsNewtype, (_, ft) :: _ => option_map (fun v => VVariant (vi_ident vi) [("0", v)]) (absent_of ft)
          | _, _ => None
          end
        else str_case r s
    end.

  Definition list_case (self : ty) :=
    fix list_case (l : list (vinfo * list (finfo * ty))) (inner : nested) {struct l} : option value :=
    match l with
    | [] => None
    | (vi, fs) :: r =>
        if (negb (vi_skip vi) && str_eqb (vi_name vi) (item_name inner))%bool then
          match vi_style vi, fs with
          | VsUnit, _ => match inner with NPath _ _ => Some (VVariant (vi_ident vi) []) | _ => None end
          | VsNewtype, (_, ft) :: _ => option_map (fun v => VVariant (vi_ident vi) [("0", v)]) (expected ft inner)
          | VsStruct, _ =>
              match inner with
              | NList _ _ _ items => option_map (VVariant (vi_ident vi)) (struct_value None self fs (vi_auk vi) items)
              | _ => None
              end
          | _, _ => None
          end
        else list_case r inner
    end.

  Lemma expected_enum c w vs m :
    expected (TEnumR c w vs) m =
      match m with
      | NPath _ _ =>
          match ci_from_word c, w with
          | Some f, _ => match interp_fn f VUnit with Ok v => Some v | _ => None end
          | None, Some vid => Some (VVariant vid [])
          | None, None => None
          end
      | NNameValue _ _ e =>
          match strip_groups e with
          | ELit _ (LStr s) => str_case vs s
          | _ => None
          end
      | NList _ _ _ [inner] => if is_literal inner then None else list_case (TEnumR c w vs) vs inner
      | _ => None
      end.
  Proof. reflexivity. Qed.

  (** ** what derive-time validation and Rust guarantee about a declaration *)
  Definition level_wf (fields : list (finfo * ty)) : Prop :=
    NoDup (map fi_ident (finfos fields))
    /\ (forall f, In f (finfos fields) -> fi_flatten f = true -> fi_skip f = false /\ fi_multiple f = false)
    /\ (forall i j f g, nth_error (finfos fields) i = Some f -> nth_error (finfos fields) j = Some g ->
                        fi_flatten f = true -> fi_flatten g = true -> i = j).

  Fixpoint wf_spec (t : ty) : Prop :=
    let wf_fields :=
      fix go (l : list (finfo * ty)) : Prop :=
        match l with [] => True | x :: r => wf_spec (snd x) /\ go r end in
    match t with
    | TLeaf _ | TUnitR _ => True
    | TOpt t' | TBox t' | TRes t' | TNewtypeR _ t' => wf_spec t'
    | TStructR c fields => wf_fields fields /\ level_wf fields /\ ci_default c <> Some CdFromIdent
    | TEnumR c w vs =>
        (fix gov (l : list (vinfo * list (finfo * ty))) : Prop :=
           match l with
           | [] => True
           | x :: r => (wf_fields (snd x) /\ level_wf (snd x)) /\ gov r
           end) vs
    end.

  Definition wf_spec_fields (l : list (finfo * ty)) : Prop :=
    (fix go (l : list (finfo * ty)) : Prop := match l with [] => True | x :: r => wf_spec (snd x) /\ go r end) l.

  Definition sound_ty (t : ty) : Prop :=
    forall m v, is_meta m = true -> expected t m = Some v -> from_meta (impl t) m = Ok v.

  Lemma sound_fields l :
    Forall (fun ft : finfo * ty => wf_spec (snd ft) -> sound_ty (snd ft)) l -> wf_spec_fields l ->
    Forall (fun ft : finfo * ty => sound_ty (snd ft)) l.
  Proof. induction 1 as [|x r Hx _ IH]; [constructor|]. intros [W1 W2]. constructor; [now apply Hx|now apply IH]. Qed.

  (** one struct level, from the specification's [struct_value] *)
  Lemma struct_value_sound c self fields auk items kvs cdef_of locate :
    level_wf fields -> Forall (fun ft : finfo * ty => sound_ty (snd ft)) fields ->
    struct_value c self fields auk items = Some kvs ->
    (forall cd,
        match c with
        | Some ci =>
            match ci_default ci with
            | None => Some None
            | Some CdTrait | Some CdFromIdent => Some (Some (default_of self))
            | Some (CdExplicit g) => match interp_fn g VUnit with Ok v => Some (Some v) | _ => None end
            end
        | None => Some None
        end = Some cd -> cdef_of tt = Ok cd) ->
    parse_fields sugg sim interp_with interp_fn fields (map (fun ft : finfo * ty => impl (snd ft)) fields) auk
                 (state0 fields) items cdef_of locate = Ok kvs.
  Proof.
    intros [ND [F1 F2]] IH SV CD. unfold struct_value in SV. fold (finfos fields) in SV.
    destruct (existsb is_literal items) eqn:NoLit; [discriminate|].
    match type of SV with (if ?b then _ else _) = _ => destruct b eqn:Unk; [discriminate|] end.
    match type of SV with match ?x with Some _ => _ | None => _ end = _ => destruct x as [cd|] eqn:CE; [|discriminate] end.
    apply (level_sound fields auk ND F1 F2 IH items cd kvs NoLit Unk SV). now apply CD.
  Qed.

  Lemma str_case_sound vs s v :
    str_case vs s = Some v ->
    enum_str_arm vs (map (fun vf : vinfo * list (finfo * ty) => map (fun ft => impl (snd ft)) (snd vf)) vs) s = Some (Ok v).
  Proof.
    induction vs as [|[vi fl] r IH]; cbn [str_case enum_str_arm map snd]; [discriminate|].
    destruct (negb (vi_skip vi) && str_eqb (vi_name vi) s)%bool; [|exact IH].
    destruct (vi_style vi).
    - now intros [= <-].
    - destruct fl as [|[f0 t0] fr]; [discriminate|]. cbn [map snd]. rewrite <- absent_is_from_none.
      destruct (absent_of t0); [|discriminate]. now intros [= <-].
    - destruct fl; discriminate.
  Qed.

  (** ** the theorem *)
  Theorem expected_sound : forall t, wf_spec t -> sound_ty t.
  Proof.
    induction t as [tg | t IH | t IH | t IH | c fields IH | c t IH | c | c w vs IH] using ty_ind'; intros W m v M; cbn [wf_spec] in W.
    - cbn [C01.expected impl_of]. destruct (from_meta (leaf tg) m); try discriminate. now intros [= <-].
    - cbn [C01.expected]. destruct (expected t m) as [v0|] eqn:E; [|discriminate]. intros [= <-].
      unfold from_meta. cbn [impl_of option_fm o_meta]. now rewrite (IH W m v0 M E).
    - cbn [C01.expected]. destruct (expected t m) as [v0|] eqn:E; [|discriminate]. intros [= <-].
      unfold from_meta at 1. cbn [impl_of ptr_fm o_meta]. now rewrite (IH W m v0 M E).
    - cbn [C01.expected]. destruct (expected t m) as [v0|] eqn:E; [|discriminate]. intros [= <-].
      unfold from_meta at 1. cbn [impl_of result_fm o_meta]. now rewrite (IH W m v0 M E).
    - (* a derived struct *)
      destruct W as [Wf [Lw NFI]]. fold (wf_spec_fields fields) in Wf. pose proof (sound_fields fields IH Wf) as IHs.
      destruct m as [i l | i p | i p ti items | i p ti es msg | i p e]; try discriminate.
      + cbn [C01.expected]. unfold from_meta. cbn [impl_of o_meta default_from_meta]. unfold from_word. cbn [o_word].
        destruct (ci_from_word c) as [f|]; [|discriminate]. unfold run_fn. destruct (interp_fn f VUnit); try discriminate. now intros [= <-].
      + rewrite expected_struct.
        destruct (struct_value (Some c) (TStructR c fields) fields (ci_auk c) items) as [kvs|] eqn:SV; [|discriminate]. intros P.
        unfold from_meta. cbn [impl_of o_meta default_from_meta]. unfold from_list. cbn [o_list].
        rewrite (struct_value_sound (Some c) (TStructR c fields) fields (ci_auk c) items kvs _ (fun e => e) Lw IHs SV).
        * cbn [map_ok]. now rewrite (apply_post_of _ _ _ P).
        * intros cd. unfold cdefault_value. destruct (ci_default c) as [[|g|]|]; try (now intros [= <-]).
          unfold run_fn. destruct (interp_fn g VUnit); try discriminate. now intros [= <-].
    - (* a newtype struct *)
      cbn [C01.expected]. destruct (expected t m) as [v0|] eqn:E; [|discriminate]. intros [= <-].
      unfold from_meta. cbn [impl_of o_meta]. now rewrite (IH W m v0 M E).
    - (* a unit struct *)
      cbn [C01.expected]. destruct m; try discriminate. now intros [= <-].
    - (* an enum *)
      rewrite expected_enum. unfold from_meta. cbn [impl_of o_meta].
      destruct m as [i l | i p | i p ti items | i p ti es msg | i p e]; try discriminate.
      + cbn [default_from_meta]. unfold from_word. cbn [o_word]. destruct (ci_from_word c) as [f|].
        * unfold run_fn. destruct (interp_fn f VUnit); try discriminate. now intros [= <-].
        * destruct w; [|discriminate]. now intros [= <-].
      + destruct items as [|inner [|x r]]; try discriminate.
        destruct (is_literal inner) eqn:IL; [discriminate|]. intros LC.
        cbn [default_from_meta]. unfold from_list. cbn [o_list]. unfold enum_from_list.
        assert (Mi : is_meta inner = true) by (destruct inner; try discriminate; reflexivity).
        assert (EA : enum_arm sugg sim interp_with interp_fn vs
                       (map (fun vf : vinfo * list (finfo * ty) => map (fun ft => impl (snd ft)) (snd vf)) vs)
                       (item_name inner) inner = Some (Ok v)).
        { clear -IH W LC Mi. revert W LC. induction IH as [|[vi fl] rest Hx _ IHr]; cbn [list_case enum_arm map snd]; [discriminate|].
          intros [[Wf Lw] Wr]. destruct (negb (vi_skip vi) && str_eqb (vi_name vi) (item_name inner))%bool; [|now apply IHr].
          fold (wf_spec_fields fl) in Wf. cbn [snd] in Hx. pose proof (sound_fields fl Hx Wf) as IHs.
          destruct (vi_style vi).
          - destruct inner; try discriminate. now intros [= <-].
          - destruct fl as [|[f0 t0] fr]; [discriminate|]. cbn [map snd].
            destruct (expected t0 inner) as [v0|] eqn:E; [|discriminate]. intros [= <-].
            inversion IHs as [|? ? S0 _]; subst. cbn [snd] in S0. now rewrite (S0 inner v0 Mi E).
          - destruct inner as [i l | i p | i p ti items | i p ti es msg | i p e]; try (destruct fl; discriminate).
            destruct (struct_value None (TEnumR c w ((vi, fl) :: rest)) fl (vi_auk vi) items) as [kvs|] eqn:SV.
            2:{ destruct fl; discriminate. }
            intros H. assert (v = VVariant (vi_ident vi) kvs) by (destruct fl; cbn in H; congruence). subst v.
            rewrite (struct_value_sound None _ fl (vi_auk vi) items kvs (fun _ => Ok None) _ Lw IHs SV); [reflexivity|].
            now intros cd [= <-]. }
        destruct inner as [i0 l0 | i0 p0 | i0 p0 ti0 items0 | i0 p0 ti0 es0 msg0 | i0 p0 e0]; try discriminate;
          change (match meta_path ?n with Some p => path_to_string p | None => "" end) with (item_name n); rewrite EA; reflexivity.
      + destruct (strip_groups e) as [j l| | | | |] eqn:SG; try discriminate. destruct l as [|s| | | | | | |]; try discriminate.
        intros SC. cbn [default_from_meta]. unfold from_expr. cbn [o_expr]. rewrite (route_expr_lit _ e j (LStr s) SG).
        unfold from_value. cbn [o_value]. rewrite route_value_string. unfold from_string. cbn [o_string].
        unfold enum_from_string. now rewrite (str_case_sound vs s v SC).
  Qed.
End Sound.

(** ** an executable well-formedness test, evaluated on every receiver the check runs *)
Fixpoint nodupb (l : list string) : bool :=
  match l with [] => true | x :: r => negb (existsb (str_eqb x) r) && nodupb r end.

Lemma nodupb_sound l : nodupb l = true -> NoDup l.
Proof.
  induction l as [|x r IH]; cbn; [constructor|]. intros H. apply andb_true_iff in H as [H1 H2].
  constructor; [|now apply IH]. intros Hin. apply negb_true_iff in H1.
  assert (E : existsb (str_eqb x) r = true) by (apply existsb_exists; exists x; split; [exact Hin|apply String.eqb_refl]). congruence.
Qed.

Lemma at_most_one {A} (p : A -> bool) l : (List.length (filter p l) <= 1)%nat ->
  forall i j f g, nth_error l i = Some f -> nth_error l j = Some g -> p f = true -> p g = true -> i = j.
Proof.
  induction l as [|x r IH]; intros L i j f g Hi Hj Pf Pg; [destruct i; discriminate|].
  assert (Tail : forall k y, nth_error r k = Some y -> p y = true -> (1 <= List.length (filter p r))%nat).
  { intros k y Hk Py. assert (In y (filter p r)) by (apply filter_In; split; [eapply nth_error_In; exact Hk|exact Py]).
    destruct (filter p r); [destruct H|cbn; lia]. }
  cbn [filter] in L. destruct i as [|i], j as [|j]; cbn [nth_error] in Hi, Hj.
  - reflexivity.
  - injection Hi as ->. rewrite Pf in L. cbn in L. pose proof (Tail j g Hj Pg). lia.
  - injection Hj as ->. rewrite Pg in L. cbn in L. pose proof (Tail i f Hi Pf). lia.
  - f_equal. apply (IH ltac:(destruct (p x); cbn in L; lia) i j f g); assumption.
Qed.

Definition level_wfb (fields : list (finfo * ty)) : bool :=
  let fs := finfos fields in
  nodupb (map fi_ident fs)
  && forallb (fun f => negb (fi_flatten f) || (negb (fi_skip f) && negb (fi_multiple f))) fs
  && Nat.leb (List.length (filter fi_flatten fs)) 1.

Lemma level_wfb_sound fields : level_wfb fields = true -> level_wf fields.
Proof.
  unfold level_wfb, level_wf. intros H. apply andb_true_iff in H as [H H3]. apply andb_true_iff in H as [H1 H2].
  split; [now apply nodupb_sound|]. split.
  - intros f Hin Ff. rewrite forallb_forall in H2. specialize (H2 f Hin). rewrite Ff in H2. cbn in H2.
    apply andb_true_iff in H2 as [A B]. apply negb_true_iff in A, B. auto.
  - apply at_most_one. now apply Nat.leb_le.
Qed.

Fixpoint wf_specb (t : ty) : bool :=
  let wf_fields :=
    fix go (l : list (finfo * ty)) : bool :=
      match l with [] => true | x :: r => wf_specb (snd x) && go r end in
  match t with
  | TLeaf _ | TUnitR _ => true
  | TOpt t' | TBox t' | TRes t' | TNewtypeR _ t' => wf_specb t'
  | TStructR c fields =>
      wf_fields fields && level_wfb fields && negb (match ci_default c with Some CdFromIdent => true | _ => false end)
  | TEnumR c w vs =>
      (fix gov (l : list (vinfo * list (finfo * ty))) : bool :=
         match l with
         | [] => true
         | x :: r => wf_fields (snd x) && level_wfb (snd x) && gov r
         end) vs
  end.

Lemma wf_specb_sound : forall t, wf_specb t = true -> wf_spec t.
Proof.
  induction t as [tg | t IH | t IH | t IH | c fields IH | c t IH | c | c w vs IH] using ty_ind'; cbn [wf_specb wf_spec]; auto.
  - intros H. apply andb_true_iff in H as [H H3]. apply andb_true_iff in H as [H1 H2]. split; [|split].
    + clear -IH H1. induction IH as [|x r Hx _ IHr]; [exact I|]. apply andb_true_iff in H1 as [A B]. split; [now apply Hx|now apply IHr].
    + now apply level_wfb_sound.
    + destruct (ci_default c) as [[| |]|]; try discriminate.
  - intros H. induction IH as [|x r Hx _ IHr]; [exact I|]. apply andb_true_iff in H as [H H3]. apply andb_true_iff in H as [H1 H2].
    split; [split|now apply IHr]; [|now apply level_wfb_sound].
    clear -Hx H1. induction Hx as [|y s Hy _ IHs]; [exact I|]. apply andb_true_iff in H1 as [A B]. split; [now apply Hy|now apply IHs].
Qed.

