From DarlingModel Require Import Usage.Usage.
Local Open Scope list_scope.

Definition OptP (P : node -> Prop) (o : option node) : Prop :=
  match o with Some x => P x | None => True end.

Section NodeInd.
  Variable P : node -> Prop.
  Hypothesis H1 : forall e, P e -> P (NSlice e).
  Hypothesis H2 : forall e, P e -> P (NArray e).
  Hypothesis H3 : forall e, P e -> P (NPtr e).
  Hypothesis H4 : forall l e, P e -> P (NRef l e).
  Hypothesis H5 : forall bl ins out, Forall P ins -> OptP P out -> P (NBareFn bl ins out).
  Hypothesis H6 : forall es, Forall P es -> P (NTuple es).
  Hypothesis H7 : forall e, P e -> P (NParen e).
  Hypothesis H8 : forall e, P e -> P (NGroup e).
  Hypothesis H9 : forall q l segs, OptP P q -> Forall (fun s => P (snd s)) segs -> P (NPath q l segs).
  Hypothesis H10 : forall bs, Forall P bs -> P (NTraitObject bs).
  Hypothesis H11 : forall bs, Forall P bs -> P (NImplTrait bs).
  Hypothesis H12 : P NOpaque.
  Hypothesis H13 : P NUnknownType.
  Hypothesis H14 : P NArgsNone.
  Hypothesis H15 : forall args, Forall P args -> P (NAngle args).
  Hypothesis H16 : forall ins out, Forall P ins -> OptP P out -> P (NParenArgs ins out).
  Hypothesis H17 : forall t, P t -> P (NArgType t).
  Hypothesis H18 : forall l, P (NArgLifetime l).
  Hypothesis H19 : forall g t, P g -> P t -> P (NArgAssocType g t).
  Hypothesis H20 : forall g bs, P g -> Forall P bs -> P (NArgConstraint g bs).
  Hypothesis H21 : P NArgConst.
  Hypothesis H22 : forall bl p, P p -> P (NBoundTrait bl p).
  Hypothesis H23 : forall l, P (NBoundLifetime l).
  Hypothesis H24 : P NBoundOther.

  Fixpoint node_ind' (n : node) : P n :=
    let all := fix go (l : list node) : Forall P l :=
      match l with [] => Forall_nil _ | x :: r => Forall_cons _ (node_ind' x) (go r) end in
    let opt := fun o : option node =>
      match o return OptP P o with Some x => node_ind' x | None => I end in
    match n with
    | NSlice e => H1 e (node_ind' e)
    | NArray e => H2 e (node_ind' e)
    | NPtr e => H3 e (node_ind' e)
    | NRef l e => H4 l e (node_ind' e)
    | NBareFn bl ins out => H5 bl ins out (all ins) (opt out)
    | NTuple es => H6 es (all es)
    | NParen e => H7 e (node_ind' e)
    | NGroup e => H8 e (node_ind' e)
    | NPath q l segs =>
        H9 q l segs (opt q)
           ((fix go (l : list (string * node)) : Forall (fun s => P (snd s)) l :=
               match l with
               | [] => Forall_nil _
               | s :: r => Forall_cons _ (node_ind' (snd s)) (go r)
               end) segs)
    | NTraitObject bs => H10 bs (all bs)
    | NImplTrait bs => H11 bs (all bs)
    | NOpaque => H12
    | NUnknownType => H13
    | NArgsNone => H14
    | NAngle args => H15 args (all args)
    | NParenArgs ins out => H16 ins out (all ins) (opt out)
    | NArgType t => H17 t (node_ind' t)
    | NArgLifetime l => H18 l
    | NArgAssocType g t => H19 g t (node_ind' g) (node_ind' t)
    | NArgConstraint g bs => H20 g bs (node_ind' g) (all bs)
    | NArgConst => H21
    | NBoundTrait bl p => H22 bl p (node_ind' p)
    | NBoundLifetime l => H23 l
    | NBoundOther => H24
    end.
End NodeInd.

(** membership in the result of a combination *)
Definition hits_of (r : ures) : list string := match r with UOk h => h | UPanic _ => [] end.
Definition upanics (r : ures) : bool := match r with UPanic _ => true | _ => false end.

Lemma uapp_ok a b : upanics a = false -> upanics b = false ->
  upanics (uapp a b) = false /\ hits_of (uapp a b) = hits_of a ++ hits_of b.
Proof. destruct a, b; cbn; try discriminate; auto. Qed.

Lemma uconcat_ok l : forallb (fun r => negb (upanics r)) l = true ->
  upanics (uconcat l) = false /\ hits_of (uconcat l) = flat_map hits_of l.
Proof.
  induction l as [|a r IH]; [cbn; auto|]. cbn [forallb flat_map]. intros H. apply andb_true_iff in H as [Ha Hr].
  apply negb_true_iff in Ha. destruct (IH Hr) as [P1 P2].
  change (uconcat (a :: r)) with (uapp a (uconcat r)).
  destruct (uapp_ok a (uconcat r) Ha P1) as [Q1 Q2]. split; [exact Q1|]. now rewrite Q2, P2.
Qed.

Lemma ident_hits_in set id x : In x (ident_hits set id) <-> In x set /\ x = id.
Proof.
  unfold ident_hits. rewrite filter_In. unfold str_eqb. split.
  - intros [H E]. apply String.eqb_eq in E. auto.
  - intros [H ->]. split; [exact H|]. apply String.eqb_refl.
Qed.

Section Exact.
  Variable declare : purpose.
  Variable set : list string.

  Definition Good (n : node) : Prop :=
    known n = true ->
    upanics (uses_tp declare set n) = false
    /\ forall x, In x (hits_of (uses_tp declare set n)) <-> In x set /\ occurs_tp declare x n.

  Lemma all_good l : Forall Good l -> forallb known l = true ->
    upanics (uconcat (map (uses_tp declare set) l)) = false
    /\ forall x, In x (hits_of (uconcat (map (uses_tp declare set) l)))
                 <-> In x set /\ exists e, In e l /\ occurs_tp declare x e.
  Proof.
    intros F K.
    assert (NP : forallb (fun r => negb (upanics r)) (map (uses_tp declare set) l) = true).
    { induction F as [|e r He _ IH]; cbn in *; [reflexivity|].
      apply andb_true_iff in K as [Ke Kr]. destruct (He Ke) as [P _]. now rewrite P, IH. }
    destruct (uconcat_ok _ NP) as [P1 P2]. split; [exact P1|]. intros x. rewrite P2.
    clear NP P1 P2. induction F as [|e r He _ IH]; cbn in *.
    - split; [intros []|intros [_ [e [[] _]]]].
    - apply andb_true_iff in K as [Ke Kr]. rewrite in_app_iff, (proj2 (He Ke) x), (IH Kr).
      split.
      + intros [[S O]|[S [e' [I O]]]]; (split; [exact S|]); eauto.
      + intros [S [e' [[<-|I] O]]]; [left|right]; eauto.
  Qed.

  Lemma opt_good o : OptP Good o -> match o with Some x => known x | None => true end = true ->
    upanics (match o with Some x => uses_tp declare set x | None => UOk [] end) = false
    /\ forall x, In x (hits_of (match o with Some x => uses_tp declare set x | None => UOk [] end))
                 <-> In x set /\ exists e, o = Some e /\ occurs_tp declare x e.
  Proof.
    destruct o as [e|]; cbn; intros G K.
    - destruct (G K) as [P Q]. split; [exact P|]. intros x. rewrite Q. split.
      + intros [S O]. eauto.
      + intros [S [e' [[= <-] O]]]. auto.
    - split; [reflexivity|]. intros x. split; [intros []|intros [_ [e [[=] _]]]].
  Qed.
End Exact.

Ltac split_all :=
  repeat match goal with
         | H : _ \/ _ |- _ => destruct H
         | H : exists _, _ |- _ => destruct H
         | H : _ /\ _ |- _ => destruct H
         end.
Ltac inv_occ O := inversion O; subst; split_all; try discriminate;
  repeat match goal with H : _ = _ |- _ => injection H; clear H; intros; subst end.

Section Main.
  Variable declare : purpose.
  Variable set : list string.
  Notation U := (uses_tp declare set).
  Notation Occ := (occurs_tp declare).

  Lemma occ_through x e n :
    (n = NSlice e \/ n = NArray e \/ n = NPtr e \/ (exists l, n = NRef l e) \/ n = NParen e \/ n = NGroup e) ->
    (Occ x n <-> Occ x e).
  Proof.
    intros H. split; [|intros O; eapply OThrough; eauto].
    intros O. split_all; subst; inv_occ O; assumption.
  Qed.

  Lemma good_through e n :
    (n = NSlice e \/ n = NArray e \/ n = NPtr e \/ (exists l, n = NRef l e) \/ n = NParen e \/ n = NGroup e) ->
    Good declare set e -> Good declare set n.
  Proof.
    intros H G K.
    assert (E : U n = U e /\ known n = known e) by (split_all; subst; split; reflexivity).
    destruct E as [E1 E2]. rewrite E1. rewrite E2 in K. destruct (G K) as [P Q]. split; [exact P|].
    intros x. rewrite Q, (occ_through x e n H). tauto.
  Qed.

  Lemma occ_list_like x (mk : list node -> node) bs :
    (mk = NTraitObject \/ mk = NImplTrait \/ mk = NTuple \/ mk = NAngle) ->
    (Occ x (mk bs) <-> exists b, In b bs /\ Occ x b).
  Proof.
    intros H. split.
    - intros O. split_all; subst; inv_occ O; eauto.
    - intros [b [I O]]. split_all; subst.
      + eapply OBounds; eauto.
      + eapply OBounds; eauto.
      + eapply OTuple; eauto.
      + eapply OAngle; eauto.
  Qed.

  Lemma good_list_like (mk : list node -> node) bs :
    (mk = NTraitObject \/ mk = NImplTrait \/ mk = NTuple \/ mk = NAngle) ->
    Forall (Good declare set) bs -> Good declare set (mk bs).
  Proof.
    intros H F K.
    assert (E : U (mk bs) = uconcat (map U bs) /\ known (mk bs) = forallb known bs)
      by (split_all; subst; split; reflexivity).
    destruct E as [E1 E2]. rewrite E1. rewrite E2 in K.
    destruct (all_good declare set bs F K) as [P Q]. split; [exact P|].
    intros x. rewrite Q, (occ_list_like x mk bs H). tauto.
  Qed.

  Lemma occ_fn_like x (mk : list node -> option node -> node) ins out :
    ((exists bl, mk = NBareFn bl) \/ mk = NParenArgs) ->
    (Occ x (mk ins out) <-> (exists i, In i ins /\ Occ x i) \/ (exists o, out = Some o /\ Occ x o)).
  Proof.
    intros H. split.
    - intros O. split_all; subst; inv_occ O; eauto.
    - intros [[i [I O]]|[o [-> O]]]; split_all; subst.
      + eapply OFnIn; eauto.
      + eapply OParenIn; eauto.
      + eapply OFnOut; eauto.
      + eapply OParenOut; eauto.
  Qed.

  Lemma good_fn_like (mk : list node -> option node -> node) ins out :
    ((exists bl, mk = NBareFn bl) \/ mk = NParenArgs) ->
    Forall (Good declare set) ins -> OptP (Good declare set) out -> Good declare set (mk ins out).
  Proof.
    intros H F G K.
    assert (E : U (mk ins out) = uapp (uconcat (map U ins)) (match out with Some o => U o | None => UOk [] end)
                /\ known (mk ins out) = forallb known ins && match out with Some o => known o | None => true end)
      by (split_all; subst; split; reflexivity).
    destruct E as [E1 E2]. rewrite E1. rewrite E2 in K. apply andb_true_iff in K as [K1 K2].
    destruct (all_good declare set ins F K1) as [P1 Q1].
    destruct (opt_good declare set out G K2) as [P2 Q2].
    destruct (uapp_ok _ _ P1 P2) as [P Q]. split; [exact P|].
    intros x. rewrite Q, in_app_iff, Q1, Q2, (occ_fn_like x mk ins out H). tauto.
  Qed.

  Lemma occ_arg x t : Occ x (NArgType t) <-> Occ x t.
  Proof.
    split; [|intros O; eapply OArg; eauto].
    intros O. inv_occ O; assumption.
  Qed.

  (** an associated-type binding: its own generic arguments, or the bound type *)
  Lemma occ_assoc x g t : Occ x (NArgAssocType g t) <-> Occ x g \/ Occ x t.
  Proof.
    split.
    - intros O. inv_occ O; auto.
    - intros [O|O]; [eapply OAssocGen; eauto|eapply OArg; eauto].
  Qed.

  Lemma occ_constraint x g bs : Occ x (NArgConstraint g bs) <-> Occ x g \/ exists b, In b bs /\ Occ x b.
  Proof.
    split.
    - intros O. inv_occ O; eauto.
    - intros [O|[b [I O]]]; [eapply OAssocGen; eauto|eapply OBounds; eauto].
  Qed.

  Lemma occ_path x q leading segs :
    Occ x (NPath q leading segs) <->
      (leading = false /\ exists args rest, segs = (x, args) :: rest)
      \/ (exists s, In s segs /\ Occ x (snd s))
      \/ (declare = true /\ exists e, q = Some e /\ Occ x e).
  Proof.
    split.
    - intros O. inv_occ O.
      + left. eauto.
      + right. left. eauto.
      + right. right. eauto.
    - intros [[-> [args [rest ->]]]|[[s [I O]]|[D [e [-> O]]]]].
      + apply OPathHead.
      + eapply OPathArgs; eauto.
      + now apply OPathQSelf.
  Qed.

  Lemma segs_good (segs : list (string * node)) : Forall (fun s => Good declare set (snd s)) segs ->
    forallb (fun s => known (snd s)) segs = true ->
    upanics (uconcat (map (fun s => U (snd s)) segs)) = false
    /\ forall x, In x (hits_of (uconcat (map (fun s => U (snd s)) segs)))
                 <-> In x set /\ exists s, In s segs /\ Occ x (snd s).
  Proof.
    intros F K.
    assert (F' : Forall (Good declare set) (map snd segs)).
    { clear -F. induction F as [|s r Hs _ IH]; cbn; constructor; [exact Hs|exact IH]. }
    assert (K' : forallb known (map snd segs) = true).
    { clear -K. induction segs; cbn in *; [reflexivity|]. apply andb_true_iff in K as [A B]. now rewrite A, IHsegs. }
    destruct (all_good declare set (map snd segs) F' K') as [P Q].
    rewrite map_map in P, Q. split; [exact P|]. intros x. rewrite Q. split.
    - intros [S [e [I O]]]. apply in_map_iff in I as [s [<- I]]. eauto.
    - intros [S [s [I O]]]. split; [exact S|]. exists (snd s). split; [now apply in_map|exact O].
  Qed.

  Theorem uses_tp_exact n : Good declare set n.
  Proof.
    induction n using node_ind'.
    - eapply good_through; eauto.
    - eapply good_through; eauto.
    - eapply good_through; eauto.
    - eapply good_through; [|eassumption]. right. right. right. left. eauto.
    - apply (good_fn_like (NBareFn bl)); eauto.
    - apply (good_list_like NTuple); auto 10.
    - eapply good_through; eauto 10.
    - eapply good_through; eauto 10.
    - (* path *)
      intros K. cbn [known] in K. apply andb_true_iff in K as [Kq Ks].
      destruct (segs_good segs H0 Ks) as [Ps Qs].
      destruct (opt_good declare set q H Kq) as [Pq Qq].
      assert (HH : upanics (match segs with
                            | [] => UOk []
                            | (id, _) :: _ => uapp (UOk (if l then [] else ident_hits set id))
                                                   (uconcat (map (fun s => U (snd s)) segs))
                            end) = false
                   /\ forall x, In x (hits_of (match segs with
                            | [] => UOk []
                            | (id, _) :: _ => uapp (UOk (if l then [] else ident_hits set id))
                                                   (uconcat (map (fun s => U (snd s)) segs))
                            end)) <-> In x set /\ ((l = false /\ exists args rest, segs = (x, args) :: rest)
                                                   \/ exists s, In s segs /\ Occ x (snd s))).
      { destruct segs as [|[id a] rest].
        - split; [reflexivity|]. intros x. cbn. split; [intros []|].
          intros [_ [[_ [args [rest [=]]]]|[s [[] _]]]].
        - destruct (uapp_ok (UOk (if l then [] else ident_hits set id)) _ eq_refl Ps) as [P Q].
          split; [exact P|]. intros x. rewrite Q, in_app_iff, Qs. cbn [hits_of]. split.
          + intros [I|[S O]].
            * destruct l; [destruct I|]. apply ident_hits_in in I as [S ->]. split; [exact S|]. left. eauto.
            * split; [exact S|]. right. exact O.
          + intros [S [[-> [args [rest' [= <- <- <-]]]]|O]].
            * left. apply ident_hits_in. auto.
            * right. auto. }
      destruct HH as [Ph Qh]. cbn [uses_tp]. pose proof occ_path as OP. destruct declare eqn:D.
      + destruct (uapp_ok _ _ Ph Pq) as [P Q]. split; [exact P|]. intros x.
        rewrite Q, in_app_iff, Qh, Qq, OP. split.
        * intros [[S [A|B]]|[S [e [E O]]]]; (split; [exact S|]); auto. right. right. eauto.
        * intros [S [A|[B|[_ C]]]]; [left|left|right]; auto.
      + split; [exact Ph|]. intros x. rewrite Qh, OP. split.
        * intros [S [A|B]]; auto.
        * intros [S [A|[B|[C _]]]]; [auto|auto|discriminate].
    - apply (good_list_like NTraitObject); auto 10.
    - apply (good_list_like NImplTrait); auto 10.
    - intros _. split; [reflexivity|]. intros x. cbn. split; [intros []|intros [_ O]; inv_occ O].
    - intros K. discriminate.
    - intros _. split; [reflexivity|]. intros x. cbn. split; [intros []|intros [_ O]; inv_occ O].
    - apply (good_list_like NAngle); auto 10.
    - apply (good_fn_like NParenArgs); eauto.
    - intros K. destruct (IHn K) as [P Q]. split; [exact P|]. intros x.
      rewrite (occ_arg x n). apply Q.
    - intros _. split; [reflexivity|]. intros x. cbn. split; [intros []|intros [_ O]; inv_occ O].
    - (* Item<g> = t *)
      intros K. cbn [known] in K. apply andb_true_iff in K as [K1 K2].
      destruct (IHn1 K1) as [P1 Q1]. destruct (IHn2 K2) as [P2 Q2].
      cbn [uses_tp]. destruct (uapp_ok _ _ P1 P2) as [P Q]. split; [exact P|]. intros x.
      rewrite Q, in_app_iff, Q1, Q2, occ_assoc. tauto.
    - (* Item<g>: bounds *)
      intros K. cbn [known] in K. apply andb_true_iff in K as [K1 K2].
      destruct (IHn K1) as [P1 Q1]. destruct (all_good declare set bs H K2) as [P2 Q2].
      cbn [uses_tp]. destruct (uapp_ok _ _ P1 P2) as [P Q]. split; [exact P|]. intros x.
      rewrite Q, in_app_iff, Q1, Q2, occ_constraint. tauto.
    - intros _. split; [reflexivity|]. intros x. cbn. split; [intros []|intros [_ O]; inv_occ O].
    - intros K. destruct (IHn K) as [P Q]. split; [exact P|]. intros x. cbn [uses_tp]. rewrite Q.
      split; intros [S O]; (split; [exact S|]).
      + now apply OBoundTrait.
      + inv_occ O. assumption.
    - intros _. split; [reflexivity|]. intros x. cbn. split; [intros []|intros [_ O]; inv_occ O].
    - intros K. discriminate.
  Qed.
End Main.

(** ** Lifetimes: never a name outside the queried set. *)
Section Lt.
  Variable declare : purpose.
  Variable set : list string.

  Definition SubLt (n : node) : Prop :=
    forall x, In x (hits_of (uses_lt declare set n)) -> In x set.

  Lemma hits_uapp a b x : In x (hits_of (uapp a b)) -> In x (hits_of a) \/ In x (hits_of b).
  Proof. destruct a, b; cbn; try tauto. apply in_app_or. Qed.

  Lemma hits_uconcat l x : In x (hits_of (uconcat l)) -> exists r, In r l /\ In x (hits_of r).
  Proof.
    induction l as [|a r IH]; [intros []|]. change (uconcat (a :: r)) with (uapp a (uconcat r)).
    intros H. apply hits_uapp in H as [H|H]; [exists a; cbn; auto|].
    destruct (IH H) as [r' [I J]]. exists r'. cbn. auto.
  Qed.

  Lemma lt_hits_sub l x : In x (lt_hits set l) -> In x set.
  Proof. unfold lt_hits. rewrite filter_In. tauto. Qed.

  Lemma sub_all l : Forall SubLt l -> forall x, In x (hits_of (uconcat (map (uses_lt declare set) l))) -> In x set.
  Proof.
    intros F x H. apply hits_uconcat in H as [r [I J]]. apply in_map_iff in I as [e [<- I]].
    rewrite Forall_forall in F. now apply (F e I).
  Qed.

  Lemma sub_opt o : OptP SubLt o -> forall x,
    In x (hits_of (match o with Some y => uses_lt declare set y | None => UOk [] end)) -> In x set.
  Proof. destruct o; cbn; [intros H x; apply H|intros _ x []]. Qed.

  Theorem uses_lt_subset n : SubLt n.
  Proof.
    induction n using node_ind'; intros x; cbn [uses_lt]; try (apply IHn); try (intros []).
    - intros H. apply hits_uapp in H as [H|H]; [|now apply IHn].
      destruct l; [now apply lt_hits_sub in H|destruct H].
    - intros Hx. apply hits_uapp in Hx as [Hx|Hx]; [eapply sub_all; eauto|eapply sub_opt; eauto].
    - now apply sub_all.
    - assert (S : forall y, In y (hits_of (uconcat (map (fun s : string * node => uses_lt declare set (snd s)) segs))) -> In y set).
      { intros y Hy. apply hits_uconcat in Hy as [r [I J]]. apply in_map_iff in I as [s [<- I]].
        rewrite Forall_forall in H0. now apply (H0 s I). }
      pose proof (sub_opt q H) as SO. destruct declare.
      + intros Hx. apply hits_uapp in Hx as [Hx|Hx]; [now apply S|now apply SO].
      + apply S.
    - now apply sub_all.
    - now apply sub_all.
    - now apply sub_all.
    - intros Hx. apply hits_uapp in Hx as [Hx|Hx]; [eapply sub_all; eauto|eapply sub_opt; eauto].
    - cbn. apply lt_hits_sub.
    - intros Hx. apply hits_uapp in Hx as [Hx|Hx]; [now apply IHn1|now apply IHn2].
    - intros Hx. apply hits_uapp in Hx as [Hx|Hx]; [now apply IHn|eapply sub_all; eauto].
    - intros Hx. apply hits_uapp in Hx as [Hx|Hx]; [now apply IHn|].
      cbn in Hx. apply in_flat_map in Hx as [l [_ Hl]]. now apply lt_hits_sub in Hl.
    - cbn. apply lt_hits_sub.
  Qed.
End Lt.
