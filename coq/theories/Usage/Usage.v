(** Usage/Usage.v — generic-parameter usage analysis (core/src/usage/{type_params,lifetimes}.rs).
    [node] mirrors the parts of [syn::Type] the analysis walks: one tree type whose constructors
    are the syn node kinds (types, paths' argument lists, generic arguments, bounds). *)
From DarlingModel Require Export Base.Prelude.
Local Open Scope string_scope.

Inductive node : Type :=
(* syn::Type *)
| NSlice (elem : node)
| NArray (elem : node)                       (* the length expression is not inspected *)
| NPtr (elem : node)
| NRef (lt : option string) (elem : node)
| NBareFn (bound_lts : list string) (inputs : list node) (output : option node)
| NTuple (elems : list node)
| NParen (elem : node)
| NGroup (elem : node)
| NPath (qself : option node) (leading : bool) (segs : list (string * node))  (* segment: ident, arguments *)
| NTraitObject (bounds : list node)
| NImplTrait (bounds : list node)
| NOpaque                                    (* Type::Macro | Verbatim | Infer | Never *)
| NUnknownType                               (* any future syn::Type variant: the code panics *)
(* syn::PathArguments *)
| NArgsNone
| NAngle (args : list node)
| NParenArgs (inputs : list node) (output : option node)
(* syn::GenericArgument *)
| NArgType (t : node)
| NArgLifetime (lt : string)
| NArgAssocType (gen : node) (t : node)      (* Item<gen> = T; gen: the binding's own arguments, NArgsNone | NAngle *)
| NArgConstraint (gen : node) (bounds : list node)   (* Item<gen>: Bound *)
| NArgConst                                  (* Const | AssocConst: not inspected *)
(* syn::TypeParamBound *)
| NBoundTrait (bound_lts : list string) (path : node)
| NBoundLifetime (lt : string)
| NBoundOther.                               (* Verbatim | PreciseCapture (`use<..>`): contributes no use *)

(** [Purpose::Declare] = true, [Purpose::BoundImpl] = false. *)
Definition purpose := bool.

(** Result: the hits (as a list; the code's set) or a panic. *)
Inductive ures : Type := UOk (hits : list string) | UPanic (msg : string).

Definition uapp (a b : ures) : ures :=
  match a, b with
  | UOk x, UOk y => UOk (x ++ y)%list
  | UPanic m, _ => UPanic m
  | _, UPanic m => UPanic m
  end.

Definition uconcat (l : list ures) : ures := fold_right uapp (UOk []) l.

Definition mem (x : string) (s : list string) : bool := existsb (str_eqb x) s.

(** [impl UsesTypeParams for Ident]: the members of the query set equal to the ident. *)
Definition ident_hits (set : list string) (x : string) : list string := filter (str_eqb x) set.

Section TypeParams.
  Variable declare : purpose.
  Variable set : list string.

  Fixpoint uses_tp (n : node) : ures :=
    let all := fun l : list node => uconcat (map uses_tp l) in
    let opt := fun o : option node => match o with Some x => uses_tp x | None => UOk [] end in
    match n with
    | NSlice e | NArray e | NPtr e | NRef _ e | NParen e | NGroup e => uses_tp e
    | NBareFn _ ins out => uapp (all ins) (opt out)
    | NTuple es => all es
    | NPath q leading segs =>
        let hits :=
          match segs with
          | [] => UOk []
          | (id, _) :: _ =>
              uapp (UOk (if leading then [] else ident_hits set id))
                   (uconcat (map (fun s => uses_tp (snd s)) segs))
          end in
        if declare then uapp hits (opt q) else hits
    | NTraitObject bs | NImplTrait bs => all bs
    | NOpaque => UOk []
    | NUnknownType => UPanic "Unknown syn::Type"
    | NArgsNone => UOk []
    | NAngle args => all args
    | NParenArgs ins out => uapp (all ins) (opt out)
    | NArgType t => uses_tp t
    | NArgAssocType g t => uapp (uses_tp g) (uses_tp t)
    | NArgLifetime _ | NArgConst => UOk []
    | NArgConstraint g bs => uapp (uses_tp g) (all bs)
    | NBoundTrait _ p => uses_tp p
    | NBoundLifetime _ => UOk []
    | NBoundOther => UOk []
    end.

  (** a collection (fields, variants): the union of the members' answers *)
  Definition collect_tp (l : list node) : ures := uconcat (map uses_tp l).
End TypeParams.

Definition lt_hits (set : list string) (x : string) : list string := filter (str_eqb x) set.

Section Lifetimes.
  Variable declare : purpose.
  Variable set : list string.

  Fixpoint uses_lt (n : node) : ures :=
    let all := fun l : list node => uconcat (map uses_lt l) in
    let opt := fun o : option node => match o with Some x => uses_lt x | None => UOk [] end in
    let lts := fun l : list string => UOk (flat_map (lt_hits set) l) in
    match n with
    | NSlice e | NArray e | NPtr e | NParen e | NGroup e => uses_lt e
    | NRef lt e => uapp (UOk (match lt with Some l => lt_hits set l | None => [] end)) (uses_lt e)
    | NBareFn _ ins out => uapp (all ins) (opt out)        (* the for<..> binder is not inspected *)
    | NTuple es => all es
    | NPath q _ segs =>
        let hits := uconcat (map (fun s => uses_lt (snd s)) segs) in
        if declare then uapp hits (opt q) else hits
    | NTraitObject bs | NImplTrait bs => all bs
    | NOpaque => UOk []
    | NUnknownType => UPanic "Unknown syn::Type"
    | NArgsNone => UOk []
    | NAngle args => all args
    | NParenArgs ins out => uapp (all ins) (opt out)
    | NArgType t => uses_lt t
    | NArgAssocType g t => uapp (uses_lt g) (uses_lt t)
    | NArgLifetime l => UOk (lt_hits set l)
    | NArgConst => UOk []
    | NArgConstraint g bs => uapp (uses_lt g) (all bs)
    | NBoundTrait bl p => uapp (uses_lt p) (lts bl)
    | NBoundLifetime l => UOk (lt_hits set l)
    | NBoundOther => UOk []
    end.

  Definition collect_lt (l : list node) : ures := uconcat (map uses_lt l).
End Lifetimes.

(** ** The declarative reading: where an identifier denotes the parameter. *)
Section Occurs.
  Variable declare : purpose.
  Variable x : string.

  (** [occurs_tp n]: [x] occurs in [n] at a position where it denotes a type parameter. *)
  Inductive occurs_tp : node -> Prop :=
  | OThrough e n :                       (* through slices, arrays, pointers, references, parens, groups *)
      (n = NSlice e \/ n = NArray e \/ n = NPtr e \/ (exists l, n = NRef l e) \/ n = NParen e \/ n = NGroup e) ->
      occurs_tp e -> occurs_tp n
  | OFnIn bl ins out i : In i ins -> occurs_tp i -> occurs_tp (NBareFn bl ins out)
  | OFnOut bl ins o : occurs_tp o -> occurs_tp (NBareFn bl ins (Some o))
  | OTuple es e : In e es -> occurs_tp e -> occurs_tp (NTuple es)
  | OPathHead q args rest :              (* an unqualified leading path segment *)
      occurs_tp (NPath q false ((x, args) :: rest))
  | OPathArgs q leading segs s :         (* inside the generic arguments of any segment *)
      In s segs -> occurs_tp (snd s) -> occurs_tp (NPath q leading segs)
  | OPathQSelf q leading segs :        (* inside a qualified self: only for declaration purposes *)
      declare = true -> occurs_tp q -> occurs_tp (NPath (Some q) leading segs)
  | OBounds bs b n : (n = NTraitObject bs \/ n = NImplTrait bs \/ exists g, n = NArgConstraint g bs) ->
      In b bs -> occurs_tp b -> occurs_tp n
  | OAssocGen g n :                      (* inside the generic arguments written on an associated-type binding / constraint *)
      ((exists t, n = NArgAssocType g t) \/ (exists bs, n = NArgConstraint g bs)) -> occurs_tp g -> occurs_tp n
  | OAngle args a : In a args -> occurs_tp a -> occurs_tp (NAngle args)
  | OParenIn ins out i : In i ins -> occurs_tp i -> occurs_tp (NParenArgs ins out)
  | OParenOut ins o : occurs_tp o -> occurs_tp (NParenArgs ins (Some o))
  | OArg t n : (n = NArgType t \/ exists g, n = NArgAssocType g t) -> occurs_tp t -> occurs_tp n
  | OBoundTrait bl p : occurs_tp p -> occurs_tp (NBoundTrait bl p).
End Occurs.

(** No part of the tree is of a kind the code does not know. *)
Fixpoint known (n : node) : bool :=
  let all := fun l : list node => forallb known l in
  let opt := fun o : option node => match o with Some x => known x | None => true end in
  match n with
  | NSlice e | NArray e | NPtr e | NRef _ e | NParen e | NGroup e => known e
  | NBareFn _ ins out | NParenArgs ins out => all ins && opt out
  | NTuple es | NTraitObject es | NImplTrait es | NAngle es => all es
  | NArgConstraint g es => known g && all es
  | NPath q _ segs => opt q && forallb (fun s => known (snd s)) segs
  | NArgType t | NBoundTrait _ t => known t
  | NArgAssocType g t => known g && known t
  | NUnknownType | NBoundOther => false
  | _ => true
  end.
