(** Base/Syntax.v — the input language: what syn hands to darling (literals, expressions, paths,
    meta items), with every node carrying its source range and its token string; results and
    values of conversions.  Definitions only. *)
From DarlingModel Require Export Base.Prelude Err.ErrTree.
Local Open Scope string_scope.

(** Per node: [Spanned::span()] as a range, and [to_token_stream().to_string()]. *)
Record info : Type := mkInfo { i_span : span; i_toks : string }.

(** [syn::Path]: leading [::], segments as (ident as printed, generic-argument tokens or ""). *)
Record path : Type := mkPath { p_info : info; p_leading : bool; p_segs : list (string * string) }.

(** util/path_to_string.rs: idents joined by "::"; leading colon and arguments ignored. *)
(** a raw identifier ([r#type]) reads as the name it stands for *)
Definition unraw (s : string) : string :=
  match s with
  | String "r" (String "#" rest) => rest
  | _ => s
  end.
(** a global path ([::a]) is a different path from [a]: the leading colons are part of the name *)
Definition path_to_string (p : path) : string :=
  ((if p_leading p then "::" else "") ++ join "::" (map (fun seg => unraw (fst seg)) (p_segs p)))%string.

(** [syn::Path::get_ident] *)
Definition get_ident (p : path) : option string :=
  if p_leading p then None
  else match p_segs p with
       | [(id, args)] => if str_eqb args "" then Some id else None
       | _ => None
       end.

(** [Path::is_ident(s)] *)
Definition is_ident (p : path) (s : string) : bool :=
  match get_ident p with Some id => str_eqb id s | None => false end.

(** [syn::Lit].  String contents are UTF-8 bytes; a char is its scalar value; numeric literals
    are what syn lexed: [base10_digits()] (sign included for negative literals) and [suffix()]. *)
Inductive lit : Type :=
| LBool (b : bool)
| LStr (s : string)
| LChar (c : N)
| LInt (digits suffix : string)
| LFloat (digits suffix : string)
| LByte | LByteStr | LCStr | LVerbatim.

(** [syn::Expr], as far as darling distinguishes: [EOther] carries the variant's name as used by
    [Error::unexpected_expr_type] ("binary", "call", "closure", "range", "unary", ...). *)
Inductive expr : Type :=
| ELit (i : info) (l : lit)
| EGroup (i : info) (e : expr)           (* invisible delimiter group *)
| EPath (i : info) (p : path)
| EArray (i : info) (es : list expr)
| EOther (i : info) (kind : string)
| ENeg (i : info) (l : lit).            (* the negation of an integer / float literal: what syn makes of
                                           `name = -1` when another item follows; [l] is the negative literal *)

Definition einfo (e : expr) : info :=
  match e with
  | ELit i _ | EGroup i _ | EPath i _ | EArray i _ | EOther i _ | ENeg i _ => i
  end.

Fixpoint strip_groups (e : expr) : expr :=
  match e with EGroup _ g => strip_groups g | _ => e end.

(** [LitStr::parse] gives every token parsed out of a string literal the literal's own span. *)
Definition respan_info (s : span) (i : info) : info := mkInfo s (i_toks i).
Definition respan_path (s : span) (p : path) : path :=
  mkPath (respan_info s (p_info p)) (p_leading p) (p_segs p).
Fixpoint respan_expr (s : span) (e : expr) : expr :=
  match e with
  | ELit i l => ELit (respan_info s i) l
  | EGroup i g => EGroup (respan_info s i) (respan_expr s g)
  | EPath i p => EPath (respan_info s i) (respan_path s p)
  | EArray i es => EArray (respan_info s i) (map (respan_expr s) es)
  | EOther i k => EOther (respan_info s i) k
  | ENeg i l => ENeg (respan_info s i) l
  end.

(** [darling::ast::NestedMeta]; every constructor except [NLit] is a [syn::Meta].
    [NList]: a list whose tokens parse as nested items ([ti]: the delimited tokens' own range and
    text); [NBadList]: a list whose tokens [NestedMeta::parse_meta_list] rejects, with syn's
    error position and message. *)
Inductive nested : Type :=
| NLit (i : info) (l : lit)
| NPath (i : info) (p : path)
| NList (i : info) (p : path) (ti : info) (items : list nested)
| NBadList (i : info) (p : path) (ti : info) (es : span) (emsg : string)
| NNameValue (i : info) (p : path) (e : expr).

Definition ninfo (n : nested) : info :=
  match n with
  | NLit i _ | NPath i _ | NList i _ _ _ | NBadList i _ _ _ _ | NNameValue i _ _ => i
  end.

Definition is_meta (n : nested) : bool := match n with NLit _ _ => false | _ => true end.

(** [Meta::path()] (for a literal: none). *)
Definition meta_path (n : nested) : option path :=
  match n with
  | NLit _ _ => None
  | NPath _ p | NList _ p _ _ | NBadList _ p _ _ _ | NNameValue _ p _ => Some p
  end.

(** ** Results *)
Inductive res (A : Type) : Type :=
| Ok (a : A)
| Err (e : err)
| Panic (msg : string).
Arguments Ok {A} a.
Arguments Err {A} e.
Arguments Panic {A} msg.

Definition map_err {A} (f : err -> err) (r : res A) : res A :=
  match r with Err e => Err (f e) | _ => r end.
Definition map_ok {A B} (f : A -> B) (r : res A) : res B :=
  match r with Ok a => Ok (f a) | Err e => Err e | Panic m => Panic m end.
Definition bind {A B} (r : res A) (f : A -> res B) : res B :=
  match r with Ok a => f a | Err e => Err e | Panic m => Panic m end.

Definition is_ok {A} (r : res A) : bool := match r with Ok _ => true | _ => false end.
Definition is_err {A} (r : res A) : bool := match r with Err _ => true | _ => false end.
Definition is_panic {A} (r : res A) : bool := match r with Panic _ => true | _ => false end.

(** ** Values produced by conversions (the harness's [Dump] trait produces the same tree). *)
Inductive value : Type :=
| VUnit
| VBool (b : bool)
| VInt (z : Z)
| VChar (c : N)
| VStr (s : string)
| VFloat (bits : N)
| VToks (s : string)                       (* any syntax-typed value: its token string *)
| VNone
| VSome (v : value)
| VPtr (v : value)                         (* Box / Rc / Arc / RefCell *)
| VResOk (v : value)                       (* darling::Result<T> field: Ok *)
| VResErr (e : err)
| VResErrObs (o : obs)                     (* the same, as observed by the harness *)
| VMetaOk (v : value)                      (* Result<T, Meta> *)
| VMetaErr (toks : string)
| VInherit
| VExplicit (v : value)
| VSpanned (v : value) (s : span)
| VWithOrig (v : value) (toks : string)
| VFlag (s : option span)                  (* None = not present *)
| VList (vs : list value)
| VMap (kvs : list (string * value))       (* in insertion order; compared as sorted by the harness *)
| VStruct (fs : list (string * value))
| VVariant (name : string) (payload : list (string * value)).

(** Names used by [Error::unexpected_lit_type] / [unexpected_expr_type]. *)
Definition lit_type_name (l : lit) : string :=
  match l with
  | LStr _ => "string" | LByteStr => "byte string" | LByte => "byte" | LChar _ => "char"
  | LInt _ _ => "int" | LFloat _ _ => "float" | LBool _ => "bool" | LVerbatim => "verbatim"
  | LCStr => "unknown"
  end.

Definition expr_type_name (e : expr) : string :=
  match e with
  | ELit _ _ => "lit" | EGroup _ _ => "group" | EPath _ _ => "path" | EArray _ _ => "array"
  | EOther _ k => k
  | ENeg _ _ => "unary"
  end.

Definition unexpected_lit_type (i : info) (l : lit) : err :=
  with_span (i_span i) (new_err (KUnexpectedType (lit_type_name l))).
Definition unexpected_expr_type (e : expr) : err :=
  with_span (i_span (einfo e)) (new_err (KUnexpectedType (expr_type_name e))).
Definition unsupported_format (s : string) : err := new_err (KUnexpectedFormat s).
Definition unexpected_type (s : string) : err := new_err (KUnexpectedType s).
Definition unknown_value (s : string) : err := new_err (KUnknownValue s).
Definition custom (s : string) : err := new_err (KCustom s).
