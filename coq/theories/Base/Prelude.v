(** Base/Prelude.v — strings, spans and small helpers shared by every layer of the model.
    Definitions only (plus a few trivial lemmas about them). *)
From Coq Require Export List String Ascii NArith ZArith Bool Lia.
From Coq Require Import DecimalString.
Export ListNotations.

(** A span is a source range: (start line, start column, end line, end column), exactly what
    proc-macro2's [span-locations] feature reports.  Lines start at 1; [Span::call_site()]
    outside a macro is (0,0,0,0) and never the explicit span of anything parsed from text. *)
Definition span := (N * N * N * N)%type.

Definition span_eqb (a b : span) : bool :=
  let '(a1, a2, a3, a4) := a in
  let '(b1, b2, b3, b4) := b in
  (N.eqb a1 b1 && N.eqb a2 b2 && N.eqb a3 b3 && N.eqb a4 b4)%bool.

(** [span_inside a b]: range [a] lies inside range [b] (both ends, lexicographic line/column). *)
Definition pos_leb (l1 c1 l2 c2 : N) : bool :=
  (N.ltb l1 l2 || (N.eqb l1 l2 && N.leb c1 c2))%bool.
Definition span_inside (a b : span) : bool :=
  let '(a1, a2, a3, a4) := a in
  let '(b1, b2, b3, b4) := b in
  (pos_leb b1 b2 a1 a2 && pos_leb a3 a4 b3 b4)%bool.

Definition ospan_eqb (a b : option span) : bool :=
  match a, b with
  | None, None => true
  | Some x, Some y => span_eqb x y
  | _, _ => false
  end.

(** Strings. *)
Definition str_eqb (a b : string) : bool := String.eqb a b.

Fixpoint join (sep : string) (l : list string) : string :=
  match l with
  | [] => EmptyString
  | [x] => x
  | x :: r => (x ++ sep ++ join sep r)%string
  end.

Definition N_to_string (n : N) : string := NilEmpty.string_of_uint (N.to_uint n).
Definition Z_to_string (z : Z) : string :=
  match z with
  | Z0 => "0"%string
  | Zpos p => N_to_string (Npos p)
  | Zneg p => ("-" ++ N_to_string (Npos p))%string
  end.

Fixpoint list_eqb {A} (eqb : A -> A -> bool) (a b : list A) : bool :=
  match a, b with
  | [], [] => true
  | x :: a', y :: b' => (eqb x y && list_eqb eqb a' b')%bool
  | _, _ => false
  end.

Definition option_eqb {A} (eqb : A -> A -> bool) (a b : option A) : bool :=
  match a, b with
  | None, None => true
  | Some x, Some y => eqb x y
  | _, _ => false
  end.

Definition sumN (l : list N) : N := fold_right N.add 0%N l.

Lemma list_eqb_refl {A} (eqb : A -> A -> bool) :
  (forall x, eqb x x = true) -> forall l, list_eqb eqb l l = true.
Proof. intros H l; induction l as [|x l IH]; cbn; [reflexivity|]. now rewrite H, IH. Qed.

Lemma list_eqb_eq {A} (eqb : A -> A -> bool) :
  (forall x y, eqb x y = true -> x = y) -> forall a b, list_eqb eqb a b = true -> a = b.
Proof.
  intros H a; induction a as [|x a IH]; intros [|y b]; cbn; try discriminate; [reflexivity|].
  intros E. apply andb_true_iff in E as [E1 E2]. f_equal; [now apply H | now apply IH].
Qed.

(** Outcome of an operation that may panic (no error value involved). *)
Inductive pres (A : Type) : Type :=
| POk (a : A)
| PPanic (msg : string).
Arguments POk {A} a.
Arguments PPanic {A} msg.

(** Report helper used by every generated [cases_k.v]: render the indices of failing cases
    as one compact string so the driver never parses wrapped Coq terms.
    Each case yields (index, agree, holds); a case is listed when either flag is false. *)
Definition flag (b : bool) : string := if b then "T"%string else "F"%string.
Fixpoint report (l : list (N * bool * bool)) : string :=
  match l with
  | [] => EmptyString
  | (i, a, h) :: r =>
      if (a && h)%bool then report r
      else (N_to_string i ++ ":" ++ flag a ++ flag h ++ ";" ++ report r)%string
  end.
