(** Properties/C12.v — Wrapper types are transparent over the wrapped conversion.
    Every statement is for an arbitrary inner implementer [T : fm] (any set of overridden hooks,
    any behaviour) and an arbitrary meta item.  Statements only. *)
From DarlingModel Require Import Conv.Routing Conv.Scalars Conv.Wrappers Conv.WrapperProofs.

Theorem C12_option :
  forall (T : fm) (m : nested),
    from_meta (option_fm T) m = map_ok VSome (from_meta T m) /\ from_none (option_fm T) = Some VNone.
Proof. exact (fun T m => conj (option_transparent T m) (option_absent T)). Qed.
Print Assumptions C12_option.

Theorem C12_smart_pointer :
  forall (T : fm) (m : nested) (items : list nested),
    from_meta (ptr_fm T) m = map_ok VPtr (from_meta T m)
    /\ from_list (ptr_fm T) items = map_ok VPtr (from_list T items)
    /\ from_none (ptr_fm T) = option_map VPtr (from_none T).
Proof. exact (fun T m items => conj (ptr_transparent T m) (conj (ptr_list T items) (ptr_absent T))). Qed.
Print Assumptions C12_smart_pointer.

Theorem C12_result_never_fails :
  forall (T : fm) (m : nested),
    (forall e, from_meta (result_fm T) m <> Err e)
    /\ from_meta (result_fm T) m =
         match from_meta T m with
         | Ok v => Ok (VResOk v) | Err e => Ok (VResErr e) | Panic msg => Panic msg
         end
    /\ from_none (result_fm T) = option_map VResOk (from_none T).
Proof.
  exact (fun T m => conj (result_never_fails T m) (conj (result_holds_outcome T m) (result_absent T))).
Qed.
Print Assumptions C12_result_never_fails.

Theorem C12_result_meta_keeps_original :
  forall (T : fm) (m : nested),
    (forall e, from_meta (result_meta_fm T) m <> Err e)
    /\ from_meta (result_meta_fm T) m =
         match from_meta T m with
         | Ok v => Ok (VMetaOk v)
         | Err _ => Ok (VMetaErr (i_toks (ninfo m)))
         | Panic msg => Panic msg
         end.
Proof. exact (fun T m => conj (result_meta_never_fails T m) (result_meta_keeps_original T m)). Qed.
Print Assumptions C12_result_meta_keeps_original.

(** SpannedValue: T's value with the value's own source range (the word, the list's tokens, the
    expression after [=]); T's error, spanned at the item unless already spanned. *)
Theorem C12_spanned_value_span_is_value_range :
  forall (T : fm) (m : nested),
    from_meta (spanned_fm T) m =
      match from_meta T m with
      | Ok v => Ok (VSpanned v (spanned_span m))
      | Err e => Err (with_span (i_span (ninfo m)) e)
      | Panic msg => Panic msg
      end.
Proof. exact spanned_meta. Qed.
Print Assumptions C12_spanned_value_span_is_value_range.

Theorem C12_with_original_copies_item :
  forall (T : fm) (m : nested),
    from_meta (with_original_fm T) m =
      match from_meta T m with
      | Ok v => Ok (VWithOrig v (i_toks (ninfo m)))
      | Err e => Err e
      | Panic msg => Panic msg
      end.
Proof. exact with_original_meta. Qed.
Print Assumptions C12_with_original_copies_item.

(** Override<T>: the bare word is Inherit; every other form is exactly T. *)
Theorem C12_override_transparent_non_word :
  forall (T : fm) (m : nested),
    (forall i p, m <> NPath i p) ->
    from_meta (override_fm T) m = map_ok VExplicit (from_meta T m).
Proof. exact override_transparent_non_word. Qed.
Print Assumptions C12_override_transparent_non_word.

Theorem C12_override_word :
  forall (T : fm) i p, from_meta (override_fm T) (NPath i p) = Ok VInherit.
Proof. exact override_word. Qed.
Print Assumptions C12_override_word.

(** When the item is absent. *)
Theorem C12_absent_table :
  forall T : fm,
    from_none (option_fm T) = Some VNone
    /\ from_none flag_fm = Some (VFlag None)
    /\ from_none (ptr_fm T) = option_map VPtr (from_none T)
    /\ from_none (result_fm T) = option_map VResOk (from_none T)
    /\ from_none (result_meta_fm T) = None
    /\ from_none (spanned_fm T) = None
    /\ from_none (with_original_fm T) = None
    /\ from_none (override_fm T) = None.
Proof.
  exact (fun T => conj (option_absent T) (conj flag_absent (conj (ptr_absent T) (conj (result_absent T)
          (conj (result_meta_absent T) (conj (spanned_absent T) (conj (with_original_absent T) (override_absent T)))))))).
Qed.
Print Assumptions C12_absent_table.

(** Two-level compositions are instances of the above. *)
Theorem C12_two_level_examples :
  forall (T : fm) (m : nested),
    from_meta (option_fm (ptr_fm T)) m = map_ok VSome (map_ok VPtr (from_meta T m))
    /\ from_meta (ptr_fm (option_fm T)) m = map_ok VPtr (map_ok VSome (from_meta T m)).
Proof. exact (fun T m => conj (option_ptr_transparent T m) (ptr_option_transparent T m)). Qed.
Print Assumptions C12_two_level_examples.
