(** Properties/C09.v — Derived enum receivers select exactly one declared, non-skipped variant.
    Statements only.  [E] is the implementer the derive generates for an enum with container
    options [c], word variant [wordv] and variants [vs] (each with effective name, skip flag,
    style and fields of arbitrary types) - for ANY such enum, any user callables, any oracle. *)
From DarlingModel Require Import Run.Recv Run.EnumProofs Run.NameProofs.
Local Open Scope string_scope.
Local Open Scope list_scope.

Section C09.
  Variable pf : bool -> string -> option N.
  Variable reparse : grammar -> string -> option string.
  Variable reparse_arr : string -> option expr.
  Variable reparse_preds : string -> option (list string).
  Variable sugg : bool.
  Variable sim : string -> string -> N.
  Variable interp_with : fnid -> nested -> res value.
  Variable interp_fn : fnid -> value -> res value.
  Notation impl := (impl_of pf reparse reparse_arr reparse_preds sugg sim interp_with interp_fn).
  Notation vconvs := (vconvs_of pf reparse reparse_arr reparse_preds sugg sim interp_with interp_fn).

  (** The list form requires exactly one nested item: none is too-few-items, two or more -
      any number - is too-many-items (reported at the first surplus item), a single literal is rejected
      (reported at the literal). *)
  Theorem C09_list_arity :
    forall c wordv vs,
      from_list (impl (TEnumR c wordv vs)) [] = Err (new_err (KTooFewItems 1))
      /\ (forall a b r, from_list (impl (TEnumR c wordv vs)) (a :: b :: r)
                         = Err (with_span (i_span (ninfo b)) (new_err (KTooManyItems 1))))
      /\ (forall i l, from_list (impl (TEnumR c wordv vs)) [NLit i l]
                      = Err (with_span (i_span i) (unsupported_format "literal"))).
  Proof.
    exact (fun c wordv vs => conj (enum_from_list_none sugg sim interp_with interp_fn vs (vconvs vs))
             (conj (enum_from_list_many sugg sim interp_with interp_fn vs (vconvs vs))
                   (enum_from_list_literal sugg sim interp_with interp_fn vs (vconvs vs)))).
  Qed.

  (** One nested item selects the first non-skipped variant whose effective name equals the
      item's name and runs that variant's arm (unit: the item must be a bare word; newtype:
      delegate to the inner type, errors located under the variant's name; struct variant: a
      struct receiver, errors located under the variant's name); no such variant: an
      unknown-field error at the item. *)
  Theorem C09_list_selects_by_name :
    forall c wordv vs it, is_meta it = true ->
      from_list (impl (TEnumR c wordv vs)) [it] =
        match select vs (item_name it) with
        | Some v => arm_body sugg sim interp_with interp_fn v (convs_for vs (vconvs vs) (item_name it)) it
        | None => Err (with_span (i_span (ninfo it))
                         (new_err (KUnknownField (item_name it)
                                     (did_you_mean sugg sim (item_name it) (variant_names vs)))))
        end.
  Proof.
    exact (fun c wordv vs it M =>
             enum_from_list_one sugg sim interp_with interp_fn vs (vconvs vs) it M
               (vconvs_length pf reparse reparse_arr reparse_preds sugg sim interp_with interp_fn vs)).
  Qed.

  (** The string form selects a unit variant by name, or a same-named newtype variant whose
      inner type has a value-for-absent; a struct variant and an unknown name are errors. *)
  Theorem C09_string_selects_unit_or_absentable_newtype :
    forall c wordv vs s,
      from_string (impl (TEnumR c wordv vs)) s =
        match select vs s with
        | Some v => str_body v (convs_for vs (vconvs vs) s)
        | None => Err (unknown_value s)
        end.
  Proof.
    exact (fun c wordv vs s =>
             enum_from_string_spec vs (vconvs vs) s
               (vconvs_length pf reparse reparse_arr reparse_preds sugg sim interp_with interp_fn vs)).
  Qed.

  (** A skipped variant can never be produced - by the list form ... *)
  Theorem C09_skipped_never_produced_by_list :
    forall c wordv vs outer x,
      from_list (impl (TEnumR c wordv vs)) outer = Ok x ->
      exists it v payload,
        outer = [it] /\ is_meta it = true /\ select vs (item_name it) = Some v
        /\ In v vs /\ vi_skip (fst v) = false /\ vi_name (fst v) = item_name it
        /\ x = VVariant (vi_ident (fst v)) payload.
  Proof.
    exact (fun c wordv vs outer x =>
             enum_from_list_ok sugg sim interp_with interp_fn vs (vconvs vs) outer x
               (vconvs_length pf reparse reparse_arr reparse_preds sugg sim interp_with interp_fn vs)).
  Qed.

  (** ... or by the string form (which reaches unit and newtype variants only). *)
  Theorem C09_skipped_never_produced_by_string :
    forall c wordv vs s x,
      from_string (impl (TEnumR c wordv vs)) s = Ok x ->
      exists v payload,
        select vs s = Some v /\ In v vs /\ vi_skip (fst v) = false /\ vi_name (fst v) = s
        /\ x = VVariant (vi_ident (fst v)) payload
        /\ (vi_style (fst v) = VsUnit \/ vi_style (fst v) = VsNewtype).
  Proof.
    exact (fun c wordv vs s x =>
             enum_from_string_ok vs (vconvs vs) s x
               (vconvs_length pf reparse reparse_arr reparse_preds sugg sim interp_with interp_fn vs)).
  Qed.

  (** The bare-word and absent forms succeed only through a declared word variant /
      from_word / from_none. *)
  Theorem C09_word_and_absent_only_if_declared :
    forall c wordv vs,
      from_word (impl (TEnumR c wordv vs)) =
        match ci_from_word c, wordv with
        | Some f, _ => interp_fn f VUnit
        | None, Some vid => Ok (VVariant vid [])
        | None, None => Err (unsupported_format "word")
        end
      /\ from_none (impl (TEnumR c wordv vs)) =
           match ci_from_none c with
           | Some f => match interp_fn f VUnit with Ok (VSome v) => Some v | _ => None end
           | None => None
           end.
  Proof.
    exact (fun c wordv vs =>
             conj (enum_word_form pf reparse reparse_arr reparse_preds sugg sim interp_with interp_fn c wordv vs)
                  (enum_absent_form pf reparse reparse_arr reparse_preds sugg sim interp_with interp_fn c wordv vs)).
  Qed.

  (** Every other input is an error rather than a silently chosen variant. *)
  Theorem C09_everything_else_is_error :
    forall c wordv vs,
      (forall b, from_bool (impl (TEnumR c wordv vs)) b = Err (unexpected_type "bool"))
      /\ (forall ch, from_char (impl (TEnumR c wordv vs)) ch = Err (unexpected_type "char"))
      /\ (forall i l, (forall s, l <> LStr s) -> is_err (from_value (impl (TEnumR c wordv vs)) i l) = true)
      /\ (forall e, (forall j s, strip_groups e <> ELit j (LStr s)) -> is_err (from_expr (impl (TEnumR c wordv vs)) e) = true).
  Proof.
    exact (enum_other_forms pf reparse reparse_arr reparse_preds sugg sim interp_with interp_fn).
  Qed.
End C09.

(** The name by which a variant is selected is unique in effect: of two non-skipped variants
    with the same effective name only the first is reachable (what [find] means). *)
Theorem C09_select_is_first_match :
  forall vs n v, select vs n = Some v ->
    exists pre post, vs = pre ++ v :: post /\ forall w, In w pre -> selectable n w = false.
Proof.
  intros vs n v H. unfold select in H. induction vs as [|x r IH]; cbn [find] in H; [discriminate|].
  destruct (selectable n x) eqn:S.
  - injection H as <-. exists [], r. split; [reflexivity|]. intros w [].
  - destruct (IH H) as [pre [post [-> Hp]]]. exists (x :: pre), post. split; [reflexivity|].
    intros w [<-|Hw]; [assumption|now apply Hp].
Qed.

(** How the single item names a variant: a raw identifier is the name it stands for ([r#type]
    names [type], the only way to write that name as an item), and a global path ([::name]) is a
    different name - it selects no variant declared without leading colons. *)
Theorem C09_item_name_raw_and_global :
  (forall i s, path_to_string (mkPath i false [(("r#" ++ s)%string, "")]) = s)
  /\ (forall i s, String.prefix "r#" s = false -> path_to_string (mkPath i false [(s, "")]) = s)
  /\ (forall (vs : list (vinfo * list (finfo * ty))) p,
        p_leading p = true -> Forall (fun v => String.prefix "::" (vi_name (fst v)) = false) vs ->
        select vs (path_to_string p) = None).
Proof. exact (conj path_to_string_raw (conj path_to_string_plain global_path_selects_no_variant)). Qed.

Print Assumptions C09_list_arity.
Print Assumptions C09_item_name_raw_and_global.
Print Assumptions C09_list_selects_by_name.
Print Assumptions C09_string_selects_unit_or_absentable_newtype.
Print Assumptions C09_skipped_never_produced_by_list.
Print Assumptions C09_skipped_never_produced_by_string.
Print Assumptions C09_word_and_absent_only_if_declared.
Print Assumptions C09_everything_else_is_error.
Print Assumptions C09_select_is_first_match.
