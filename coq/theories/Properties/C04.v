(** Properties/C04.v — Error trees: count, flatten, location paths and rendering obey their algebra.
    Statements only; every proof is [exact <lemma>] and is followed by [Print Assumptions]. *)
From DarlingModel Require Import Err.ErrTree Err.Builder Err.ErrProofs.
Local Open Scope list_scope.

(** Every error value obtainable through the public API — any interleaving of constructors,
    [at], [with_span], [multiple], [flatten], [clone], [into_iter], sibling alternates — is a
    proper tree: every bundle has at least two members. *)
Theorem C04_reachable_proper :
  forall sugg sim (b : bexpr) (e : err), eval sugg sim b = BOk e -> proper e = true.
Proof. exact eval_proper. Qed.
Print Assumptions C04_reachable_proper.

(** ... and building one panics only through a literal [multiple(vec![])]. *)
Theorem C04_only_empty_multiple_panics :
  forall sugg sim (b : bexpr), no_empty_multiple b = true -> forall m, eval sugg sim b <> BPanic m.
Proof. exact eval_no_panic. Qed.
Print Assumptions C04_only_empty_multiple_panics.

(** The reported count is the number of leaves, for every ancestor path / inherited span. *)
Theorem C04_len_counts_leaves :
  forall (e : err) pre inh, len e = N.of_nat (List.length (leaves pre inh e)).
Proof. exact len_leaves. Qed.
Print Assumptions C04_len_counts_leaves.

(** ... and is at least 1. *)
Theorem C04_len_at_least_one : forall e : err, proper e = true -> (1 <= len e)%N.
Proof. exact (fun e P => wf_len_pos e (proper_wf e P)). Qed.
Print Assumptions C04_len_at_least_one.

(** A bundle of one is that one. *)
Theorem C04_multiple_singleton : forall e : err, multiple [e] = POk e.
Proof. exact (fun e => eq_refl). Qed.
Print Assumptions C04_multiple_singleton.

(** Flattening succeeds and yields exactly the leaves, left to right, each with the full
    outer-to-inner path of its ancestors followed by its own; a flattened bundle itself has no
    location. *)
Theorem C04_flatten_leaves_in_order_with_full_paths :
  forall e : err, proper e = true ->
  exists f, flatten e = POk f
    /\ forallb is_leaf (into_iter f) = true
    /\ flat_map leaf_view (into_iter f) = leaves [] None e
    /\ (is_leaf f = false -> locs_of f = [] /\ span_of f = None).
Proof. exact flatten_members. Qed.
Print Assumptions C04_flatten_leaves_in_order_with_full_paths.

(** Flattening twice equals flattening once. *)
Theorem C04_flatten_idempotent : forall e f : err, flatten e = POk f -> flatten f = POk f.
Proof. exact flatten_idempotent. Qed.
Print Assumptions C04_flatten_idempotent.

(** Display = kind-specific message, then " at a/b/c" exactly when a path exists. *)
Theorem C04_display :
  (forall e : err, display e = (body_msg e ++ locs_suffix (locs_of e))%string)
  /\ locs_suffix [] = ""%string
  /\ (forall x l, locs_suffix (x :: l) = (" at " ++ join "/" (x :: l))%string)
  /\ (forall k l s, body_msg (Leaf k l s) = kind_msg k).
Proof. exact (conj display_split (conj eq_refl (conj (fun _ _ => eq_refl) (fun _ _ _ => eq_refl)))). Qed.
Print Assumptions C04_display.

(** Conversion to compiler output: exactly one diagnostic per leaf, in order, with the leaf's
    message (its path is appended only when the diagnostic falls back to the call site). *)
Theorem C04_one_diagnostic_per_leaf :
  forall e : err, proper e = true -> to_syn e = POk (map leaf_diag (leaves [] None e)).
Proof. exact to_syn_spec. Qed.
Print Assumptions C04_one_diagnostic_per_leaf.

(** Iteration is one level deep. *)
Theorem C04_into_iter_one_level :
  forall e : err, into_iter e = match e with Multi es _ _ => es | Leaf _ _ _ => [e] end.
Proof. exact into_iter_spec. Qed.
Print Assumptions C04_into_iter_one_level.
