(** Properties/C15.v — Attribute syntax is split into items and routed to conversion hooks by form.
    Statements only. *)
From DarlingModel Require Import Conv.Routing Conv.RoutingProofs Conv.ListParse Conv.ListParseProofs.
Local Open Scope string_scope.

(** * A. Lists.  Over a pre-lexed stream (one row per token tree: syn's look-ahead bits and the
    extent syn's own Lit / Meta parser would consume there), [parse_meta_list] accepts exactly
    the comma-separated sequences of items with optional trailing comma, possibly empty, and
    returns the items in order. *)
Theorem C15_accepts_exactly_comma_lists :
  forall (tbl : list row) (items : list pitem),
    lens_positive tbl -> (parse_meta_list tbl = Some items <-> Seq tbl 0 items).
Proof. exact parse_meta_list_spec. Qed.
Print Assumptions C15_accepts_exactly_comma_lists.

Theorem C15_items_in_stream_order :
  forall (tbl : list row) p (items : list pitem), Seq tbl p items ->
    forall it, In it items -> match it with PItem _ s _ => (p <= s)%nat end.
Proof. exact seq_ordered. Qed.
Print Assumptions C15_items_in_stream_order.

(** Classification: [true] alone is a literal; [true = ...], a path starting with [::] and a
    keyword-led path are handed to the item parser; anything else cannot start an item. *)
Theorem C15_classification :
  (forall r, peek_lit r = true -> peek_litbool r = true -> peek2_eq r = false -> classify r = RLit)
  /\ (forall r, peek_litbool r = true -> peek2_eq r = true -> peek_ident r = true -> classify r = RMeta)
  /\ (forall r, peek_lit r = false -> peek_colon2 r = true -> peek3_ident r = true -> classify r = RMeta)
  /\ (forall r, peek_lit r = false -> peek_ident r = true -> classify r = RMeta)
  /\ (forall r, peek_lit r = true -> peek_litbool r = false -> classify r = RLit)
  /\ (forall r, peek_lit r = false -> peek_ident r = false -> peek_colon2 r = false -> classify r = RError).
Proof.
  exact (conj classify_bare_bool (conj classify_bool_eq (conj classify_global_path
          (conj classify_ident (conj classify_literal classify_other))))).
Qed.
Print Assumptions C15_classification.

(** * B. Routing.  For ANY implementer [F] (any subset of overridden hooks, any behaviour):
    each item reaches exactly one hook determined by its form alone. *)
Theorem C15_exactly_one_hook_by_form :
  forall F : fm,
    (forall i p, default_from_meta F (NPath i p) = ws i (from_word F))
    /\ (forall i p ti items, default_from_meta F (NList i p ti items) = ws i (from_list F items))
    /\ (forall i p ti es msg, default_from_meta F (NBadList i p ti es msg)
                              = Err (Leaf (KCustom msg) [] (Some es)))
    /\ (forall i p e, default_from_meta F (NNameValue i p e) = ws i (from_expr F e))
    /\ (forall e j l, strip_groups e = ELit j l -> default_from_expr F e = ws j (from_value F j l))
    /\ (forall e j l, strip_groups e = ENeg j l -> is_numeric l = true -> default_from_expr F e = ws j (from_value F j l))
    /\ (forall i b, default_from_value F i (LBool b) = ws i (from_bool F b))
    /\ (forall i s, default_from_value F i (LStr s) = ws i (from_string F s))
    /\ (forall i c, default_from_value F i (LChar c) = ws i (from_char F c))
    /\ (forall i l, default_from_nested F (NLit i l) = ws i (from_value F i l))
    /\ (forall n, is_meta n = true -> default_from_nested F n = ws (ninfo n) (from_meta F n)).
Proof.
  exact (fun F => conj (route_word F) (conj (route_list F) (conj (route_bad_list F) (conj (route_name_value F)
          (conj (route_expr_lit F) (conj (route_expr_neg F) (conj (route_value_bool F) (conj (route_value_string F)
          (conj (route_value_char F) (conj (route_nested_lit F) (route_nested_meta F))))))))))).
Qed.
Print Assumptions C15_exactly_one_hook_by_form.

(** Invisible groups are exactly transparent, at any nesting depth. *)
Theorem C15_groups_transparent :
  forall (F : fm) (e : expr), default_from_expr F e = default_from_expr F (strip_groups e).
Proof. exact default_from_expr_strip. Qed.
Print Assumptions C15_groups_transparent.

(** Hooks left at their default reject with the documented kind of error; a generic literal
    and a non-literal expression are rejected by the dispatchers themselves. *)
Theorem C15_defaults_reject_with_documented_kind :
  forall F : fm,
    (o_word F = None -> from_word F = Err (Leaf (KUnexpectedFormat "word") [] None))
    /\ (o_list F = None -> forall items, from_list F items = Err (Leaf (KUnexpectedFormat "list") [] None))
    /\ (o_bool F = None -> forall b, from_bool F b = Err (Leaf (KUnexpectedType "bool") [] None))
    /\ (o_string F = None -> forall s, from_string F s = Err (Leaf (KUnexpectedType "string") [] None))
    /\ (o_char F = None -> forall c, from_char F c = Err (Leaf (KUnexpectedType "char") [] None))
    /\ (o_none F = None -> from_none F = None).
Proof. exact default_rejections. Qed.
Print Assumptions C15_defaults_reject_with_documented_kind.

Theorem C15_generic_literal_and_expression_rejected :
  forall F : fm,
    (forall i l, (forall b, l <> LBool b) -> (forall s, l <> LStr s) -> (forall c, l <> LChar c) ->
       default_from_value F i l = Err (Leaf (KUnexpectedType (lit_type_name l)) [] (Some (i_span i))))
    /\ (forall e, (forall j l, strip_groups e <> ELit j l) -> (forall j l, strip_groups e <> ENeg j l) ->
          default_from_expr F e = Err (unexpected_expr_type (strip_groups e))).
Proof. exact (fun F => conj (route_value_other F) (route_expr_other F)). Qed.
Print Assumptions C15_generic_literal_and_expression_rejected.

(** An error returned by any hook comes back carrying a span, and unchanged if it already
    carried one. *)
Theorem C15_hook_error_gets_item_span_unless_spanned :
  forall F : fm,
    (forall n x, default_from_nested F n = Err x -> span_of x <> None)
    /\ (forall m x, is_meta m = true -> default_from_meta F m = Err x -> span_of x <> None)
    /\ (forall e x, default_from_expr F e = Err x -> span_of x <> None)
    /\ (forall i (e : err), span_of e <> None -> ws (A:=value) i (Err e) = Err e).
Proof.
  exact (fun F => conj (default_from_nested_err_spanned F) (conj (default_from_meta_err_spanned' F)
          (conj (default_from_expr_err_spanned F) (fun i e => ws_keeps_spanned i e)))).
Qed.
Print Assumptions C15_hook_error_gets_item_span_unless_spanned.
