(** Properties/C16.v — placeholder until the partition theorems are in (Run/OuterProofs.v). *)
From DarlingModel Require Import Run.Outer.
Theorem C16_placeholder : True. Proof. exact I. Qed.
