(** Properties/C16.v — Magic fields and body conversion mirror the input element faithfully.
    Statements only; for any element converters, any receivers, any user callables. *)
From DarlingModel Require Import Run.Recv Run.Outer Run.OuterProofs.
Local Open Scope string_scope.
Local Open Scope list_scope.

(** Converting a list of elements succeeds exactly when every element converts, and then keeps
    one entry per element, in order. *)
Theorem C16_elementwise_ok_iff_all_ok :
  forall rs k v, accumulate rs k = Ok v <-> Forall (fun r => is_ok r = true) rs /\ v = k (oks rs).
Proof. exact accumulate_ok. Qed.

(** Otherwise it fails exactly when some element fails, and reports ALL failures in one bundle,
    in order (leaf count = sum over the failing elements). *)
Theorem C16_elementwise_reports_all :
  forall rs k,
    (forall e, accumulate rs k = Err e ->
       errs_of rs <> [] /\ multiple (errs_of rs) = POk e /\ len e = sumN (map len (errs_of rs)))
    /\ (first_panic rs = None ->
        (is_err (accumulate rs k) = true <-> exists r, In r rs /\ is_err r = true)).
Proof. exact (fun rs k => conj (accumulate_err rs k) (accumulate_fails_iff rs k)). Qed.

Section C16.
  Variable pf : bool -> string -> option N.
  Variable reparse : grammar -> string -> option string.
  Variable reparse_arr : string -> option expr.
  Variable reparse_preds : string -> option (list string).
  Variable sugg : bool.
  Variable sim : string -> string -> N.
  Variable interp_with : fnid -> nested -> res value.
  Variable interp_fn : fnid -> value -> res value.
  Variable interp_attrs : fnid -> list attribute -> res value.
  Notation fields_try_from := (fields_try_from pf reparse reparse_arr reparse_preds sugg sim interp_with interp_fn interp_attrs).
  Notation fields_results := (fields_results pf reparse reparse_arr reparse_preds sugg sim interp_with interp_fn interp_attrs).
  Notation data_try_from := (data_try_from pf reparse reparse_arr reparse_preds sugg sim interp_with interp_fn interp_attrs).
  Notation from_variant := (from_variant pf reparse reparse_arr reparse_preds sugg sim interp_with interp_fn interp_attrs).
  Notation from_field := (from_field pf reparse reparse_arr reparse_preds sugg sim interp_with interp_fn interp_attrs).

  (** `fields`: the input's style, exactly one converted entry per input field, in source order. *)
  Theorem C16_fields_same_style_count_order :
    forall fc style fs v,
      fields_try_from fc style fs = Ok v ->
      exists vals, v = fields_value style vals
                   /\ List.length vals = List.length fs
                   /\ map Some vals = map val_of (fields_results fc style fs).
  Proof. exact (fields_try_from_ok pf reparse reparse_arr reparse_preds sugg sim interp_with interp_fn interp_attrs). Qed.

  (** `data`: the input body's kind; a union is an error. *)
  Theorem C16_data_same_kind :
    forall vc fc,
      data_try_from vc fc DUnion = Err (custom "Unions are not supported")
      /\ (forall vs v, data_try_from vc fc (DEnum vs) = Ok v ->
            exists vals, v = VVariant "Enum" [("0", VList vals)]
                         /\ List.length vals = List.length vs
                         /\ map Some vals = map val_of (map (from_variant vc) vs))
      /\ (forall style fs v, data_try_from vc fc (DStruct style fs) = Ok v ->
            exists vals, v = VVariant "Struct" [("0", fields_value style vals)]
                         /\ List.length vals = List.length fs).
  Proof.
    exact (fun vc fc =>
             conj (data_try_from_union pf reparse reparse_arr reparse_preds sugg sim interp_with interp_fn interp_attrs vc fc)
               (conj (data_try_from_enum_ok pf reparse reparse_arr reparse_preds sugg sim interp_with interp_fn interp_attrs vc fc)
                     (data_try_from_struct_ok pf reparse reparse_arr reparse_preds sugg sim interp_with interp_fn interp_attrs vc fc))).
  Qed.

  (** A failing enum body reports, in source order, the error of EVERY failing variant, each located
      under the name of its variant (as the errors of named fields are under the field's name). *)
  Theorem C16_failing_variants_all_reported_and_located :
    forall vc fc vs e,
      data_try_from vc fc (DEnum vs) = Err e ->
      let errs := flat_map (fun ve => match from_variant vc ve with Err x => [at_ (ve_ident ve) x] | _ => [] end) vs in
      errs <> [] /\ multiple errs = POk e.
  Proof. exact (data_try_from_enum_err pf reparse reparse_arr reparse_preds sugg sim interp_with interp_fn interp_attrs). Qed.

  (** `generics` mirrored through [ast::Generics]: the where-clause unchanged, one entry per
      parameter in order; when it fails, every failing parameter is reported, in order. *)
  Theorem C16_generics_mirror :
    forall tc g,
      (forall v, from_generics pf reparse reparse_arr reparse_preds sugg sim interp_with interp_fn interp_attrs (GcMirror tc) g = Ok v ->
         exists vals, v = VStruct [("params", VList vals); ("where_clause", opt_toks (g_where g))]
                      /\ List.length vals = List.length (g_params g))
      /\ (forall e, from_generics pf reparse reparse_arr reparse_preds sugg sim interp_with interp_fn interp_attrs (GcMirror tc) g = Err e ->
           let es := errs_of (map (param_result pf reparse reparse_arr reparse_preds sugg sim interp_with interp_fn interp_attrs tc) (g_params g)) in
           es <> [] /\ multiple es = POk e /\ len e = sumN (map len es)).
  Proof.
    intros tc g. split.
    - intros v H. destruct (generics_mirror_ok pf reparse reparse_arr reparse_preds sugg sim interp_with interp_fn interp_attrs tc g v H) as [vals [E [L _]]].
      exists vals. split; assumption.
    - exact (generics_mirror_err pf reparse reparse_arr reparse_preds sugg sim interp_with interp_fn interp_attrs tc g).
  Qed.

  (** The magic members of a field receiver are exactly the field's identifier, visibility and
      type, in that order before everything else. *)
  Theorem C16_field_members_are_projections :
    forall b pass fe v,
      from_field (FcRecv b pass) fe = Ok v -> ci_post (ob_c b) = None -> forallb field_member pass = true ->
      exists tail, v = VStruct (map (fun m => (m, field_part fe m)) pass ++ tail).
  Proof. exact (field_members_are_projections pf reparse reparse_arr reparse_preds sugg sim interp_with interp_fn interp_attrs). Qed.

  (** The built-in element targets are projections too. *)
  Theorem C16_builtin_field_targets :
    forall fe,
      from_field FcField fe = Ok (VToks (i_toks (fe_info fe)))
      /\ from_field FcType fe = Ok (VToks (fe_ty fe))
      /\ from_field FcVis fe = Ok (VToks (fe_vis fe))
      /\ from_field FcAttrs fe = Ok (VList (map attr_toks (fe_attrs fe)))
      /\ from_field FcUnit fe = Ok VUnit.
  Proof. intros fe. repeat split. Qed.
End C16.

Print Assumptions C16_elementwise_ok_iff_all_ok.
Print Assumptions C16_elementwise_reports_all.
Print Assumptions C16_fields_same_style_count_order.
Print Assumptions C16_data_same_kind.
Print Assumptions C16_field_members_are_projections.
Print Assumptions C16_builtin_field_targets.
Print Assumptions C16_failing_variants_all_reported_and_located.
Print Assumptions C16_generics_mirror.
