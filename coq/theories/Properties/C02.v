(** Properties/C02.v — Every mistake in the input is reported, exactly once, in a single pass.
    Statements only; one level of a derived parser, for every item list (see C01.v). *)
From DarlingModel Require Import Run.Recv Run.RecvProofs Run.LoopProofs Run.LevelProofs Err.ErrTree Spec.C01 Run.SpecSound Run.SpecComplete Run.SpecCount Run.TotalProofs Run.LeafTotal Run.LeafPos Exec.ErrObs Exec.ConvCase Exec.RecvCase Err.ErrProofs.
Local Open Scope list_scope.

(** Pushing an error never loses the ones recorded before it. *)
Theorem C02_push_keeps_earlier_errors :
  forall e st, exists more, ps_errs (push_err e st) = (ps_errs st ++ more)%list.
Proof. intros e st. exists (e :: nil). reflexivity. Qed.

(** The recorded errors are, item by item and in input order, what each item contributes given
    only the items before it: a literal item; a repeat of a single-valued field; a name no field
    addresses (unless flattened into a member or unknown fields are allowed); a value the
    field's type rejects. *)
Theorem C02_errors_are_per_item_contributions :
  forall sugg sim interp_with interp_fn fields convs auk items st,
    core_loop sugg sim interp_with interp_fn fields convs auk (state0 fields) items = Ok st ->
    ps_errs st = spec_errs sugg sim interp_with interp_fn fields convs auk items.
Proof.
  intros sugg sim interp_with interp_fn fields convs auk items st H.
  destruct (loop_is_spec sugg sim interp_with interp_fn fields convs auk items st H) as [_ [E _]]. exact E.
Qed.

(** One error per mistaken item, no more, no fewer: none is dropped because another was found
    first, none is reported twice, none is invented. *)
Theorem C02_one_error_per_mistaken_item :
  forall sugg sim interp_with interp_fn fields convs auk items st,
    core_loop sugg sim interp_with interp_fn fields convs auk (state0 fields) items = Ok st ->
    List.length (ps_errs st) = count_mistakes sugg sim interp_with interp_fn fields convs auk nil items.
Proof. exact loop_error_count. Qed.

Theorem C02_errors_in_input_order :
  forall sugg sim interp_with interp_fn fields convs auk a b st,
    core_loop sugg sim interp_with interp_fn fields convs auk (state0 fields) (a ++ b) = Ok st ->
    ps_errs st = spec_errs sugg sim interp_with interp_fn fields convs auk a
                 ++ spec_errs_from sugg sim interp_with interp_fn fields convs auk a b.
Proof. exact loop_errors_in_input_order. Qed.

(** The pass is single and complete: the loop never returns an error from inside (the one early
    return comes after the presence checks), so every item is looked at. *)
Theorem C02_loop_never_returns_early :
  forall sugg sim interp_with interp_fn fields convs auk acc item e,
    core_step sugg sim interp_with interp_fn fields convs auk acc item = Err e -> acc = Err e.
Proof. exact core_step_not_err. Qed.

(** The level fails exactly through its single early return: with the bundle of ALL recorded
    errors (the loop's, then the flatten member's, then the missing fields), in order - or,
    nothing having been recorded, with the error of a default function. *)
Theorem C02_level_returns_all_errors :
  forall sugg sim interp_with interp_fn fields convs auk items cdef_of e,
    parse_fields sugg sim interp_with interp_fn fields convs auk (state0 fields) items cdef_of (fun x => x) = Err e ->
    (exists st1 st2 x xs,
        core_loop sugg sim interp_with interp_fn fields convs auk (state0 fields) items = Ok st1
        /\ require_fields sugg sim fields convs st1 = Ok st2
        /\ ps_errs st2 = x :: xs /\ multiple (x :: xs) = POk e
        /\ exists more, ps_errs st2 = spec_errs sugg sim interp_with interp_fn fields convs auk items ++ more)
    \/ (exists st1 st2,
          core_loop sugg sim interp_with interp_fn fields convs auk (state0 fields) items = Ok st1
          /\ require_fields sugg sim fields convs st1 = Ok st2 /\ ps_errs st2 = []
          /\ (cdef_of tt = Err e \/ exists cd, cdef_of tt = Ok cd /\ init_all interp_fn cd (ps_slots st2) fields = Err e)).
Proof. exact parse_fields_err. Qed.

(** Parsing fails exactly when the input contains a mistake - where "mistake-free" is the
    per-field specification giving the input a value (Spec/C01.v), for every receiver type of
    any depth meeting [wf_spec] and [cwf] and every meta item: no value means no [Ok]; and, for
    total leaves and callables, an [Err]. *)
Theorem C02_fails_exactly_on_mistaken_inputs :
  forall pf reparse reparse_arr reparse_preds sugg sim interp_with interp_fn t,
    wf_spec t -> cwf t ->
    forall m, is_meta m = true ->
      (expected pf reparse reparse_arr reparse_preds interp_with interp_fn t m = None
       <-> forall v, from_meta (impl_of pf reparse reparse_arr reparse_preds sugg sim interp_with interp_fn t) m <> Ok v).
Proof.
  intros pf reparse reparse_arr reparse_preds sugg sim interp_with interp_fn t W C m M.
  pose proof (parser_is_the_declared_mapping pf reparse reparse_arr reparse_preds sugg sim interp_with interp_fn t W C m) as P.
  split.
  - intros N v H. apply (P v M) in H. congruence.
  - intros H. destruct (expected pf reparse reparse_arr reparse_preds interp_with interp_fn t m) as [v|] eqn:E; [|reflexivity].
    exfalso. apply (H v). now apply (P v M).
Qed.

(** THE PROPERTY, for the model: every mistake is reported exactly once.  For every receiver type
    of any depth meeting [kwf] (what derive time and Rust guarantee, no [darling::Result] field,
    default functions that return) and every meta item: the error the generated parser returns
    has exactly [mistakes t m] leaves - the number of mistakes the per-field specification counts
    in the input (literal items, unaddressed names, repeats, missing required items, and
    recursively the mistakes inside each value), never more, never fewer, at least one - and it
    returns a value only when that number is zero.  Errors of library leaves and user callables
    are assumed proper (at least one leaf; C04 shows an empty bundle cannot be built). *)
Theorem C02_every_mistake_reported_exactly_once :
  forall pf reparse reparse_arr reparse_preds sugg sim interp_with interp_fn,
    (forall w it e, interp_with w it = Err e -> (0 < len e)%N) ->
    (forall g v e, interp_fn g v = Err e -> (0 < len e)%N) ->
    forall ok_leaf : Targets.target -> Prop,
    (forall tg, ok_leaf tg -> forall m e, from_meta (leaf_fm pf reparse reparse_arr reparse_preds tg) m = Err e -> (0 < len e)%N) ->
    forall t, kwf interp_fn ok_leaf t ->
      forall m, is_meta m = true ->
        match from_meta (impl_of pf reparse reparse_arr reparse_preds sugg sim interp_with interp_fn t) m with
        | Err e => len e = mistakes pf reparse reparse_arr reparse_preds interp_with interp_fn t m /\ (0 < len e)%N
        | Ok _ => mistakes pf reparse reparse_arr reparse_preds interp_with interp_fn t m = 0%N
        | Panic _ => True
        end.
Proof. exact mistakes_count. Qed.

(** [len] is the number of leaves the flattened error has (C04), so the count above is the
    number of diagnostics the user sees. *)
Theorem C02_len_counts_leaves : forall e pre inh, len e = N.of_nat (List.length (leaves pre inh e)).
Proof. exact ErrProofs.len_leaves. Qed.

Theorem C02_executable_hypotheses_are_sound :
  forall interp_fn t, kwfb interp_fn t = true -> kwf interp_fn (fun tg => plain tg = true) t.
Proof. exact kwfb_sound. Qed.

(** The instance the correspondence check evaluates (the corpus's callables, any oracle tables, any
    case): the plain library targets and those callables return proper errors (Run/LeafPos.v), so
    nothing is assumed beyond [kwfb], which the check evaluates on every receiver it runs. *)
Theorem C02_checked_instance :
  forall c : caseRecv,
    kwfb (interp_fn_lib (rc_consts c)) (rc_ty c) = true ->
    forall m, is_meta m = true ->
      match from_meta (recv_fm c) m with
      | Err e => len e = mistakes (pf_of (rc_pf c)) (reparse_of (rc_or c)) (reparse_arr_of (rc_or c)) (reparse_preds_of (rc_or c))
                                  interp_with_lib (interp_fn_lib (rc_consts c)) (rc_ty c) m /\ (0 < len e)%N
      | Ok _ => mistakes (pf_of (rc_pf c)) (reparse_of (rc_or c)) (reparse_arr_of (rc_or c)) (reparse_preds_of (rc_or c))
                         interp_with_lib (interp_fn_lib (rc_consts c)) (rc_ty c) m = 0%N
      | Panic _ => True
      end.
Proof. exact checked_instance_count. Qed.

Print Assumptions C02_push_keeps_earlier_errors.
Print Assumptions C02_level_returns_all_errors.
Print Assumptions C02_errors_are_per_item_contributions.
Print Assumptions C02_one_error_per_mistaken_item.
Print Assumptions C02_errors_in_input_order.
Print Assumptions C02_loop_never_returns_early.
Print Assumptions C02_fails_exactly_on_mistaken_inputs.
Print Assumptions C02_every_mistake_reported_exactly_once.
Print Assumptions C02_executable_hypotheses_are_sound.
Print Assumptions C02_checked_instance.
