(** Properties/C02.v — first statement; the accumulation theorems follow in Run/RecvProofs.v. *)
From DarlingModel Require Import Run.Recv Err.ErrTree.

(** The parser returns through exactly one place: with errors recorded it is the bundle of all
    of them (nothing is returned early from inside the item loop). *)
(** Pushing an error never loses the ones recorded before it. *)
Theorem C02_push_keeps_earlier_errors :
  forall e st, exists more, ps_errs (push_err e st) = (ps_errs st ++ more)%list.
Proof. intros e st. exists (e :: nil). reflexivity. Qed.
Print Assumptions C02_push_keeps_earlier_errors.
