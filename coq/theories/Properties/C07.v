(** Properties/C07.v — Parsing is total at run time: every input yields Ok or Err, never a panic.
    Statements only.  PARTIAL (see DESIGN.md): stack exhaustion at extreme nesting and the
    arithmetic-overflow checks of debug builds are run-time behaviour the model cannot exhibit. *)
From DarlingModel Require Import Conv.Routing Conv.Scalars Conv.ScalarProofs Run.Recv Run.LevelProofs Run.TotalProofs Run.LeafTotal.
Local Open Scope list_scope.

(** Every built-in integer conversion returns a value or an error on every meta item,
    including numbers beyond every width. *)
Theorem C07_integers_total :
  forall (t : ity) (m : nested), is_meta m = true -> is_panic (from_meta (int_fm t) m) = false.
Proof. exact (fun t m M => proj1 (int_rejections t m M)). Qed.

(** For any implementer whose hooks do not panic, the default dispatchers do not panic. *)
Theorem C07_dispatch_total :
  forall (F : fm) (m : nested), hooks_total F -> is_meta m = true -> is_panic (default_from_meta F m) = false.
Proof. exact default_from_meta_total. Qed.

(** One level of a derived struct parser, for ANY field list, converters and callables: if the
    converters, the flatten member, the container default and the user's default functions
    return a value or an error, so does the level.  In particular the initialiser's
    `expect("Uninitialized fields without defaults were already checked")` is unreachable: after
    the error check a slot is empty only if its field has a default. *)
Theorem C07_struct_level_total :
  forall sugg sim interp_with interp_fn fields convs auk items cdef_of locate,
    (forall i f it loc, is_meta it = true -> panic_free (extract interp_with interp_fn convs i f it loc)) ->
    (forall i l, panic_free (from_list (conv_of convs i) l)) ->
    (forall g, panic_free (interp_fn g VUnit)) ->
    (forall f, In f (finfos fields) -> fi_flatten f = true -> fi_multiple f = false) ->
    (match cdef_of tt with Ok cd => inherit_ok fields cd | Err _ => True | Panic _ => False end) ->
    panic_free (parse_fields sugg sim interp_with interp_fn fields convs auk (state0 fields) items cdef_of locate).
Proof. exact parse_fields_total. Qed.

(** Every derived receiver type - structs, newtypes, unit structs, enums, Option / Box /
    darling::Result wrappers, nested to ANY depth - returns a value or an error on EVERY meta
    item and EVERY item list, provided the library leaf targets and the user's callables do and
    the declaration is one the derives accept ([wf_ty]: flatten members are single-valued,
    inherited defaults exist, newtype variants have their field). *)
Theorem C07_derived_receivers_total :
  forall pf reparse reparse_arr reparse_preds sugg sim interp_with interp_fn,
    (forall tg, total_fm (leaf_fm pf reparse reparse_arr reparse_preds tg)) ->
    (forall w it, is_panic (interp_with w it) = false) ->
    (forall g v, is_panic (interp_fn g v) = false) ->
    forall t, wf_ty interp_fn t ->
      (forall m, is_meta m = true ->
         is_panic (from_meta (impl_of pf reparse reparse_arr reparse_preds sugg sim interp_with interp_fn t) m) = false)
      /\ (forall l, is_panic (from_list (impl_of pf reparse reparse_arr reparse_preds sugg sim interp_with interp_fn t) l) = false).
Proof. exact impl_total. Qed.

(** The leaf assumption discharged for the plain library targets (unit, bool, AtomicBool, char,
    String, PathBuf, all 24 integer types, f32 / f64 for any float oracle, Flag, and Option /
    smart pointers / darling::Result / keyed maps over those). *)
Theorem C07_plain_targets_total :
  forall pf reparse reparse_arr reparse_preds t, plain t = true ->
    (forall m, is_meta m = true -> is_panic (from_meta (fm_of pf reparse reparse_arr reparse_preds t) m) = false)
    /\ (forall l, is_panic (from_list (fm_of pf reparse reparse_arr reparse_preds t) l) = false).
Proof. exact plain_total. Qed.

Print Assumptions C07_integers_total.
Print Assumptions C07_dispatch_total.
Print Assumptions C07_struct_level_total.
Print Assumptions C07_derived_receivers_total.
Print Assumptions C07_plain_targets_total.
