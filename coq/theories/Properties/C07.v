(** Properties/C07.v — run-time totality (first theorems; see DESIGN.md for the partial claim). *)
From DarlingModel Require Import Conv.Routing Conv.Scalars Conv.ScalarProofs.

(** Every built-in integer conversion returns a value or an error on every meta item,
    including numbers beyond every width. *)
Theorem C07_integers_total :
  forall (t : ity) (m : nested), is_meta m = true -> is_panic (from_meta (int_fm t) m) = false.
Proof. exact (fun t m M => proj1 (int_rejections t m M)). Qed.
Print Assumptions C07_integers_total.

(** For any implementer whose hooks do not panic, the default dispatchers do not panic. *)
Theorem C07_dispatch_total :
  forall (F : fm) (m : nested), hooks_total F -> is_meta m = true -> is_panic (default_from_meta F m) = false.
Proof. exact default_from_meta_total. Qed.
Print Assumptions C07_dispatch_total.
