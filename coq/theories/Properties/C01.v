(** Properties/C01.v — Derived struct receivers compute exactly the declared field mapping.
    Statements only.  One level of a derived parser (any field list [fields], any implementers
    [convs] of the field types, any user callables, allow_unknown_fields on or off), for EVERY
    item list: any length, order, repetition, literals, unknown names.  [slot_spec], [spec_flat]
    (Run/LoopProofs.v) are comprehensions over the input - no pass, no state. *)
From DarlingModel Require Import Run.Recv Run.RecvProofs Run.LoopProofs Run.LevelProofs Spec.C01 Run.SpecSound Run.SpecComplete Run.EnumProofs Run.NameProofs.
Local Open Scope list_scope.

(** The declarations put every single-valued field in the "not seen" state and every
    [multiple] field at the empty list. *)
Theorem C01_initial_state :
  forall fields, List.length (ps_slots (state0 fields)) = List.length fields
                 /\ ps_errs (state0 fields) = nil /\ ps_flat (state0 fields) = nil.
Proof.
  intros fields. unfold state0, finfos. cbn. rewrite !map_length. auto.
Qed.

(** After the item loop, the slot of every field is the comprehension over the items addressed
    to that field: the conversion of the FIRST item whose name selects it (the first field, in
    declaration order, that is neither skipped nor flattened and has that effective name) - or,
    for a [multiple] field, of all of them in order; and the items no field claims are handed,
    in order, to the flatten member (or dropped / reported, see C02). *)
Theorem C01_loop_is_field_comprehension :
  forall sugg sim interp_with interp_fn fields convs auk items st,
    core_loop sugg sim interp_with interp_fn fields convs auk (state0 fields) items = Ok st ->
    ps_slots st = spec_slots interp_with interp_fn fields convs items
    /\ ps_flat st = spec_flat fields items.
Proof.
  intros sugg sim interp_with interp_fn fields convs auk items st H.
  destruct (loop_is_spec sugg sim interp_with interp_fn fields convs auk items st H) as [S [_ F]]. auto.
Qed.

(** Nothing else in the input influences a field: its slot is a function of the items
    addressed to it. *)
Theorem C01_field_depends_only_on_own_occurrences :
  forall interp_with interp_fn fields convs i f items items',
    occ fields i items = occ fields i items' ->
    slot_spec interp_with interp_fn fields convs i f items = slot_spec interp_with interp_fn fields convs i f items'.
Proof. exact slot_depends_only_on_own_occurrences. Qed.

(** The order of items is irrelevant across fields: two inputs in which every field sees the
    same items in the same relative order, and which leave the same items unclaimed, produce the
    same slots and the same flatten hand-off. *)
Theorem C01_order_irrelevant_across_fields :
  forall sugg sim interp_with interp_fn fields convs auk items items' st st',
    core_loop sugg sim interp_with interp_fn fields convs auk (state0 fields) items = Ok st ->
    core_loop sugg sim interp_with interp_fn fields convs auk (state0 fields) items' = Ok st' ->
    (forall i, occ fields i items = occ fields i items') ->
    spec_flat fields items = spec_flat fields items' ->
    ps_slots st = ps_slots st' /\ ps_flat st = ps_flat st'.
Proof. exact same_occurrences_same_state. Qed.

(** When the level succeeds, field [j] holds exactly its initialiser applied to its final slot:
    the conversion of the first item addressed to it (all of them for [multiple]); for the
    flatten member the conversion of the unclaimed items, in order; else its type's
    value-for-absent; else its own declared default or the same-named field of the
    container-level default ([fi_default] after derive-time inheritance).  Nothing else in the
    input enters. *)
Theorem C01_field_values :
  forall sugg sim interp_with interp_fn fields convs auk items cdef_of locate kvs,
    parse_fields sugg sim interp_with interp_fn fields convs auk (state0 fields) items cdef_of locate = Ok kvs ->
    exists cd, cdef_of tt = Ok cd /\
      forall j f t, nth_error fields j = Some (f, t) ->
        exists v, nth_error kvs j = Some (fi_ident f, v)
                  /\ init_field interp_fn cd (final_slot sugg sim interp_with interp_fn fields convs items j f) (f, t) = Ok v.
Proof. exact parse_fields_ok_values. Qed.

(** THE PROPERTY, for the model: for every receiver type (structs, newtypes, unit structs, enums,
    wrappers, nested to any depth; any library targets, oracles and user callables) satisfying what
    derive-time validation and Rust guarantee ([wf_spec]: distinct field names, flatten not
    combined with skip / multiple, at most one flatten member) and EVERY meta item: whenever the
    per-field specification of Spec/C01.v - comprehensions over the input, no pass, no state, no
    error values - gives the input a value, the generated parser returns exactly that value. *)
Theorem C01_parser_computes_the_declared_mapping :
  forall pf reparse reparse_arr reparse_preds sugg sim interp_with interp_fn t,
    wf_spec t ->
    forall m v, is_meta m = true ->
      expected pf reparse reparse_arr reparse_preds interp_with interp_fn t m = Some v ->
      from_meta (impl_of pf reparse reparse_arr reparse_preds sugg sim interp_with interp_fn t) m = Ok v.
Proof. exact expected_sound. Qed.

(** ... and conversely (for declarations without [darling::Result] fields, which turn inner errors
    into values, whose skipped fields have a default - derive time supplies one - and whose
    flatten members are struct receivers: [cwf]): the parser succeeds ONLY on inputs the
    specification gives a value, with that value.  Together: exactly the declared mapping. *)
Theorem C01_parser_is_exactly_the_declared_mapping :
  forall pf reparse reparse_arr reparse_preds sugg sim interp_with interp_fn t,
    wf_spec t -> cwf t ->
    forall m v, is_meta m = true ->
      (from_meta (impl_of pf reparse reparse_arr reparse_preds sugg sim interp_with interp_fn t) m = Ok v
       <-> expected pf reparse reparse_arr reparse_preds interp_with interp_fn t m = Some v).
Proof. exact parser_is_the_declared_mapping. Qed.

(** The executable test of [wf_spec] that the check evaluates on every receiver it runs is sound. *)
Theorem C01_executable_well_formedness_is_sound : forall t, wf_specb t = true -> wf_spec t.
Proof. exact wf_specb_sound. Qed.

(** Non-vacuity: a two-field receiver with a rename-all'd name, a default and a repeated
    [multiple] field; the specification gives the input a value. *)
Local Open Scope string_scope.
Local Open Scope list_scope.
Example C01_declared_mapping_nonvacuous :
  let mk := mkInfo (0, 0, 0, 0)%N "" in
  let pth n := mkPath mk false [(n, "")] in
  let u8 := TLeaf (TInt (mkIty false 8 false)) in
  let r := TStructR (mkCI "R" None None false None None)
             [(mkFI "max_len" "max-len" None None None false false false, u8);
              (mkFI "tags" "tags" None None None false true false, TLeaf TString);
              (mkFI "level" "level" (Some DxTrait) None None false false false, u8)] in
  let input := NList mk (pth "x") mk
                 [NNameValue mk (pth "tags") (ELit mk (LStr "a")); NNameValue mk (pth "max-len") (ELit mk (LInt "7" ""));
                  NNameValue mk (pth "tags") (ELit mk (LStr "b"))] in
  wf_specb r = true
  /\ expected (fun _ _ => None) (fun _ _ => None) (fun _ => None) (fun _ => None) (fun _ _ => Ok VUnit) (fun _ _ => Ok VUnit) r input
     = Some (VStruct [("max_len", VInt 7); ("tags", VList [VStr "a"; VStr "b"]); ("level", VInt 0)]).
Proof. cbv zeta. split; vm_compute; reflexivity. Qed.

(** "Supplied under its effective name": the name of an item is its path as written, except that a
    raw identifier is the name it stands for; an item whose path has leading colons addresses no
    field declared without them (it is an unknown name: handed to the flatten member, ignored
    where unknown fields are allowed, a mistake otherwise). *)
Theorem C01_global_path_addresses_no_field :
  forall (fs : list finfo) p i0,
    p_leading p = true -> Forall (fun f => String.prefix "::" (fi_name f) = false) fs ->
    find_arm fs i0 (path_to_string p) = None.
Proof. exact global_path_addresses_no_field. Qed.

Print Assumptions C01_initial_state.
Print Assumptions C01_global_path_addresses_no_field.
Print Assumptions C01_field_values.
Print Assumptions C01_loop_is_field_comprehension.
Print Assumptions C01_field_depends_only_on_own_occurrences.
Print Assumptions C01_order_irrelevant_across_fields.
Print Assumptions C01_parser_computes_the_declared_mapping.
Print Assumptions C01_parser_is_exactly_the_declared_mapping.
Print Assumptions C01_executable_well_formedness_is_sound.
