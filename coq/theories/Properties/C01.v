(** Properties/C01.v — placeholder statements are replaced by the loop-invariant theorems below as
    they are proved (see Run/RecvProofs.v). *)
From DarlingModel Require Import Run.Recv.

(** The declarations put every single-valued field in the "not seen" state and every
    [multiple] field at the empty list. *)
Theorem C01_initial_state :
  forall fields, List.length (ps_slots (state0 fields)) = List.length fields
                 /\ ps_errs (state0 fields) = nil /\ ps_flat (state0 fields) = nil.
Proof.
  intros fields. unfold state0, finfos. cbn. rewrite !map_length. auto.
Qed.
Print Assumptions C01_initial_state.
