(** Properties/C01.v — Derived struct receivers compute exactly the declared field mapping.
    Statements only.  One level of a derived parser (any field list [fields], any implementers
    [convs] of the field types, any user callables, allow_unknown_fields on or off), for EVERY
    item list: any length, order, repetition, literals, unknown names.  [slot_spec], [spec_flat]
    (Run/LoopProofs.v) are comprehensions over the input - no pass, no state. *)
From DarlingModel Require Import Run.Recv Run.RecvProofs Run.LoopProofs Run.LevelProofs.
Local Open Scope list_scope.

(** The declarations put every single-valued field in the "not seen" state and every
    [multiple] field at the empty list. *)
Theorem C01_initial_state :
  forall fields, List.length (ps_slots (state0 fields)) = List.length fields
                 /\ ps_errs (state0 fields) = nil /\ ps_flat (state0 fields) = nil.
Proof.
  intros fields. unfold state0, finfos. cbn. rewrite !map_length. auto.
Qed.

(** After the item loop, the slot of every field is the comprehension over the items addressed
    to that field: the conversion of the FIRST item whose name selects it (the first field, in
    declaration order, that is neither skipped nor flattened and has that effective name) - or,
    for a [multiple] field, of all of them in order; and the items no field claims are handed,
    in order, to the flatten member (or dropped / reported, see C02). *)
Theorem C01_loop_is_field_comprehension :
  forall sugg sim interp_with interp_fn fields convs auk items st,
    core_loop sugg sim interp_with interp_fn fields convs auk (state0 fields) items = Ok st ->
    ps_slots st = spec_slots interp_with interp_fn fields convs items
    /\ ps_flat st = spec_flat fields items.
Proof.
  intros sugg sim interp_with interp_fn fields convs auk items st H.
  destruct (loop_is_spec sugg sim interp_with interp_fn fields convs auk items st H) as [S [_ F]]. auto.
Qed.

(** Nothing else in the input influences a field: its slot is a function of the items
    addressed to it. *)
Theorem C01_field_depends_only_on_own_occurrences :
  forall interp_with interp_fn fields convs i f items items',
    occ fields i items = occ fields i items' ->
    slot_spec interp_with interp_fn fields convs i f items = slot_spec interp_with interp_fn fields convs i f items'.
Proof. exact slot_depends_only_on_own_occurrences. Qed.

(** The order of items is irrelevant across fields: two inputs in which every field sees the
    same items in the same relative order, and which leave the same items unclaimed, produce the
    same slots and the same flatten hand-off. *)
Theorem C01_order_irrelevant_across_fields :
  forall sugg sim interp_with interp_fn fields convs auk items items' st st',
    core_loop sugg sim interp_with interp_fn fields convs auk (state0 fields) items = Ok st ->
    core_loop sugg sim interp_with interp_fn fields convs auk (state0 fields) items' = Ok st' ->
    (forall i, occ fields i items = occ fields i items') ->
    spec_flat fields items = spec_flat fields items' ->
    ps_slots st = ps_slots st' /\ ps_flat st = ps_flat st'.
Proof. exact same_occurrences_same_state. Qed.

(** When the level succeeds, field [j] holds exactly its initialiser applied to its final slot:
    the conversion of the first item addressed to it (all of them for [multiple]); for the
    flatten member the conversion of the unclaimed items, in order; else its type's
    value-for-absent; else its own declared default or the same-named field of the
    container-level default ([fi_default] after derive-time inheritance).  Nothing else in the
    input enters. *)
Theorem C01_field_values :
  forall sugg sim interp_with interp_fn fields convs auk items cdef_of locate kvs,
    parse_fields sugg sim interp_with interp_fn fields convs auk (state0 fields) items cdef_of locate = Ok kvs ->
    exists cd, cdef_of tt = Ok cd /\
      forall j f t, nth_error fields j = Some (f, t) ->
        exists v, nth_error kvs j = Some (fi_ident f, v)
                  /\ init_field interp_fn cd (final_slot sugg sim interp_with interp_fn fields convs items j f) (f, t) = Ok v.
Proof. exact parse_fields_ok_values. Qed.

Print Assumptions C01_initial_state.
Print Assumptions C01_field_values.
Print Assumptions C01_loop_is_field_comprehension.
Print Assumptions C01_field_depends_only_on_own_occurrences.
Print Assumptions C01_order_irrelevant_across_fields.
