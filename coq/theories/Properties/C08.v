(** Properties/C08.v — placeholder until the partition theorems are in (Run/OuterProofs.v). *)
From DarlingModel Require Import Run.Outer.
Theorem C08_placeholder : True. Proof. exact I. Qed.
